package main

// Seeded, type-directed generator of operation sequences over a pool of nested composite variables.
// Every candidate statement is checked with the Lean specification model (through the driver) so that
// the sequence stays free of run-time panics (a small share of panicking last statements is kept).
// No construct is excluded any more: the shapes on which the interpreter diverged until the repairs of
// 2026-09-26 (literals declared in loop bodies, comma-ok declarations in loop bodies, redeclared variables in
// multi-defines, append operands aliasing the destination, nil dereference feeding a map store, range over a
// pointer to an array, `&p[i]`, `&[n]T{…}` per iteration) are part of the default stream, and a share of the
// programs starts with one of them on purpose (shapes.go).

import (
	"fmt"
	"math/rand"
	"os"
	"strings"
	"sync"
	"time"

	"verif/harness/common"
)

var poolTypes = []string{"int", "int", "[3]int", "[2]P", "[2][2]int", "P", "Q", "S", "[]int", "[]int", "[]P", "[][]int", "[][2]int",
	"*int", "*P", "*[3]int", "*S", "map[int]int", "map[int]P", "map[int][2]int", "map[int][]int", "[]*int"}

// VERIF_C04_TRACE=file logs every protocol line sent while generating (debugging aid)
var traceFile *os.File
var traceMu sync.Mutex

func init() {
	if p := os.Getenv("VERIF_C04_TRACE"); p != "" {
		traceFile, _ = os.Create(p)
	}
}

type gen struct {
	rng      *rand.Rand
	drv      *wdDriver
	e        env   // variables in scope
	pool     []int // top-level variables, in declaration order
	next     int
	prog     Prog
	asks     int
	constIdx bool     // index operands must be constants (inside generated functions)
	inBody   bool     // generating a statement of a loop body
	bodyVars []int    // variables declared by the statements of the loop body being generated (same scope: may be redeclared)
	ill      []string // protocol lines on which the model reported an ill-typed operation (generator bugs)
}

func (g *gen) fresh() int {
	g.next++
	return g.next
}

func (g *gen) pick(n int) int        { return g.rng.Intn(n) }
func (g *gen) chance(p float64) bool { return g.rng.Float64() < p }

// ---- locations ----

type loc struct {
	l *LExp
	t *Type
}

func (g *gen) idx(n int) *IExp {
	// an int variable as index operand, sometimes
	if !g.constIdx && g.chance(0.2) {
		var ints []int
		for x, t := range g.e {
			if t.K == "int" {
				ints = append(ints, x)
			}
		}
		if len(ints) > 0 {
			sortInts(ints)
			return &IExp{IsVar: true, N: ints[g.pick(len(ints))]}
		}
	}
	if n <= 0 {
		n = 2
	}
	return &IExp{N: g.pick(n)}
}

func sortInts(a []int) {
	for i := 1; i < len(a); i++ {
		for j := i; j > 0 && a[j] < a[j-1]; j-- {
			a[j], a[j-1] = a[j-1], a[j]
		}
	}
}

// expand lists addressable expressions reachable from l (random index operands), up to a depth.
func (g *gen) expand(l *LExp, t *Type, depth int, out *[]loc) {
	*out = append(*out, loc{l, t})
	if depth == 0 {
		return
	}
	switch t.K {
	case "struct":
		for i, f := range t.Fields {
			g.expand(&LExp{K: "f", L: l, I: i}, f.T, depth-1, out)
		}
	case "array":
		g.expand(&LExp{K: "x", L: l, E: g.idx(t.N)}, t.Elem, depth-1, out)
		if g.chance(0.5) {
			g.expand(&LExp{K: "x", L: l, E: g.idx(t.N)}, t.Elem, depth-1, out)
		}
	case "slice":
		g.expand(&LExp{K: "x", L: l, E: g.idx(3)}, t.Elem, depth-1, out)
		if g.chance(0.5) {
			g.expand(&LExp{K: "x", L: l, E: g.idx(2)}, t.Elem, depth-1, out)
		}
	case "ptr":
		if g.chance(0.5) {
			g.expand(&LExp{K: "d", L: l}, t.Elem, depth-1, out)
		} else {
			// automatic dereference: p.f, p[i]
			switch t.Elem.K {
			case "struct":
				for i, f := range t.Elem.Fields {
					g.expand(&LExp{K: "f", L: l, I: i}, f.T, depth-1, out)
				}
			case "array":
				g.expand(&LExp{K: "x", L: l, E: g.idx(t.Elem.N)}, t.Elem.Elem, depth-1, out)
			default:
				g.expand(&LExp{K: "d", L: l}, t.Elem, depth-1, out)
			}
		}
	}
}

func (g *gen) vars() []int {
	var xs []int
	for x := range g.e {
		xs = append(xs, x)
	}
	sortInts(xs)
	return xs
}

// locs returns candidate locations, optionally of one type.
func (g *gen) locs(want *Type) []loc {
	var all []loc
	for _, x := range g.vars() {
		g.expand(&LExp{K: "v", X: x}, g.e[x], 3, &all)
	}
	if want == nil {
		return all
	}
	var out []loc
	for _, c := range all {
		if c.t == want {
			out = append(out, c)
		}
	}
	return out
}

func (g *gen) loc(want *Type) *loc {
	cs := g.locs(want)
	if len(cs) == 0 {
		return nil
	}
	// prefer deeper expressions a little
	c := cs[g.pick(len(cs))]
	return &c
}

func isVar(l *LExp) bool { return l.K == "v" }

// `&p[i]` with p a pointer to an array was rejected at compile time until commit 0780d8c of the repository
// (F04-9): both `&p[i]` and `&(*p)[i]` are generated now.
func (g *gen) adrOK(l *LExp) bool { return true }

// ---- values ----

func (g *gen) smallInt() int {
	switch g.pick(10) {
	case 0:
		return -g.pick(9) - 1
	case 1:
		return 10 + g.pick(90)
	}
	return g.pick(10)
}

func (g *gen) litVal(t *Type) Val {
	switch t.K {
	case "int":
		return Val{K: "i", N: g.smallInt()}
	case "array":
		v := Val{K: "a"}
		for i := 0; i < t.N; i++ {
			v.Vs = append(v.Vs, g.litVal(t.Elem))
		}
		return v
	case "struct":
		v := Val{K: "s"}
		for _, f := range t.Fields {
			v.Vs = append(v.Vs, g.litVal(f.T))
		}
		return v
	}
	return zero(t)
}

func refFree(t *Type) bool { return !t.hasPointers() }

// rexp builds an expression of type t. ctx: "single-var" (right-hand side of `x = …`), "multi-var", "multi",
// "define", "define-body", "arg", "plain".
func (g *gen) rexp(t *Type, ctx string) *RExp {
	for try := 0; try < 20; try++ {
		if r := g.rexp1(t, ctx); r != nil {
			return r
		}
	}
	if !g.litAllowed(t, ctx) {
		return nil
	}
	// fallback: a literal / fresh value
	switch t.K {
	case "slice":
		return &RExp{K: "mks", T: t.Src}
	case "map":
		return &RExp{K: "mkm", T: t.Src}
	case "ptr":
		if t.Elem.K == "int" || t.Elem.K == "ptr" || t.Elem.K == "slice" || t.Elem.K == "map" {
			return nil // no composite literal to take the address of
		}
		return &RExp{K: "new", T: t.Src, V: ptrVal(g.litVal(t.Elem))}
	}
	v := g.litVal(t)
	return &RExp{K: "lit", T: t.Src, V: &v}
}

func ptrVal(v Val) *Val { return &v }

// litAllowed: composite literals are allowed everywhere — to plain variables since commit 3590fb8 of the repository
// (was F04-2), in multiple assignments since 647e2cf (was F04-1), declared in loop bodies since 1436613 (was F04-4).
func (g *gen) litAllowed(t *Type, ctx string) bool { return true }

func (g *gen) callAllowed(ctx string) bool {
	return true
}

func (g *gen) rexp1(t *Type, ctx string) *RExp {
	switch g.pick(10) {
	case 0, 1, 2: // literal / fresh composite
		if !g.litAllowed(t, ctx) {
			return nil
		}
		switch t.K {
		case "slice":
			if g.chance(0.3) && g.callAllowed(ctx) {
				n := g.pick(3)
				return &RExp{K: "mk", T: t.Src, Len: n, Cap: n + g.pick(3)}
			}
			r := &RExp{K: "mks", T: t.Src}
			for i, n := 0, g.pick(4); i < n; i++ {
				r.Elems = append(r.Elems, g.litVal(t.Elem))
			}
			return r
		case "map":
			r := &RExp{K: "mkm", T: t.Src}
			k := 0
			for i, n := 0, g.pick(3); i < n; i++ {
				k += 1 + g.pick(2)
				r.Keys = append(r.Keys, k)
				r.Elems = append(r.Elems, g.litVal(t.Elem))
			}
			return r
		case "ptr":
			// `&[n]T{…}` evaluated again in a later iteration yielded the same pointer until commit 1436613 (F04-11)
			if g.chance(0.5) && (t.Elem.K == "struct" || t.Elem.K == "array") {
				return &RExp{K: "new", T: t.Src, V: ptrVal(g.litVal(t.Elem))}
			}
			if c := g.loc(t.Elem); c != nil && g.adrOK(c.l) {
				return &RExp{K: "adr", T: t.Src, L: c.l}
			}
			return nil
		}
		v := g.litVal(t)
		return &RExp{K: "lit", T: t.Src, V: &v}
	case 3, 4, 5, 6: // copy of an existing value
		if c := g.loc(t); c != nil {
			return &RExp{K: "ld", T: t.Src, L: c.l}
		}
	case 7:
		switch t.K {
		case "int":
			switch g.pick(4) {
			case 0:
				if c := g.loc(t); c != nil {
					return &RExp{K: "add", T: t.Src, A: &RExp{K: "ld", T: t.Src, L: c.l}, C: 1 + g.pick(5)}
				}
			case 1:
				if !g.callAllowed(ctx) {
					return nil
				}
				cs := g.locs(nil)
				var ok []loc
				for _, c := range cs {
					// not arrays: len/cap of an array-typed expression is a constant and the expression is not evaluated
					if c.t.K == "slice" || c.t.K == "map" {
						ok = append(ok, c)
					}
				}
				if len(ok) > 0 {
					c := ok[g.pick(len(ok))]
					k := "len"
					if c.t.K != "map" && g.chance(0.4) {
						k = "cap"
					}
					return &RExp{K: k, T: "int", L: c.l}
				}
			}
		case "slice":
			// slicing of a slice, an array or a pointer to an array
			var ok []loc
			for _, c := range g.locs(nil) {
				switch {
				case c.t == t, c.t.K == "array" && c.t.Elem == t.Elem, c.t.K == "ptr" && c.t.Elem.K == "array" && c.t.Elem.Elem == t.Elem:
					ok = append(ok, c)
				}
			}
			if len(ok) > 0 {
				c := ok[g.pick(len(ok))]
				r := &RExp{K: "sl", T: t.Src, L: c.l}
				n := 3 // slices: bounds are checked at run time (by the model while generating)
				if c.t.K == "array" {
					n = c.t.N // constant bounds of an array are checked by the compiler
				} else if c.t.K == "ptr" {
					n = c.t.Elem.N
				}
				lo := g.pick(2)
				if lo > n {
					lo = n
				}
				hi := lo + g.pick(n-lo+1)
				if g.chance(0.6) {
					r.Lo = &IExp{N: lo}
				} else {
					lo = 0
				}
				if g.chance(0.6) {
					r.Hi = &IExp{N: hi}
				}
				if r.Hi != nil && g.chance(0.35) {
					r.Max = &IExp{N: hi + g.pick(n-hi+1)}
				}
				return r
			}
		case "ptr":
			if c := g.loc(t.Elem); c != nil && g.adrOK(c.l) {
				return &RExp{K: "adr", T: t.Src, L: c.l}
			}
		}
	case 8: // map element
		if c := g.loc(ty("map[int]" + t.Src)); c != nil && !strings.HasPrefix(t.Src, "map") {
			return &RExp{K: "lk", T: t.Src, L: c.l, Ke: &IExp{N: 1 + g.pick(4)}}
		}
	case 9: // through the identity function
		if !g.callAllowed(ctx) {
			return nil
		}
		if c := g.loc(t); c != nil {
			return &RExp{K: "id", T: t.Src, A: &RExp{K: "ld", T: t.Src, L: c.l}}
		}
	}
	return nil
}

// ---- statements ----

func (g *gen) intPath(t *Type, root *LExp, depth int) *LExp {
	// a path from root (of type t) to an int component, through values, slices and pointers
	var out []loc
	g.constIdx = true
	g.expand(root, t, depth, &out)
	g.constIdx = false
	var ints []loc
	for _, c := range out {
		if c.t.K == "int" {
			ints = append(ints, c)
		}
	}
	if len(ints) == 0 {
		return nil
	}
	return ints[g.pick(len(ints))].l
}

func (g *gen) sop(inBody bool) *SOp {
	g.inBody = inBody
	defer func() { g.inBody = false }()
	defCtx := "define"
	if inBody {
		defCtx = "define-body"
	}
	// a composite literal with expression operands, many of them components of the destination itself
	if g.chance(0.07) {
		if o := g.clit(inBody); o != nil {
			return o
		}
	}
	// a call whose NAMED result is assigned to a variable the callee also reaches through its pointer parameter
	// (results are fresh cells of the callee since commit 1b5ab85: F04-20)
	if g.chance(0.04) {
		if o := g.callNamed(inBody); o != nil {
			return o
		}
	}
	// `l1, l2 = sw()` where sw returns its named results in the other order (two-phase since commit 8544122: F04-19)
	if g.chance(0.03) {
		if o := g.retSwap(inBody); o != nil {
			return o
		}
	}
	// receive into a location / a new variable (assigned like any value since commit 212dc2e: F08-7)
	if g.chance(0.06) {
		if g.chance(0.25) && !(inBody && len(g.e) > 9) {
			t := ty(poolTypes[g.pick(len(poolTypes))])
			r := g.rexp(t, "arg")
			if r == nil {
				return nil
			}
			return &SOp{K: "rcv", IsDef: true, L: &LExp{K: "v", X: g.fresh()}, T: t.Src, R: r}
		}
		c := g.loc(nil)
		if c == nil {
			return nil
		}
		r := g.rexp(c.t, "arg")
		if r == nil {
			return nil
		}
		return &SOp{K: "rcv", L: c.l, T: c.t.Src, R: r}
	}
	// two-value type assertion, holding or failing, both forms (new variables per execution, zero value on failure
	// since commit daee744: F04-14)
	if g.chance(0.05) {
		t := ty(poolTypes[g.pick(len(poolTypes))])
		r := g.rexp(t, "arg")
		if r == nil {
			return nil
		}
		o := &SOp{K: "as2", T: t.Src, R: r, Succ: g.chance(0.55)}
		if g.chance(0.4) {
			x, okv := g.loc(t), g.loc(ty("bool"))
			if x != nil && okv != nil && isVar(x.l) && isVar(okv.l) && x.l.X != okv.l.X {
				o.X, o.Ok = x.l.X, okv.l.X
				return o
			}
		}
		if inBody && len(g.e) > 10 {
			return nil
		}
		o.IsDef, o.X, o.Ok = true, g.fresh(), g.fresh()
		if g.chance(0.3) {
			if g.chance(0.6) {
				if x := g.sameScopeVar(inBody, t); x >= 0 {
					o.X, o.Rdx = x, true
				}
			} else if x := g.sameScopeVar(inBody, ty("bool")); x >= 0 {
				o.Ok, o.Rdok = x, true
			}
		}
		return o
	}
	switch k := g.pick(100); {
	case k < 16: // define
		t := ty(poolTypes[g.pick(len(poolTypes))])
		if inBody && len(g.e) > 9 {
			return nil
		}
		r := g.rexp(t, defCtx)
		if r == nil {
			return nil
		}
		return &SOp{K: "def", X: g.fresh(), T: t.Src, R: r}
	case k < 38: // assign
		c := g.loc(nil)
		if c == nil {
			return nil
		}
		ctx := "plain"
		if isVar(c.l) {
			ctx = "single-var"
		}
		r := g.rexp(c.t, ctx)
		if r == nil {
			return nil
		}
		return &SOp{K: "as", L: c.l, R: r, Wrap: g.chance(0.1) && !(isVar(c.l) && (r.K == "lit" || r.K == "mks" || r.K == "mkm"))}
	case k < 46: // op-assign
		c := g.loc(ty("int"))
		if c == nil {
			return nil
		}
		return &SOp{K: "op", L: c.l, C: 1 + g.pick(20), Wrap: g.chance(0.1)}
	case k < 57: // multi-assign
		return g.multi()
	case k < 61: // multi-define
		return g.multidef(inBody)
	case k < 72: // append
		var ok []loc
		for _, c := range g.locs(nil) {
			if c.t.K == "slice" {
				ok = append(ok, c)
			}
		}
		if len(ok) == 0 {
			return nil
		}
		d := ok[g.pick(len(ok))]
		o := &SOp{K: "app", L: d.l, T: d.t.Src, S: g.rexp(d.t, "arg")}
		if o.S == nil {
			return nil
		}
		if g.chance(0.25) && !(inBody && len(g.e) > 9) {
			o.IsDef, o.L = true, &LExp{K: "v", X: g.fresh()}
		}
		if g.chance(0.15) && !inBody {
			t := g.rexp(d.t, "arg")
			if t == nil {
				return nil
			}
			o.K, o.R = "apps", t
			return o
		}
		for i, n := 0, 1+g.pick(3); i < n; i++ {
			a := g.rexp(d.t.Elem, "arg")
			if a == nil {
				continue
			}
			// operands that are elements of the destination's backing array, at any position (F04-6, repaired by b312e89)
			if g.chance(0.3) {
				if el := g.elemOf(o.S, d.t); el != nil {
					a = el
				}
			}
			o.Args = append(o.Args, *a)
		}
		return o
	case k < 75: // copy
		var ok []loc
		for _, c := range g.locs(nil) {
			if c.t.K == "slice" {
				ok = append(ok, c)
			}
		}
		if len(ok) == 0 {
			return nil
		}
		d := ok[g.pick(len(ok))]
		o := &SOp{K: "cp", D: g.rexp(d.t, "arg"), S: g.rexp(d.t, "arg")}
		if o.D == nil || o.S == nil {
			return nil
		}
		return o
	case k < 82: // map insert / delete
		var ok []loc
		for _, c := range g.locs(nil) {
			if c.t.K == "map" {
				ok = append(ok, c)
			}
		}
		if len(ok) == 0 {
			return nil
		}
		m := ok[g.pick(len(ok))]
		if g.chance(0.25) {
			return &SOp{K: "md", M: m.l, Ke: &IExp{N: 1 + g.pick(4)}}
		}
		o := &SOp{K: "ms", M: m.l, Ke: &IExp{N: 1 + g.pick(4)}, R: g.rexp(m.t.Elem, "arg")}
		if o.R == nil {
			return nil
		}
		return o
	case k < 86: // comma-ok lookup
		var ok []loc
		for _, c := range g.locs(nil) {
			if c.t.K == "map" {
				ok = append(ok, c)
			}
		}
		if len(ok) == 0 {
			return nil
		}
		m := ok[g.pick(len(ok))]
		o := &SOp{K: "lk2", M: m.l, Ke: &IExp{N: 1 + g.pick(4)}, T: m.t.Elem.Src}
		if g.chance(0.4) {
			// assignment form: needs existing variables of the right types
			x, okv := g.loc(m.t.Elem), g.loc(ty("bool"))
			if x != nil && okv != nil && isVar(x.l) && isVar(okv.l) && x.l.X != okv.l.X {
				o.X, o.Ok = x.l.X, okv.l.X
				return o
			}
		}
		// declaration form, also in loop bodies (a new variable per iteration since commit 5a404d3: F04-12)
		if inBody && len(g.e) > 10 {
			return nil
		}
		o.IsDef, o.X, o.Ok = true, g.fresh(), g.fresh()
		// one of the two may be a variable of the SAME scope that is only redeclared (it is assigned, not created)
		if g.chance(0.3) {
			if g.chance(0.6) {
				if x := g.sameScopeVar(inBody, m.t.Elem); x >= 0 {
					o.X, o.Rdx = x, true
				}
			} else if x := g.sameScopeVar(inBody, ty("bool")); x >= 0 {
				o.Ok, o.Rdok = x, true
			}
		}
		return o
	default: // pass to a function that mutates its parameter, and take the result
		// (constant index operands on the left: the callee may store through a pointer into an index variable,
		// and Go does not specify whether that variable is read before or after the call)
		g.constIdx = true
		c := g.loc(nil)
		g.constIdx = false
		if c == nil || c.t.K == "int" || c.t.K == "bool" || c.t.K == "map" {
			return nil
		}
		sel := g.intPath(c.t, &LExp{K: "v", X: 0}, 3)
		if sel == nil || sel.K == "v" {
			return nil
		}
		o := &SOp{K: "call", L: c.l, Sel: sel, C: 100 + g.pick(100), R: g.rexp(c.t, "arg"), T: c.t.Src}
		if o.R == nil {
			return nil
		}
		if g.chance(0.3) && !(inBody && len(g.e) > 9) {
			o.IsDef, o.L = true, &LExp{K: "v", X: g.fresh()}
		}
		return o
	}
}

func (g *gen) multi() *SOp {
	o := &SOp{K: "mul"}
	switch g.pick(4) {
	case 0, 1: // swap / rotation of same-typed locations
		a := g.loc(nil)
		if a == nil || a.t.K == "bool" {
			return nil
		}
		b := g.loc(a.t)
		if b == nil {
			return nil
		}
		o.Ls = []LExp{*a.l, *b.l}
		o.Rs = []RExp{{K: "ld", T: a.t.Src, L: b.l}, {K: "ld", T: a.t.Src, L: a.l}}
		if g.chance(0.3) {
			if c := g.loc(a.t); c != nil {
				o.Ls = append(o.Ls, *c.l)
				o.Rs = []RExp{{K: "ld", T: a.t.Src, L: b.l}, {K: "ld", T: a.t.Src, L: c.l}, {K: "ld", T: a.t.Src, L: a.l}}
			}
		}
		if g.chance(0.3) {
			i := g.pick(len(o.Rs))
			o.Rs[i] = RExp{K: "id", T: o.Rs[i].T, A: &RExp{K: "ld", T: o.Rs[i].T, L: o.Rs[i].L}}
		}
	case 2: // index variable and element in one statement: i, a[i] = …
		var ints []int
		for _, x := range g.vars() {
			if g.e[x].K == "int" {
				ints = append(ints, x)
			}
		}
		if len(ints) == 0 {
			return nil
		}
		i := ints[g.pick(len(ints))]
		var ok []loc
		for _, c := range g.locs(nil) {
			if (c.t.K == "array" || c.t.K == "slice") && c.t.Elem.K == "int" {
				ok = append(ok, c)
			}
		}
		if len(ok) == 0 {
			return nil
		}
		a := ok[g.pick(len(ok))]
		o.Ls = []LExp{{K: "v", X: i}, {K: "x", L: a.l, E: &IExp{IsVar: true, N: i}}}
		r0, r1 := g.rexp(ty("int"), "multi-var"), g.rexp(ty("int"), "multi")
		if r0 == nil || r1 == nil {
			return nil
		}
		o.Rs = []RExp{*r0, *r1}
		if g.chance(0.5) {
			o.Ls[0], o.Ls[1] = o.Ls[1], o.Ls[0]
			o.Rs[0], o.Rs[1] = o.Rs[1], o.Rs[0]
		}
	default: // unrelated pairs
		for i, n := 0, 2+g.pick(2); i < n; i++ {
			c := g.loc(nil)
			if c == nil {
				return nil
			}
			ctx := "multi"
			if isVar(c.l) {
				ctx = "multi-var"
			}
			r := g.rexp(c.t, ctx)
			if r == nil {
				return nil
			}
			o.Ls = append(o.Ls, *c.l)
			o.Rs = append(o.Rs, *r)
		}
	}
	return o
}

type comp struct {
	path []int
	t    *Type
}

// comps lists the components of a value of type t down to depth 2 (not through references).
func comps(t *Type, prefix []int, depth int, out *[]comp) {
	n := 0
	switch t.K {
	case "struct":
		n = len(t.Fields)
	case "array":
		n = t.N
	}
	for i := 0; i < n; i++ {
		ct := t.Elem
		if t.K == "struct" {
			ct = t.Fields[i].T
		}
		p := append(append([]int{}, prefix...), i)
		*out = append(*out, comp{p, ct})
		if depth > 1 {
			comps(ct, p, depth-1, out)
		}
	}
}

// below extends an addressable expression of type t by a path of field / element indices.
func below(l *LExp, t *Type, path []int) *LExp {
	for _, i := range path {
		if t.K == "struct" {
			l, t = &LExp{K: "f", L: l, I: i}, t.Fields[i].T
		} else {
			l, t = &LExp{K: "x", L: l, E: &IExp{N: i}}, t.Elem
		}
	}
	return l
}

// operand builds the expression stored in a component of type ct of a literal assigned to dst (of type t): mostly a
// component of the destination itself — read directly or through a pointer alias when one is in scope.
func (g *gen) operand(dst *LExp, t *Type, ct *Type) *RExp {
	if dst != nil && g.chance(0.7) {
		var all, ok []comp
		comps(t, nil, 2, &all)
		for _, c := range all {
			if c.t == ct {
				ok = append(ok, c)
			}
		}
		if len(ok) > 0 {
			c := ok[g.pick(len(ok))]
			base := dst
			if isVar(dst) && g.chance(0.3) {
				// through a pointer to the destination's type (it may well point to the destination)
				if p := g.loc(ty("*" + t.Src)); p != nil && isVar(p.l) {
					base = &LExp{K: "d", L: p.l}
				}
			}
			return &RExp{K: "ld", T: ct.Src, L: below(base, t, c.path)}
		}
	}
	return g.rexp(ct, "arg")
}

func (g *gen) callNamed(inBody bool) *SOp {
	var ok []loc
	for _, c := range g.locs(nil) {
		if (c.t.K == "struct" || c.t.K == "array") && intIn(g, &LExp{K: "v", X: 0}, c.t) != nil {
			ok = append(ok, c)
		}
	}
	if len(ok) == 0 {
		return nil
	}
	d := ok[g.pick(len(ok))]
	o := &SOp{K: "cnm", L: d.l, P: d.l, T: d.t.Src, C: 100 + g.pick(100)}
	if g.chance(0.3) {
		// the address of another variable of the type, or of the destination through another expression
		if p := g.loc(d.t); p != nil {
			o.P = p.l
		}
	}
	root := &LExp{K: "v", X: 0}
	o.Sel, o.Sel2, o.Sel3 = intIn(g, root, d.t), intIn(g, root, d.t), intIn(g, root, d.t)
	if g.chance(0.4) {
		o.Sel3 = o.Sel // the pointer is read exactly where the result was just written
	}
	if g.chance(0.2) && !(inBody && len(g.e) > 9) {
		o.IsDef, o.L = true, &LExp{K: "v", X: g.fresh()}
	}
	return o
}

func (g *gen) retSwap(inBody bool) *SOp {
	t := ty([]string{"int", "int", "P", "[2]int", "Q"}[g.pick(5)])
	o := &SOp{K: "rsw", T: t.Src, Vals: []Val{g.litVal(t), g.litVal(t)}}
	if g.chance(0.3) && !(inBody && len(g.e) > 8) {
		o.IsDef = true
		o.Ls = []LExp{{K: "v", X: g.fresh()}, {K: "v", X: g.fresh()}}
		return o
	}
	a, b := g.loc(t), g.loc(t)
	if a == nil || b == nil {
		return nil
	}
	o.Ls = []LExp{*a.l, *b.l}
	return o
}

func (g *gen) clit(inBody bool) *SOp {
	var ok []loc
	for _, c := range g.locs(nil) {
		if c.t.K == "struct" || c.t.K == "array" {
			ok = append(ok, c)
		}
	}
	if len(ok) == 0 {
		return nil
	}
	d := ok[g.pick(len(ok))]
	o := &SOp{K: "clit", L: d.l, T: d.t.Src}
	dst := d.l
	if g.chance(0.2) && !(inBody && len(g.e) > 9) {
		// declaration: the operands read other variables of the type (or anything else)
		o.IsDef, o.L = true, &LExp{K: "v", X: g.fresh()}
	}
	return g.fillLit(o, dst, d.t)
}

// fillLit chooses the operands: all top-level components (positional or keyed) or a part of them (keyed), some as
// nested literals.
func (g *gen) fillLit(o *SOp, dst *LExp, t *Type) *SOp {
	var top []comp
	comps(t, nil, 1, &top)
	full := g.chance(0.65)
	o.Keyed = !full || g.chance(0.4)
	perm := g.rng.Perm(len(top))
	for _, k := range perm {
		c := top[k]
		if !full && g.chance(0.5) {
			continue
		}
		if (c.t.K == "struct" || c.t.K == "array") && g.chance(0.3) {
			// a nested literal giving some of its components
			var sub []comp
			comps(c.t, c.path, 1, &sub)
			for _, sc := range sub {
				if g.chance(0.6) {
					if r := g.operand(dst, t, sc.t); r != nil {
						o.Elems = append(o.Elems, LitElem{P: sc.path, R: *r})
					}
				}
			}
			if o.Keyed || len(sub) == 0 {
				continue
			}
			// positional rendering needs the component to be present: fall through only if nothing was given
			given := false
			for _, e := range o.Elems {
				given = given || hasPrefix(e.P, c.path)
			}
			if given {
				continue
			}
		}
		r := g.operand(dst, t, c.t)
		if r == nil {
			return nil
		}
		o.Elems = append(o.Elems, LitElem{P: c.path, R: *r})
	}
	// (positional operands of the form `pa[i].f` / `&pa[i]` crashed the compiler until commit 15ed387: F04-21; no restriction any more)
	// (a positional operand `(*pa)[lo:hi]` was rejected by the compiler until commit 790cfa6: F04-24; no restriction any more)
	if !o.Keyed {
		// positional literals list their operands in order
		sortElems(o.Elems)
	}
	return o
}

func sortElems(es []LitElem) {
	less := func(a, b []int) bool {
		for i := 0; i < len(a) && i < len(b); i++ {
			if a[i] != b[i] {
				return a[i] < b[i]
			}
		}
		return len(a) < len(b)
	}
	for i := 1; i < len(es); i++ {
		for j := i; j > 0 && less(es[j].P, es[j-1].P); j-- {
			es[j], es[j-1] = es[j-1], es[j]
		}
	}
}

// sameScope lists the variables declared in the scope a new statement would belong to: the pool at top level, the
// variables declared by earlier statements of the body inside a loop (the range variables belong to an outer scope).
func (g *gen) sameScope(inBody bool) []int {
	if inBody {
		return g.bodyVars
	}
	return g.pool
}

func (g *gen) sameScopeVar(inBody bool, t *Type) int {
	var ok []int
	for _, x := range g.sameScope(inBody) {
		if g.e[x] == t {
			ok = append(ok, x)
		}
	}
	if len(ok) == 0 {
		return -1
	}
	return ok[g.pick(len(ok))]
}

// elemOf: a load of an element of the slice expression s (of type t) when s is a variable or a slicing of one.
func (g *gen) elemOf(s *RExp, t *Type) *RExp {
	var base *LExp
	switch s.K {
	case "ld", "sl":
		base = s.L
	}
	if base == nil {
		return nil
	}
	bt := lexpType(g.e, base)
	if bt.K == "ptr" {
		bt = bt.Elem
	}
	if (bt.K != "slice" && bt.K != "array") || bt.Elem != t.Elem {
		return nil
	}
	n := 3
	if bt.K == "array" {
		n = bt.N
	}
	return &RExp{K: "ld", T: t.Elem.Src, L: &LExp{K: "x", L: base, E: &IExp{N: g.pick(n)}}}
}

func (g *gen) multidef(inBody bool) *SOp {
	if inBody && len(g.e) > 8 {
		return nil
	}
	o := &SOp{K: "muld"}
	n := 2 + g.pick(2)
	redecl := -1
	// a variable of the same scope that is only redeclared: assigned in place since commit 8bd8040 (F04-5)
	scope := g.sameScope(inBody)
	if len(scope) > 0 && g.chance(0.45) {
		redecl = g.pick(n - 1)
	}
	for i := 0; i < n; i++ {
		if i == redecl {
			x := scope[g.pick(len(scope))]
			dup := false
			for _, y := range o.Xs {
				dup = dup || y == x
			}
			if dup {
				return nil
			}
			t := g.e[x]
			r := g.rexp(t, "multidef")
			if r == nil {
				return nil
			}
			o.Xs, o.Rd, o.Ts = append(o.Xs, x), append(o.Rd, true), append(o.Ts, t.Src)
			o.Rs = append(o.Rs, *r)
			continue
		}
		t := ty(poolTypes[g.pick(len(poolTypes))])
		if redecl >= 0 && i > redecl && g.chance(0.5) {
			// the F21 shape (repaired by 3e30c22): a later right-hand side IS the redeclared variable
			t = ty(o.Ts[redecl])
			o.Xs, o.Rd, o.Ts = append(o.Xs, g.fresh()), append(o.Rd, false), append(o.Ts, t.Src)
			o.Rs = append(o.Rs, RExp{K: "ld", T: t.Src, L: &LExp{K: "v", X: o.Xs[redecl]}})
			continue
		}
		r := g.rexp(t, "multidef")
		if r == nil {
			return nil
		}
		o.Xs, o.Rd, o.Ts = append(o.Xs, g.fresh()), append(o.Rd, false), append(o.Ts, t.Src)
		o.Rs = append(o.Rs, *r)
	}
	return o
}

// ---- driver-checked assembly ----

// status asks the specification model how the program ends.
func (g *gen) status(p *Prog) string {
	g.asks++
	line := p.line()
	if traceFile != nil {
		traceMu.Lock()
		fmt.Fprintln(traceFile, line)
		traceMu.Unlock()
	}
	ans, timedOut, err := g.drv.ask(line, 3*time.Second)
	if err != nil {
		return "driver-error"
	}
	if timedOut || len(ans) > 40000 {
		return "too-big"
	}
	f := common.Fields(ans)
	gs, ys := f["g"], f["y"]
	if i := strings.IndexByte(gs, '~'); i >= 0 {
		gs = gs[:i]
	}
	if i := strings.IndexByte(ys, '~'); i >= 0 {
		ys = ys[:i]
	}
	_ = ys
	if strings.HasPrefix(gs, "ill:") || gs == "" {
		if len(g.ill) < 5 {
			g.ill = append(g.ill, gs+" "+ans+" <= "+line)
		}
		return "ill"
	}
	return gs
}

func (g *gen) bind(o *SOp, top bool) {
	xs, ts := o.binds()
	for i, x := range xs {
		g.e[x] = ts[i]
		if top {
			g.pool = append(g.pool, x)
		}
	}
}

// try appends the operation if the specification model runs it without panic; panicOK keeps a panicking one.
func (g *gen) try(op Op, panicOK bool) (kept, panicked bool) {
	cand := Prog{Ops: append(append([]Op{}, g.prog.Ops...), op)}
	st := g.status(&cand)
	if st == "ok" || (panicOK && st != "ill" && st != "driver-error" && st != "too-big") {
		g.prog = cand
		return true, st != "ok"
	}
	return false, false
}

func (g *gen) rangeOp() *Op {
	var ok []loc
	for _, c := range g.locs(nil) {
		// arrays, slices and pointers to arrays (the pointer variable was clobbered until commit da35a0b: F04-7)
		if c.t.K == "array" || c.t.K == "slice" || (c.t.K == "ptr" && c.t.Elem.K == "array") {
			ok = append(ok, c)
		}
	}
	if len(ok) == 0 {
		return nil
	}
	src := ok[g.pick(len(ok))]
	rt := src.t
	if rt.K == "ptr" {
		rt = rt.Elem
	}
	op := Op{K: "rng", Src: src.l, I: g.fresh(), V: g.fresh(), ET: rt.Elem.Src, SK: src.t.K}
	saved := g.e.clone()
	g.e[op.I], g.e[op.V] = ty("int"), rt.Elem
	g.bodyVars = nil
	defer func() { g.e = saved; g.bodyVars = nil }()
	want := 1 + g.pick(3)
	for tries := 0; len(op.Body) < want && tries < 12; tries++ {
		var s *SOp
		if g.chance(0.45) {
			// mutate the ranged value itself (what distinguishes a snapshot from a live view)
			var out []loc
			g.expand(src.l, src.t, 3, &out)
			var ints []loc
			for _, c := range out {
				if c.t.K == "int" && c.l != src.l {
					ints = append(ints, c)
				}
			}
			if len(ints) > 0 {
				s = &SOp{K: "op", L: ints[g.pick(len(ints))].l, C: 10 * (1 + g.pick(9))}
			}
		}
		if s == nil {
			s = g.sop(true)
		}
		if s == nil {
			continue
		}
		cand := op
		cand.Body = append(append([]SOp{}, op.Body...), *s)
		p := Prog{Ops: append(append([]Op{}, g.prog.Ops...), cand)}
		if g.status(&p) == "ok" {
			op = cand
			g.bind(s, false)
			xs, _ := s.binds()
			g.bodyVars = append(g.bodyVars, xs...)
		}
	}
	if len(op.Body) == 0 {
		return nil
	}
	return &op
}

func (g *gen) captureOp() *Op {
	var ok []loc
	for _, c := range g.locs(nil) {
		if (c.t.K == "array" || c.t.K == "slice") && c.t.Elem.K != "map" && c.t.Elem.K != "bool" {
			ok = append(ok, c)
		}
	}
	if len(ok) == 0 {
		return nil
	}
	src := ok[g.pick(len(ok))]
	sel := g.intPath(src.t.Elem, &LExp{K: "v", X: 0}, 3)
	if sel == nil {
		return nil
	}
	op := Op{K: "capt", Src: src.l, X: g.fresh(), Sel: sel, C: 100 * (1 + g.pick(5)), ET: src.t.Elem.Src}
	for i, n := 0, 2+g.pick(3); i < n; i++ {
		op.Calls = append(op.Calls, g.pick(2+g.pick(2)))
	}
	return &op
}

// generate builds one program.
func generate(rng *rand.Rand, drv *wdDriver, shape int) (Prog, *gen) {
	g := &gen{rng: rng, drv: drv, e: env{}}
	if shape >= 0 && g.seedShape(shape) {
		return g.prog, g
	}
	// a pool of diverse variables first
	for len(g.pool) < 3+g.pick(3) {
		t := ty(poolTypes[g.pick(len(poolTypes))])
		o := &SOp{K: "def", X: g.fresh(), T: t.Src, R: g.rexp(t, "define")}
		if o.R == nil {
			continue
		}
		if kept, _ := g.try(Op{S: o}, false); kept {
			g.bind(o, true)
		}
	}
	want := len(g.prog.Ops) + 4 + g.pick(8)
	for tries := 0; len(g.prog.Ops) < want && tries < 60; tries++ {
		last := len(g.prog.Ops) == want-1
		switch k := g.pick(100); {
		case k < 8:
			if op := g.rangeOp(); op != nil {
				g.try(*op, false)
			}
		case k < 11:
			if op := g.captureOp(); op != nil {
				g.try(*op, false)
			}
		default:
			o := g.sop(false)
			if o == nil {
				continue
			}
			if len(g.pool) >= 8 {
				if xs, _ := o.binds(); len(xs) > 0 {
					continue
				}
			}
			// deliberate panics also in map stores and multi-assignments (a nil pointer read but never stored went
			// unnoticed until commit 93fb945: F04-10)
			kept, panicked := g.try(Op{S: o}, last && g.chance(0.3))
			if kept && !panicked {
				g.bind(o, true)
			}
			if panicked {
				return g.prog, g
			}
		}
	}
	return g.prog, g
}
