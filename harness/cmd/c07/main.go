// C07 correspondence harness: values and calls cross the host/script boundary unchanged.
//
//	impl  = the real interpreter of the repository: the call / variable access crosses the boundary
//	        (script → host function registered through Use; host → script function obtained from Eval / Symbols;
//	        variables through Globals / Symbols / Use)
//	twin  = the same call made entirely inside the script against a script-defined twin (recorded; a case whose
//	        twin already differs from the reference is a script-internal divergence, classified separately)
//	ref   = the identity contract, computed by running the same call entirely in compiled Go (reflect.MakeFunc
//	        callee evaluating the same body, native caller)
//	model = Lean `Boundary`: argument-preparation table, receiver offset, variadic index, result routing, wrapper
//	        (y=) and the contract (g=), compared with what the host function observed (representation classes,
//	        success of constant conversion, order of results)
package main

import (
	"bytes"
	"context"
	"encoding/json"
	"flag"
	"fmt"
	"os"
	"os/exec"
	"runtime"
	"sort"
	"strings"
	"sync"

	"verif/harness/common"
)

var explore = flag.Bool("explore", false, "development: print every disagreement with its script")

type resultT struct {
	c               *Case
	impl, twin, ref outcome
}

func runAll(cases []*Case) []resultT {
	res := make([]resultT, len(cases))
	var wg sync.WaitGroup
	sem := make(chan struct{}, runtime.NumCPU())
	for i := range cases {
		wg.Add(1)
		sem <- struct{}{}
		go func(i int) {
			defer wg.Done()
			defer func() { <-sem }()
			res[i] = runOne(cases[i])
			if i >= 16 && !*explore {
				// the scripts are kept for the first cases only (samples)
				res[i].impl.Src, res[i].twin.Src, res[i].ref.Src = "", "", ""
			}
		}(i)
	}
	wg.Wait()
	return res
}

// A `go` statement runs the call on a goroutine of the interpreter: a panic there (reflect refusing the call, say) cannot
// be recovered by the harness and would take the whole run down. Such cases are run in a child process (`-one`).
var oneFlag = flag.String("one", "", "internal: impl|twin — run that mode of the single case read from standard input, print its outcome")

func oneMain() {
	var c Case
	if err := json.NewDecoder(os.Stdin).Decode(&c); err != nil {
		fmt.Fprintln(os.Stderr, "one:", err)
		os.Exit(2)
	}
	c.fixTypes()
	var o outcome
	if *oneFlag == "twin" {
		o = runTwin(&c)
	} else {
		o = runImpl(&c)
	}
	_ = json.NewEncoder(os.Stdout).Encode(o)
}

// isolated runs one mode of the case in a child process.
func isolated(c *Case, mode string) outcome {
	in, _ := json.Marshal(c)
	ctx, cancel := context.WithTimeout(context.Background(), 3*caseTimeout)
	defer cancel()
	cmd := exec.CommandContext(ctx, os.Args[0], "-one", mode)
	cmd.Stdin = bytes.NewReader(in)
	var stdout, stderr bytes.Buffer
	cmd.Stdout, cmd.Stderr = &stdout, &stderr
	err := cmd.Run()
	var o outcome
	if err == nil {
		err = json.Unmarshal(stdout.Bytes(), &o)
	}
	if err != nil {
		why := firstLine(err.Error())
		for _, l := range strings.Split(stderr.String(), "\n") {
			if strings.HasPrefix(l, "panic:") || strings.HasPrefix(l, "fatal error:") {
				why = firstLine(l)
				break
			}
		}
		return outcome{Status: "crash:process died: " + why}
	}
	return o
}

func runIsolated(c *Case) resultT {
	r := resultT{c: c, ref: runRef(c), impl: isolated(c, "impl")}
	if c.Dir == "s2h" || c.Dir == "h2s" || c.Dir == "retain" {
		r.twin = isolated(c, "twin")
	}
	return r
}

func runOne(c *Case) (r resultT) {
	if c.Ctx == "go" {
		return runIsolated(c)
	}
	r = resultT{c: c}
	defer func() {
		if x := recover(); x != nil {
			r.impl.Status = "harness-panic:" + fmt.Sprint(x)
		}
	}()
	r.ref = runRef(c)
	r.impl = runImpl(c)
	if c.Dir == "s2h" || c.Dir == "h2s" || c.Dir == "retain" {
		r.twin = runTwin(c)
	}
	return r
}

func nontrivial(c *Case) bool {
	switch c.Dir {
	case "var":
		return c.VT.Kind != KBasic
	case "meth":
		return len(c.Args) > 0
	case "retain":
		return true
	}
	if len(c.Sig.In)+len(c.Sig.Out) < 2 {
		return false
	}
	for _, t := range typesOf(c) {
		if t.Kind != KBasic {
			return true
		}
	}
	return false
}

func main() {
	run := common.NewRun("C07")
	if *oneFlag != "" {
		oneMain()
		return
	}
	run.Res.Rule = "cases = (direction, signature shape from the type grammar with 0..4 parameters / 0..3 results / variadic or not, " +
		"callee body in a small body language, argument values, argument forms var/literal/untyped constant/spread/nested call, " +
		"result context define/assign/blank/return/non-first return operand/nested/statement/defer/go/condition/expression, callee written as hp.F / a function variable / a variable of a script-written function type / a method value, way the host " +
		"obtains and calls the function) plus method calls on host values and variables through Globals/Symbols/Use; " +
		"non-trivial = at least two parameters+results and one non-basic type (calls), an argument (methods), a non-basic type (variables); " +
		"distinct = distinct serialised case without its id"
	defer run.Finish()

	if *dumpDir != "" {
		dumpCases(run, *dumpDir, 300)
		return
	}
	if *explore {
		exploreMain(run)
		return
	}
	mainCheck(run)
}

func caseKey(c *Case) string {
	cp := *c
	cp.ID = ""
	b, _ := json.Marshal(&cp)
	return string(b)
}

// exploreMain: development aid — run the generator and print disagreements grouped by a crude signature.
func exploreMain(run *common.Run) {
	n := 300
	if run.Thorough() {
		n = 3000
	}
	cases := generate(run, n)
	res := runAll(cases)
	groups := map[string][]resultT{}
	for _, r := range res {
		ik, rk, tk := r.impl.key(), r.ref.key(), r.twin.key()
		if ik == rk && (r.twin.Status == "" || tk == rk) {
			continue
		}
		sig := diffSig(r)
		groups[sig] = append(groups[sig], r)
	}
	keys := make([]string, 0, len(groups))
	for k := range groups {
		keys = append(keys, k)
	}
	sort.Slice(keys, func(i, j int) bool { return len(groups[keys[i]]) > len(groups[keys[j]]) })
	fmt.Fprintf(os.Stderr, "%d cases, %d disagreeing, %d groups\n", len(res), len(res)-countAgree(res), len(keys))
	for _, k := range keys {
		g := groups[k]
		fmt.Fprintf(os.Stderr, "\n=== %d × %s\n", len(g), k)
		for i, r := range g {
			if i >= *showN {
				break
			}
			b, _ := json.Marshal(r.c)
			fmt.Fprintf(os.Stderr, "case: %s\n", b)
			fmt.Fprintf(os.Stderr, "impl: %s\nref:  %s\ntwin: %s\n", r.impl.key(), r.ref.key(), r.twin.key())
			fmt.Fprintf(os.Stderr, "--- impl script:\n%s\n", stripPrelude(r.impl.Src))
			if r.twin.key() != r.ref.key() && r.twin.Status != "" {
				fmt.Fprintf(os.Stderr, "--- twin script:\n%s\n", stripPrelude(r.twin.Src))
			}
		}
	}
}

func stripPrelude(s string) string {
	i := strings.Index(s, "func SInc(")
	if i < 0 {
		return s
	}
	return s[i:]
}

func countAgree(res []resultT) int {
	n := 0
	for _, r := range res {
		if r.impl.key() == r.ref.key() && (r.twin.Status == "" || r.twin.key() == r.ref.key()) {
			n++
		}
	}
	return n
}

// diffSig: a crude signature of how impl/twin differ from ref (development aid).
func diffSig(r resultT) string {
	d := func(a, b outcome) string {
		if a.Status != b.Status {
			s := a.Status
			if i := strings.IndexAny(s, "0123456789"); i > 20 {
				s = s[:i]
			}
			if len(s) > 90 {
				s = s[:90]
			}
			return "status " + s
		}
		for i := range a.Obs {
			if i >= len(b.Obs) {
				return "extra obs " + a.Obs[i].Tag
			}
			if a.Obs[i] != b.Obs[i] {
				x, y := a.Obs[i].V, b.Obs[i].V
				if len(x) > 50 {
					x = x[:50]
				}
				if len(y) > 50 {
					y = y[:50]
				}
				return fmt.Sprintf("obs %s/%s: %s vs %s", a.Obs[i].Tag, b.Obs[i].Tag, x, y)
			}
		}
		if len(a.Obs) < len(b.Obs) {
			return "missing obs " + b.Obs[len(a.Obs)].Tag
		}
		return "same"
	}
	s := r.c.Dir + " impl:" + d(r.impl, r.ref)
	if r.twin.Status != "" {
		s += " || twin:" + d(r.twin, r.ref)
	}
	return s
}

var dumpDir = flag.String("dump", "", "development: write the generated scripts with a stub host package for an external type check")
var showN = flag.Int("show", 1, "development: cases printed per group")
var featFlag = flag.String("feat", "", "development: switch one gated feature on for every generated case")
