// Variables crossing the boundary.
//
//	globals / symbols / evalname   a package-level variable of the script, reached by the host through
//	                               Interpreter.Globals(), Interpreter.Symbols("main") or Eval("main.G")
//	use                            a host variable supplied through Use (reflect.ValueOf(&v).Elem())
//
// The sequence of accesses is fixed; the reference is the identity contract (what was written is what is read).
package main

import (
	"context"
	"fmt"
	"reflect"

	"github.com/traefik/yaegi/interp"
)

// refVar: the observations the contract prescribes.
func refVar(c *Case, env *nativeEnv) {
	bc := &buildCtx{env: env}
	rt := c.VT.RT
	v0, v1, v2 := bc.build(c.V0, rt), bc.build(c.V1, rt), bc.build(c.V2, rt)
	switch c.Access {
	case "use":
		env.recordStatic("script.read0", rt, v0.Interface())
		env.recordStatic("script.read1", rt, v1.Interface())
		env.recordStatic("host.read1", rt, v1.Interface())
		env.recordStatic("script.read2", rt, v2.Interface())
	case "evalname", "evalplain":
		env.recordStatic("host.read0", rt, v0.Interface())
		env.recordStatic("host.fresh2", rt, v2.Interface())
	default:
		env.recordStatic("host.read0", rt, v0.Interface())
		env.recordStatic("script.get1", rt, v1.Interface())
		env.recordStatic("host.read2", rt, v2.Interface())
		env.recordStatic("host.fresh2", rt, v2.Interface())
	}
}

func implVar(c *Case, env *nativeEnv) outcome {
	s := newScript()
	cx := s.cx
	T := c.VT.ID
	if c.Access == "use" {
		// host variable hp.V; the script reads it, overwrites it, the host reads and overwrites, the script reads again
		s.run = append(s.run,
			fmt.Sprintf("hp.Rec(\"script.read0\", %q, hp.V)", T),
			assignStmt("hp.V", T, cx.lit(c.V1, false), c.Direct),
			fmt.Sprintf("hp.Rec(\"script.read1\", %q, hp.V)", T),
			"hp.Sync()",
			fmt.Sprintf("hp.Rec(\"script.read2\", %q, hp.V)", T))
		src := s.source()
		return guarded(env, src, func(ctx context.Context) string {
			bc := &buildCtx{env: env}
			hv := reflect.New(c.VT.RT).Elem()
			hv.Set(bc.build(c.V0, c.VT.RT))
			ex := exportsFor(c, env, reflect.Value{}, reflect.Value{}, hv)
			ex["hp/hp"]["Sync"] = reflect.ValueOf(func() {
				env.recordStatic("host.read1", c.VT.RT, hv.Interface())
				hv.Set(bc.build(c.V2, c.VT.RT))
			})
			i, err := newInterp(ex)
			if err != nil {
				return "evalerr:" + err.Error()
			}
			return evalRun(ctx, i, env, src, true)
		})
	}
	s.decls = append(s.decls,
		fmt.Sprintf("var G %s = %s", T, cx.lit(c.V0, false)),
		fmt.Sprintf("func GetG() %s { return G }", T),
		fmt.Sprintf("func SetG() { %s }", assignStmt("G", T, cx.lit(c.V2, false), c.Direct)))
	src := s.source()
	return guarded(env, src, func(ctx context.Context) string {
		i, err := newInterp(exportsFor(c, env, reflect.Value{}, reflect.Value{}, reflect.Value{}))
		if err != nil {
			return "evalerr:" + err.Error()
		}
		if _, err := i.EvalWithContext(ctx, src); err != nil {
			return errStatus(err)
		}
		get := func() (reflect.Value, string) {
			switch c.Access {
			case "globals":
				return i.Globals()["G"], ""
			case "symbols":
				return i.Symbols("main")["main"]["G"], ""
			}
			name := "main.G"
			if c.Access == "evalplain" {
				name = "G"
			}
			v, err := i.EvalWithContext(ctx, name)
			if err != nil {
				return v, errStatus(err)
			}
			return v, ""
		}
		gv, st := get()
		if st != "" {
			return st
		}
		if !gv.IsValid() {
			return "novar"
		}
		bc := &buildCtx{env: env}
		env.recordStatic("host.read0", gv.Type(), gv.Interface())
		if c.Access == "evalname" || c.Access == "evalplain" {
			// Eval returns the value, not the variable: read, let the script write, read again
			if _, err := i.EvalWithContext(ctx, "main.SetG()"); err != nil {
				return errStatus(err)
			}
			fresh, st := get()
			if st != "" {
				return st
			}
			env.recordStatic("host.fresh2", fresh.Type(), fresh.Interface())
			return "ok"
		}
		if !gv.CanSet() {
			return "notsettable"
		}
		gv.Set(bc.build(c.V1, gv.Type()))
		getG, err := i.EvalWithContext(ctx, "main.GetG")
		if err != nil {
			return errStatus(err)
		}
		r := getG.Call(nil)[0]
		env.recordStatic("script.get1", getG.Type().Out(0), r.Interface())
		if _, err := i.EvalWithContext(ctx, "main.SetG()"); err != nil {
			return errStatus(err)
		}
		env.recordStatic("host.read2", gv.Type(), gv.Interface())
		fresh, st := get()
		if st != "" {
			return st
		}
		env.recordStatic("host.fresh2", fresh.Type(), fresh.Interface())
		return "ok"
	})
}

var _ = interp.Exports{}

// assignStmt: `dst = rhs`, directly or through a local variable.
func assignStmt(dst, typ, rhs string, direct bool) string {
	if direct {
		return dst + " = " + rhs
	}
	return "var nv " + typ + " = " + rhs + "; " + dst + " = nv"
}
