// Development aid (-dump dir): write, for each generated case, a Go module-less directory with the script (main.go) and a
// stub of the host package (hp/hp.go) so that the toolchain's own type checker can be asked whether the generated scripts
// are valid Go (`go vet` / `go build` in a scratch module). Not used by the check.
package main

import (
	"encoding/json"
	"fmt"
	"os"
	"path/filepath"
	"strings"

	"verif/harness/common"
)

const hpStubHead = `package hp

import (
	"fmt"
	"io"
	"sort"
)

var _ io.Writer
var _ sort.Interface

type Pt struct{ X, Y int }
type Color int8
type Temp float64
type Names []string
type Op func(int, int) int
type Box struct {
	P *Pt
	L []Pt
	M map[string]int
	E interface{}
}
type Tree struct {
	V    int
	L, R *Tree
}
type Counter struct{ N int }
type Holder struct {
	Label string
	*Counter
}
type Writer struct{}

func (*Writer) Write(p []byte) (int, error) { return 0, nil }
func (c Color) String() string               { return "" }
func (n Names) Len() int                     { return 0 }
func (n Names) Less(i, j int) bool           { return false }
func (n Names) Swap(i, j int)                {}
func (c *Counter) Add(n int) int             { return 0 }
func (c Counter) Get() int                   { return 0 }
func (c Counter) Scale(f float32, k uint8) float64 { return 0 }
func (c *Counter) AddAll(ns ...int) int      { return 0 }
func (c *Counter) Is(b bool, xs ...int) bool { return b }
func (c *Counter) Fmt(f string, xs ...int8) string { return "" }
func (c *Counter) Mix(a int8, b float64, s string, rest ...uint16) string { return "" }
func (c *Counter) Apply(f func(int) int) int { return 0 }
func (c *Counter) Show(s fmt.Stringer) string { return "" }
func (c *Counter) Any(v interface{}, vs ...interface{}) int { return 0 }
func (c *Counter) Pair() (int, string)       { return 0, "" }
func (c *Counter) Err(fail bool) error       { return nil }
func (c Counter) String() string             { return "" }
func Rec(tag, typeID string, v interface{})  {}
func RecN(vs ...interface{})                 {}
func HInc(x int) int                         { return x }
func Done()                                  {}
func Wait()                                  {}
func NewWriter() *Writer                     { return nil }
func NewCounter(n int) *Counter              { return nil }
func NewHolder(n int) Holder                 { return Holder{} }
func Sync()                                  {}
`

func hpID(t *TypeD) string { return strings.ReplaceAll(t.ID, "hp.", "") }

func dumpCases(run *common.Run, dir string, n int) {
	ctr := 0
	k := 0
	var known []*Case
	if fs, err := common.LoadFindings("C07"); err == nil {
		for _, f := range fs {
			var fr findingReplay
			if json.Unmarshal(f.Replay, &fr) == nil && fr.Case != nil {
				fr.Case.fixTypes()
				known = append(known, fr.Case)
			}
		}
	}
	for k < n+len(known) {
		var c *Case
		if k >= n {
			c = known[k-n]
		} else {
			g := newGen(run, &ctr, nil)
			c = g.genAny(fmt.Sprintf("c%d", k))
			if classOf(c) != "" {
				continue
			}
		}
		var src string
		stub := hpStubHead
		switch c.Dir {
		case "s2h":
			s := newScript()
			s.renderCaller(c, "hp.F", nil)
			src = s.source()
			sig := strings.TrimPrefix(hpID(c.Sig), "func")
			stub += "func F" + sig + " { panic(0) }\n"
			if c.ArgSrc == "hostcall" {
				outs := make([]string, len(c.Args))
				for i := range c.Args {
					outs[i] = hpID(paramTypeOf(c, i))
				}
				stub += "func MkArgs() (" + strings.Join(outs, ", ") + ") { panic(0) }\n"
			}
			// the twin as a second program
			t := newScript()
			t.renderCallee(c, "F")
			t.renderCaller(c, "F", nil)
			writeProg(dir, fmt.Sprintf("t%04d", k), t.source(), stub)
		case "h2s":
			s := newScript()
			s.renderCallee(c, "F")
			s.renderCaller(c, "F", nil)
			src = s.source()
		case "meth":
			s := newScript()
			setup, sel := methodSetup(c)
			s.renderCaller(c, sel, setup)
			src = s.source()
		case "retain":
			continue
		case "var":
			o := implVar(c, newEnv())
			src = o.Src
			if c.Access == "use" {
				stub += "var V " + hpID(c.VT) + "\n"
			}
		}
		writeProg(dir, fmt.Sprintf("p%04d", k), src, stub)
		k++
	}
}

func writeProg(dir, name, src, stub string) {
	d := filepath.Join(dir, name)
	os.MkdirAll(filepath.Join(d, "hp"), 0o755)
	// the script calls Run from nowhere: add a main
	os.WriteFile(filepath.Join(d, "main.go"), []byte(src+"\nfunc main() { Run() }\n"), 0o644)
	os.WriteFile(filepath.Join(d, "hp", "hp.go"), []byte(stub), 0o644)
	os.WriteFile(filepath.Join(d, "go.mod"), []byte("module prog\n\ngo 1.21\n"), 0o644)
}
