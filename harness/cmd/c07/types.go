// Type grammar of the C07 harness.
//
// A TypeD is one node of the grammar (basic kinds, struct, pointer, array, slice, map, func, interface,
// host-declared and script-declared named types). Every type has
//
//	ID   its spelling in Go syntax as the SCRIPT writes it (`hp.Pt`, `[]map[string]int`, `SM`); the ID is also the
//	     serialised form (replays), parsed back by typeByID;
//	RT   the native reflect.Type the harness uses on the host side (for script-declared types: a compiled native twin
//	     with the same structure and methods).
package main

import (
	"fmt"
	"io"
	"reflect"
	"sort"
	"strings"
	"sync"
)

type Kind int

const (
	KBasic Kind = iota
	KStruct
	KPtr
	KArray
	KSlice
	KMap
	KFunc
	KIface
)

func (k Kind) String() string {
	return [...]string{"basic", "struct", "ptr", "array", "slice", "map", "func", "iface"}[k]
}

type FieldD struct {
	Name string
	T    *TypeD
}

type TypeD struct {
	ID       string
	Kind     Kind
	RT       reflect.Type
	Decl     string // "" unnamed/predeclared | "host" (hp.X) | "script" (declared by the script prelude)
	Len      int
	Elem     *TypeD
	Key      *TypeD
	Fields   []FieldD
	In, Out  []*TypeD
	Variadic bool
	Iface    string // KIface: "empty" | "error" | "fmt.Stringer" | "io.Writer" | "sort.Interface" | "script:MS"
	Methods  string // named non-interface types with methods: which host interface they implement ("" if none)
	PtrRecv  bool   // the methods have pointer receivers
}

// ---- host-declared named types (exported to the script as package hp) ----

type Pt struct{ X, Y int }
type Color int8
type Temp float64
type Names []string
type Op func(int, int) int
type Box struct {
	P *Pt
	L []Pt
	M map[string]int
	E interface{}
}
type Tree struct {
	V    int
	L, R *Tree
}

func (c Color) String() string      { return fmt.Sprintf("Color#%d", int8(c)) }
func (n Names) Len() int            { return len(n) }
func (n Names) Less(i, j int) bool  { return n[i] < n[j] }
func (n Names) Swap(i, j int)       { n[i], n[j] = n[j], n[i] }

// ---- native twins of the types the SCRIPT declares (scriptPrelude) ----

type nST struct {
	A int
	B string
}
type nSM struct {
	N int
	S string
}

func (m nSM) String() string { return fmt.Sprintf("SM<%d,%s>", m.N, m.S) }
func (m nSM) Error() string  { return fmt.Sprintf("SMerr<%d>", m.N) }

type nSW struct{ Buf []byte }

func (w *nSW) Write(p []byte) (int, error) { w.Buf = append(w.Buf, p...); return len(p), nil }

type nSI int

func (i nSI) String() string { return fmt.Sprintf("SI(%d)", int(i)) }

type nSL []int

func (l nSL) Len() int           { return len(l) }
func (l nSL) Less(i, j int) bool { return l[i] < l[j] }
func (l nSL) Swap(i, j int)      { l[i], l[j] = l[j], l[i] }

type nSF func(int) int
type nMS interface{ String() string }

// scriptPrelude declares the script-side types. It is part of every generated script.
const scriptPrelude = `type ST struct {
	A int
	B string
}
type SM struct {
	N int
	S string
}

func (m SM) String() string { return fmt.Sprintf("SM<%d,%s>", m.N, m.S) }
func (m SM) Error() string  { return fmt.Sprintf("SMerr<%d>", m.N) }

type SW struct{ Buf []byte }

func (w *SW) Write(p []byte) (int, error) { w.Buf = append(w.Buf, p...); return len(p), nil }

type SI int

func (i SI) String() string { return fmt.Sprintf("SI(%d)", int(i)) }

type SL []int

func (l SL) Len() int           { return len(l) }
func (l SL) Less(i, j int) bool { return l[i] < l[j] }
func (l SL) Swap(i, j int)      { l[i], l[j] = l[j], l[i] }

type SF func(int) int
type MS interface{ String() string }
`

var (
	tyMu    sync.Mutex
	tyCache = map[string]*TypeD{}
)

var basicRT = map[string]reflect.Type{
	"bool": reflect.TypeOf(false), "int": reflect.TypeOf(int(0)), "int8": reflect.TypeOf(int8(0)),
	"int16": reflect.TypeOf(int16(0)), "int32": reflect.TypeOf(int32(0)), "int64": reflect.TypeOf(int64(0)),
	"uint": reflect.TypeOf(uint(0)), "uint8": reflect.TypeOf(uint8(0)), "uint16": reflect.TypeOf(uint16(0)),
	"uint32": reflect.TypeOf(uint32(0)), "uint64": reflect.TypeOf(uint64(0)), "uintptr": reflect.TypeOf(uintptr(0)),
	"float32": reflect.TypeOf(float32(0)), "float64": reflect.TypeOf(float64(0)),
	"complex64": reflect.TypeOf(complex64(0)), "complex128": reflect.TypeOf(complex128(0)), "string": reflect.TypeOf(""),
}

var basicNames = []string{"bool", "int", "int8", "int16", "int32", "int64", "uint", "uint8", "uint16", "uint32", "uint64",
	"uintptr", "float32", "float64", "complex64", "complex128", "string"}

var (
	rtError    = reflect.TypeOf((*error)(nil)).Elem()
	rtStringer = reflect.TypeOf((*fmt.Stringer)(nil)).Elem()
	rtWriter   = reflect.TypeOf((*io.Writer)(nil)).Elem()
	rtSort     = reflect.TypeOf((*sort.Interface)(nil)).Elem()
	rtEmpty    = reflect.TypeOf((*interface{})(nil)).Elem()
)

// named returns the fixed named types (host- and script-declared).
func namedType(id string) *TypeD {
	mk := func(k Kind, rt reflect.Type, decl, methods string, ptrRecv bool) *TypeD {
		t := &TypeD{ID: id, Kind: k, RT: rt, Decl: decl, Methods: methods, PtrRecv: ptrRecv}
		fill(t)
		return t
	}
	switch id {
	case "hp.Pt":
		return mk(KStruct, reflect.TypeOf(Pt{}), "host", "", false)
	case "hp.Color":
		return mk(KBasic, reflect.TypeOf(Color(0)), "host", "fmt.Stringer", false)
	case "hp.Temp":
		return mk(KBasic, reflect.TypeOf(Temp(0)), "host", "", false)
	case "hp.Names":
		return mk(KSlice, reflect.TypeOf(Names(nil)), "host", "sort.Interface", false)
	case "hp.Op":
		return mk(KFunc, reflect.TypeOf(Op(nil)), "host", "", false)
	case "hp.Box":
		return mk(KStruct, reflect.TypeOf(Box{}), "host", "", false)
	case "hp.Tree":
		return mk(KStruct, reflect.TypeOf(Tree{}), "host", "", false)
	case "ST":
		return mk(KStruct, reflect.TypeOf(nST{}), "script", "", false)
	case "SM":
		return mk(KStruct, reflect.TypeOf(nSM{}), "script", "fmt.Stringer+error", false)
	case "SW":
		return mk(KStruct, reflect.TypeOf(nSW{}), "script", "io.Writer", true)
	case "SI":
		return mk(KBasic, reflect.TypeOf(nSI(0)), "script", "fmt.Stringer", false)
	case "SL":
		return mk(KSlice, reflect.TypeOf(nSL(nil)), "script", "sort.Interface", false)
	case "SF":
		return mk(KFunc, reflect.TypeOf(nSF(nil)), "script", "", false)
	case "MS":
		return &TypeD{ID: id, Kind: KIface, RT: reflect.TypeOf((*nMS)(nil)).Elem(), Decl: "script", Iface: "script:MS"}
	case "error":
		return &TypeD{ID: id, Kind: KIface, RT: rtError, Iface: "error"}
	case "fmt.Stringer":
		return &TypeD{ID: id, Kind: KIface, RT: rtStringer, Iface: "fmt.Stringer"}
	case "io.Writer":
		return &TypeD{ID: id, Kind: KIface, RT: rtWriter, Iface: "io.Writer"}
	case "sort.Interface":
		return &TypeD{ID: id, Kind: KIface, RT: rtSort, Iface: "sort.Interface"}
	case "interface{}":
		return &TypeD{ID: id, Kind: KIface, RT: rtEmpty, Iface: "empty"}
	}
	return nil
}

// fill derives the children of a named type from its reflect type (children get IDs in script spelling).
func fill(t *TypeD) {
	rt := t.RT
	switch t.Kind {
	case KStruct:
		for i := 0; i < rt.NumField(); i++ {
			f := rt.Field(i)
			t.Fields = append(t.Fields, FieldD{f.Name, typeOfRT(f.Type)})
		}
	case KSlice:
		t.Elem = typeOfRT(rt.Elem())
	case KFunc:
		for i := 0; i < rt.NumIn(); i++ {
			t.In = append(t.In, typeOfRT(rt.In(i)))
		}
		for i := 0; i < rt.NumOut(); i++ {
			t.Out = append(t.Out, typeOfRT(rt.Out(i)))
		}
		t.Variadic = rt.IsVariadic()
	}
}

var rtNames = map[reflect.Type]string{}

func init() {
	for _, id := range []string{"hp.Pt", "hp.Color", "hp.Temp", "hp.Names", "hp.Op", "hp.Box", "hp.Tree", "ST", "SM", "SW", "SI", "SL", "SF", "MS",
		"error", "fmt.Stringer", "io.Writer", "sort.Interface", "interface{}"} {
		// register reflect type → id first (Tree is recursive)
		switch id {
		case "hp.Pt":
			rtNames[reflect.TypeOf(Pt{})] = id
		case "hp.Color":
			rtNames[reflect.TypeOf(Color(0))] = id
		case "hp.Temp":
			rtNames[reflect.TypeOf(Temp(0))] = id
		case "hp.Names":
			rtNames[reflect.TypeOf(Names(nil))] = id
		case "hp.Op":
			rtNames[reflect.TypeOf(Op(nil))] = id
		case "hp.Box":
			rtNames[reflect.TypeOf(Box{})] = id
		case "hp.Tree":
			rtNames[reflect.TypeOf(Tree{})] = id
		case "ST":
			rtNames[reflect.TypeOf(nST{})] = id
		case "SM":
			rtNames[reflect.TypeOf(nSM{})] = id
		case "SW":
			rtNames[reflect.TypeOf(nSW{})] = id
		case "SI":
			rtNames[reflect.TypeOf(nSI(0))] = id
		case "SL":
			rtNames[reflect.TypeOf(nSL(nil))] = id
		case "SF":
			rtNames[reflect.TypeOf(nSF(nil))] = id
		case "MS":
			rtNames[reflect.TypeOf((*nMS)(nil)).Elem()] = id
		case "error":
			rtNames[rtError] = id
		case "fmt.Stringer":
			rtNames[rtStringer] = id
		case "io.Writer":
			rtNames[rtWriter] = id
		case "sort.Interface":
			rtNames[rtSort] = id
		case "interface{}":
			rtNames[rtEmpty] = id
		}
	}
}

// typeOfRT maps a native reflect type (of the harness's own declarations) back to the grammar.
func typeOfRT(rt reflect.Type) *TypeD {
	if id, ok := rtNames[rt]; ok {
		return typeByID(id)
	}
	switch rt.Kind() {
	case reflect.Ptr:
		return typeByID("*" + typeOfRT(rt.Elem()).ID)
	case reflect.Slice:
		return typeByID("[]" + typeOfRT(rt.Elem()).ID)
	case reflect.Array:
		return typeByID(fmt.Sprintf("[%d]%s", rt.Len(), typeOfRT(rt.Elem()).ID))
	case reflect.Map:
		return typeByID("map[" + typeOfRT(rt.Key()).ID + "]" + typeOfRT(rt.Elem()).ID)
	case reflect.Func:
		ins, outs := []*TypeD{}, []*TypeD{}
		for i := 0; i < rt.NumIn(); i++ {
			ins = append(ins, typeOfRT(rt.In(i)))
		}
		for i := 0; i < rt.NumOut(); i++ {
			outs = append(outs, typeOfRT(rt.Out(i)))
		}
		return funcType(ins, outs, rt.IsVariadic())
	case reflect.Struct:
		var fs []FieldD
		for i := 0; i < rt.NumField(); i++ {
			fs = append(fs, FieldD{rt.Field(i).Name, typeOfRT(rt.Field(i).Type)})
		}
		return structType(fs)
	}
	if rt.PkgPath() == "" {
		return typeByID(rt.Kind().String())
	}
	panic("typeOfRT: unknown native type " + rt.String())
}

func funcID(ins, outs []*TypeD, variadic bool) string {
	var b strings.Builder
	b.WriteString("func(")
	for i, t := range ins {
		if i > 0 {
			b.WriteString(", ")
		}
		if variadic && i == len(ins)-1 {
			b.WriteString("..." + t.Elem.ID)
		} else {
			b.WriteString(t.ID)
		}
	}
	b.WriteString(")")
	switch len(outs) {
	case 0:
	case 1:
		b.WriteString(" " + outs[0].ID)
	default:
		b.WriteString(" (")
		for i, t := range outs {
			if i > 0 {
				b.WriteString(", ")
			}
			b.WriteString(t.ID)
		}
		b.WriteString(")")
	}
	return b.String()
}

func funcType(ins, outs []*TypeD, variadic bool) *TypeD { return typeByID(funcID(ins, outs, variadic)) }

func structType(fs []FieldD) *TypeD {
	var b strings.Builder
	b.WriteString("struct{")
	for i, f := range fs {
		if i > 0 {
			b.WriteString("; ")
		}
		b.WriteString(f.Name + " " + f.T.ID)
	}
	b.WriteString("}")
	return typeByID(b.String())
}

// typeByID parses a type spelled in Go syntax (the subset above).
func typeByID(id string) *TypeD {
	tyMu.Lock()
	if t, ok := tyCache[id]; ok {
		tyMu.Unlock()
		return t
	}
	tyMu.Unlock()
	p := &tparser{s: id}
	t := p.parse()
	p.ws()
	if p.err != "" || p.i != len(p.s) {
		panic(fmt.Sprintf("typeByID(%q): %s at %d", id, p.err, p.i))
	}
	return t
}

func intern(t *TypeD) *TypeD {
	tyMu.Lock()
	defer tyMu.Unlock()
	if o, ok := tyCache[t.ID]; ok {
		return o
	}
	tyCache[t.ID] = t
	return t
}

type tparser struct {
	s   string
	i   int
	err string
}

func (p *tparser) ws() {
	for p.i < len(p.s) && (p.s[p.i] == ' ' || p.s[p.i] == '\t' || p.s[p.i] == '\n') {
		p.i++
	}
}
func (p *tparser) has(pre string) bool {
	p.ws()
	if strings.HasPrefix(p.s[p.i:], pre) {
		p.i += len(pre)
		return true
	}
	return false
}
func (p *tparser) ident() string {
	p.ws()
	j := p.i
	for j < len(p.s) && (p.s[j] == '_' || p.s[j] == '.' || p.s[j] >= 'a' && p.s[j] <= 'z' || p.s[j] >= 'A' && p.s[j] <= 'Z' || p.s[j] >= '0' && p.s[j] <= '9') {
		j++
	}
	s := p.s[p.i:j]
	p.i = j
	return s
}

func (p *tparser) parse() *TypeD {
	p.ws()
	start := p.i
	done := func(t *TypeD) *TypeD {
		if t == nil {
			if p.err == "" {
				p.err = "bad type"
			}
			return &TypeD{ID: "?"}
		}
		return intern(t)
	}
	switch {
	case p.has("*"):
		e := p.parse()
		return done(&TypeD{ID: "*" + e.ID, Kind: KPtr, Elem: e, RT: reflect.PointerTo(e.RT)})
	case p.has("[]"):
		e := p.parse()
		return done(&TypeD{ID: "[]" + e.ID, Kind: KSlice, Elem: e, RT: reflect.SliceOf(e.RT)})
	case p.has("["):
		n := 0
		for p.i < len(p.s) && p.s[p.i] >= '0' && p.s[p.i] <= '9' {
			n = n*10 + int(p.s[p.i]-'0')
			p.i++
		}
		if !p.has("]") {
			p.err = "expected ]"
			return done(nil)
		}
		e := p.parse()
		return done(&TypeD{ID: fmt.Sprintf("[%d]%s", n, e.ID), Kind: KArray, Len: n, Elem: e, RT: reflect.ArrayOf(n, e.RT)})
	case p.has("map["):
		k := p.parse()
		if !p.has("]") {
			p.err = "expected ] after map key"
			return done(nil)
		}
		e := p.parse()
		return done(&TypeD{ID: "map[" + k.ID + "]" + e.ID, Kind: KMap, Key: k, Elem: e, RT: reflect.MapOf(k.RT, e.RT)})
	case p.has("interface{}"):
		return done(namedType("interface{}"))
	case p.has("struct{"):
		var fs []FieldD
		var sf []reflect.StructField
		for !p.has("}") {
			name := p.ident()
			if name == "" {
				p.err = "field name"
				return done(nil)
			}
			ft := p.parse()
			fs = append(fs, FieldD{name, ft})
			sf = append(sf, reflect.StructField{Name: name, Type: ft.RT})
			p.has(";")
			if p.i >= len(p.s) {
				p.err = "unterminated struct"
				return done(nil)
			}
		}
		t := &TypeD{Kind: KStruct, Fields: fs, RT: reflect.StructOf(sf)}
		t.ID = structIDOf(fs)
		return done(t)
	case p.has("func("):
		var ins, outs []*TypeD
		variadic := false
		for !p.has(")") {
			if p.has("...") {
				variadic = true
				e := p.parse()
				ins = append(ins, typeByID("[]"+e.ID))
			} else {
				ins = append(ins, p.parse())
			}
			p.has(",")
			if p.i >= len(p.s) {
				p.err = "unterminated func"
				return done(nil)
			}
		}
		p.ws()
		if p.has("(") {
			for !p.has(")") {
				outs = append(outs, p.parse())
				p.has(",")
				if p.i >= len(p.s) {
					p.err = "unterminated results"
					return done(nil)
				}
			}
		} else if p.i < len(p.s) && !strings.ContainsRune(",);]}", rune(p.s[p.i])) {
			outs = append(outs, p.parse())
		}
		rin := make([]reflect.Type, len(ins))
		for i, t := range ins {
			rin[i] = t.RT
		}
		rout := make([]reflect.Type, len(outs))
		for i, t := range outs {
			rout[i] = t.RT
		}
		return done(&TypeD{ID: funcID(ins, outs, variadic), Kind: KFunc, In: ins, Out: outs, Variadic: variadic, RT: reflect.FuncOf(rin, rout, variadic)})
	}
	name := p.ident()
	if rt, ok := basicRT[name]; ok {
		return done(&TypeD{ID: name, Kind: KBasic, RT: rt})
	}
	if name == "byte" {
		return typeByIDNoLock("uint8")
	}
	// named types may be recursive (hp.Tree): register a placeholder before filling
	tyMu.Lock()
	if t, ok := tyCache[name]; ok {
		tyMu.Unlock()
		return t
	}
	tyMu.Unlock()
	if name == "hp.Tree" || name == "hp.Box" {
		t := &TypeD{ID: name, Kind: KStruct, Decl: "host"}
		if name == "hp.Tree" {
			t.RT = reflect.TypeOf(Tree{})
		} else {
			t.RT = reflect.TypeOf(Box{})
		}
		t = intern(t)
		if t.Fields == nil {
			fill(t)
		}
		return t
	}
	if t := namedType(name); t != nil {
		return done(t)
	}
	p.i = start
	p.err = "unknown type " + name
	return done(nil)
}

func typeByIDNoLock(id string) *TypeD { return typeByID(id) }

func structIDOf(fs []FieldD) string {
	var b strings.Builder
	b.WriteString("struct{")
	for i, f := range fs {
		if i > 0 {
			b.WriteString("; ")
		}
		b.WriteString(f.Name + " " + f.T.ID)
	}
	b.WriteString("}")
	return b.String()
}

func (t *TypeD) MarshalJSON() ([]byte, error) { return []byte(fmt.Sprintf("%q", t.ID)), nil }
func (t *TypeD) UnmarshalJSON(b []byte) error {
	var s string
	if _, err := fmt.Sscanf(string(b), "%q", &s); err != nil {
		return err
	}
	*t = *internedType(s)
	return nil
}

// internedType returns the canonical descriptor of a type id (types are compared by pointer).
func internedType(id string) *TypeD {
	switch id {
	case "hostError":
		return tyHostError
	case "hostWriter":
		return tyHostWriter
	}
	return typeByID(id)
}

func fixT(t *TypeD) *TypeD {
	if t == nil {
		return nil
	}
	return internedType(t.ID)
}

func (v *Val) fixTypes() {
	if v == nil {
		return
	}
	v.T = fixT(v.T)
	for _, e := range v.Elts {
		e.fixTypes()
	}
	for _, e := range v.Keys {
		e.fixTypes()
	}
	v.Ptr.fixTypes()
	v.Dyn.fixTypes()
	v.Fn.fixTypes()
}

func (e *Expr) fixTypes() {
	if e == nil {
		return
	}
	e.C.fixTypes()
	for _, a := range e.Args {
		a.fixTypes()
	}
}

func (b *Body) fixTypes() {
	if b == nil {
		return
	}
	for i := range b.Muts {
		b.Muts[i].K.fixTypes()
		b.Muts[i].V.fixTypes()
	}
	for _, e := range b.Rets {
		e.fixTypes()
	}
}

// fixTypes re-interns every type of a case read from JSON.
func (c *Case) fixTypes() {
	c.Sig, c.VT = fixT(c.Sig), fixT(c.VT)
	c.Body.fixTypes()
	for _, a := range c.Args {
		a.fixTypes()
	}
	for _, it := range c.Iters {
		for _, a := range it {
			a.fixTypes()
		}
	}
	c.V0.fixTypes()
	c.V1.fixTypes()
	c.V2.fixTypes()
}

// ---- predicates over the grammar ----

// walk calls f on t and every component type (not through named recursion twice).
func (t *TypeD) walk(f func(*TypeD, int), depth int, seen map[*TypeD]bool) {
	if seen[t] {
		return
	}
	seen[t] = true
	f(t, depth)
	if t.Elem != nil {
		t.Elem.walk(f, depth+1, seen)
	}
	if t.Key != nil {
		t.Key.walk(f, depth+1, seen)
	}
	for _, fd := range t.Fields {
		fd.T.walk(f, depth+1, seen)
	}
	for _, x := range t.In {
		x.walk(f, depth+1, seen)
	}
	for _, x := range t.Out {
		x.walk(f, depth+1, seen)
	}
}

// any reports whether some component (including t) satisfies p.
func (t *TypeD) any(p func(*TypeD, int) bool) bool {
	r := false
	t.walk(func(x *TypeD, d int) {
		if p(x, d) {
			r = true
		}
	}, 0, map[*TypeD]bool{})
	return r
}

// hostExpressible: the type can appear in the signature of a host function (no script-declared name inside).
func (t *TypeD) hostExpressible() bool {
	return !t.any(func(x *TypeD, _ int) bool { return x.Decl == "script" })
}

func (t *TypeD) isEmptyIface() bool { return t.Kind == KIface && t.Iface == "empty" }
func (t *TypeD) isHostIface() bool {
	return t.Kind == KIface && t.Iface != "empty" && !strings.HasPrefix(t.Iface, "script:")
}
func (t *TypeD) isScriptIface() bool { return t.Kind == KIface && strings.HasPrefix(t.Iface, "script:") }
func (t *TypeD) nilable() bool {
	switch t.Kind {
	case KPtr, KSlice, KMap, KFunc, KIface:
		return true
	}
	return false
}
func (t *TypeD) comparable() bool { return t.RT.Comparable() && !t.any(func(x *TypeD, _ int) bool { return x.Kind == KIface }) }
func (t *TypeD) isInt() bool {
	switch t.RT.Kind() {
	case reflect.Int, reflect.Int8, reflect.Int16, reflect.Int32, reflect.Int64:
		return t.Kind == KBasic
	}
	return false
}
func (t *TypeD) isUint() bool {
	switch t.RT.Kind() {
	case reflect.Uint, reflect.Uint8, reflect.Uint16, reflect.Uint32, reflect.Uint64, reflect.Uintptr:
		return t.Kind == KBasic
	}
	return false
}
func (t *TypeD) isFloat() bool {
	return t.Kind == KBasic && (t.RT.Kind() == reflect.Float32 || t.RT.Kind() == reflect.Float64)
}
func (t *TypeD) isComplex() bool {
	return t.Kind == KBasic && (t.RT.Kind() == reflect.Complex64 || t.RT.Kind() == reflect.Complex128)
}
func (t *TypeD) isString() bool { return t.Kind == KBasic && t.RT.Kind() == reflect.String }
func (t *TypeD) isBool() bool   { return t.Kind == KBasic && t.RT.Kind() == reflect.Bool }

// implements: can a value of static type t be passed where interface type it is expected (Go assignability).
func (t *TypeD) implements(it *TypeD) bool {
	if it.Kind != KIface {
		return false
	}
	if it.isEmptyIface() {
		return true
	}
	return t.RT.Implements(it.RT)
}
