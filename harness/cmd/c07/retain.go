// Retained wrappers: ONE native function value of a script function (a stored callback, or obtained from Eval / Symbols)
// invoked again while one of its own invocations is still active, invoked repeatedly, or invoked from two host goroutines.
//
//	reenter     the script function re-enters itself THROUGH the host (script R → host.Fire → the stored R → …), depth 1..5;
//	            its result depends on every level's parameters and locals, read after the nested call returned
//	repeat      one retained wrapper called 2..4 times in sequence; its body contains a `defer`
//	concurrent  two host goroutines call one retained wrapper with distinct arguments; the script function passes a
//	            barrier inside a host callback, so that both invocations are active at the same time
//	recvbind    the wrapper of a METHOD of a script value (a method value handed to the host, a deferred method call): the
//	            receiver variable is assigned another value after the wrapper was made and before it is called
//	ifacerecv   the method wrappers of a CONVERSION of a script value to a host interface (`var s fmt.Stringer = p`, an argument of
//	            hp.RegS, `sort.Sort(q)` with pointer and value receivers mixed): the pointee is modified, and the converted
//	            variable reassigned, between the conversion and the host's calls
//
// impl = the wrapper as described; twin = the same recursion / sequence written purely in the script; ref = compiled Go.
package main

import (
	"context"
	"fmt"
	"reflect"
	"sort"
	"strings"
	"sync"
	"time"
)

// the three function shapes of the stream
//
//	0  func(n int, a int) int
//	1  func(n int, a int, s string) (int, string)
//	2  func(n int, p hp.Pt) hp.Pt
type retainT struct {
	env   *nativeEnv
	c     *Case
	mu    sync.Mutex
	f0    func(int, int) int
	f1    func(int, int, string) (int, string)
	f2    func(int, Pt) Pt
	fd    func(string, int) int
	fc    func(int, string) (int, string)
	fm    func(int) int
	fs    fmt.Stringer
	count int
	cond  *sync.Cond
	need  int
}

func (c *Case) k(i int) int { return int(c.Ks[i]) }

// ---- the script text ----

func retainScript(c *Case, twin bool) string {
	fire := func(name string) string {
		if twin {
			return "R" // the same recursion without the host
		}
		return "hp." + name
	}
	k1, k2 := c.k(0), c.k(1)
	s := newScript()
	switch c.Mode {
	case "reenter":
		switch c.Tmpl {
		case 0:
			s.decls = append(s.decls, fmt.Sprintf(`func R(n int, a int) int {
	hp.Rec("R.n", "int", n)
	hp.Rec("R.a", "int", a)
	loc := a*%d + n
	if n == 0 {
		return a + %d
	}
	r := %s(n-1, a+%d)
	hp.Rec("R.after.n", "int", n)
	hp.Rec("R.after.loc", "int", loc)
	return loc + r*2 + n
}`, k1, k2, fire("Fire0"), k1))
			s.decls = append(s.decls, "func Setup() { hp.Reg0(R) }")
			s.run = append(s.run, fmt.Sprintf(`r0 := %s(%d, %d)`, fire("Fire0"), c.Depth, c.Args[0].I), `hp.Rec("res.0", "int", r0)`)
		case 1:
			s.decls = append(s.decls, fmt.Sprintf(`func R(n int, a int, s string) (int, string) {
	hp.Rec("R.n", "int", n)
	hp.Rec("R.s", "string", s)
	loc := a + n*%d
	tag := s + "<"
	if n == 0 {
		return a, s + "."
	}
	r, t := %s(n-1, a*2+%d, s+"x")
	hp.Rec("R.after.a", "int", a)
	hp.Rec("R.after.tag", "string", tag)
	return loc + r, tag + t + ">"
}`, k1, fire("Fire1"), k2))
			s.decls = append(s.decls, "func Setup() { hp.Reg1(R) }")
			s.run = append(s.run, fmt.Sprintf(`r0, r1 := %s(%d, %d, %s)`, fire("Fire1"), c.Depth, c.Args[0].I, quote(c.Args[1].S)),
				`hp.Rec("res.0", "int", r0)`, `hp.Rec("res.1", "string", r1)`)
		default:
			s.decls = append(s.decls, fmt.Sprintf(`func R(n int, p hp.Pt) hp.Pt {
	hp.Rec("R.n", "int", n)
	hp.Rec("R.p", "hp.Pt", p)
	loc := hp.Pt{X: p.X + n, Y: p.Y * 2}
	if n == 0 {
		return p
	}
	q := hp.Pt{X: p.X + %d, Y: p.Y + 1}
	r := %s(n-1, q)
	hp.Rec("R.after.p", "hp.Pt", p)
	hp.Rec("R.after.loc", "hp.Pt", loc)
	return hp.Pt{X: loc.X + r.X, Y: loc.Y + r.Y + n + %d}
}`, k1, fire("Fire2"), k2))
			s.decls = append(s.decls, "func Setup() { hp.Reg2(R) }")
			s.run = append(s.run, fmt.Sprintf(`r0 := %s(%d, hp.Pt{X: %d, Y: %d})`, fire("Fire2"), c.Depth, c.Args[0].I, c.Args[1].I),
				`hp.Rec("res.0", "hp.Pt", r0)`)
		}
	case "repeat":
		s.decls = append(s.decls, fmt.Sprintf(`func R(s string, k int) int {
	defer hp.Rec("R.defer", "string", s)
	hp.Rec("R.run", "string", s)
	loc := k*%d + %d
	return loc
}`, k1, k2))
		s.decls = append(s.decls, "func Setup() { hp.RegD(R) }")
		for i := 0; i+1 < len(c.Args); i += 2 {
			call := fmt.Sprintf("R(%s, %d)", quote(c.Args[i].S), c.Args[i+1].I)
			if !twin {
				call = "hp.FireD" + call[1:]
			}
			s.run = append(s.run, fmt.Sprintf("r%d := %s", i/2, call), fmt.Sprintf(`hp.Rec("res.%d", "int", r%d)`, i/2, i/2))
		}
	case "recvbind":
		s.decls = append(s.decls, fmt.Sprintf(`type Acc struct{ N int }
func (a Acc) Get(k int) int { hp.Rec("Get.N", "int", a.N); return a.N*%d + k }
func (a *Acc) Add(k int) int { a.N += k; return a.N }
func (a Acc) Show() { hp.Rec("Show.N", "int", a.N) }
func Setup() {}`, k1))
		a0, a1, k := c.Args[0].I, c.Args[1].I, c.Args[2].I
		reg := func(e string) string {
			if twin {
				return "mv = " + e
			}
			return "hp.RegM(" + e + ")"
		}
		fireM := fmt.Sprintf("hp.FireM(%d)", k)
		if twin {
			fireM = fmt.Sprintf("mv(%d)", k)
			s.run = append(s.run, "var mv func(int) int")
		}
		s.run = append(s.run,
			// value receiver: copied when the method value is made
			fmt.Sprintf("x := Acc{N: %d}", a0), reg("x.Get"), fmt.Sprintf("x = Acc{N: %d}", a1),
			"r0 := "+fireM, `hp.Rec("res.0", "int", r0)`, `hp.Rec("x.N", "int", x.N)`,
			// pointer receiver: the pointer the variable held
			fmt.Sprintf("p := &Acc{N: %d}", a0), "q := p", reg("p.Add"), fmt.Sprintf("p = &Acc{N: %d}", a1),
			"r1 := "+fireM, `hp.Rec("res.1", "int", r1)`, `hp.Rec("q.N", "int", q.N)`, `hp.Rec("p.N", "int", p.N)`,
			// pointer-receiver method of an addressable value: the address of the variable
			fmt.Sprintf("z := Acc{N: %d}", a0), reg("z.Add"), fmt.Sprintf("z = Acc{N: %d}", a1),
			"r2 := "+fireM, `hp.Rec("res.2", "int", r2)`, `hp.Rec("z.N", "int", z.N)`,
			// deferred call of a value-receiver method
			fmt.Sprintf("func() { y := Acc{N: %d}; defer y.Show(); y = Acc{N: %d}; hp.Rec(\"y.N\", \"int\", y.N) }()", a0, a1))
	case "ifacerecv":
		s.decls = append(s.decls, `type Lab struct {
	N int
	S string
}
func (a Lab) String() string { return fmt.Sprint("Lab<", a.N, a.S, ">") }
type IntS struct {
	V     []int
	Swaps int
}
func (s *IntS) Len() int { return len(s.V) }
func (s IntS) Less(i, j int) bool { return s.V[i] < s.V[j] }
func (s *IntS) Swap(i, j int) { nv := append([]int{}, s.V...); nv[i], nv[j] = nv[j], nv[i]; s.V = nv; s.Swaps++ }
func Setup() {}`)
		a0, a1, a2 := c.Args[0].I, c.Args[1].I, c.Args[2].I
		reg := func(e string) string {
			if twin {
				return "cur = " + e
			}
			return "hp.RegS(" + e + ")"
		}
		fire := func(tag string) []string {
			call := "hp.FireS()"
			if twin {
				call = "cur.String()"
			}
			v := strings.ReplaceAll(tag, ".", "")
			return []string{v + " := " + call, fmt.Sprintf("hp.Rec(%q, \"string\", %s)", tag, v)}
		}
		if twin {
			s.run = append(s.run, "var cur fmt.Stringer")
		}
		var vs []string
		for _, a := range c.Args[3:] {
			vs = append(vs, fmt.Sprint(a.I))
		}
		s.run = append(s.run, fmt.Sprintf(`p := &Lab{N: %d, S: "p"}`, a0), "var s fmt.Stringer = p", reg("s"))
		s.run = append(s.run, fire("s.0")...)
		s.run = append(s.run, fmt.Sprintf("p.N = %d", a1)) // the pointee changes: a value-receiver method sees it
		s.run = append(s.run, fire("s.1")...)
		s.run = append(s.run, fmt.Sprintf(`p = &Lab{N: %d, S: "q"}`, a2)) // the variable changes: the interface does not follow
		s.run = append(s.run, fire("s.2")...)
		s.run = append(s.run, fmt.Sprintf(`x := Lab{N: %d, S: "x"}`, a0), "var t fmt.Stringer = x", reg("t"), fmt.Sprintf("x.N = %d", a1)) // a copy is held
		s.run = append(s.run, fire("t.0")...)
		s.run = append(s.run, reg("p"), fmt.Sprintf("p.N = %d", a0)) // converted at the call
		s.run = append(s.run, fire("u.0")...)
		s.run = append(s.run, fmt.Sprintf("q := &IntS{V: []int{%s}}", strings.Join(vs, ", ")), "sort.Sort(q)",
			`hp.Rec("sorted", "[]int", q.V)`, `hp.Rec("swaps", "int", q.Swaps)`)
	case "concurrent":
		s.decls = append(s.decls, fmt.Sprintf(`func R(a int, s string) (int, string) {
	loc := a*%d + %d
	t := s + "c"
	hp.Barrier()
	return loc + a, t + s
}`, k1, k2))
		s.decls = append(s.decls, "func Setup() { hp.RegC(R) }")
		// the script has no second host goroutine: the twin makes the two calls one after the other
		for i := 0; i+1 < len(c.Args); i += 2 {
			s.run = append(s.run, fmt.Sprintf("a%d, b%d := R(%d, %s)", i/2, i/2, c.Args[i].I, quote(c.Args[i+1].S)),
				fmt.Sprintf(`hp.Rec("g%d.res.0", "int", a%d)`, i/2, i/2), fmt.Sprintf(`hp.Rec("g%d.res.1", "string", b%d)`, i/2, i/2))
		}
	}
	s.decls = append(s.decls, "func Spin() { for {} }") // evaluated under a deadline when the case asks for a cancelled evaluation
	return s.source()
}

// ---- the native twin of the script function (reference) ----

func (rt *retainT) native() {
	c, env := rt.c, rt.env
	k1, k2 := c.k(0), c.k(1)
	ri := func(tag string, v interface{}) { env.recordStatic(tag, nil, v) }
	rt.f0 = func(n, a int) int {
		ri("R.n", n)
		ri("R.a", a)
		loc := a*k1 + n
		if n == 0 {
			return a + k2
		}
		r := rt.f0(n-1, a+k1)
		ri("R.after.n", n)
		ri("R.after.loc", loc)
		return loc + r*2 + n
	}
	rt.f1 = func(n, a int, s string) (int, string) {
		ri("R.n", n)
		ri("R.s", s)
		loc := a + n*k1
		tag := s + "<"
		if n == 0 {
			return a, s + "."
		}
		r, t := rt.f1(n-1, a*2+k2, s+"x")
		ri("R.after.a", a)
		ri("R.after.tag", tag)
		return loc + r, tag + t + ">"
	}
	rt.f2 = func(n int, p Pt) Pt {
		ri("R.n", n)
		ri("R.p", p)
		loc := Pt{X: p.X + n, Y: p.Y * 2}
		if n == 0 {
			return p
		}
		q := Pt{X: p.X + k1, Y: p.Y + 1}
		r := rt.f2(n-1, q)
		ri("R.after.p", p)
		ri("R.after.loc", loc)
		return Pt{X: loc.X + r.X, Y: loc.Y + r.Y + n + k2}
	}
	rt.fd = func(s string, k int) int {
		defer ri("R.defer", s)
		ri("R.run", s)
		loc := k*k1 + k2
		return loc
	}
	rt.fc = func(a int, s string) (int, string) {
		loc := a*k1 + k2
		t := s + "c"
		rt.barrier()
		return loc + a, t + s
	}
}

// the native twin of the script type Acc (mode recvbind)
type acc struct {
	N  int
	ri func(string, interface{})
	k1 int
}

func (a acc) Get(k int) int  { a.ri("Get.N", a.N); return a.N*a.k1 + k }
func (a *acc) Add(k int) int { a.N += k; return a.N }
func (a acc) Show()          { a.ri("Show.N", a.N) }

// recvbind: the reference of mode recvbind — what compiled Go does with the same statements.
func (rt *retainT) recvbind() {
	c, env := rt.c, rt.env
	ri := func(tag string, v interface{}) { env.recordStatic(tag, nil, v) }
	mk := func(n int64) acc { return acc{N: int(n), ri: ri, k1: c.k(0)} }
	a0, a1, k := c.Args[0].I, c.Args[1].I, int(c.Args[2].I)
	x := mk(a0)
	rt.fm = x.Get
	x = mk(a1)
	ri("res.0", rt.fm(k))
	ri("x.N", x.N)
	p := new(acc)
	*p = mk(a0)
	q := p
	rt.fm = p.Add
	p = new(acc)
	*p = mk(a1)
	ri("res.1", rt.fm(k))
	ri("q.N", q.N)
	ri("p.N", p.N)
	z := mk(a0)
	rt.fm = z.Add
	z = mk(a1)
	ri("res.2", rt.fm(k))
	ri("z.N", z.N)
	func() {
		y := mk(a0)
		defer y.Show()
		y = mk(a1)
		ri("y.N", y.N)
	}()
}

// the native twins of the script types Lab and IntS (mode ifacerecv)
type lab struct {
	N int
	S string
}

func (a lab) String() string { return fmt.Sprint("Lab<", a.N, a.S, ">") }

type intS struct {
	V     []int
	Swaps int
}

func (s *intS) Len() int          { return len(s.V) }
func (s intS) Less(i, j int) bool { return s.V[i] < s.V[j] }
func (s *intS) Swap(i, j int) {
	nv := append([]int{}, s.V...)
	nv[i], nv[j] = nv[j], nv[i]
	s.V = nv
	s.Swaps++
}

// ifacerecv: the reference of mode ifacerecv.
func (rt *retainT) ifacerecv() {
	c, env := rt.c, rt.env
	ri := func(tag string, v interface{}) { env.recordStatic(tag, nil, v) }
	a0, a1, a2 := int(c.Args[0].I), int(c.Args[1].I), int(c.Args[2].I)
	p := &lab{N: a0, S: "p"}
	var s fmt.Stringer = p
	rt.fs = s
	ri("s.0", rt.fs.String())
	p.N = a1
	ri("s.1", rt.fs.String())
	p = &lab{N: a2, S: "q"}
	ri("s.2", rt.fs.String())
	x := lab{N: a0, S: "x"}
	var t fmt.Stringer = x
	rt.fs = t
	x.N = a1
	ri("t.0", rt.fs.String())
	rt.fs = p
	p.N = a0
	ri("u.0", rt.fs.String())
	q := &intS{}
	for _, a := range c.Args[3:] {
		q.V = append(q.V, int(a.I))
	}
	sort.Sort(q)
	ri("sorted", q.V)
	ri("swaps", q.Swaps)
}

// barrier: wait until `need` invocations are inside (or 3 s have passed: an implementation that serialises the calls).
func (rt *retainT) barrier() {
	rt.mu.Lock()
	defer rt.mu.Unlock()
	rt.count++
	if rt.count >= rt.need {
		rt.cond.Broadcast()
		return
	}
	deadline := time.Now().Add(3 * time.Second)
	timer := time.AfterFunc(3*time.Second, func() { rt.mu.Lock(); rt.cond.Broadcast(); rt.mu.Unlock() })
	defer timer.Stop()
	for rt.count < rt.need && time.Now().Before(deadline) {
		rt.cond.Wait()
	}
}

func (rt *retainT) exports() map[string]reflect.Value {
	return map[string]reflect.Value{
		"Reg0":    reflect.ValueOf(func(f func(int, int) int) { rt.f0 = f }),
		"Reg1":    reflect.ValueOf(func(f func(int, int, string) (int, string)) { rt.f1 = f }),
		"Reg2":    reflect.ValueOf(func(f func(int, Pt) Pt) { rt.f2 = f }),
		"RegD":    reflect.ValueOf(func(f func(string, int) int) { rt.fd = f }),
		"RegC":    reflect.ValueOf(func(f func(int, string) (int, string)) { rt.fc = f }),
		"RegS":    reflect.ValueOf(func(s fmt.Stringer) { rt.fs = s }),
		"FireS":   reflect.ValueOf(func() string { return rt.fs.String() }),
		"RegM":    reflect.ValueOf(func(f func(int) int) { rt.fm = f }),
		"FireM":   reflect.ValueOf(func(k int) int { return rt.fm(k) }),
		"Fire0":   reflect.ValueOf(func(n, a int) int { return rt.f0(n, a) }),
		"Fire1":   reflect.ValueOf(func(n, a int, s string) (int, string) { return rt.f1(n, a, s) }),
		"Fire2":   reflect.ValueOf(func(n int, p Pt) Pt { return rt.f2(n, p) }),
		"FireD":   reflect.ValueOf(func(s string, k int) int { return rt.fd(s, k) }),
		"Barrier": reflect.ValueOf(func() { rt.barrier() }),
	}
}

// drive makes the calls of the case on the registered function values (host side) and records what the caller sees.
func (rt *retainT) drive() {
	c, env := rt.c, rt.env
	switch c.Mode {
	case "recvbind":
		rt.recvbind()
	case "ifacerecv":
		rt.ifacerecv()
	case "reenter":
		switch c.Tmpl {
		case 0:
			env.recordStatic("res.0", nil, rt.f0(c.Depth, int(c.Args[0].I)))
		case 1:
			a, b := rt.f1(c.Depth, int(c.Args[0].I), c.Args[1].S)
			env.recordStatic("res.0", nil, a)
			env.recordStatic("res.1", nil, b)
		default:
			env.recordStatic("res.0", nil, rt.f2(c.Depth, Pt{int(c.Args[0].I), int(c.Args[1].I)}))
		}
	case "repeat":
		for i := 0; i+1 < len(c.Args); i += 2 {
			env.recordStatic(fmt.Sprintf("res.%d", i/2), nil, rt.fd(c.Args[i].S, int(c.Args[i+1].I)))
		}
	case "concurrent":
		n := len(c.Args) / 2
		type resT struct {
			a int
			b string
			p string
		}
		res := make([]resT, n)
		var wg sync.WaitGroup
		for g := 0; g < n; g++ {
			wg.Add(1)
			go func(g int) {
				defer wg.Done()
				defer func() {
					if r := recover(); r != nil {
						res[g].p = firstLine(fmt.Sprint(r))
					}
				}()
				res[g].a, res[g].b = rt.fc(int(c.Args[2*g].I), c.Args[2*g+1].S)
			}(g)
		}
		wg.Wait()
		for g := 0; g < n; g++ {
			if res[g].p != "" {
				env.recordStatic(fmt.Sprintf("g%d.panic", g), nil, res[g].p)
				continue
			}
			env.recordStatic(fmt.Sprintf("g%d.res.0", g), nil, res[g].a)
			env.recordStatic(fmt.Sprintf("g%d.res.1", g), nil, res[g].b)
		}
	}
}

func newRetain(c *Case, env *nativeEnv, need int) *retainT {
	rt := &retainT{env: env, c: c, need: need}
	rt.cond = sync.NewCond(&rt.mu)
	return rt
}

func refRetain(c *Case, env *nativeEnv) {
	need := 1
	if c.Mode == "concurrent" {
		need = len(c.Args) / 2
	}
	rt := newRetain(c, env, need)
	rt.native()
	rt.drive()
}

func twinRetain(c *Case) outcome {
	env := newEnv()
	src := retainScript(c, true)
	return guarded(env, src, func(ctx context.Context) string {
		rt := newRetain(c, env, 1)
		ex := exportsFor(c, env, reflect.Value{}, reflect.Value{}, reflect.Value{})
		for k, v := range rt.exports() {
			ex["hp/hp"][k] = v
		}
		i, err := newInterp(ex)
		if err != nil {
			return "evalerr:" + err.Error()
		}
		return evalRun(ctx, i, env, src, false)
	})
}

func implRetain(c *Case, env *nativeEnv) outcome {
	src := retainScript(c, false)
	return guarded(env, src, func(ctx context.Context) string {
		need := 1
		if c.Mode == "concurrent" {
			need = len(c.Args) / 2
		}
		rt := newRetain(c, env, need)
		ex := exportsFor(c, env, reflect.Value{}, reflect.Value{}, reflect.Value{})
		for k, v := range rt.exports() {
			ex["hp/hp"][k] = v
		}
		i, err := newInterp(ex)
		if err != nil {
			return "evalerr:" + err.Error()
		}
		if _, err := i.EvalWithContext(ctx, src); err != nil {
			return errStatus(err)
		}
		// how the host comes to hold the ONE function value
		if c.Via == "callback" {
			if _, err := i.EvalWithContext(ctx, "main.Setup()"); err != nil {
				return errStatus(err)
			}
		} else {
			var fv reflect.Value
			switch c.Via {
			case "eval-plain":
				fv, err = i.EvalWithContext(ctx, "R")
			case "symbols":
				fv = i.Symbols("main")["main"]["R"]
			default:
				fv, err = i.EvalWithContext(ctx, "main.R")
			}
			if err != nil {
				return errStatus(err)
			}
			if !fv.IsValid() {
				return "nosymbol"
			}
			ok := false
			switch x := fv.Interface().(type) {
			case func(int, int) int:
				rt.f0, ok = x, c.Mode == "reenter" && c.Tmpl == 0
			case func(int, int, string) (int, string):
				rt.f1, ok = x, c.Mode == "reenter" && c.Tmpl == 1
			case func(int, Pt) Pt:
				rt.f2, ok = x, c.Mode == "reenter" && c.Tmpl == 2
			case func(string, int) int:
				rt.fd, ok = x, c.Mode == "repeat"
			case func(int, string) (int, string):
				rt.fc, ok = x, c.Mode == "concurrent"
			}
			if !ok {
				return "typeassert-failed:" + fv.Type().String()
			}
		}
		if c.AfterCancel {
			// a later evaluation is cancelled: the function value the host holds (made by Eval / Symbols: no epoch; registered by
			// Setup: the epoch of that completed evaluation) must go on working
			cctx, cancel := context.WithTimeout(ctx, 30*time.Millisecond)
			_, cerr := i.EvalWithContext(cctx, "main.Spin()")
			cancel()
			if cerr == nil {
				return "cancelled-evaluation-returned"
			}
		}
		if c.Caller == "script" {
			if _, err := i.EvalWithContext(ctx, "main.Run()"); err != nil {
				return errStatus(err)
			}
			return "ok"
		}
		rt.drive()
		return "ok"
	})
}

func (g *genCfg) genRetainCase(id string) *Case {
	r := g.rng
	c := &Case{ID: id, Dir: "retain"}
	c.Mode = []string{"reenter", "reenter", "reenter", "repeat", "concurrent", "recvbind", "ifacerecv"}[r.Intn(7)]
	c.Via = []string{"callback", "eval-qual", "eval-plain", "symbols"}[r.Intn(4)]
	c.Caller = "host"
	c.Ks = []int64{int64(2 + r.Intn(7)), int64(r.Intn(50) - 10)}
	c.AfterCancel = r.Intn(4) == 0
	iv := func() *Val { return &Val{T: typeByID("int"), I: int64(r.Intn(2000) - 1000)} }
	sv := func() *Val { return &Val{T: typeByID("string"), S: []string{"", "a", "go", "yaegi", "q"}[r.Intn(5)]} }
	switch c.Mode {
	case "ifacerecv":
		c.Via, c.Caller = "callback", "script"
		c.Args = []*Val{iv(), iv(), iv()}
		for c.Args[1].I == c.Args[0].I {
			c.Args[1] = iv()
		}
		for c.Args[2].I == c.Args[0].I || c.Args[2].I == c.Args[1].I {
			c.Args[2] = iv()
		}
		for n := 3 + r.Intn(5); n > 0; n-- {
			c.Args = append(c.Args, &Val{T: typeByID("int"), I: int64(r.Intn(40) - 20)})
		}
	case "recvbind":
		c.Via, c.Caller = "callback", "script"
		a0 := iv()
		a1 := iv()
		for a1.I == a0.I {
			a1 = iv()
		}
		c.Args = []*Val{a0, a1, iv()}
	case "reenter":
		c.Tmpl = r.Intn(3)
		c.Depth = 1 + r.Intn(5)
		if r.Intn(3) == 0 {
			c.Caller = "script"
		}
		switch c.Tmpl {
		case 0:
			c.Args = []*Val{iv()}
		case 1:
			c.Args = []*Val{iv(), sv()}
		default:
			c.Args = []*Val{iv(), iv()}
		}
	case "repeat":
		n := 2 + r.Intn(3)
		for i := 0; i < n; i++ {
			c.Args = append(c.Args, &Val{T: typeByID("string"), S: fmt.Sprintf("%s%d", sv().S, i)}, iv())
		}
		if c.Via == "callback" && r.Intn(2) == 0 {
			c.Caller = "script"
		}
	case "concurrent":
		for i := 0; i < 2; i++ {
			c.Args = append(c.Args, iv(), &Val{T: typeByID("string"), S: fmt.Sprintf("%s%d", sv().S, i)})
		}
	}
	return c
}

var _ = strings.TrimSpace
