// Execution of a case in its three modes.
//
//	impl  the call crosses the boundary: script caller + host callee (s2h, meth), host caller + script callee (h2s),
//	      host and script accessing the same variable (var)
//	twin  the same call made entirely inside the script (script caller + script-defined twin of the callee)
//	ref   the same call made entirely in compiled Go (native caller + native callee): the reference
package main

import (
	"context"
	"fmt"
	"io"
	"log"
	"reflect"
	"strings"
	"time"

	"github.com/traefik/yaegi/interp"
	"github.com/traefik/yaegi/stdlib"
)

type outcome struct {
	Status string `json:"status"` // ok | evalerr:… | panic:… | crash:… | timeout
	Obs    []obsT `json:"obs"`
	Rep    []obsT `json:"rep,omitempty"`
	Src    string `json:"src,omitempty"`
}

func (o outcome) key() string {
	var b strings.Builder
	b.WriteString(o.Status)
	for _, x := range o.Obs {
		b.WriteString("\n" + x.Tag + "=" + x.V)
	}
	return b.String()
}

const caseTimeout = 8 * time.Second

// ---- recording through the boundary ----

func (env *nativeEnv) recordStatic(tag string, static reflect.Type, x interface{}) {
	if env.quiet > 0 {
		return
	}
	rv := reflect.ValueOf(x)
	if static != nil && static.Kind() == reflect.Interface {
		slot := reflect.New(static).Elem()
		if rv.IsValid() {
			if !rv.Type().AssignableTo(static) {
				env.rec.obs = append(env.rec.obs, obsT{tag, "NOTASSIGNABLE(" + (&canonCtx{env: env}).canon(rv) + ")"})
				return
			}
			slot.Set(rv)
		}
		env.record(tag, slot)
		return
	}
	env.record(tag, rv)
}

func staticOf(id string) reflect.Type {
	if id == "" {
		return nil
	}
	return typeByID(id).RT
}

// exportsFor builds the host package `hp` of one case.
func exportsFor(c *Case, env *nativeEnv, callee reflect.Value, mkArgs reflect.Value, hostVar reflect.Value) interp.Exports {
	m := map[string]reflect.Value{
		"Rec": reflect.ValueOf(func(tag, typeID string, v interface{}) { env.recordStatic(tag, staticOf(typeID), v) }),
		"RecN": reflect.ValueOf(func(vs ...interface{}) {
			for i, v := range vs {
				env.recordStatic(fmt.Sprintf("res.%d", i), nil, v)
			}
		}),
		"HInc":       reflect.ValueOf(func(x int) int { return env.hinc(x) }),
		"Done":       reflect.ValueOf(func() { env.signal() }),
		"Wait":       reflect.ValueOf(func() { env.wait() }),
		"NewWriter":  reflect.ValueOf(func() *hostWriter { return &hostWriter{} }),
		"NewCounter": reflect.ValueOf(func(n int) *Counter { return &Counter{N: n, env: env} }),
		"NewHolder":  reflect.ValueOf(func(n int) Holder { return Holder{"h", &Counter{N: n, env: env}} }),
		"Pt":         reflect.ValueOf((*Pt)(nil)),
		"Color":      reflect.ValueOf((*Color)(nil)),
		"Temp":       reflect.ValueOf((*Temp)(nil)),
		"Names":      reflect.ValueOf((*Names)(nil)),
		"Op":         reflect.ValueOf((*Op)(nil)),
		"Box":        reflect.ValueOf((*Box)(nil)),
		"Tree":       reflect.ValueOf((*Tree)(nil)),
		"Counter":    reflect.ValueOf((*Counter)(nil)),
		"Holder":     reflect.ValueOf((*Holder)(nil)),
	}
	if callee.IsValid() {
		if c.Ctx == "go" {
			// the go statement: the callee tells the waiting script when it has returned
			inner := callee
			callee = reflect.MakeFunc(inner.Type(), func(in []reflect.Value) []reflect.Value {
				defer env.signal()
				if inner.Type().IsVariadic() {
					return inner.CallSlice(in)
				}
				return inner.Call(in)
			})
		}
		m["F"] = callee
	}
	if mkArgs.IsValid() {
		m["MkArgs"] = mkArgs
	}
	if hostVar.IsValid() {
		m["V"] = hostVar
	}
	return interp.Exports{"hp/hp": m}
}

func (env *nativeEnv) signal() {
	select {
	case env.done <- struct{}{}:
	default:
	}
}

// wait blocks until the callee of a go statement has returned (recorded as an observation only when it does not).
func (env *nativeEnv) wait() {
	select {
	case <-env.done:
	case <-time.After(3 * time.Second):
		env.rec.obs = append(env.rec.obs, obsT{"Wait", "timeout"})
	}
}

func newEnv() *nativeEnv {
	env := &nativeEnv{rec: &recorder{}, done: make(chan struct{}, 8)}
	env.hinc = func(x int) int { env.record("HInc.0", reflect.ValueOf(x)); return x + 1000 }
	env.sinc = func(x int) int { env.record("SInc.0", reflect.ValueOf(x)); return x*2 + 1 }
	return env
}

// ---- script rendering ----

const scriptHead = `package main

import (
	"errors"
	"fmt"
	"io"
	"sort"

	"hp"
)

var _ = errors.New
var _ = fmt.Sprint
var _ io.Writer
var _ sort.Interface

`

const scriptSInc = `func SInc(x int) int { hp.Rec("SInc.0", "int", x); return x*2 + 1 }
`

type scriptT struct {
	cx    *litCtx
	decls []string
	run   []string
}

func newScript() *scriptT {
	return &scriptT{cx: &litCtx{helpers: map[string]string{}, level: -1}}
}

func (s *scriptT) source() string {
	var b strings.Builder
	b.WriteString(scriptHead)
	b.WriteString(scriptPrelude)
	b.WriteString(scriptSInc)
	names := make([]string, 0, len(s.cx.helpers))
	for n := range s.cx.helpers {
		names = append(names, n)
	}
	sortStrings(names)
	for _, n := range names {
		b.WriteString(s.cx.helpers[n] + "\n")
	}
	for _, d := range s.decls {
		b.WriteString(d + "\n")
	}
	b.WriteString("func Run() {\n")
	for _, l := range s.run {
		b.WriteString("\t" + l + "\n")
	}
	b.WriteString("}\n")
	return b.String()
}

func sortStrings(a []string) {
	for i := 1; i < len(a); i++ {
		for j := i; j > 0 && a[j] < a[j-1]; j-- {
			a[j], a[j-1] = a[j-1], a[j]
		}
	}
}

// paramTypeOf: static type expected for argument k of the call.
func paramTypeOf(c *Case, k int) *TypeD {
	n := len(c.Sig.In)
	if c.Sig.Variadic && k >= n-1 {
		if c.Spread {
			return c.Sig.In[n-1]
		}
		return c.Sig.In[n-1].Elem
	}
	return c.Sig.In[k]
}

func refLike(t *TypeD) bool { return t.Kind == KPtr || t.Kind == KSlice || t.Kind == KMap }

// renderCaller appends the caller side (Run) of a call case. calleeExpr is `hp.F`, `F` or a method selector.
func (s *scriptT) renderCaller(c *Case, calleeExpr string, setup []string) {
	cx := s.cx
	s.run = append(s.run, setup...)
	if c.Ctx == "defineloop" {
		s.renderDefineLoop(c, calleeExpr)
		return
	}
	var args []string
	type wparam = struct{ name, typ string }
	var wps []wparam
	if c.Dir == "meth" {
		switch c.Recv {
		case "val":
			wps = append(wps, wparam{"cv", "hp.Counter"})
		case "iface":
			wps = append(wps, wparam{"ci", "fmt.Stringer"})
		case "mvalue", "sptrmv":
			wps = append(wps, wparam{"mv", c.Sig.ID})
		case "embedded":
			wps = append(wps, wparam{"ch", "hp.Holder"})
		default:
			wps = append(wps, wparam{"cp", "*hp.Counter"})
		}
	}
	switch c.Callee {
	case "fnvar":
		// the host function held in a variable (its type is the host's: callBin)
		s.run = append(s.run, "fv := "+calleeExpr)
		wps = append(wps, wparam{"fv", c.Sig.ID})
		calleeExpr = "fv"
	case "fntyped":
		// … in a variable of a function type written by the script: the call goes through `call`, which finds a host function
		s.run = append(s.run, "var fv "+c.Sig.ID+" = "+calleeExpr)
		wps = append(wps, wparam{"fv", c.Sig.ID})
		calleeExpr = "fv"
	}
	for k, v := range c.Args {
		if c.ArgSrc != "" {
			break // all arguments come from one nested call
		}
		pt := paramTypeOf(c, k)
		name := fmt.Sprintf("v%d", k)
		switch c.Forms[k] {
		case "loopvar":
			args = append(args, "b") // the variable of the loop around the call (ctx condloop)
		case "decl":
			// the function is declared at top level and passed by name (a *node in the frame)
			fname := fmt.Sprintf("cb%d", k)
			s.decls = append(s.decls, cx.renderFuncDecl(fname, v.T, v.Fn))
			args = append(args, fname)
		case "boxedvar":
			// an interface{} variable that received its value from a script-interface variable (keeps the valueInterface box)
			s.run = append(s.run, fmt.Sprintf("var %sb MS = %s", name, cx.lit(v, false)), fmt.Sprintf("var %s interface{} = %sb", name, name))
			wps = append(wps, wparam{name, pt.ID})
			args = append(args, name)
		case "var":
			if pt.Kind == KIface || pt.Decl != "" || v.T.Kind == KFunc {
				s.run = append(s.run, fmt.Sprintf("var %s %s = %s", name, pt.ID, cx.lit(v, false)))
			} else {
				s.run = append(s.run, fmt.Sprintf("%s := %s", name, cx.lit(v, false)))
			}
			wps = append(wps, wparam{name, pt.ID})
			if c.Spread && k == len(c.Args)-1 {
				name += "..."
			}
			args = append(args, name)
		case "const":
			if v.Nil && pt.nilable() && c.Spread && k == len(c.Args)-1 {
				args = append(args, "nil...")
			} else if v.Nil && pt.nilable() {
				args = append(args, "nil")
			} else {
				args = append(args, cx.lit(v, true))
			}
		default: // lit
			if pt.Kind == KIface && !v.Nil {
				d := cx.lit(v.Dyn, false)
				switch v.Dyn.T {
				case tyHostError:
					d = "errors.New(" + quote(v.Dyn.S) + ")"
				case tyHostWriter:
					d = "hp.NewWriter()"
				}
				if v.Addr {
					d = "&" + d
				}
				args = append(args, d)
			} else {
				args = append(args, cx.lit(v, false))
			}
		}
	}
	switch c.ArgSrc {
	case "scriptcall":
		wps = keepCallee(wps)
		lits := make([]string, len(c.Args))
		tys := make([]string, len(c.Args))
		for k, v := range c.Args {
			lits[k] = cx.lit(v, false)
			tys[k] = paramTypeOf(c, k).ID
		}
		s.decls = append(s.decls, fmt.Sprintf("func mkArgs() (%s) { return %s }", strings.Join(tys, ", "), strings.Join(lits, ", ")))
		args = []string{"mkArgs()"}
	case "hostcall":
		args = []string{"hp.MkArgs()"}
		wps = keepCallee(wps)
	}
	call := calleeExpr + "(" + strings.Join(args, ", ") + ")"
	n := len(c.Sig.Out)
	rs := make([]string, n)
	for i := range rs {
		rs[i] = fmt.Sprintf("r%d", i)
	}
	outTypes := make([]string, n)
	for i, o := range c.Sig.Out {
		outTypes[i] = o.ID
	}
	recorded := make([]bool, n)
	for i := range recorded {
		recorded[i] = true
	}
	wdecl := func(results, ret string) (string, string) {
		ps := make([]string, len(wps))
		as := make([]string, len(wps))
		for i, p := range wps {
			ps[i] = p.name + " " + p.typ
			as[i] = p.name
			if c.Spread && strings.HasPrefix(p.typ, "[]") && i == len(wps)-1 && strings.HasSuffix(args[len(args)-1], "...") {
				// the spread variable travels as a slice
			}
		}
		return fmt.Sprintf("func W(%s) %s { %s }", strings.Join(ps, ", "), results, ret), "W(" + strings.Join(as, ", ") + ")"
	}
	switch c.Ctx {
	case "define":
		if n > 0 {
			s.run = append(s.run, strings.Join(rs, ", ")+" := "+call)
		} else {
			s.run = append(s.run, call)
		}
	case "assign":
		for i := range rs {
			s.run = append(s.run, fmt.Sprintf("var %s %s", rs[i], outTypes[i]))
		}
		s.run = append(s.run, strings.Join(rs, ", ")+" = "+call)
	case "blank":
		lhs := make([]string, n)
		all := true
		for i := range lhs {
			if c.Blank[i] {
				lhs[i] = "_"
				recorded[i] = false
			} else {
				lhs[i] = rs[i]
				all = false
			}
		}
		op := " := "
		if all {
			op = " = "
		}
		s.run = append(s.run, strings.Join(lhs, ", ")+op+call)
	case "return":
		res := "(" + strings.Join(outTypes, ", ") + ")"
		d, use := wdecl(res, "return "+call)
		s.decls = append(s.decls, d)
		s.run = append(s.run, strings.Join(rs, ", ")+" := "+use)
	case "retswap":
		k := "41"
		if outTypes[0] == "string" {
			k = `"k"`
		}
		d, use := wdecl("(a "+outTypes[0]+", b "+outTypes[0]+")", "a = "+k+"; return "+call+", a")
		s.decls = append(s.decls, d)
		s.run = append(s.run, "r0, r1 := "+use, fmt.Sprintf("hp.Rec(\"ret.1\", %q, r1)", outTypes[0]))
	case "assignmap":
		for i := 1; i < n; i++ {
			s.run = append(s.run, fmt.Sprintf("var %s %s", rs[i], outTypes[i]))
		}
		s.run = append(s.run, "m0 := map[string]"+outTypes[0]+"{}")
		s.run = append(s.run, `m0["k"], `+strings.Join(rs[1:], ", ")+" = "+call, `r0 := m0["k"]`)
	case "retpos":
		d, use := wdecl("(int, "+outTypes[0]+")", "return 7, "+call)
		s.decls = append(s.decls, d)
		s.run = append(s.run, "_, r0 := "+use)
	case "nested":
		s.run = append(s.run, "hp.RecN("+call+")")
		for i := range recorded {
			recorded[i] = false
		}
	case "stmt":
		s.run = append(s.run, call)
		for i := range recorded {
			recorded[i] = false
		}
	case "defer":
		if c.Rebind && c.Recv == "ptr" {
			// the receiver variable gets another value between the defer statement and the deferred call
			s.run = append(s.run, "func() { defer "+call+"; cp = hp.NewCounter(50) }()")
		} else {
			s.run = append(s.run, "func() { defer "+call+" }()")
		}
		for i := range recorded {
			recorded[i] = false
		}
	case "go":
		// the callee signals when it has returned; the results of a go statement are discarded
		if c.Rebind && c.Recv == "ptr" {
			s.run = append(s.run, "go "+call, "cp = hp.NewCounter(50)", "hp.Wait()")
		} else {
			s.run = append(s.run, "go "+call, "hp.Wait()")
		}
		for i := range recorded {
			recorded[i] = false
		}
	case "condloop":
		seq := make([]string, len(c.Seq))
		for i, b := range c.Seq {
			seq[i] = fmt.Sprint(b)
		}
		yes, no := `hp.Rec("c", "bool", true)`, `hp.Rec("c", "bool", false)`
		var stmt string
		switch c.CondOp {
		case "and":
			stmt = "if " + call + " && t { " + yes + " } else { " + no + " }"
		case "or":
			stmt = "if " + call + " || fl { " + yes + " } else { " + no + " }"
		case "rhsand":
			stmt = "if t && " + call + " { " + yes + " } else { " + no + " }"
		case "not":
			stmt = "if !" + call + " { " + yes + " } else { " + no + " }"
		case "for":
			stmt = "for " + call + " { " + yes + "; break }"
		case "andassign":
			stmt = "ok := " + call + ` && t; hp.Rec("c", "bool", ok)`
		case "orassign":
			stmt = "ok := " + call + ` || fl; hp.Rec("c", "bool", ok)`
		default:
			stmt = "if " + call + " { " + yes + " } else { " + no + " }"
		}
		s.run = append(s.run, "t, fl := true, false", "_, _ = t, fl", "for _, b := range []bool{"+strings.Join(seq, ", ")+"} { "+stmt+" }")
		recorded[0] = false
	case "cond":
		s.run = append(s.run, "if "+call+` { hp.Rec("res.0", "bool", true) } else { hp.Rec("res.0", "bool", false) }`)
		recorded[0] = false
	case "expr":
		if outTypes[0] == "int" {
			s.run = append(s.run, "r0 := "+call+" + 0")
		} else {
			s.run = append(s.run, "r0 := "+call+` + ""`)
		}
	}
	for i := range rs {
		if recorded[i] {
			s.run = append(s.run, fmt.Sprintf("hp.Rec(%q, %q, %s)", fmt.Sprintf("res.%d", i), outTypes[i], rs[i]))
		}
	}
	if c.Assert {
		for i, dt := range assertTargets(c) {
			if dt != nil && recorded[i] {
				s.run = append(s.run, fmt.Sprintf("_, ok%d := r%d.(%s); hp.Rec(%q, \"bool\", ok%d)", i, i, dt.ID, fmt.Sprintf("assert.%d", i), i))
			}
		}
	}
	if c.ArgSrc == "" {
		for k := range c.Args {
			pt := paramTypeOf(c, k)
			if c.Forms[k] == "var" && refLike(pt) {
				s.run = append(s.run, fmt.Sprintf("hp.Rec(%q, %q, v%d)", fmt.Sprintf("after.%d", k), pt.ID, k))
			}
		}
	}
	if c.Rebind {
		s.run = append(s.run, `hp.Rec("old.N", "int", old.Get())`, `hp.Rec("new.N", "int", cp.Get())`)
	}
}

// renderDefineLoop: `q0, q1 := callee(a0s[k], a1s[k])` in a loop, a pointer to / closure over each declared variable kept after every
// execution and read after the loop.
func (s *scriptT) renderDefineLoop(c *Case, calleeExpr string) {
	cx := s.cx
	switch c.Callee {
	case "fnvar":
		s.run = append(s.run, "fv := "+calleeExpr)
		calleeExpr = "fv"
	case "fntyped":
		s.run = append(s.run, "var fv "+c.Sig.ID+" = "+calleeExpr)
		calleeExpr = "fv"
	}
	n := len(c.Sig.In)
	var qs, as []string
	for i, t := range c.Sig.In {
		lits := make([]string, len(c.Iters))
		for k, it := range c.Iters {
			lits[k] = cx.lit(it[i], false)
		}
		s.run = append(s.run, fmt.Sprintf("a%ds := []%s{%s}", i, t.ID, strings.Join(lits, ", ")))
		switch c.Capture[i] {
		case "ptr":
			s.run = append(s.run, fmt.Sprintf("var k%ds []*%s", i, t.ID))
		case "closure":
			s.run = append(s.run, fmt.Sprintf("var k%ds []func() %s", i, t.ID))
		}
		qs = append(qs, fmt.Sprintf("q%d", i))
		as = append(as, fmt.Sprintf("a%ds[k]", i))
	}
	body := []string{strings.Join(qs, ", ") + " := " + calleeExpr + "(" + strings.Join(as, ", ") + ")"}
	var reads []string
	for i, t := range c.Sig.In {
		switch c.Capture[i] {
		case "ptr":
			body = append(body, fmt.Sprintf("k%ds = append(k%ds, &q%d)", i, i, i))
			reads = append(reads, fmt.Sprintf("hp.Rec(%q, %q, *k%ds[k])", fmt.Sprintf("q%d", i), t.ID, i))
		case "closure":
			body = append(body, fmt.Sprintf("k%ds = append(k%ds, func() %s { return q%d })", i, i, t.ID, i))
			reads = append(reads, fmt.Sprintf("hp.Rec(%q, %q, k%ds[k]())", fmt.Sprintf("q%d", i), t.ID, i))
		default:
			body = append(body, fmt.Sprintf("_ = q%d", i))
		}
	}
	_ = n
	s.run = append(s.run, "for k := range a0s { "+strings.Join(body, "; ")+" }")
	if len(reads) > 0 {
		s.run = append(s.run, "for k := range a0s { "+strings.Join(reads, "; ")+" }")
	}
}

// keepCallee: the parameters of the wrapper function W that stand for the callee (receiver, method value, function variable).
func keepCallee(wps []struct{ name, typ string }) []struct{ name, typ string } {
	var out []struct{ name, typ string }
	for _, p := range wps {
		switch p.name {
		case "cv", "ci", "mv", "ch", "cp", "fv":
			out = append(out, p)
		}
	}
	return out
}

// assertTargets: for each result, the dynamic type the script may assert it back to (nil if none): the result
// echoes an interface-typed argument whose dynamic type the script can spell.
func assertTargets(c *Case) []*TypeD {
	out := make([]*TypeD, len(c.Sig.Out))
	if c.Body == nil || c.Spread || c.ArgSrc != "" {
		return out
	}
	for j, e := range c.Body.Rets {
		if e.Op != "p" || e.D != 0 || e.I >= len(c.Args) || c.Sig.Variadic && e.I >= len(c.Sig.In)-1 {
			continue
		}
		a := c.Args[e.I]
		if c.Sig.Out[j].Kind != KIface || a.T.Kind != KIface || a.Nil || a.Addr {
			continue
		}
		if a.Dyn.T == tyHostError || a.Dyn.T == tyHostWriter || a.Dyn.T.Kind == KFunc {
			continue
		}
		out[j] = a.Dyn.T
	}
	return out
}

// renderCallee renders the script definition of the callee (twin / h2s).
func (s *scriptT) renderCallee(c *Case, name string) {
	s.decls = append(s.decls, s.cx.renderFuncDecl(name, c.Sig, c.Body))
}

// ---- native caller ----

// nativeCall performs the call natively on fv and records what the caller observes.
func nativeCall(c *Case, env *nativeEnv, fv reflect.Value) {
	ft := fv.Type()
	bc := &buildCtx{env: env}
	if c.Ctx == "defineloop" {
		// every execution of the short variable declaration declares new variables: what was kept of them reads their own results
		var all [][]reflect.Value
		for _, it := range c.Iters {
			in := make([]reflect.Value, len(it))
			for i, v := range it {
				in[i] = bc.build(v, ft.In(i))
			}
			all = append(all, fv.Call(in))
		}
		for _, res := range all {
			for i, r := range res {
				if c.Capture[i] != "none" {
					env.recordStatic(fmt.Sprintf("q%d", i), ft.Out(i), r.Interface())
				}
			}
		}
		return
	}
	var in []reflect.Value
	for k, v := range c.Args {
		var target reflect.Type
		if ft.IsVariadic() && k >= ft.NumIn()-1 {
			if c.Spread {
				target = ft.In(ft.NumIn() - 1)
			} else {
				target = ft.In(ft.NumIn() - 1).Elem()
			}
		} else {
			target = ft.In(k)
		}
		in = append(in, bc.build(v, target))
	}
	if c.Ctx == "condloop" {
		// the call once per element of Seq; what the consuming operation yields is recorded
		for _, b := range c.Seq {
			in[0] = reflect.ValueOf(b)
			var r bool
			if c.Spread {
				r = fv.CallSlice(in)[0].Bool()
			} else {
				r = goCall(fv, in)[0].Bool()
			}
			switch c.CondOp {
			case "not":
				env.recordStatic("c", nil, !r)
			case "for":
				if r {
					env.recordStatic("c", nil, true)
				}
			default: // r && true, r || false, true && r, if r
				env.recordStatic("c", nil, r)
			}
		}
		for k := range c.Args {
			pt := paramTypeOf(c, k)
			if c.Forms[k] == "var" && refLike(pt) {
				env.recordStatic(fmt.Sprintf("after.%d", k), in[k].Type(), in[k].Interface())
			}
		}
		return
	}
	var res []reflect.Value
	switch {
	case c.Spread:
		res = fv.CallSlice(in)
	default:
		// what a compiled caller does: the variadic parameter is nil when no argument is given, else a new slice
		res = goCall(fv, in)
	}
	recorded := make([]bool, len(res))
	for i := range recorded {
		recorded[i] = true
	}
	switch c.Ctx {
	case "blank":
		for i := range recorded {
			recorded[i] = !c.Blank[i]
		}
	case "nested":
		for i, r := range res {
			env.recordStatic(fmt.Sprintf("res.%d", i), nil, r.Interface())
			recorded[i] = false
		}
	case "retswap":
		// the second operand of the return statement is the result variable as it was: K
		if ft.Out(0).Kind() == reflect.String {
			env.recordStatic("ret.1", ft.Out(0), "k")
		} else {
			env.recordStatic("ret.1", ft.Out(0), 41)
		}
	case "stmt", "defer", "go":
		for i := range recorded {
			recorded[i] = false
		}
	case "cond":
		env.recordStatic("res.0", nil, res[0].Bool())
		recorded[0] = false
	}
	for i, r := range res {
		if recorded[i] {
			env.recordStatic(fmt.Sprintf("res.%d", i), ft.Out(i), r.Interface())
		}
	}
	if c.Assert {
		for i, dt := range assertTargets(c) {
			if dt != nil && recorded[i] {
				ok := res[i].Kind() == reflect.Interface && !res[i].IsNil() && res[i].Elem().Type() == dt.RT
				env.recordStatic(fmt.Sprintf("assert.%d", i), nil, ok)
			}
		}
	}
	if c.ArgSrc == "" {
		for k := range c.Args {
			pt := paramTypeOf(c, k)
			if c.Forms[k] == "var" && refLike(pt) {
				env.recordStatic(fmt.Sprintf("after.%d", k), in[k].Type(), in[k].Interface())
			}
		}
	}
}

// ---- running ----

// guarded runs f with a deadline and converts panics into outcomes.
func guarded(env *nativeEnv, src string, f func(ctx context.Context) string) (out outcome) {
	done := make(chan string, 1)
	ctx, cancel := context.WithTimeout(context.Background(), caseTimeout)
	defer cancel()
	go func() {
		defer func() {
			if r := recover(); r != nil {
				done <- "crash:" + firstLine(fmt.Sprint(r))
			}
		}()
		done <- f(ctx)
	}()
	select {
	case st := <-done:
		out.Status = st
	case <-time.After(caseTimeout + 2*time.Second):
		out.Status = "timeout"
		return outcome{Status: "timeout", Src: src}
	}
	out.Obs = append([]obsT{}, env.rec.obs...)
	out.Rep = append([]obsT{}, env.rec.rep...)
	out.Src = src
	return out
}

func errStatus(err error) string {
	if err == nil {
		return "ok"
	}
	if p, ok := err.(interp.Panic); ok {
		return "panic:" + firstLine(fmt.Sprint(p.Value))
	}
	return "evalerr:" + firstLine(err.Error())
}

func newInterp(ex interp.Exports) (*interp.Interpreter, error) {
	i := interp.New(interp.Options{Stdout: io.Discard, Stderr: io.Discard})
	if err := i.Use(stdlib.Symbols); err != nil {
		return nil, err
	}
	if err := i.Use(ex); err != nil {
		return nil, err
	}
	return i, nil
}

// evalRun evaluates the script, wires SInc and calls Run().
func evalRun(ctx context.Context, i *interp.Interpreter, env *nativeEnv, src string, wireSInc bool) string {
	if _, err := i.EvalWithContext(ctx, src); err != nil {
		return errStatus(err)
	}
	if wireSInc {
		if v, err := i.Eval("main.SInc"); err == nil {
			if f, ok := v.Interface().(func(int) int); ok {
				env.sinc = f
			}
		}
	}
	if _, err := i.EvalWithContext(ctx, "main.Run()"); err != nil {
		return errStatus(err)
	}
	return "ok"
}

// runRef: everything native.
func runRef(c *Case) outcome {
	env := newEnv()
	return guarded(env, "", func(context.Context) string {
		switch c.Dir {
		case "s2h", "h2s":
			fv := env.makeFunc(c.Sig.RT, c.Sig, c.Body)
			nativeCall(c, env, fv)
		case "meth":
			m, ctr := nativeMethod(c, env)
			nativeCall(c, env, m)
			if c.Rebind {
				// the call ran on the receiver the method value / defer statement was evaluated with
				env.recordStatic("old.N", nil, ctr.N)
				env.recordStatic("new.N", nil, 50)
			}
		case "var":
			refVar(c, env)
		case "retain":
			refRetain(c, env)
		}
		return "ok"
	})
}

// nativeMethod returns the bound method value of a fresh native receiver.
func nativeMethod(c *Case, env *nativeEnv) (reflect.Value, *Counter) {
	ctr := &Counter{N: 3, env: env}
	switch c.Recv {
	case "val":
		if m := reflect.ValueOf(*ctr).MethodByName(c.Method); m.IsValid() {
			return m, ctr
		}
	case "embedded":
		return reflect.ValueOf(Holder{"h", ctr}).MethodByName(c.Method), ctr
	case "sptr", "sptrmv":
		ctr = &Counter{N: 3} // made by the script: the unexported recorder is not set
	}
	return reflect.ValueOf(ctr).MethodByName(c.Method), ctr
}

// runTwin: script caller, script callee.
func runTwin(c *Case) outcome {
	if c.Dir == "retain" {
		return twinRetain(c)
	}
	env := newEnv()
	s := newScript()
	s.renderCallee(c, "F")
	if c.Ctx == "go" {
		// the script twin of the callee signals as the host callee does
		d, head := s.decls[len(s.decls)-1], "func F"+s.cx.renderSig(c.Sig, 0)+" {"
		if strings.HasPrefix(d, head) {
			s.decls[len(s.decls)-1] = head + " defer hp.Done();" + d[len(head):]
		}
	}
	s.renderCaller(c, "F", nil)
	src := s.source()
	return guarded(env, src, func(ctx context.Context) string {
		var mk reflect.Value
		if c.ArgSrc == "hostcall" {
			mk = mkArgsFunc(c, env)
		}
		i, err := newInterp(exportsFor(c, env, reflect.Value{}, mk, reflect.Value{}))
		if err != nil {
			return "evalerr:" + err.Error()
		}
		return evalRun(ctx, i, env, src, false)
	})
}

func mkArgsFunc(c *Case, env *nativeEnv) reflect.Value {
	outs := make([]reflect.Type, len(c.Args))
	for k := range c.Args {
		outs[k] = paramTypeOf(c, k).RT
	}
	return reflect.MakeFunc(reflect.FuncOf(nil, outs, false), func([]reflect.Value) []reflect.Value {
		bc := &buildCtx{env: env}
		res := make([]reflect.Value, len(c.Args))
		for k, v := range c.Args {
			res[k] = bc.build(v, outs[k])
		}
		return res
	})
}

// runImpl: the call crosses the boundary.
func runImpl(c *Case) outcome {
	env := newEnv()
	switch c.Dir {
	case "s2h":
		s := newScript()
		s.renderCaller(c, "hp.F", nil)
		src := s.source()
		return guarded(env, src, func(ctx context.Context) string {
			callee := env.makeFunc(c.Sig.RT, c.Sig, c.Body)
			var mk reflect.Value
			if c.ArgSrc == "hostcall" {
				mk = mkArgsFunc(c, env)
			}
			i, err := newInterp(exportsFor(c, env, callee, mk, reflect.Value{}))
			if err != nil {
				return "evalerr:" + err.Error()
			}
			return evalRun(ctx, i, env, src, true)
		})
	case "meth":
		s := newScript()
		setup, sel := methodSetup(c)
		s.renderCaller(c, sel, setup)
		src := s.source()
		return guarded(env, src, func(ctx context.Context) string {
			i, err := newInterp(exportsFor(c, env, reflect.Value{}, reflect.Value{}, reflect.Value{}))
			if err != nil {
				return "evalerr:" + err.Error()
			}
			return evalRun(ctx, i, env, src, true)
		})
	case "h2s":
		s := newScript()
		s.renderCallee(c, "F")
		src := s.source()
		return guarded(env, src, func(ctx context.Context) string {
			i, err := newInterp(exportsFor(c, env, reflect.Value{}, reflect.Value{}, reflect.Value{}))
			if err != nil {
				return "evalerr:" + err.Error()
			}
			if _, err := i.EvalWithContext(ctx, src); err != nil {
				return errStatus(err)
			}
			if v, err := i.Eval("main.SInc"); err == nil {
				if f, ok := v.Interface().(func(int) int); ok {
					env.sinc = f
				}
			}
			if c.BareEval {
				if _, err := i.EvalWithContext(ctx, "func() {}()"); err != nil {
					return errStatus(err)
				}
			}
			var fv reflect.Value
			switch c.Via {
			case "eval-plain":
				fv, err = i.EvalWithContext(ctx, "F")
			case "symbols":
				fv = i.Symbols("main")["main"]["F"]
				if !fv.IsValid() {
					return "nosymbol"
				}
			default:
				fv, err = i.EvalWithContext(ctx, "main.F")
			}
			if err != nil {
				return errStatus(err)
			}
			if !fv.IsValid() || fv.Kind() != reflect.Func {
				return "notfunc:" + fmt.Sprint(fv)
			}
			if c.How == "iface" {
				// the embedder's way: take the value out as interface{} and use it as a typed Go function
				x := fv.Interface()
				fv = reflect.ValueOf(x)
				if c.Sig.hostExpressible() && fv.Type() != c.Sig.RT {
					return "functype:" + fv.Type().String()
				}
			}
			if c.How == "typed" {
				// a fixed family of compile-time signatures: the embedder's `.Interface().(func(…) …)` and a direct call
				g, ok := typedFunc(c.Sig.ID, fv.Interface())
				if !ok {
					return "typeassert-failed:" + fv.Type().String()
				}
				fv = g
			}
			nativeCall(c, env, fv)
			return "ok"
		})
	case "var":
		return implVar(c, env)
	case "retain":
		return implRetain(c, env)
	}
	return outcome{Status: "bad-dir"}
}

// methodSetup: the statements creating the receiver and the selector expression of the call.
func methodSetup(c *Case) ([]string, string) {
	switch c.Recv {
	case "val":
		return []string{"cv := *hp.NewCounter(3)"}, "cv." + c.Method
	case "iface":
		return []string{"var ci fmt.Stringer = hp.NewCounter(3)"}, "ci." + c.Method
	case "mvalue":
		if c.Rebind {
			return []string{"cp := hp.NewCounter(3)", "old := cp", "mv := cp." + c.Method, "cp = hp.NewCounter(50)"}, "mv"
		}
		return []string{"cp := hp.NewCounter(3)", "mv := cp." + c.Method}, "mv"
	case "sptr":
		return []string{"cp := &hp.Counter{N: 3}"}, "cp." + c.Method
	case "sptrmv":
		return []string{"cp := &hp.Counter{N: 3}", "mv := cp." + c.Method}, "mv"
	case "embedded":
		return []string{"ch := hp.NewHolder(3)"}, "ch." + c.Method
	}
	if c.Rebind {
		return []string{"cp := hp.NewCounter(3)", "old := cp"}, "cp." + c.Method
	}
	return []string{"cp := hp.NewCounter(3)"}, "cp." + c.Method
}

func init() { log.SetOutput(io.Discard) }

// typedSigs: signatures for which the harness contains a compile-time type assertion and a direct (non-reflect) call.
var typedSigs = []string{"func(int) int", "func(string, ...int) (string, int)", "func(func(int) int, int) int", "func() error",
	"func(hp.Pt, *hp.Pt) hp.Pt", "func(map[string]int, []string) (int, bool)", "func(interface{}) interface{}", "func(fmt.Stringer) string"}

// typedFunc asserts x to the compile-time function type of sig and returns a function value whose call is a direct Go
// call of it (wrapped again only to fit the harness's uniform reflect-based caller).
func typedFunc(sig string, x interface{}) (reflect.Value, bool) {
	switch sig {
	case "func(int) int":
		f, ok := x.(func(int) int)
		return reflect.ValueOf(func(a int) int { return f(a) }), ok
	case "func(string, ...int) (string, int)":
		f, ok := x.(func(string, ...int) (string, int))
		return reflect.ValueOf(func(s string, r ...int) (string, int) { return f(s, r...) }), ok
	case "func(func(int) int, int) int":
		f, ok := x.(func(func(int) int, int) int)
		return reflect.ValueOf(func(g func(int) int, a int) int { return f(g, a) }), ok
	case "func() error":
		f, ok := x.(func() error)
		return reflect.ValueOf(func() error { return f() }), ok
	case "func(hp.Pt, *hp.Pt) hp.Pt":
		f, ok := x.(func(Pt, *Pt) Pt)
		return reflect.ValueOf(func(a Pt, b *Pt) Pt { return f(a, b) }), ok
	case "func(map[string]int, []string) (int, bool)":
		f, ok := x.(func(map[string]int, []string) (int, bool))
		return reflect.ValueOf(func(m map[string]int, s []string) (int, bool) { return f(m, s) }), ok
	case "func(interface{}) interface{}":
		f, ok := x.(func(interface{}) interface{})
		return reflect.ValueOf(func(a interface{}) interface{} { return f(a) }), ok
	case "func(fmt.Stringer) string":
		f, ok := x.(func(fmt.Stringer) string)
		return reflect.ValueOf(func(a fmt.Stringer) string { return f(a) }), ok
	}
	return reflect.Value{}, false
}
