// Cases of the C07 harness and their generator.
package main

import (
	"fmt"
	"math/rand"
	"reflect"
	"sort"
	"strings"
)

// Case is one input: a call (or a variable access) that crosses the host/script boundary.
type Case struct {
	ID     string   `json:"id"`
	Dir    string   `json:"dir"`              // s2h (script calls host) | h2s (host calls script) | meth (script calls a method of a host value) | var
	Sig    *TypeD   `json:"sig,omitempty"`    // function type of the callee
	Body   *Body    `json:"body,omitempty"`   // behaviour of the callee
	Method string   `json:"method,omitempty"` // meth: name of the fixed host method; receiver form in Recv
	Recv   string   `json:"recv,omitempty"`   // meth: ptr | val | iface | mvalue (method value) | embedded | sptr (`&hp.Counter{…}` made by the script) | sptrmv (method value of it)
	Seq    []bool   `json:"seq,omitempty"`    // ctx condloop: the call is executed once per element in ONE frame (a loop); the element is its first (bool) argument
	CondOp string   `json:"condop,omitempty"` // ctx condloop: and | or | not | if | for | andassign | orassign | rhsand — how the bool result is consumed
	Iters   [][]*Val `json:"iters,omitempty"`   // ctx defineloop: the arguments of each execution of `q0, q1 := callee(…)` (one frame, a loop)
	Capture []string `json:"capture,omitempty"` // ctx defineloop: per result ptr | closure | none — what is kept of the declared variable after each execution
	Rebind bool     `json:"rebind,omitempty"` // meth: the receiver variable is assigned another value after the method value / defer statement was evaluated, before the call runs
	Args   []*Val   `json:"args,omitempty"`   // one per argument written at the call (variadic elements are separate unless Spread)
	Forms  []string `json:"forms,omitempty"`  // per argument: var | lit | const (untyped constant / nil)
	Spread bool     `json:"spread,omitempty"` // the last argument is a slice passed with `...`
	ArgSrc string   `json:"argsrc,omitempty"` // "" | scriptcall | hostcall: all arguments come from one nested call
	Ctx    string   `json:"ctx,omitempty"`    // define | assign | assignmap | blank | return | retpos | retswap | nested | stmt | cond | expr | defer | go
	Callee string   `json:"callee,omitempty"` // s2h: "" (hp.F(…)) | fnvar (`fv := hp.F; fv(…)`) | fntyped (`var fv func(…) … = hp.F; fv(…)`: the call goes through `call`)
	Blank  []bool   `json:"blank,omitempty"`  // ctx blank: which results are assigned to _
	Via    string   `json:"via,omitempty"`    // h2s: eval-qual | eval-plain | symbols
	How    string   `json:"how,omitempty"`    // h2s: call | callslice | iface | typed
	BareEval bool   `json:"bareeval,omitempty"` // h2s: the host evaluates a statement without package clause (`func() {}()`) before it asks for the function
	Assert bool     `json:"assert,omitempty"` // s2h: the script type-asserts interface results back to their dynamic type
	// var
	VT     *TypeD `json:"vt,omitempty"`
	V0     *Val   `json:"v0,omitempty"`
	V1     *Val   `json:"v1,omitempty"`
	V2     *Val   `json:"v2,omitempty"`
	Access string `json:"access,omitempty"` // globals | symbols | use | evalplain | evalname
	Direct bool   `json:"direct,omitempty"` // var: the script assigns a composite literal / call result directly (not through a local variable)
	// retain: one retained wrapper re-entered / called repeatedly / called concurrently (retain.go)
	Mode   string  `json:"mode,omitempty"`   // reenter | repeat | concurrent
	Tmpl   int     `json:"tmpl,omitempty"`   // reenter: function shape 0..2
	Depth  int     `json:"depth,omitempty"`  // reenter: recursion depth through the host
	Ks     []int64 `json:"ks,omitempty"`     // constants of the function body
	Caller string  `json:"caller,omitempty"` // host | script: who makes the outermost call
	AfterCancel bool `json:"aftercancel,omitempty"` // retain: an evaluation is cancelled (context deadline in `for {}`) between the moment the host got the function value and its calls
	Feat   []string `json:"feat,omitempty"` // out-of-domain features switched on for this case (generator gates)
}

// defaultFeatures are inside the domain (no divergence on the unchanged tree).
// builtin-in-multi-return: `return p, len(m), q` written inline (F23 / F07-1, repaired by b3c279d: kept in the default stream).
var defaultFeatures = map[string]bool{"callg": true, "builtin-in-multi-return": true}

// gatedFeatures are the generator features that known findings depend on; each is exercised by a separate
// out-of-domain stream.
var gatedFeatures = []string{
	"script-dyn-in-host-iface",
	"methodful-in-empty",
	"script-iface",
}

// ---- type pools ----

var poolBasic = basicNames

func (g *genCfg) pick(ids ...string) *TypeD { return typeByID(ids[g.rng.Intn(len(ids))]) }

// genType draws a type from the grammar. host: must be expressible in a host signature.
func (g *genCfg) genType(depth int, host bool, forParam bool) *TypeD {
	r := g.rng
	if depth >= 2 {
		switch r.Intn(4) {
		case 0:
			return g.pick("hp.Pt", "hp.Color", "hp.Temp")
		default:
			return typeByID(poolBasic[r.Intn(len(poolBasic))])
		}
	}
	switch r.Intn(16) {
	case 0, 1, 2:
		return typeByID(poolBasic[r.Intn(len(poolBasic))])
	case 3:
		return g.pick("int", "string", "bool", "float64")
	case 4:
		return g.pick("hp.Pt", "hp.Color", "hp.Temp", "hp.Names", "hp.Box", "hp.Tree")
	case 5:
		e := g.genType(depth+1, host, false)
		if e.Kind == KIface || e.Kind == KFunc {
			e = typeByID("int")
		}
		return typeByID("*" + e.ID)
	case 6:
		return typeByID("[]" + g.elemType(depth, host).ID)
	case 7:
		return typeByID(fmt.Sprintf("[%d]%s", 1+r.Intn(3), g.elemType(depth, host).ID))
	case 8:
		k := g.pick("string", "int", "bool", "uint8", "hp.Color", "float64", "hp.Pt", "[2]int")
		return typeByID("map[" + k.ID + "]" + g.elemType(depth, host).ID)
	case 9:
		n := 1 + r.Intn(3)
		var fs []FieldD
		for i := 0; i < n; i++ {
			fs = append(fs, FieldD{string(rune('A'+i)) + "f", g.elemType(depth, host)})
		}
		return structType(fs)
	case 10:
		return g.genFuncType(depth+1, host)
	case 11:
		return typeByID("interface{}")
	case 12:
		return g.pick("error", "fmt.Stringer", "io.Writer", "sort.Interface", "error")
	case 13:
		if !host {
			return g.pick("ST", "SF", "*ST", "[]ST", "map[string]ST")
		}
		return g.pick("hp.Op", "*hp.Pt", "[]hp.Pt", "map[string]hp.Pt")
	case 14:
		if g.feat["script-iface"] && !host {
			return typeByID("MS")
		}
		if !host && g.feat["script-methodful-param"] {
			return g.pick("SM", "SI", "SL")
		}
		return g.pick("[]byte", "[]string", "map[string][]int")
	}
	return typeByID("int")
}

func (g *genCfg) elemType(depth int, host bool) *TypeD {
	t := g.genType(depth+1, host, false)
	if t.Kind == KIface && !t.isEmptyIface() && !g.feat["iface-in-composite"] {
		return typeByID("int")
	}
	return t
}

func (g *genCfg) genFuncType(depth int, host bool) *TypeD {
	r := g.rng
	var ins, outs []*TypeD
	np, nr := r.Intn(3), r.Intn(3)
	for i := 0; i < np; i++ {
		ins = append(ins, g.sigType(depth+1, host))
	}
	for i := 0; i < nr; i++ {
		outs = append(outs, g.sigType(depth+1, host))
	}
	variadic := np > 0 && r.Intn(5) == 0
	if variadic {
		ins[np-1] = typeByID("[]" + ins[np-1].ID)
	}
	return funcType(ins, outs, variadic)
}

// sigType: a parameter/result type of an inner function type (kept small).
func (g *genCfg) sigType(depth int, host bool) *TypeD {
	switch g.rng.Intn(8) {
	case 0:
		return g.pick("hp.Pt", "string", "[]int", "error")
	case 1:
		return typeByID(poolBasic[g.rng.Intn(len(poolBasic))])
	case 2:
		if depth < 3 {
			return g.pick("func(int) int", "func(string) (int, error)", "func() string")
		}
	}
	return g.pick("int", "int", "string", "bool", "float64", "int8")
}

// genSig draws a callee signature: 0..4 parameters, 0..3 results, variadic or not.
func (g *genCfg) genSig(host bool) *TypeD {
	r := g.rng
	np, nr := r.Intn(5), r.Intn(4)
	var ins, outs []*TypeD
	for i := 0; i < np; i++ {
		ins = append(ins, g.genType(0, host, true))
	}
	for i := 0; i < nr; i++ {
		if len(ins) > 0 && r.Intn(2) == 0 {
			outs = append(outs, ins[r.Intn(len(ins))]) // results that can echo a parameter
		} else {
			outs = append(outs, g.genType(0, host, false))
		}
	}
	variadic := np > 0 && r.Intn(3) == 0
	if variadic {
		e := ins[np-1]
		ins[np-1] = typeByID("[]" + e.ID)
		for i, o := range outs {
			if o == e && r.Intn(2) == 0 {
				outs[i] = ins[np-1]
			}
		}
	}
	return funcType(ins, outs, variadic)
}

// ---- arguments ----

func (g *genCfg) genArgs(c *Case) {
	r := g.rng
	sig := c.Sig
	called := map[int]bool{}
	if c.Body != nil {
		called = c.Body.calledParams()
	}
	genArg := func(t *TypeD, i int) *Val {
		ag := *g
		ag.scriptDyn = c.Dir == "s2h" || c.Dir == "meth"
		v := ag.gen(t, 0)
		if t.Kind == KFunc && v.Nil && called[i] {
			v = &Val{T: t, Fn: g.genBody(t, 1, false)}
		}
		if t.Kind == KFunc && t.Decl != "" && v.Nil && called[i] {
			v = &Val{T: t, Fn: g.genBody(t, 1, false)}
		}
		return v
	}
	n := len(sig.In)
	for i, pt := range sig.In {
		if sig.Variadic && i == n-1 {
			if r.Intn(3) == 0 && c.Dir != "h2s" || c.Dir == "h2s" && c.How == "callslice" {
				c.Spread = true
				c.Args = append(c.Args, genArg(pt, i))
				c.Forms = append(c.Forms, "var")
			} else {
				k := r.Intn(4)
				for q := 0; q < k; q++ {
					c.Args = append(c.Args, genArg(pt.Elem, -1))
					c.Forms = append(c.Forms, g.form(pt.Elem, c.Args[len(c.Args)-1]))
				}
			}
			break
		}
		c.Args = append(c.Args, genArg(pt, i))
		c.Forms = append(c.Forms, g.form(pt, c.Args[len(c.Args)-1]))
	}
	if !g.feat["script-dyn-indirect"] {
		// a script value handed to a host interface is written at the call itself
		for k, a := range c.Args {
			if a.T.Kind == KIface && a.Dyn != nil && a.Dyn.T.Decl == "script" && !a.T.isEmptyIface() {
				c.Forms[k] = "lit"
			}
		}
	}
}

// form: how the argument is written in the script.
func (g *genCfg) form(t *TypeD, v *Val) string {
	if t.Kind == KFunc && t.Decl == "" && v.Fn != nil && g.rng.Intn(3) == 0 {
		return "decl"
	}
	switch g.rng.Intn(3) {
	case 0:
		return "var"
	case 1:
		if t.Kind == KBasic && t.Decl == "" || v.Nil && t.nilable() {
			return "const"
		}
		if t.Kind == KBasic && t.Decl != "" {
			return "const" // untyped constant converted to a host-declared named type
		}
	}
	return "lit"
}

// ---- whole cases ----

func (g *genCfg) genCall(dir string, id string) *Case {
	r := g.rng
	c := &Case{ID: id, Dir: dir}
	for f := range g.feat {
		if !defaultFeatures[f] {
			c.Feat = append(c.Feat, f)
		}
	}
	sort.Strings(c.Feat)
	c.Sig = g.genSig(dir == "s2h")
	typed := dir == "h2s" && r.Intn(12) == 0
	if typed {
		c.Sig = typeByID(typedSigs[r.Intn(len(typedSigs))])
	}
	bg := *g
	bg.scriptCallee = dir == "h2s"
	c.Body = bg.genBody(c.Sig, 0, true)
	c.Body.Name = "F"
	if dir == "h2s" {
		c.Via = []string{"eval-qual", "eval-plain", "symbols"}[r.Intn(3)]
		c.How = []string{"call", "call", "iface"}[r.Intn(3)]
		if c.Sig.Variadic && r.Intn(3) == 0 {
			c.How = "callslice"
		}
		if typed {
			c.How = "typed"
		}
		c.Ctx = "define"
	} else {
		c.Ctx = g.genCtx(c.Sig)
	}
	g.genArgs(c)
	if dir == "s2h" && c.Sig.hostExpressible() {
		switch r.Intn(8) {
		case 0:
			c.Callee = "fnvar"
		case 1:
			c.Callee = "fntyped"
		}
	}
	if dir == "s2h" && !c.Spread && len(c.Sig.In) > 0 && r.Intn(10) == 0 && len(c.Args) == len(c.Sig.In) {
		c.ArgSrc = []string{"scriptcall", "hostcall"}[r.Intn(2)]
	}
	if c.Ctx == "blank" {
		c.Blank = make([]bool, len(c.Sig.Out))
		for i := range c.Blank {
			c.Blank[i] = r.Intn(2) == 0
		}
	}
	if c.Ctx == "nested" {
		for _, o := range c.Sig.Out {
			if o.isHostIface() {
				c.Ctx = "define" // an interface result is observed through its static type, which a variadic ...interface{} recorder loses
			}
		}
	}
	if dir == "s2h" && c.Ctx == "define" {
		// type-assert interface results back to the dynamic type of the argument they echo (host types here)
		c.Assert = true
		some := false
		for _, dt := range assertTargets(c) {
			if dt != nil {
				some = true
				if dt.Decl == "script" {
					c.Assert = false
				}
			}
		}
		c.Assert = c.Assert && some
	}
	return c
}

func (g *genCfg) genCtx(sig *TypeD) string {
	r := g.rng
	n := len(sig.Out)
	opts := []string{"stmt", "defer", "go"}
	if n >= 1 {
		opts = []string{"define", "define", "define", "assign", "assign", "blank", "blank", "return", "return", "nested", "nested", "stmt", "stmt",
			"defer", "defer", "go"}
	}
	if n >= 2 {
		opts = append(opts, "assignmap") // `m["k"], r1 = hp.F(…)`: a map entry among the destinations (F04-22, repaired by 7f288e3)
	}
	if n == 1 {
		opts = append(opts, "retpos", "define")
		if sig.Out[0].ID == "bool" {
			opts = append(opts, "cond", "cond", "cond")
		}
		if sig.Out[0].ID == "int" || sig.Out[0].ID == "string" {
			// retswap: `func W(…) (a, b T) { a = K; return hp.F(…), a }` — another operand reads the result variable the call's
			// position stands for (F04-23, repaired by 28d3d87)
			opts = append(opts, "expr", "expr", "retswap", "retswap")
		}
	}
	return opts[r.Intn(len(opts))]
}

// ---- fixed host methods (receiver offset, variadic position) ----

type Counter struct {
	N   int
	env *nativeEnv
}

func (c *Counter) rec(name string, args ...interface{}) {
	if c.env == nil {
		return
	}
	for i, a := range args {
		c.env.record(fmt.Sprintf("%s.%d", name, i), reflect.ValueOf(a))
	}
}

// fin tells a script waiting after `go c.M(…)` that the method has returned.
func (c *Counter) fin() {
	if c.env != nil {
		c.env.signal()
	}
}

func (c *Counter) Add(n int) int { defer c.fin(); c.rec("Add", n); c.N += n; return c.N }
func (c Counter) Get() int       { defer (&c).fin(); return c.N }
func (c Counter) Scale(f float32, k uint8) float64 {
	defer (&c).fin()
	(&c).rec("Scale", f, k)
	return float64(f)*float64(k) + float64(c.N)
}
func (c *Counter) AddAll(ns ...int) int {
	defer c.fin()
	c.rec("AddAll", ns)
	for _, n := range ns {
		c.N += n
	}
	return c.N
}
func (c *Counter) Is(b bool, xs ...int) bool {
	defer c.fin()
	c.rec("Is", b, xs)
	return b != (len(xs) == 1)
}
func (c *Counter) Fmt(f string, xs ...int8) string {
	defer c.fin()
	c.rec("Fmt", f, xs)
	return fmt.Sprint(f, len(xs), xs == nil, c.N)
}
func (c *Counter) Mix(a int8, b float64, s string, rest ...uint16) string {
	defer c.fin()
	c.rec("Mix", a, b, s, rest)
	return fmt.Sprint(a, b, s, rest, rest == nil)
}
func (c *Counter) Apply(f func(int) int) int {
	defer c.fin()
	c.N = f(c.N)
	return c.N
}
func (c *Counter) Show(s fmt.Stringer) string {
	defer c.fin()
	if s == nil {
		return "<nil>"
	}
	return "show:" + s.String()
}
func (c *Counter) Any(v interface{}, vs ...interface{}) int {
	defer c.fin()
	c.rec("Any", v, vs)
	return 1 + len(vs)
}
func (c *Counter) Pair() (int, string) { defer c.fin(); return c.N, fmt.Sprint("n=", c.N) }
func (c *Counter) Err(fail bool) error {
	defer c.fin()
	c.rec("Err", fail)
	if fail {
		return &hostErr{"failed"}
	}
	return nil
}
func (c Counter) String() string { return fmt.Sprintf("Counter(%d)", c.N) }

// Holder embeds a Counter: promoted methods through an embedded field.
type Holder struct {
	Label string
	*Counter
}

var counterPtrT = reflect.TypeOf((*Counter)(nil))

// methodNames in a fixed order.
var methodNames = []string{"Add", "Get", "Scale", "AddAll", "Fmt", "Mix", "Apply", "Show", "Any", "Pair", "Err", "String", "Is"}

func (g *genCfg) genMethodCase(id string) *Case {
	r := g.rng
	c := &Case{ID: id, Dir: "meth"}
	c.Method = methodNames[r.Intn(len(methodNames))]
	m, _ := counterPtrT.MethodByName(c.Method)
	// signature without the receiver
	var ins, outs []*TypeD
	for i := 1; i < m.Type.NumIn(); i++ {
		ins = append(ins, typeOfRT(m.Type.In(i)))
	}
	for i := 0; i < m.Type.NumOut(); i++ {
		outs = append(outs, typeOfRT(m.Type.Out(i)))
	}
	c.Sig = funcType(ins, outs, m.Type.IsVariadic())
	recvs := []string{"ptr", "ptr", "val", "mvalue", "embedded", "sptr", "sptrmv"}
	if c.Method == "String" {
		recvs = append(recvs, "iface", "iface", "iface")
	}
	c.Recv = recvs[r.Intn(len(recvs))]
	c.Ctx = g.genCtx(c.Sig)
	g.genArgs(c)
	if c.Ctx == "go" && (c.Method == "String" || c.Recv == "sptr" || c.Recv == "sptrmv") {
		c.Ctx = "stmt" // String is also called when values are rendered: it does not signal
	}
	for k, a := range c.Args {
		if a.T.Kind == KFunc && a.Nil {
			c.Args[k] = &Val{T: a.T, Fn: g.genBody(a.T, 1, false)}
			if c.Forms[k] == "const" {
				c.Forms[k] = "lit"
			}
		}
	}
	if c.Ctx == "blank" {
		c.Blank = make([]bool, len(c.Sig.Out))
		for i := range c.Blank {
			c.Blank[i] = r.Intn(2) == 0
		}
	}
	// the receiver variable gets another value between the evaluation of the method value / defer / go statement and the call
	// (F07-15, repaired by ab0ab0c)
	g.setRebind(c)
	return c
}

// setRebind decides (again, after the receiver form or the context of a method case was changed) whether the receiver variable
// is reassigned between the evaluation of the method value / defer / go statement and the call.
func (g *genCfg) setRebind(c *Case) {
	c.Rebind = c.Method != "String" && (c.Recv == "mvalue" || c.Recv == "ptr" && (c.Ctx == "defer" || c.Ctx == "go")) && g.rng.Intn(2) == 0
}

// ---- variables ----

func (g *genCfg) genVarCase(id string) *Case {
	r := g.rng
	c := &Case{ID: id, Dir: "var"}
	// evalname (Eval("main.G") after the script assigned G: F07-7) and direct assignments of a composite literal / call result
	// (F07-6) were gated features until their repairs (503cf19, 050210f)
	c.Access = []string{"globals", "symbols", "use", "evalplain", "evalname"}[r.Intn(5)]
	if c.Access != "evalplain" && c.Access != "evalname" && r.Intn(3) == 0 {
		c.Direct = true
	}
	host := c.Access == "use"
	for {
		c.VT = g.genType(0, host, false)
		if c.VT.Kind == KFunc && c.Access == "use" {
			continue
		}
		break
	}
	vg := *g
	c.V0, c.V1, c.V2 = vg.gen(c.VT, 0), vg.gen(c.VT, 0), vg.gen(c.VT, 0)
	return c
}

// ---- classification: divergence classes are decidable predicates of the INPUT ----

func typesOf(c *Case) []*TypeD {
	var ts []*TypeD
	if c.Sig != nil {
		ts = append(ts, c.Sig.In...)
		ts = append(ts, c.Sig.Out...)
	}
	if c.VT != nil {
		ts = append(ts, c.VT)
	}
	return ts
}

func valsOf(c *Case) []*Val {
	vs := append([]*Val{}, c.Args...)
	for _, v := range []*Val{c.V0, c.V1, c.V2} {
		if v != nil {
			vs = append(vs, v)
		}
	}
	if c.Body != nil {
		var walkB func(b *Body)
		var walkE func(e *Expr)
		walkE = func(e *Expr) {
			if e.C != nil {
				vs = append(vs, e.C)
			}
			for _, a := range e.Args {
				walkE(a)
			}
		}
		walkB = func(b *Body) {
			for _, e := range b.Rets {
				walkE(e)
			}
			for _, m := range b.Muts {
				vs = append(vs, m.V)
			}
		}
		walkB(c.Body)
	}
	return vs
}

// anyVal: does some node of the value tree (including function bodies' constants) satisfy p.
func anyVal(v *Val, p func(*Val) bool) bool {
	if v == nil {
		return false
	}
	if p(v) {
		return true
	}
	for _, e := range v.Elts {
		if anyVal(e, p) {
			return true
		}
	}
	for _, e := range v.Keys {
		if anyVal(e, p) {
			return true
		}
	}
	if anyVal(v.Ptr, p) || anyVal(v.Dyn, p) {
		return true
	}
	if v.Fn != nil {
		for _, e := range v.Fn.Rets {
			if anyExprVal(e, p) {
				return true
			}
		}
	}
	return false
}

func anyExprVal(e *Expr, p func(*Val) bool) bool {
	if e.C != nil && anyVal(e.C, p) {
		return true
	}
	for _, a := range e.Args {
		if anyExprVal(a, p) {
			return true
		}
	}
	return false
}

func anyBody(b *Body, p func(*Body) bool) bool {
	if b == nil {
		return false
	}
	if p(b) {
		return true
	}
	found := false
	var we func(e *Expr)
	we = func(e *Expr) {
		if e.C != nil {
			walkVal(e.C, func(fb *Body) {
				if anyBody(fb, p) {
					found = true
				}
			})
		}
		for _, a := range e.Args {
			we(a)
		}
	}
	for _, e := range b.Rets {
		we(e)
	}
	return found
}

func bodiesOf(c *Case) []*Body {
	var bs []*Body
	if c.Body != nil {
		bs = append(bs, c.Body)
	}
	for _, v := range valsOf(c) {
		walkVal(v, func(b *Body) { bs = append(bs, b) })
	}
	return bs
}

func hasFeat(c *Case, f string) bool {
	for _, x := range c.Feat {
		if x == f {
			return true
		}
	}
	return false
}

func joinClasses(cs []string) string { return strings.Join(cs, "+") }

var _ = rand.Int

// ---- divergence classes ----
//
// Each class is a decidable predicate of the case (never of the outcome). classOf returns the first class the
// case belongs to, "" when it is inside the domain of the proved contract. The classes are the complement of the
// generator's default gates: the in-domain stream never produces a case with a class.

type classT struct {
	name string
	in   func(c *Case) bool
}

func scriptDynIn(v *Val, iface func(*TypeD) bool) bool {
	return anyVal(v, func(x *Val) bool {
		return x.T.Kind == KIface && iface(x.T) && x.Dyn != nil && x.Dyn.T.Decl == "script"
	})
}

func isHostIfaceT(t *TypeD) bool  { return t.isHostIface() }
func isEmptyIfaceT(t *TypeD) bool { return t.isEmptyIface() }

var classes = []classT{
	{"script-iface", func(c *Case) bool {
		for _, t := range typesOf(c) {
			if t.any(func(x *TypeD, _ int) bool { return x.isScriptIface() }) {
				return true
			}
		}
		for _, v := range valsOf(c) {
			if anyVal(v, func(x *Val) bool { return x.T.isScriptIface() }) {
				return true
			}
		}
		return false
	}},
	{"methodful-in-empty", func(c *Case) bool {
		for _, v := range valsOf(c) {
			if anyVal(v, func(x *Val) bool {
				return x.T.isEmptyIface() && x.Dyn != nil && x.Dyn.T.Decl == "script" && x.Dyn.T.Methods != ""
			}) {
				return true
			}
		}
		return false
	}},
	{"script-dyn-variadic-elem", func(c *Case) bool {
		if c.Dir != "s2h" && c.Dir != "meth" || !c.Sig.Variadic || c.Spread || c.ArgSrc != "" {
			return false
		}
		for k := len(c.Sig.In) - 1; k < len(c.Args); k++ {
			a := c.Args[k]
			if a.T.isHostIface() && a.Dyn != nil && a.Dyn.T.Decl == "script" && c.Forms[k] == "lit" {
				return true
			}
		}
		return false
	}},
	{"script-dyn-indirect", func(c *Case) bool {
		// a script value inside a host interface anywhere but written directly as a call argument / result
		direct := map[*Val]bool{}
		if c.Dir == "s2h" || c.Dir == "meth" {
			for k, a := range c.Args {
				if c.Forms[k] == "lit" && c.ArgSrc == "" {
					direct[a] = true
				}
			}
		}
		if c.Dir == "h2s" && c.Body != nil {
			for _, e := range c.Body.Rets {
				if e.Op == "c" {
					direct[e.C] = true
				}
			}
		}
		for _, v := range valsOf(c) {
			if direct[v] {
				// the top-level value may be a script value; below it nothing may
				for _, sub := range []*Val{v.Dyn} {
					if sub != nil && scriptDynIn(sub, isHostIfaceT) {
						return true
					}
				}
				continue
			}
			if scriptDynIn(v, isHostIfaceT) {
				return true
			}
		}
		return false
	}},
	{"iface-roundtrip-assert", func(c *Case) bool {
		if !c.Assert {
			return false
		}
		for _, dt := range assertTargets(c) {
			if dt != nil && dt.Decl == "script" {
				return true
			}
		}
		return false
	}},
}

// viaCall: the call is compiled by `call` (the callee expression has a script-written function type), not by callBin.
func viaCall(c *Case) bool {
	return c.Callee == "fntyped" || c.Callee == "fnvar" && (c.Ctx == "return" || c.Ctx == "retpos" || c.Ctx == "retswap")
}

func classOf(c *Case) string {
	for _, k := range classes {
		if k.in(c) {
			return k.name
		}
	}
	return ""
}
