// Case streams of the C07 harness.
package main

import (
	"fmt"
	"math/rand"

	"verif/harness/common"
)

func newGen(run *common.Run, ctr *int, feats []string) *genCfg {
	g := &genCfg{rng: run.Rng, feat: map[string]bool{}, fnCounter: ctr}
	for f := range defaultFeatures {
		g.feat[f] = true
	}
	for _, f := range feats {
		g.feat[f] = true
	}
	if *featFlag != "" {
		g.feat[*featFlag] = true
	}
	return g
}

// generate draws n cases with the default features (development: -explore).
func generate(run *common.Run, n int) []*Case {
	var cases []*Case
	ctr := 0
	for k := 0; k < n; k++ {
		cases = append(cases, newGen(run, &ctr, nil).genAny(fmt.Sprintf("c%d", k)))
	}
	return cases
}

func (g *genCfg) genAny(id string) *Case {
	switch x := g.rng.Intn(30); {
	case x < 8:
		return g.genCall("s2h", id)
	case x < 15:
		c := g.genCall("h2s", id)
		if g.rng.Intn(6) == 0 {
			c.BareEval = true // Eval("main.F"), Eval("F") and Symbols() after a statement evaluated without package clause
		}
		return c
	case x < 17:
		return g.genMethodCase(id)
	case x < 18:
		return g.genRetainCase(id)
	case x < 20:
		return g.genVariadicCtx(id)
	case x < 21:
		for {
			if c := g.genBuiltinInMultiReturn(id); c != nil {
				return c
			}
		}
	case x < 22:
		return g.genSpreadViaFuncValue(id)
	case x < 24:
		return g.genCondLoop(id)
	case x < 26:
		return g.genRepaired(id)
	case x < 28:
		return g.genDefineLoop(id)
	}
	return g.genVarCase(id)
}

// genVariadicCtx: the shapes of the repaired findings F07-2 / F07-4, kept in the in-domain stream — a variadic host function
// or method called WITHOUT variadic arguments, or with `xs...`, in every call context (direct in all result contexts, go,
// defer) and through every way of naming the callee (hp.F, a function variable, a variable of a script-written function
// type, a method of a host value, a method value).
func (g *genCfg) genVariadicCtx(id string) *Case {
	r := g.rng
	ctxOf := func(sig *TypeD) string {
		switch r.Intn(5) {
		case 0:
			return "defer"
		case 1:
			return "go"
		case 2:
			return "stmt"
		}
		c := g.genCtx(sig)
		if c == "blank" {
			c = "define"
		}
		return c
	}
	if r.Intn(3) == 0 {
		var c *Case
		for {
			c = g.genMethodCase(id)
			if c.Sig.Variadic {
				break
			}
		}
		c.Blank = nil
		c.Recv = []string{"ptr", "ptr", "mvalue", "embedded"}[r.Intn(4)]
		c.Ctx = ctxOf(c.Sig)
		n := len(c.Sig.In) - 1
		c.Args, c.Forms, c.Spread = nil, nil, false
		ng := *g
		ng.noFuncs = true
		for _, pt := range c.Sig.In[:n] {
			c.Args = append(c.Args, ng.gen(pt, 0))
			c.Forms = append(c.Forms, "var")
		}
		if r.Intn(2) == 0 {
			c.Spread = true
			c.Args = append(c.Args, ng.gen(c.Sig.In[n], 0))
			c.Forms = append(c.Forms, "var")
			if r.Intn(5) == 0 {
				// `m(a, nil...)` (F07-16, repaired by 57dd9e4)
				c.Args[n], c.Forms[n] = &Val{T: c.Sig.In[n], Nil: true}, "const"
			}
		}
		g.setRebind(c)
		return c
	}
	e := g.one("int", "string", "hp.Pt", "[]int", "interface{}", "float64", "*hp.Pt", "uint8", "hp.Color", "map[string]int")
	var ins, outs []*TypeD
	for i := r.Intn(3); i > 0; i-- {
		ins = append(ins, g.one("int", "string", "hp.Color", "map[string]int", "[]string", "hp.Pt", "interface{}"))
	}
	ins = append(ins, typeByID("[]"+e.ID))
	for i := r.Intn(3); i > 0; i-- {
		outs = append(outs, g.one("int", "string", "bool", "[]"+e.ID))
	}
	c := g.call("s2h", id, funcType(ins, outs, true))
	c.Ctx = ctxOf(c.Sig)
	c.Callee = []string{"", "", "fnvar", "fntyped"}[r.Intn(4)]
	n := len(ins) - 1
	ng := *g
	ng.noFuncs = true
	for _, pt := range ins[:n] {
		c.Args = append(c.Args, ng.gen(pt, 0))
		c.Forms = append(c.Forms, g.form(pt, c.Args[len(c.Args)-1]))
	}
	if r.Intn(2) == 0 {
		c.Spread = true
		c.Args = append(c.Args, ng.gen(ins[n], 0))
		c.Forms = append(c.Forms, "var")
		if r.Intn(5) == 0 {
			// `hp.F(a, nil...)` (F07-16, repaired by 57dd9e4)
			c.Args[n], c.Forms[n] = &Val{T: ins[n], Nil: true}, "const"
		}
	}
	return c
}

// featuresFor: the generator features a class needs.
func featuresFor(cls string) []string {
	switch cls {
	case "script-iface", "methodful-in-empty", "script-dyn-indirect":
		return []string{cls}
	}
	return nil
}

// genBuiltinInMultiReturn: a script function whose multi-value return has a builtin call (len) written inline as a non-first
// operand, called by the host through its wrapper (or handed to the host as a callback): the shape of F23 / F07-1, repaired
// by b3c279d and kept in the in-domain stream.
func (g *genCfg) genBuiltinInMultiReturn(id string) *Case {
	r := g.rng
	lenable := g.one("[]int", "map[string]int", "string", "[]hp.Pt", "map[string][]int", "[3]int")
	ins := []*TypeD{g.genType(1, false, true), lenable}
	if r.Intn(2) == 0 {
		ins = append(ins, g.genType(1, false, true))
	}
	outs := []*TypeD{ins[0], typeByID("int")}
	if r.Intn(2) == 0 {
		outs = append(outs, ins[len(ins)-1])
	}
	dir := []string{"h2s", "h2s", "s2h"}[r.Intn(3)]
	if dir == "s2h" {
		// the script-side function is then a callback handed to the host
		cbT := funcType(ins, outs, false)
		if !cbT.hostExpressible() {
			return nil
		}
		sig := funcType([]*TypeD{cbT}, outs, false)
		c := g.call("s2h", id, sig)
		c.Body.Rets = nil
		var args []*Expr
		for _, it := range ins {
			args = append(args, g.genArgExpr(it, nil, 1))
		}
		for j := range outs {
			c.Body.Rets = append(c.Body.Rets, &Expr{Op: "call", I: 0, J: j, Args: args})
		}
		c.Body.Rets = c.Body.Rets[:1] // one call, first result (the other results are observed by the callback's own recording)
		c.Sig = funcType([]*TypeD{cbT}, outs[:1], false)
		cb := g.genBodyIn(cbT, 1, nil)
		cb.Rets[1] = &Expr{Op: "len", I: 1}
		cb.Direct = true
		c.Args = []*Val{{T: cbT, Fn: cb}}
		c.Forms = []string{"lit"}
		return c
	}
	c := g.call(dir, id, funcType(ins, outs, false))
	c.Body.Rets[1] = &Expr{Op: "len", I: 1}
	c.Body.Direct = true
	g.genArgs(c)
	return c
}

// genSpreadViaFuncValue: `fv(cb, xs...)` through a variable of a script-written function type holding a host function, with a
// fixed argument that needs preparation (a declared function, an interpreted value for a host interface): the shape of F07-17,
// repaired by 5b28270 and kept in the in-domain stream.
func (g *genCfg) genSpreadViaFuncValue(id string) *Case {
	r := g.rng
	var ins []*TypeD
	ins = append(ins, g.one("func() int", "func(int) int", "fmt.Stringer", "error", "io.Writer", "func(string) (int, error)"))
	if r.Intn(2) == 0 {
		ins = append(ins, g.one("int", "string", "hp.Pt"))
	}
	ins = append(ins, typeByID("[]"+g.one("int", "string", "hp.Pt", "interface{}").ID))
	c := g.call("s2h", id, funcType(ins, []*TypeD{typeByID("int")}, true))
	c.Callee = []string{"fntyped", "fntyped", "fnvar"}[r.Intn(3)]
	c.Ctx = g.genCtx(c.Sig)
	if c.Ctx == "blank" {
		c.Ctx = "define"
	}
	for tries := 0; tries < 8 && !c.Spread; tries++ {
		c.Args, c.Forms = nil, nil
		g.genArgs(c)
	}
	if c.Args[0].T.Kind == KFunc && c.Args[0].Fn != nil {
		c.Forms[0] = "decl"
	}
	return c
}

// genCondLoop: a host call with a bool result used as a condition — operand of && / || / !, if or for condition, or operand of
// an assigned && / || — executed once per element of Seq in ONE frame (a loop), its result driven by its first argument, so
// that true and false alternate. Functions (hp.F, function variables), methods, method values, variadic calls.
func (g *genCfg) genCondLoop(id string) *Case {
	r := g.rng
	var c *Case
	if r.Intn(3) == 0 {
		c = &Case{ID: id, Dir: "meth", Method: "Is"}
		c.Sig = funcType([]*TypeD{typeByID("bool"), typeByID("[]int")}, []*TypeD{typeByID("bool")}, true)
		c.Recv = []string{"ptr", "ptr", "mvalue", "embedded", "val", "sptr", "sptrmv"}[r.Intn(7)]
	} else {
		ins := []*TypeD{typeByID("bool")}
		for i := r.Intn(3); i > 0; i-- {
			ins = append(ins, g.one("int", "string", "hp.Pt", "[]int", "interface{}", "hp.Color"))
		}
		variadic := r.Intn(2) == 0
		if variadic {
			ins = append(ins, typeByID("[]"+g.one("int", "string", "interface{}", "hp.Pt").ID))
		}
		c = g.call("s2h", id, funcType(ins, []*TypeD{typeByID("bool")}, variadic))
		c.Body.Muts = nil
		c.Body.Rets = []*Expr{{Op: []string{"p", "not"}[r.Intn(2)], I: 0}}
		c.Callee = []string{"", "", "", "fnvar", "fntyped"}[r.Intn(5)]
	}
	c.Ctx = "condloop"
	c.CondOp = []string{"and", "or", "not", "if", "for", "andassign", "orassign", "rhsand"}[r.Intn(8)]
	g.genArgs(c)
	for k, a := range c.Args {
		if a.T.Kind == KFunc {
			c.Args[k] = &Val{T: a.T, Nil: true}
		}
	}
	c.Args[0], c.Forms[0] = &Val{T: typeByID("bool")}, "loopvar"
	// alternating results, both orders, at least one true followed by a false
	n := 2 + r.Intn(5)
	b := r.Intn(2) == 0
	for i := 0; i < n; i++ {
		c.Seq = append(c.Seq, b)
		if r.Intn(4) != 0 {
			b = !b
		}
	}
	return c
}

// genRepaired: the shapes of the findings repaired in round 5, kept in the in-domain stream — constants through a method value of a
// variadic host method (F07-3, b1e4f7b), Eval("main.F") after a statement evaluated without package clause (F07-18, 113505f), a
// host variable of pointer / interface type that is nil when Use is called (F07-5, ad91691), a script global of interface type seen
// through Globals / Symbols (F07-12, 7c18bb6).
func (g *genCfg) genRepaired(id string) *Case {
	r := g.rng
	switch r.Intn(4) {
	case 0:
		c := g.genMethodCase(id)
		c.Recv = []string{"mvalue", "mvalue", "sptrmv"}[r.Intn(3)]
		if c.Recv == "sptrmv" && c.Ctx == "go" {
			c.Ctx = "stmt"
		}
		g.setRebind(c)
		for k, a := range c.Args {
			pt := paramTypeOf(c, k)
			if pt.Kind == KBasic && !(c.Spread && k == len(c.Args)-1) && a.T.Kind == KBasic {
				c.Forms[k] = "const"
			}
		}
		return c
	case 1:
		c := g.genCall("h2s", id)
		c.BareEval, c.Via = true, "eval-qual"
		return c
	case 2:
		c := &Case{ID: id, Dir: "var", Access: "use"}
		c.VT = g.one("*int", "*hp.Pt", "*string", "*[]int", "*hp.Tree", "*float64", "error", "fmt.Stringer", "interface{}")
		vg := *g
		c.V0 = &Val{T: c.VT, Nil: true}
		c.V1, c.V2 = vg.gen(c.VT, 0), vg.gen(c.VT, 0)
		c.Direct = r.Intn(4) == 0
		return c
	}
	c := g.genVarCase(id)
	c.Access = []string{"globals", "symbols"}[r.Intn(2)]
	c.VT = g.one("interface{}", "error", "fmt.Stringer")
	vg := *g
	c.V0, c.V1, c.V2 = vg.gen(c.VT, 0), vg.gen(c.VT, 0), vg.gen(c.VT, 0)
	return c
}

// zeroVal: the zero value of one of the simple types used by genDefineLoop.
func zeroVal(t *TypeD) *Val {
	switch t.Kind {
	case KPtr, KSlice, KMap, KIface, KFunc:
		return &Val{T: t, Nil: true}
	case KStruct:
		v := &Val{T: t}
		for _, f := range t.Fields {
			v.Elts = append(v.Elts, zeroVal(f.T))
		}
		return v
	}
	return &Val{T: t}
}

// genDefineLoop: a host function with 2..3 results called through `q0, q1 := hp.F(…)` executed several times in ONE frame (a loop),
// a pointer to / a closure over each declared variable kept after every execution and read when the loop is over. The callee
// returns its arguments; the arguments are drawn so that zero values (0, "", false, nil, zero struct) occur.
func (g *genCfg) genDefineLoop(id string) *Case {
	r := g.rng
	n := 2 + r.Intn(2)
	var ts []*TypeD
	for i := 0; i < n; i++ {
		ts = append(ts, g.one("int", "int", "string", "bool", "float64", "hp.Pt", "*hp.Pt", "[]int", "hp.Color", "interface{}", "error", "uint8", "map[string]int"))
	}
	c := g.call("s2h", id, funcType(ts, ts, false))
	c.Body.Muts = nil
	c.Body.Rets = nil
	for i := range ts {
		c.Body.Rets = append(c.Body.Rets, &Expr{Op: "p", I: i})
	}
	c.Ctx = "defineloop"
	c.Callee = []string{"", "", "", "fnvar", "fntyped"}[r.Intn(5)]
	for i := 0; i < n; i++ {
		c.Capture = append(c.Capture, []string{"ptr", "closure", "ptr", "closure", "none"}[r.Intn(5)])
	}
	vg := *g
	vg.noFuncs = true
	for k := 2 + r.Intn(4); k > 0; k-- {
		var it []*Val
		for _, t := range ts {
			if r.Intn(2) == 0 {
				it = append(it, zeroVal(t))
			} else {
				it = append(it, vg.gen(t, 1))
			}
		}
		c.Iters = append(c.Iters, it)
	}
	return c
}

func (g *genCfg) one(ids ...string) *TypeD { return typeByID(ids[g.rng.Intn(len(ids))]) }

// call builds a call case from a signature; args and body are generated.
func (g *genCfg) call(dir, id string, sig *TypeD) *Case {
	c := &Case{ID: id, Dir: dir, Sig: sig, Ctx: "define"}
	bg := *g
	bg.scriptCallee = dir == "h2s"
	c.Body = bg.genBody(sig, 0, true)
	c.Body.Name = "F"
	if dir == "h2s" {
		c.Via = []string{"eval-qual", "eval-plain", "symbols"}[g.rng.Intn(3)]
		c.How = "call"
	}
	if len(sig.Out) == 0 {
		c.Ctx = "stmt"
	}
	return c
}

// genFor draws a case aimed at one class (the caller keeps it only if classOf agrees).
func (g *genCfg) genFor(cls, id string) *Case {
	r := g.rng
	switch cls {
	case "script-iface":
		c := g.genCall("h2s", id)
		ms := typeByID("MS")
		ins, outs := append([]*TypeD{}, c.Sig.In...), append([]*TypeD{}, c.Sig.Out...)
		switch r.Intn(3) {
		case 0:
			if c.Sig.Variadic {
				return nil
			}
			ins = append(ins, ms)
		case 1:
			outs = append(outs, ms)
		default:
			if c.Sig.Variadic {
				return nil
			}
			ins = append(ins, typeByID("[]MS"))
		}
		if len(ins) > 4 || len(outs) > 3 {
			return nil
		}
		nc := g.call("h2s", id, funcType(ins, outs, c.Sig.Variadic))
		g.genArgs(nc)
		return nc
	case "methodful-in-empty":
		dir := []string{"s2h", "h2s", "meth"}[r.Intn(3)]
		if dir == "meth" {
			c := g.genMethodCase(id)
			if c.Method != "Any" {
				return nil
			}
			return c
		}
		e := g.one("interface{}", "[]interface{}", "map[string]interface{}", "struct{Af interface{}}")
		c := g.call(dir, id, funcType([]*TypeD{g.one("int", "string"), e}, []*TypeD{e}, false))
		g.genArgs(c)
		if a := c.Args[1]; dir == "s2h" && e.isEmptyIface() && a.Dyn != nil && (a.Dyn.T.ID == "SM" || a.Dyn.T.ID == "SI") && r.Intn(2) == 0 {
			c.Forms[1] = "boxedvar"
		}
		return c
	case "script-dyn-variadic-elem":
		it := g.one("error", "fmt.Stringer", "io.Writer", "sort.Interface")
		var ins []*TypeD
		for i := r.Intn(3); i > 0; i-- {
			ins = append(ins, g.one("int", "string", "hp.Pt", "[]int"))
		}
		ins = append(ins, typeByID("[]"+it.ID))
		c := g.call("s2h", id, funcType(ins, []*TypeD{typeByID("int")}, true))
		c.Ctx = g.genCtx(c.Sig)
		if c.Ctx == "defer" || c.Ctx == "blank" {
			c.Ctx = "define"
		}
		g.genArgs(c)
		return c
	case "script-dyn-indirect":
		it := g.one("error", "fmt.Stringer", "io.Writer", "sort.Interface")
		var pt *TypeD
		switch r.Intn(3) {
		case 0:
			pt = it
		case 1:
			pt = typeByID("[]" + it.ID)
		default:
			pt = typeByID("map[string]" + it.ID)
		}
		c := g.call("s2h", id, funcType([]*TypeD{pt, typeByID("int")}, []*TypeD{typeByID("int")}, false))
		g.genArgs(c)
		if pt == it {
			c.Forms[0] = "var"
		}
		return c
	case "iface-roundtrip-assert":
		it := g.one("fmt.Stringer", "interface{}", "error", "sort.Interface")
		c := g.call("s2h", id, funcType([]*TypeD{it}, []*TypeD{it}, false))
		c.Body.Rets = []*Expr{{Op: "p", I: 0}}
		g.genArgs(c)
		c.Forms[0] = "lit"
		c.Assert = true
		return c
	}
	return nil
}

var _ = rand.Int
