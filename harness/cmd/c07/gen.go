// Case streams of the C07 harness.
package main

import (
	"fmt"
	"math/rand"

	"verif/harness/common"
)

func newGen(run *common.Run, ctr *int, feats []string) *genCfg {
	g := &genCfg{rng: run.Rng, feat: map[string]bool{}, fnCounter: ctr}
	for f := range defaultFeatures {
		g.feat[f] = true
	}
	for _, f := range feats {
		g.feat[f] = true
	}
	if *featFlag != "" {
		g.feat[*featFlag] = true
	}
	return g
}

// generate draws n cases with the default features (development: -explore).
func generate(run *common.Run, n int) []*Case {
	var cases []*Case
	ctr := 0
	for k := 0; k < n; k++ {
		cases = append(cases, newGen(run, &ctr, nil).genAny(fmt.Sprintf("c%d", k)))
	}
	return cases
}

func (g *genCfg) genAny(id string) *Case {
	switch x := g.rng.Intn(20); {
	case x < 8:
		return g.genCall("s2h", id)
	case x < 15:
		return g.genCall("h2s", id)
	case x < 17:
		return g.genMethodCase(id)
	case x < 18:
		return g.genRetainCase(id)
	}
	return g.genVarCase(id)
}

// featuresFor: the generator features a class needs.
func featuresFor(cls string) []string {
	switch cls {
	case "builtin-in-multi-return", "script-iface", "methodful-in-empty", "script-dyn-indirect", "eval-qualified-var", "var-assign-direct":
		return []string{cls}
	}
	return nil
}

func (g *genCfg) one(ids ...string) *TypeD { return typeByID(ids[g.rng.Intn(len(ids))]) }

// call builds a call case from a signature; args and body are generated.
func (g *genCfg) call(dir, id string, sig *TypeD) *Case {
	c := &Case{ID: id, Dir: dir, Sig: sig, Ctx: "define"}
	bg := *g
	bg.scriptCallee = dir == "h2s"
	c.Body = bg.genBody(sig, 0, true)
	c.Body.Name = "F"
	if dir == "h2s" {
		c.Via = []string{"eval-qual", "eval-plain", "symbols"}[g.rng.Intn(3)]
		c.How = "call"
	}
	if len(sig.Out) == 0 {
		c.Ctx = "stmt"
	}
	return c
}

// genFor draws a case aimed at one class (the caller keeps it only if classOf agrees).
func (g *genCfg) genFor(cls, id string) *Case {
	r := g.rng
	switch cls {
	case "defer-spread":
		e := g.one("int", "string", "hp.Pt", "[]int", "interface{}", "float64", "*hp.Pt")
		var ins []*TypeD
		for i := r.Intn(3); i > 0; i-- {
			ins = append(ins, g.one("int", "string", "hp.Color", "map[string]int"))
		}
		ins = append(ins, typeByID("[]"+e.ID))
		c := g.call("s2h", id, funcType(ins, nil, true))
		c.Ctx = "defer"
		g.genArgs(c)
		if !c.Spread {
			return nil
		}
		return c
	case "variadic-empty":
		if r.Intn(3) == 0 {
			c := g.genMethodCase(id)
			if !c.Sig.Variadic {
				return nil
			}
			c.Args, c.Forms, c.Spread = c.Args[:0], c.Forms[:0], false
			c.Ctx = g.genCtx(c.Sig)
			if c.Ctx == "defer" || c.Ctx == "blank" {
				c.Ctx = "define"
			}
			ng := *g
			for _, pt := range c.Sig.In[:len(c.Sig.In)-1] {
				c.Args = append(c.Args, ng.gen(pt, 0))
				c.Forms = append(c.Forms, "var")
			}
			for k, a := range c.Args {
				if a.T.Kind == KFunc && a.Nil {
					c.Args[k] = &Val{T: a.T, Fn: g.genBody(a.T, 1, false)}
				}
			}
			return c
		}
		c := g.genCall("s2h", id)
		if !c.Sig.Variadic {
			return nil
		}
		n := len(c.Sig.In) - 1
		if len(c.Args) < n {
			return nil
		}
		c.Args, c.Forms, c.Spread, c.ArgSrc = c.Args[:n], c.Forms[:n], false, ""
		return c
	case "method-value-variadic":
		c := g.genMethodCase(id)
		c.Recv = "mvalue"
		for k, a := range c.Args {
			pt := paramTypeOf(c, k)
			if pt.Kind == KBasic && !(c.Spread && k == len(c.Args)-1) && a.T.Kind == KBasic {
				c.Forms[k] = "const"
			}
		}
		return c
	case "hostvar-nil-pointer":
		c := &Case{ID: id, Dir: "var", Access: "use"}
		c.VT = g.one("*int", "*hp.Pt", "*string", "*[]int", "*hp.Tree", "*float64", "error", "fmt.Stringer", "interface{}")
		vg := *g
		c.V0 = &Val{T: c.VT, Nil: true}
		c.V1, c.V2 = vg.gen(c.VT, 0), vg.gen(c.VT, 0)
		return c
	case "eval-qualified-var", "var-assign-direct":
		return g.genVarCase(id)
	case "iface-typed-global":
		c := g.genVarCase(id)
		c.Access = []string{"globals", "symbols"}[r.Intn(2)]
		c.VT = g.one("interface{}", "error", "fmt.Stringer")
		vg := *g
		c.V0, c.V1, c.V2 = vg.gen(c.VT, 0), vg.gen(c.VT, 0), vg.gen(c.VT, 0)
		return c
	case "builtin-in-multi-return":
		lenable := g.one("[]int", "map[string]int", "string", "[]hp.Pt", "map[string][]int", "[3]int")
		ins := []*TypeD{g.genType(1, false, true), lenable}
		if r.Intn(2) == 0 {
			ins = append(ins, g.genType(1, false, true))
		}
		outs := []*TypeD{ins[0], typeByID("int")}
		if r.Intn(2) == 0 {
			outs = append(outs, ins[len(ins)-1])
		}
		dir := []string{"h2s", "h2s", "s2h"}[r.Intn(3)]
		if dir == "s2h" {
			// the script-side function is then a callback handed to the host
			cbT := funcType(ins, outs, false)
			if !cbT.hostExpressible() {
				return nil
			}
			sig := funcType([]*TypeD{cbT}, outs, false)
			c := g.call("s2h", id, sig)
			c.Body.Rets = nil
			var args []*Expr
			for _, it := range ins {
				args = append(args, g.genArgExpr(it, nil, 1))
			}
			for j := range outs {
				c.Body.Rets = append(c.Body.Rets, &Expr{Op: "call", I: 0, J: j, Args: args})
			}
			c.Body.Rets = c.Body.Rets[:1] // one call, first result (the other results are observed by the callback's own recording)
			c.Sig = funcType([]*TypeD{cbT}, outs[:1], false)
			cb := g.genBodyIn(cbT, 1, nil)
			cb.Rets[1] = &Expr{Op: "len", I: 1}
			cb.Direct = true
			c.Args = []*Val{{T: cbT, Fn: cb}}
			c.Forms = []string{"lit"}
			return c
		}
		c := g.call(dir, id, funcType(ins, outs, false))
		c.Body.Rets[1] = &Expr{Op: "len", I: 1}
		c.Body.Direct = true
		g.genArgs(c)
		return c
	case "script-iface":
		c := g.genCall("h2s", id)
		ms := typeByID("MS")
		ins, outs := append([]*TypeD{}, c.Sig.In...), append([]*TypeD{}, c.Sig.Out...)
		switch r.Intn(3) {
		case 0:
			if c.Sig.Variadic {
				return nil
			}
			ins = append(ins, ms)
		case 1:
			outs = append(outs, ms)
		default:
			if c.Sig.Variadic {
				return nil
			}
			ins = append(ins, typeByID("[]MS"))
		}
		if len(ins) > 4 || len(outs) > 3 {
			return nil
		}
		nc := g.call("h2s", id, funcType(ins, outs, c.Sig.Variadic))
		g.genArgs(nc)
		return nc
	case "methodful-in-empty":
		dir := []string{"s2h", "h2s", "meth"}[r.Intn(3)]
		if dir == "meth" {
			c := g.genMethodCase(id)
			if c.Method != "Any" {
				return nil
			}
			return c
		}
		e := g.one("interface{}", "[]interface{}", "map[string]interface{}", "struct{Af interface{}}")
		c := g.call(dir, id, funcType([]*TypeD{g.one("int", "string"), e}, []*TypeD{e}, false))
		g.genArgs(c)
		if a := c.Args[1]; dir == "s2h" && e.isEmptyIface() && a.Dyn != nil && (a.Dyn.T.ID == "SM" || a.Dyn.T.ID == "SI") && r.Intn(2) == 0 {
			c.Forms[1] = "boxedvar"
		}
		return c
	case "script-dyn-variadic-elem":
		it := g.one("error", "fmt.Stringer", "io.Writer", "sort.Interface")
		var ins []*TypeD
		for i := r.Intn(3); i > 0; i-- {
			ins = append(ins, g.one("int", "string", "hp.Pt", "[]int"))
		}
		ins = append(ins, typeByID("[]"+it.ID))
		c := g.call("s2h", id, funcType(ins, []*TypeD{typeByID("int")}, true))
		c.Ctx = g.genCtx(c.Sig)
		if c.Ctx == "defer" || c.Ctx == "blank" {
			c.Ctx = "define"
		}
		g.genArgs(c)
		return c
	case "script-dyn-indirect":
		it := g.one("error", "fmt.Stringer", "io.Writer", "sort.Interface")
		var pt *TypeD
		switch r.Intn(3) {
		case 0:
			pt = it
		case 1:
			pt = typeByID("[]" + it.ID)
		default:
			pt = typeByID("map[string]" + it.ID)
		}
		c := g.call("s2h", id, funcType([]*TypeD{pt, typeByID("int")}, []*TypeD{typeByID("int")}, false))
		g.genArgs(c)
		if pt == it {
			c.Forms[0] = "var"
		}
		return c
	case "iface-roundtrip-assert":
		it := g.one("fmt.Stringer", "interface{}", "error", "sort.Interface")
		c := g.call("s2h", id, funcType([]*TypeD{it}, []*TypeD{it}, false))
		c.Body.Rets = []*Expr{{Op: "p", I: 0}}
		g.genArgs(c)
		c.Forms[0] = "lit"
		c.Assert = true
		return c
	}
	return nil
}

var _ = rand.Int
