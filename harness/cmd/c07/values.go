// Values of the C07 harness: one abstract value tree (Val) with two renderings — a native reflect.Value
// (build) and a Go source expression for the script (lit) — plus the canonical rendering of observed
// reflect.Values (canon), which is what is compared (data only, never addresses).
package main

import (
	"fmt"
	"io"
	"math/rand"
	"reflect"
	"sort"
	"strconv"
	"strings"
)

// Val is a value of type T.
type Val struct {
	T    *TypeD  `json:"t"`
	I    int64   `json:"i,omitempty"`  // signed integers; bool as 0/1
	U    uint64  `json:"u,omitempty"`  // unsigned integers
	F    float64 `json:"f,omitempty"`  // floats; real part
	Im   float64 `json:"im,omitempty"` // imaginary part
	S    string  `json:"s,omitempty"`
	Nil  bool    `json:"nil,omitempty"`  // nil pointer/slice/map/func/interface
	Elts []*Val  `json:"e,omitempty"`    // struct fields / array, slice elements / map values
	Keys []*Val  `json:"k,omitempty"`    // map keys
	Ptr  *Val    `json:"p,omitempty"`    // pointee
	Dyn  *Val    `json:"dyn,omitempty"`  // dynamic value of an interface
	Fn   *Body   `json:"fn,omitempty"`   // function value: its body (signature = T)
	Addr bool    `json:"addr,omitempty"` // Dyn only: the interface holds the ADDRESS of this value (pointer-receiver methods)
}

// ---- generation ----

type genCfg struct {
	rng       *rand.Rand
	feat      map[string]bool // enabled out-of-domain features
	noFuncs   bool            // no function values inside (used for map keys, probe args)
	scriptDyn bool            // the value being generated is written by the script directly where a host interface is expected (top-level argument / result)
	fnCounter *int
	scriptCallee bool // the body being generated is script source (h2s): its top-level result constants may be script values
}

var smallFloats = []float64{0, 1, -1, 0.5, 2.25, -3.75, 100, 1e3, -0.125, 6.5}

func (g *genCfg) intIn(bits int, signed bool) (int64, uint64) {
	r := g.rng
	if signed {
		lim := int64(1)<<(bits-1) - 1
		switch r.Intn(6) {
		case 0:
			return 0, 0
		case 1:
			return lim, 0
		case 2:
			return -lim - 1, 0
		case 3:
			return int64(r.Intn(200) - 100), 0
		}
		v := r.Int63()
		if bits < 64 {
			v %= lim + 1
		}
		if r.Intn(2) == 0 {
			v = -v
		}
		return v, 0
	}
	var lim uint64 = 1<<uint(bits) - 1
	if bits == 64 {
		lim = ^uint64(0)
	}
	switch r.Intn(5) {
	case 0:
		return 0, 0
	case 1:
		return 0, lim
	case 2:
		return 0, uint64(r.Intn(200))
	}
	v := r.Uint64()
	if bits < 64 {
		v %= lim + 1
	}
	return 0, v
}

var words = []string{"", "a", "go", "yaegi", "héllo", "x y", "tab\there", "q\"uote", "line\nbreak", "λ→", "0", "zz"}

// gen returns a random value of type t.
func (g *genCfg) gen(t *TypeD, depth int) *Val {
	v := &Val{T: t}
	r := g.rng
	switch t.Kind {
	case KBasic:
		switch k := t.RT.Kind(); k {
		case reflect.Bool:
			v.I = int64(r.Intn(2))
		case reflect.Int, reflect.Int64:
			v.I, _ = g.intIn(64, true)
		case reflect.Int8:
			v.I, _ = g.intIn(8, true)
		case reflect.Int16:
			v.I, _ = g.intIn(16, true)
		case reflect.Int32:
			v.I, _ = g.intIn(32, true)
		case reflect.Uint, reflect.Uint64, reflect.Uintptr:
			_, v.U = g.intIn(64, false)
		case reflect.Uint8:
			_, v.U = g.intIn(8, false)
		case reflect.Uint16:
			_, v.U = g.intIn(16, false)
		case reflect.Uint32:
			_, v.U = g.intIn(32, false)
		case reflect.Float32, reflect.Float64:
			v.F = smallFloats[r.Intn(len(smallFloats))]
		case reflect.Complex64, reflect.Complex128:
			v.F = smallFloats[r.Intn(len(smallFloats))]
			v.Im = smallFloats[r.Intn(len(smallFloats))]
		case reflect.String:
			v.S = words[r.Intn(len(words))]
		}
	case KStruct:
		for _, f := range t.Fields {
			v.Elts = append(v.Elts, g.gen(f.T, depth+1))
		}
	case KPtr:
		if depth > 3 || r.Intn(6) == 0 {
			v.Nil = true
		} else {
			v.Ptr = g.gen(t.Elem, depth+1)
		}
	case KArray:
		for i := 0; i < t.Len; i++ {
			v.Elts = append(v.Elts, g.gen(t.Elem, depth+1))
		}
	case KSlice:
		if r.Intn(8) == 0 {
			v.Nil = true
		} else {
			n := r.Intn(4)
			if depth > 2 {
				n = r.Intn(2)
			}
			v.Elts = []*Val{}
			for i := 0; i < n; i++ {
				v.Elts = append(v.Elts, g.gen(t.Elem, depth+1))
			}
		}
	case KMap:
		if r.Intn(8) == 0 {
			v.Nil = true
		} else {
			n := r.Intn(3)
			seen := map[string]bool{}
			v.Elts, v.Keys = []*Val{}, []*Val{}
			kg := *g
			kg.noFuncs = true
			for i := 0; i < n; i++ {
				k := kg.gen(t.Key, depth+1)
				ck := canonVal(k)
				if seen[ck] {
					continue
				}
				seen[ck] = true
				v.Keys = append(v.Keys, k)
				v.Elts = append(v.Elts, g.gen(t.Elem, depth+1))
			}
		}
	case KFunc:
		if g.noFuncs || r.Intn(10) == 0 {
			v.Nil = true
		} else {
			v.Fn = g.genBody(t, depth+1, false)
		}
	case KIface:
		if r.Intn(6) == 0 {
			v.Nil = true
			break
		}
		cands := g.dynCandidates(t, depth == 0 && g.scriptDyn)
		dt := cands[r.Intn(len(cands))]
		v.Dyn = g.gen(dt, depth+1)
		if dt.PtrRecv && t.Iface != "empty" && dt != tyHostWriter {
			v.Addr = true
		}
		if v.Dyn.T.nilable() && v.Dyn.Nil {
			// a typed nil inside an interface is legal Go but not what this harness is about
			v.Nil, v.Dyn = true, nil
		}
	}
	return v
}

// dynCandidates lists the concrete types a value of interface type it may hold here.
func (g *genCfg) dynCandidates(it *TypeD, direct bool) []*TypeD {
	ok := direct || g.feat["script-dyn-indirect"]
	ids := []string{}
	switch it.Iface {
	case "empty":
		ids = []string{"int", "string", "bool", "float64", "hp.Pt", "[]int", "map[string]int", "hp.Color", "*hp.Pt", "uint8", "ST"}
		if g.feat["methodful-in-empty"] {
			ids = append(ids, "SM", "SI")
		}
	case "error":
		ids = []string{"hostError"}
		if ok {
			ids = append(ids, "SM")
		}
	case "fmt.Stringer", "script:MS":
		ids = []string{"hp.Color"}
		if ok || it.Iface == "script:MS" {
			ids = append(ids, "SM", "SI")
		}
	case "io.Writer":
		ids = []string{"hostWriter"}
		if ok {
			ids = append(ids, "SW")
		}
	case "sort.Interface":
		ids = []string{"hp.Names"}
		if ok {
			ids = append(ids, "SL")
		}
	}
	out := []*TypeD{}
	for _, id := range ids {
		switch id {
		case "hostError":
			out = append(out, tyHostError)
		case "hostWriter":
			out = append(out, tyHostWriter)
		default:
			out = append(out, typeByID(id))
		}
	}
	return out
}

// two pseudo types for dynamic values that only the host side can create (errors.New, a host buffer)
var (
	tyHostError  = &TypeD{ID: "hostError", Kind: KBasic, RT: reflect.TypeOf(""), Methods: "error"}
	tyHostWriter = &TypeD{ID: "hostWriter", Kind: KBasic, RT: reflect.TypeOf(""), Methods: "io.Writer", PtrRecv: true}
)

type hostWriter struct{ got []byte }

func (w *hostWriter) Write(p []byte) (int, error) { w.got = append(w.got, p...); return len(p), nil }

type hostErr struct{ s string }

func (e *hostErr) Error() string { return e.s }

// ---- native construction ----

type buildCtx struct {
	env    *nativeEnv        // for function values
	frames [][]reflect.Value // parameters of the enclosing native functions (captured by function constants)
}

// build constructs v as a native value of type target (target is v.T.RT or a structurally identical type, e.g.
// the interpreter's own type for a script-declared struct).
func (cx *buildCtx) build(v *Val, target reflect.Type) reflect.Value {
	out := reflect.New(target).Elem()
	t := v.T
	switch t.Kind {
	case KBasic:
		switch target.Kind() {
		case reflect.Bool:
			out.SetBool(v.I != 0)
		case reflect.Int, reflect.Int8, reflect.Int16, reflect.Int32, reflect.Int64:
			out.SetInt(v.I)
		case reflect.Uint, reflect.Uint8, reflect.Uint16, reflect.Uint32, reflect.Uint64, reflect.Uintptr:
			out.SetUint(v.U)
		case reflect.Float32, reflect.Float64:
			out.SetFloat(v.F)
		case reflect.Complex64, reflect.Complex128:
			out.SetComplex(complex(v.F, v.Im))
		case reflect.String:
			out.SetString(v.S)
		}
	case KStruct:
		for i, e := range v.Elts {
			out.Field(i).Set(cx.build(e, target.Field(i).Type))
		}
	case KPtr:
		if !v.Nil {
			p := reflect.New(target.Elem())
			p.Elem().Set(cx.build(v.Ptr, target.Elem()))
			out.Set(p)
		}
	case KArray:
		for i, e := range v.Elts {
			out.Index(i).Set(cx.build(e, target.Elem()))
		}
	case KSlice:
		if !v.Nil {
			s := reflect.MakeSlice(target, len(v.Elts), len(v.Elts))
			for i, e := range v.Elts {
				s.Index(i).Set(cx.build(e, target.Elem()))
			}
			out.Set(s)
		}
	case KMap:
		if !v.Nil {
			m := reflect.MakeMap(target)
			for i, e := range v.Elts {
				m.SetMapIndex(cx.build(v.Keys[i], target.Key()), cx.build(e, target.Elem()))
			}
			out.Set(m)
		}
	case KFunc:
		if !v.Nil {
			out.Set(cx.env.makeFuncIn(target, t, v.Fn, cx.frames))
		}
	case KIface:
		if !v.Nil {
			var d reflect.Value
			switch v.Dyn.T {
			case tyHostError:
				d = reflect.ValueOf(&hostErr{v.Dyn.S})
			case tyHostWriter:
				d = reflect.ValueOf(&hostWriter{})
			default:
				d = cx.build(v.Dyn, v.Dyn.T.RT)
				if v.Addr {
					p := reflect.New(d.Type())
					p.Elem().Set(d)
					d = p
				}
			}
			out.Set(d)
		}
	}
	return out
}

// ---- script literal ----

type litCtx struct {
	helpers map[string]string // name → declaration
	level   int               // nesting level of the function being rendered (-1: not inside a generated function)
	scopes  []*TypeD          // signature per level
	tmpN    int
}

func quote(s string) string { return strconv.Quote(s) }

func floatLit(f float64) string {
	s := strconv.FormatFloat(f, 'g', -1, 64)
	if !strings.ContainsAny(s, ".e") {
		s += ".0"
	}
	return s
}

// lit renders v as a Go expression of type v.T. With untyped=true a basic value is rendered as an untyped
// constant where Go allows it to be used for the type.
func (cx *litCtx) lit(v *Val, untyped bool) string {
	t := v.T
	switch t.Kind {
	case KBasic:
		var c string
		switch t.RT.Kind() {
		case reflect.Bool:
			c = strconv.FormatBool(v.I != 0)
		case reflect.Int, reflect.Int8, reflect.Int16, reflect.Int32, reflect.Int64:
			c = strconv.FormatInt(v.I, 10)
		case reflect.Uint, reflect.Uint8, reflect.Uint16, reflect.Uint32, reflect.Uint64, reflect.Uintptr:
			c = strconv.FormatUint(v.U, 10)
		case reflect.Float32, reflect.Float64:
			c = floatLit(v.F)
		case reflect.Complex64, reflect.Complex128:
			if untyped {
				return fmt.Sprintf("(%s + %si)", floatLit(v.F), floatLit(v.Im))
			}
			return fmt.Sprintf("%s(complex(%s, %s))", t.ID, floatLit(v.F), floatLit(v.Im))
		case reflect.String:
			c = quote(v.S)
		}
		if untyped {
			return c
		}
		if strings.HasPrefix(c, "-") {
			return t.ID + "(" + c + ")"
		}
		return t.ID + "(" + c + ")"
	case KStruct:
		parts := make([]string, len(v.Elts))
		for i, e := range v.Elts {
			parts[i] = t.Fields[i].Name + ": " + cx.lit(e, false)
		}
		return t.ID + "{" + strings.Join(parts, ", ") + "}"
	case KPtr:
		if v.Nil {
			return "(" + t.ID + ")(nil)"
		}
		switch t.Elem.Kind {
		case KStruct, KArray, KSlice, KMap:
			if !v.Ptr.Nil {
				return "&" + cx.lit(v.Ptr, false)
			}
		}
		name := "ptrOf_" + mangle(t.Elem.ID)
		cx.helpers[name] = fmt.Sprintf("func %s(v %s) %s { return &v }", name, t.Elem.ID, t.ID)
		return name + "(" + cx.lit(v.Ptr, false) + ")"
	case KArray, KSlice:
		if v.Nil {
			return "(" + t.ID + ")(nil)"
		}
		parts := make([]string, len(v.Elts))
		for i, e := range v.Elts {
			parts[i] = cx.lit(e, false)
		}
		return t.ID + "{" + strings.Join(parts, ", ") + "}"
	case KMap:
		if v.Nil {
			return "(" + t.ID + ")(nil)"
		}
		parts := make([]string, len(v.Elts))
		for i, e := range v.Elts {
			parts[i] = cx.lit(v.Keys[i], false) + ": " + cx.lit(e, false)
		}
		return t.ID + "{" + strings.Join(parts, ", ") + "}"
	case KFunc:
		if v.Nil {
			return "(" + t.ID + ")(nil)"
		}
		s := cx.renderFuncLit(t, v.Fn)
		if t.Decl != "" {
			return t.ID + "(" + s + ")"
		}
		return s
	case KIface:
		// interface values are written the ordinary way: the dynamic value in a context that is typed by the
		// interface (argument, return operand, element of a composite literal, `var x I = …`)
		if v.Nil {
			return "nil"
		}
		var d string
		switch v.Dyn.T {
		case tyHostError:
			d = "errors.New(" + quote(v.Dyn.S) + ")"
		case tyHostWriter:
			d = "hp.NewWriter()"
		default:
			d = cx.lit(v.Dyn, false)
			if v.Addr {
				d = "&" + d
			}
		}
		return d
	}
	return "?"
}

func mangle(s string) string {
	var b strings.Builder
	for _, c := range s {
		switch {
		case c >= 'a' && c <= 'z' || c >= 'A' && c <= 'Z' || c >= '0' && c <= '9':
			b.WriteRune(c)
		case c == '*':
			b.WriteString("P")
		case c == '[':
			b.WriteString("L")
		case c == ']':
			b.WriteString("J")
		default:
			b.WriteString("_")
		}
	}
	return b.String()
}

// ---- canonical rendering of observed values ----

type canonCtx struct {
	env   *nativeEnv
	depth int
}

func isLeakType(t reflect.Type) string {
	switch t.String() {
	case "interp.valueInterface":
		return "LEAK:valueInterface"
	case "*interp.node":
		return "LEAK:node"
	}
	return ""
}

// isIfaceWrapper: the `_Iface` wrapper structs of the exports (stdlib._fmt_Stringer …, interp._error).
func isIfaceWrapper(t reflect.Type) bool {
	if t.Kind() == reflect.Ptr {
		t = t.Elem()
	}
	return t.Kind() == reflect.Struct && strings.HasPrefix(t.Name(), "_") && (t.PkgPath() == "github.com/traefik/yaegi/stdlib" || t.PkgPath() == "github.com/traefik/yaegi/interp")
}

func typeLabel(t reflect.Type) string {
	// host-declared names are part of the datum; the native twins of script-declared types and the
	// interpreter's own anonymous types are rendered structurally
	if t.PkgPath() == "main" && !strings.HasPrefix(t.Name(), "n") {
		return t.Name()
	}
	return ""
}

func (cx *canonCtx) canon(v reflect.Value) string {
	if !v.IsValid() {
		return "<invalid>"
	}
	if cx.depth > 12 {
		return "<deep>"
	}
	cx.depth++
	defer func() { cx.depth-- }()
	t := v.Type()
	if l := isLeakType(t); l != "" {
		return l
	}
	lbl := typeLabel(t)
	switch v.Kind() {
	case reflect.Bool:
		return lbl + fmt.Sprintf("bool(%v)", v.Bool())
	case reflect.Int, reflect.Int8, reflect.Int16, reflect.Int32, reflect.Int64:
		return lbl + fmt.Sprintf("%s(%d)", v.Kind(), v.Int())
	case reflect.Uint, reflect.Uint8, reflect.Uint16, reflect.Uint32, reflect.Uint64, reflect.Uintptr:
		return lbl + fmt.Sprintf("%s(%d)", v.Kind(), v.Uint())
	case reflect.Float32, reflect.Float64:
		return lbl + fmt.Sprintf("%s(%s)", v.Kind(), strconv.FormatFloat(v.Float(), 'g', -1, 64))
	case reflect.Complex64, reflect.Complex128:
		c := v.Complex()
		return lbl + fmt.Sprintf("%s(%s,%s)", v.Kind(), strconv.FormatFloat(real(c), 'g', -1, 64), strconv.FormatFloat(imag(c), 'g', -1, 64))
	case reflect.String:
		return lbl + strconv.Quote(v.String())
	case reflect.Ptr:
		if v.IsNil() {
			return "nilptr"
		}
		if hw, ok := v.Interface().(*hostWriter); ok {
			return "hostWriter(" + strconv.Quote(string(hw.got)) + ")"
		}
		if he, ok := v.Interface().(*hostErr); ok {
			return "hostErr(" + strconv.Quote(he.s) + ")"
		}
		if t.String() == "*errors.errorString" {
			return "hostErr(" + strconv.Quote(v.Interface().(error).Error()) + ")"
		}
		return "&" + cx.canon(v.Elem())
	case reflect.Struct:
		if isIfaceWrapper(t) {
			return "IFACEWRAP:" + t.String()
		}
		parts := make([]string, v.NumField())
		for i := range parts {
			parts[i] = t.Field(i).Name + ":" + cx.canon(v.Field(i))
		}
		return lbl + "{" + strings.Join(parts, ",") + "}"
	case reflect.Array:
		parts := make([]string, v.Len())
		for i := range parts {
			parts[i] = cx.canon(v.Index(i))
		}
		return fmt.Sprintf("%s[%d:%s]", lbl, v.Len(), strings.Join(parts, ","))
	case reflect.Slice:
		if v.IsNil() {
			return lbl + "nilslice"
		}
		parts := make([]string, v.Len())
		for i := range parts {
			parts[i] = cx.canon(v.Index(i))
		}
		return lbl + "[" + strings.Join(parts, ",") + "]"
	case reflect.Map:
		if v.IsNil() {
			return "nilmap"
		}
		parts := []string{}
		it := v.MapRange()
		for it.Next() {
			parts = append(parts, cx.canon(it.Key())+"=>"+cx.canon(it.Value()))
		}
		sort.Strings(parts)
		return "map{" + strings.Join(parts, ",") + "}"
	case reflect.Func:
		if v.IsNil() {
			return "nilfunc"
		}
		return lbl + cx.probeFunc(v)
	case reflect.Interface:
		if v.IsNil() {
			return "nil"
		}
		return cx.canonIface(v, t)
	}
	return "<" + v.Kind().String() + ">"
}

// canonIface renders the content of an interface-typed slot. For an interface with methods the datum is
// the behaviour of those methods; for the empty interface it is the dynamic value (plus whether the host
// can see fmt.Stringer / error on it).
func (cx *canonCtx) canonIface(v reflect.Value, static reflect.Type) (out string) {
	defer func() {
		if r := recover(); r != nil {
			out = "ifacepanic(" + firstLine(fmt.Sprint(r)) + ")"
		}
	}()
	if cx.env != nil {
		cx.env.quiet++
		defer func() { cx.env.quiet-- }()
	}
	x := v.Interface()
	switch static {
	case rtStringer:
		return "Stringer(" + strconv.Quote(x.(fmt.Stringer).String()) + ")"
	case rtError:
		return "error(" + strconv.Quote(x.(error).Error()) + ")"
	case rtWriter:
		w := x.(io.Writer)
		n, err := w.Write([]byte("ab"))
		return fmt.Sprintf("Writer(n=%d,err=%v,%s)", n, err, cx.writerState(v.Elem()))
	case rtSort:
		s := x.(sort.Interface)
		r := fmt.Sprintf("Sort(len=%d", s.Len())
		if s.Len() >= 2 {
			r += fmt.Sprintf(",less01=%v", s.Less(0, 1))
		}
		return r + ")"
	}
	if static.NumMethod() > 0 {
		if s, ok := x.(fmt.Stringer); ok {
			return "Stringer(" + strconv.Quote(s.String()) + ")"
		}
		return "iface?"
	}
	d := v.Elem()
	extra := ""
	if l := isLeakType(d.Type()); l == "" && !isIfaceWrapper(d.Type()) {
		if s, ok := x.(fmt.Stringer); ok {
			extra += "+Stringer(" + strconv.Quote(s.String()) + ")"
		}
	}
	if isIfaceWrapper(d.Type()) {
		// an interpreted value that crossed as a host interface and came back: its behaviour is the datum
		if s, ok := x.(fmt.Stringer); ok {
			return "any(wrapped Stringer(" + strconv.Quote(s.String()) + "))"
		}
		if e, ok := x.(error); ok {
			return "any(wrapped error(" + strconv.Quote(e.Error()) + "))"
		}
		return "any(IFACEWRAP:" + d.Type().String() + ")"
	}
	return "any(" + cx.canon(d) + extra + ")"
}

func (cx *canonCtx) writerState(d reflect.Value) string {
	if hw, ok := d.Interface().(*hostWriter); ok {
		return "host:" + strconv.Quote(string(hw.got))
	}
	return "w"
}

// probeFunc renders a function value by its behaviour on fixed probe arguments.
func (cx *canonCtx) probeFunc(f reflect.Value) (out string) {
	defer func() {
		if r := recover(); r != nil {
			out = "func{panic:" + firstLine(fmt.Sprint(r)) + "}"
		}
	}()
	if cx.env != nil {
		cx.env.quiet++
		defer func() { cx.env.quiet-- }()
	}
	ft := f.Type()
	var runs []string
	for probe := 0; probe < 2; probe++ {
		in := make([]reflect.Value, ft.NumIn())
		for i := range in {
			in[i] = probeArg(ft.In(i), probe, cx.env)
		}
		var res []reflect.Value
		if ft.IsVariadic() {
			res = f.CallSlice(in)
		} else {
			res = f.Call(in)
		}
		parts := make([]string, len(res))
		for i, r := range res {
			parts[i] = cx.canon(r)
		}
		runs = append(runs, strings.Join(parts, ";"))
	}
	return "func{" + strings.Join(runs, " | ") + "}"
}

// probeArg is a deterministic argument of any type (used to observe function values).
func probeArg(t reflect.Type, probe int, env *nativeEnv) reflect.Value {
	v := reflect.New(t).Elem()
	switch t.Kind() {
	case reflect.Bool:
		v.SetBool(probe == 1)
	case reflect.Int, reflect.Int8, reflect.Int16, reflect.Int32, reflect.Int64:
		v.SetInt(int64(3 + 4*probe))
	case reflect.Uint, reflect.Uint8, reflect.Uint16, reflect.Uint32, reflect.Uint64, reflect.Uintptr:
		v.SetUint(uint64(2 + 9*probe))
	case reflect.Float32, reflect.Float64:
		v.SetFloat(1.5 + float64(probe))
	case reflect.Complex64, reflect.Complex128:
		v.SetComplex(complex(1, float64(probe)))
	case reflect.String:
		v.SetString([]string{"pq", "xyz"}[probe])
	case reflect.Struct:
		for i := 0; i < t.NumField(); i++ {
			if v.Field(i).CanSet() {
				v.Field(i).Set(probeArg(t.Field(i).Type, probe, env))
			}
		}
	case reflect.Slice:
		s := reflect.MakeSlice(t, 1+probe, 1+probe)
		for i := 0; i < s.Len(); i++ {
			s.Index(i).Set(probeArg(t.Elem(), (probe+i)%2, env))
		}
		v.Set(s)
	case reflect.Array:
		for i := 0; i < t.Len(); i++ {
			v.Index(i).Set(probeArg(t.Elem(), (probe+i)%2, env))
		}
	case reflect.Map:
		m := reflect.MakeMap(t)
		if t.Key().Comparable() && t.Key().Kind() != reflect.Interface {
			m.SetMapIndex(probeArg(t.Key(), probe, env), probeArg(t.Elem(), probe, env))
		}
		v.Set(m)
	case reflect.Ptr:
		if t.Elem().Kind() != reflect.Struct || t.Elem().NumField() < 3 { // not into recursive trees
			p := reflect.New(t.Elem())
			p.Elem().Set(probeArg(t.Elem(), probe, env))
			v.Set(p)
		}
	case reflect.Func:
		// a probe callback: returns probe values of its result types
		v.Set(reflect.MakeFunc(t, func(in []reflect.Value) []reflect.Value {
			out := make([]reflect.Value, t.NumOut())
			for i := range out {
				out[i] = probeArg(t.Out(i), probe, env)
			}
			return out
		}))
	case reflect.Interface:
		switch t {
		case rtStringer:
			v.Set(reflect.ValueOf(Color(5 + probe)))
		case rtError:
			v.Set(reflect.ValueOf(&hostErr{"probe"}))
		case rtWriter:
			v.Set(reflect.ValueOf(&hostWriter{}))
		case rtSort:
			v.Set(reflect.ValueOf(Names{"b", "a"}))
		default:
			if t.NumMethod() == 0 {
				v.Set(reflect.ValueOf(11 + probe))
			}
		}
	}
	return v
}

// canonVal renders an abstract value directly (used for map-key distinctness and for samples).
func canonVal(v *Val) string {
	cx := &buildCtx{env: nil}
	defer func() { recover() }()
	if v.T.Kind == KFunc {
		return "func"
	}
	return (&canonCtx{}).canon(cx.build(v, v.T.RT))
}

func firstLine(s string) string {
	if i := strings.IndexByte(s, '\n'); i >= 0 {
		s = s[:i]
	}
	if len(s) > 160 {
		s = s[:160]
	}
	return s
}

var _ = rand.Int
