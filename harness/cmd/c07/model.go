// Correspondence with the Lean model: the static description of each call is sent to the driver, which answers what
// the model of the unchanged mechanism (run with the facts regenerated from the source) predicts: whether the call goes
// through unchanged (y=ok) or how it goes wrong (y=bad:…), and in which representation each argument reaches the host.
package main

import (
	"fmt"
	"strings"

	"verif/harness/common"
)

// classes whose effect the model states (a `…_witness` theorem exists): on these the model must predict the failure
var modelExpresses = map[string]bool{"script-dyn-variadic-elem": true}

func boxedInside(v *Val) bool {
	return anyVal(v, func(x *Val) bool {
		if x.T.Kind != KIface || x.Dyn == nil {
			return false
		}
		return x.T.isScriptIface() || x.T.isEmptyIface() && x.Dyn.T.Decl == "script" && x.Dyn.T.Methods != ""
	})
}

func b01(b bool) string { return common.B(b) }

// sitOf: the situation of argument k (static class as callBin's predicates see it + shape of its frame representation).
func sitOf(c *Case, k int) (sit, form, pk string) {
	pt, v := paramTypeOf(c, k), c.Args[k]
	form = "other"
	if c.Forms[k] == "const" || c.Forms[k] == "lit" && (pt.Kind == KBasic || pt.Kind == KIface && v.Nil) {
		form = "const" // an untyped constant or a constant conversion: converted to the type callBin picks
	}
	pk = "concrete"
	switch {
	case c.Spread && k == len(c.Args)-1:
		return fmt.Sprintf("(plain data %s)", b01(!boxedInside(v))), form, pk
	case pt.Kind == KIface:
		if pt.isEmptyIface() {
			pk = "empty"
		} else {
			pk = "host"
		}
		if v.Nil {
			if pk == "empty" {
				return "(emptyNil)", form, pk
			}
			return "(hostIfaceNil)", form, pk
		}
		dt := v.Dyn.T
		interp, methods := dt.Decl == "script", dt.Methods != ""
		if c.Forms[k] == "boxedvar" {
			return "(emptyBoxed)", form, pk
		}
		if c.Forms[k] == "var" {
			if pk == "empty" && interp && methods && dt.Kind != KStruct {
				// observed: an interpreted methodful NON-struct value assigned to an interface{} variable is boxed in a
				// valueInterface; a struct value is stored as it is
				return "(emptyBoxed)", form, pk
			}
			if pk == "empty" {
				return fmt.Sprintf("(emptyDyn %s %s)", b01(interp), b01(methods)), form, pk
			}
			return fmt.Sprintf("(hostIfaceVar %s)", b01(interp)), form, pk
		}
		if dt.Decl == "host" || dt == tyHostError || dt == tyHostWriter {
			return "(hostDyn)", form, pk
		}
		return fmt.Sprintf("(concreteDyn %s %s)", b01(interp), b01(methods)), form, pk
	case pt.Kind == KFunc:
		switch {
		case v.Nil:
			return "(fnNil)", form, pk
		case c.Forms[k] == "decl":
			return "(fnDecl)", form, pk
		}
		return "(fnClosure)", form, pk
	}
	cls := "data"
	switch {
	case pt.Decl == "host":
		cls = "hostVal"
	case pt.Kind == KPtr && pt.Elem.Decl == "host":
		cls = "ptrHost"
	case pt.Kind == KPtr:
		cls = "ptrScript"
	case pt.Kind == KArray && pt.Elem.isEmptyIface():
		cls = "arrEmptyIface"
	case pt.Kind == KArray:
		cls = "arrOther"
	}
	return fmt.Sprintf("(plain %s %s)", cls, b01(!boxedInside(v))), form, pk
}

func modelLine(c *Case) string {
	switch c.Dir {
	case "retain":
		// one wrapper value of a declared function, invoked while / after another invocation of it
		if c.Mode == "ifacerecv" {
			return "C07 ifacerecv" // the method wrappers of a conversion to a host interface
		}
		if c.Mode == "recvbind" {
			return "C07 recvbind" // the wrapper of a method: the receiver it is called with
		}
		d := c.Depth
		if c.Mode != "reenter" {
			d = 1
		}
		return fmt.Sprintf("C07 reenter %d 0", d)
	case "h2s":
		return fmt.Sprintf("C07 wrap %d %d 0", len(c.Sig.Out), len(c.Sig.In))
	case "s2h", "meth":
		if c.ArgSrc != "" {
			return "" // arguments from a nested call: the outer arms, not modelled per argument
		}
		if c.Ctx == "defineloop" {
			if viaCall(c) {
				return "" // a callee of script-written function type goes through `call`, not through callBin's aAssignX arm
			}
			// per referenced variable: is the result stored by each execution the zero value of its type?
			line := "C07 define"
			bc := &buildCtx{}
			for i, t := range c.Sig.In {
				if c.Capture[i] == "none" {
					continue
				}
				zs := []string{"zero"}
				for _, it := range c.Iters {
					zs = append(zs, b01(bc.build(it[i], t.RT).IsZero()))
				}
				line += " " + common.L(zs...)
			}
			return line
		}
		if c.Ctx == "condloop" {
			// the results of the successive calls (the callee returns its first argument, or its negation)
			rs := []string{"results"}
			for _, b := range c.Seq {
				r := b
				switch {
				case c.Dir == "meth":
					nx := len(c.Args) - 1
					if c.Spread {
						nx = len(c.Args[len(c.Args)-1].Elts)
					}
					r = b != (nx == 1)
				case c.Body != nil && len(c.Body.Rets) == 1 && c.Body.Rets[0].Op == "not":
					r = !b
				}
				rs = append(rs, b01(r))
			}
			// `&&` / `||` with the call as left operand read the call's frame cell again (observed; cfg.go), the other consumers
			// only follow the branch; through `call` (a callee of script-written function type) the arm of callBin is not used
			use := "branch"
			switch c.CondOp {
			case "and", "or", "andassign", "orassign":
				if !viaCall(c) {
					use = "reread"
				}
			}
			return "C07 branch " + use + " " + common.L(rs...)
		}
		if c.Rebind && classOf(c) == "" {
			return "C07 hostrecv" // the receiver a method value of a host value is called with
		}
		if viaCall(c) {
			// the callee is a variable (or a parameter of the wrapper function W) of a script-written function type holding a
			// host function: `call`, function-value branch — packing and the preparation of the arguments that need one
			nf := len(c.Sig.In)
			if c.Sig.Variadic {
				nf--
			}
			kinds := []string{"kinds"}
			for k, a := range c.Args {
				kd := "other"
				switch {
				case c.Forms[k] == "decl":
					kd = "decl"
				case a.T.Kind == KFunc && a.Fn != nil:
					kd = "closure"
				case a.T.isHostIface() && a.Dyn != nil && a.Dyn.T.Decl == "script" && c.Forms[k] == "lit":
					kd = "scriptdyn"
				}
				kinds = append(kinds, kd)
			}
			return fmt.Sprintf("C07 fvcall %s %s %s %d %s", b01(c.Sig.Variadic), b01(c.Spread), b01(c.Ctx == "defer"), nf, common.L(kinds...))
		}
		hasRecv, isIface, inSig := false, false, false
		if c.Dir == "meth" {
			hasRecv = true
			isIface = c.Recv == "iface"
			inSig = c.Recv == "ptr" || c.Recv == "val" || c.Recv == "embedded" || c.Recv == "sptr"
		}
		params := make([]string, len(c.Sig.In))
		for i, p := range c.Sig.In {
			params[i] = common.Q(p.ID)
		}
		velem := "-"
		if c.Sig.Variadic {
			velem = c.Sig.In[len(c.Sig.In)-1].Elem.ID
		}
		args := make([]string, len(c.Args))
		for k := range c.Args {
			s, f, p := sitOf(c, k)
			args[k] = common.L(s, f, p)
		}
		ctx := "(deflt)"
		switch c.Ctx {
		case "define", "assign":
			bs := make([]string, len(c.Sig.Out))
			for i := range bs {
				bs[i] = "0"
			}
			ctx = common.L(append([]string{"assign"}, bs...)...)
		case "blank":
			bs := make([]string, len(c.Sig.Out))
			for i := range bs {
				bs[i] = b01(c.Blank[i])
			}
			ctx = common.L(append([]string{"assign"}, bs...)...)
		case "return":
			ctx = "(ret 0 1 0)"
		case "retpos":
			ctx = "(ret 1 2 0)"
		case "retswap":
			ctx = "(ret 0 2 1)"
		case "assignmap":
			bs := make([]string, len(c.Sig.Out))
			for i := range bs {
				bs[i] = "0"
			}
			ctx = common.L(append([]string{"assign"}, bs...)...)
		case "cond":
			ctx = "(cond)"
		}
		return fmt.Sprintf("C07 call (recv %s %s %s %s) %s %s %s %s (velem %s) %s %s %d",
			b01(hasRecv), b01(isIface), b01(inSig), b01(c.Recv == "mvalue" || c.Recv == "sptrmv"), b01(c.Sig.Variadic), b01(c.Spread), b01(c.Ctx == "defer"),
			common.L(append([]string{"params"}, params...)...), common.Q(velem),
			common.L(append([]string{"args"}, args...)...), ctx, len(c.Sig.Out))
	}
	return ""
}

// observedReps: representation class of what the host function received for each FIXED parameter.
func observedReps(c *Case, o outcome) []string {
	n := len(c.Sig.In)
	if c.Sig.Variadic {
		n--
	}
	out := make([]string, n)
	for _, r := range o.Rep {
		var idx int
		if _, err := fmt.Sscanf(r.Tag, "F.%d", &idx); err != nil || !strings.HasPrefix(r.Tag, "F.") || idx >= n {
			continue
		}
		v := strings.TrimPrefix(r.V, "dyn:")
		if v == "nilfunc" {
			v = "nil"
		}
		out[idx] = v
	}
	return out
}

type modelAns struct {
	y, reps, line string
}

func modelCorrespondence(run *common.Run, drv *common.Driver, results []resultT) map[int]modelAns {
	var lines []string
	var idx []int
	for i, r := range results {
		if l := modelLine(r.c); l != "" {
			lines = append(lines, l)
			idx = append(idx, i)
		}
	}
	out := map[int]modelAns{}
	answers, err := drv.AskAll(lines)
	if err != nil {
		run.Errorf("driver: %v", err)
		return out
	}
	for j, a := range answers {
		r := results[idx[j]]
		f := common.Fields(a)
		if f["y"] == "" || f["g"] == "" {
			run.Errorf("driver answered %q to %q", a, lines[j])
			continue
		}
		out[idx[j]] = modelAns{y: f["y"], reps: f["reps"], line: lines[j]}
		run.Hit("model:" + strings.SplitN(f["y"], "-", 2)[0])
		if f["g"] != "ok" {
			run.Disagree(common.Disagreement{Kind: "spec-vs-ref", Input: r.c, Spec: f["g"], Ref: "ok", Note: lines[j]})
		}
		cls := classOf(r.c)
		implOK := r.impl.key() == r.ref.key()
		predOK := f["y"] == "ok"
		switch {
		case cls == "" && !predOK && implOK && r.c.Recv == "sptr" && strings.Contains(f["y"], "variadic-empty") &&
			(r.c.Method == "AddAll" || r.c.Method == "Any" || len(r.c.Sig.Out) == 0 || r.c.Ctx == "defer" || r.c.Ctx == "stmt"):
			// a Counter made by the script has no recorder: whether the variadic slice was nil or empty is not observed
			run.Hit("model-predicts-unobservable-effect")
		case cls == "" && !predOK && implOK && r.c.Rebind && strings.Contains(f["y"], "host-receiver-late"):
			// not every method of the fixed host type reads or changes its receiver in an observable way
			run.Hit("model-predicts-unobservable-effect")
		case cls == "" && !predOK && implOK:
			// the model, run with the facts of the current source, says this call goes wrong; the implementation is fine
			run.Disagree(common.Disagreement{Kind: "impl-vs-model", Input: r.c, Impl: "agrees with the reference", Model: f["y"], Note: lines[j]})
		case cls == "" && predOK && !implOK:
			// reported as impl-vs-ref by the caller (an in-domain divergence); the model did not foresee it either
			run.Hit("model-missed-in-domain-divergence")
		case modelExpresses[cls] && predOK && !implOK:
			run.Disagree(common.Disagreement{Kind: "impl-vs-model", Input: r.c, Impl: short(r.impl.key()), Model: "ok", Ref: short(r.ref.key()),
				Note: "class " + cls + ": the model has a witness for this class but predicts no failure here; " + lines[j]})
		case modelExpresses[cls] && !predOK && implOK:
			run.Hit("model-predicts-failure-but-call-fine:" + cls)
		}
		// representation classes of the fixed arguments, when the call was made
		if r.c.Dir == "s2h" && r.impl.Status == "ok" && f["reps"] != "-" && f["reps"] != "" {
			pred := strings.Split(f["reps"], ",")
			obs := observedReps(r.c, r.impl)
			for k := range obs {
				if k < len(pred) && obs[k] != "" && obs[k] != pred[k] {
					run.Disagree(common.Disagreement{Kind: "impl-vs-model", Input: r.c, Impl: fmt.Sprintf("argument %d reaches the host as %s", k, obs[k]),
						Model: pred[k], Note: lines[j]})
					break
				}
			}
			run.Hit("model:reps-compared")
		}
	}
	return out
}
