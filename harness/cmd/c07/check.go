// The check proper: known findings first, then the in-domain stream and one out-of-domain stream per class.
package main

import (
	"encoding/json"
	"fmt"
	"os"
	"sort"
	"strings"

	"verif/harness/common"
)

type findingReplay struct {
	Case *Case `json:"case"`
}

func mainCheck(run *common.Run) {
	drv, err := common.StartDriver("C07")
	if err != nil {
		run.Errorf("driver: %v", err)
		return
	}
	defer drv.Close()
	findings, err := common.LoadFindings("C07")
	if err != nil {
		run.Errorf("known findings: %v", err)
	}

	var cases []*Case
	if run.Replay != "" {
		b, err := os.ReadFile(run.Replay)
		if err != nil {
			run.Errorf("replay: %v", err)
			return
		}
		var rp struct {
			Input *Case `json:"input"`
		}
		if err := json.Unmarshal(b, &rp); err != nil || rp.Input == nil {
			run.Errorf("replay: cannot read the input of %s: %v", run.Replay, err)
			return
		}
		rp.Input.fixTypes()
		cases = []*Case{rp.Input}
	} else {
		for _, f := range findings {
			var fr findingReplay
			if err := json.Unmarshal(f.Replay, &fr); err != nil || fr.Case == nil {
				run.Errorf("finding %s: bad replay: %v", f.ID, err)
				continue
			}
			fr.Case.fixTypes()
			r := runOne(fr.Case)
			still := r.impl.key() != r.ref.key()
			run.Res.Known = append(run.Res.Known, common.KnownReplay{ID: f.ID, Status: f.Status, What: f.What, StillFails: still,
				Detail: fmt.Sprintf("class=%s impl=%s ref=%s", classOf(fr.Case), short(r.impl.key()), short(r.ref.key()))})
		}
		cases = generateAll(run)
	}

	results := runAll(cases)
	model := modelCorrespondence(run, drv, results)
	for i, r := range results {
		c := r.c
		cls := classOf(c)
		run.Count(caseKey(c), nontrivial(c))
		countCase(run, r, cls)
		run.Sample(map[string]interface{}{"case": c, "impl": r.impl.key(), "ref": r.ref.key(), "twin": r.twin.key(), "class": cls,
			"model_line": model[i].line, "model": model[i].y, "script": stripPrelude(r.impl.Src)}, 6)
		if strings.HasPrefix(r.ref.Status, "crash") || r.ref.Status == "timeout" {
			run.Errorf("reference run failed on %s: %s", caseKey(c), r.ref.Status)
			continue
		}
		if strings.HasPrefix(r.impl.Status, "harness-panic") {
			run.Errorf("harness panic on %s: %s", caseKey(c), r.impl.Status)
			continue
		}
		if r.twin.Status != "" && r.twin.key() != r.ref.key() {
			run.Hit("twin-differs-from-ref")
			if r.impl.key() == r.ref.key() {
				run.Hit("twin-differs-but-boundary-call-agrees")
			}
		}
		if r.impl.key() != r.ref.key() {
			d := common.Disagreement{Kind: "impl-vs-ref", Input: c, Impl: short(r.impl.key()), Ref: short(r.ref.key()), Finding: cls}
			if cls != "" && !matchesPrediction(cls, r, model[i]) {
				d.Finding = ""
				d.Note = "in class " + cls + " but the implementation does not behave as the model of the unchanged code predicts"
			}
			if r.twin.Status != "" {
				d.Note += " twin=" + short(r.twin.key())
			}
			run.Disagree(d)
		}
	}
}

// matchesPrediction: for the classes whose effect the model states exactly, the implementation must show exactly
// that effect (otherwise the disagreement is not explained by the class).
func matchesPrediction(cls string, r resultT, m modelAns) bool {
	if modelExpresses[cls] && m.line != "" && m.y == "ok" {
		return false // the model of the unchanged code does not predict a failure on this input
	}
	return true
}

func short(s string) string {
	if len(s) > 700 {
		return s[:700] + "…"
	}
	return s
}

func countCase(run *common.Run, r resultT, cls string) {
	c := r.c
	run.Hit("dir:" + c.Dir)
	if cls == "" {
		run.Hit("class:in-domain")
	} else {
		run.Hit("class:" + cls)
	}
	run.Hit("impl:" + statusClass(r.impl.Status))
	if c.Dir == "var" {
		run.Hit("var:" + c.Access)
		run.Hit("kind:" + c.VT.Kind.String())
		return
	}
	if c.Dir == "retain" {
		run.Hit("retain:" + c.Mode)
		run.Hit("retain-via:" + c.Via)
		run.Hit("retain-caller:" + c.Caller)
		if c.AfterCancel {
			run.Hit("retain-after-cancelled-evaluation:" + c.Via)
		}
		if c.Mode == "reenter" {
			run.Hit(fmt.Sprintf("retain-depth:%d", c.Depth))
		}
		return
	}
	run.Hit("ctx:" + c.Ctx)
	if c.Ctx == "defineloop" {
		run.Hit("defineloop-callee:" + c.Callee)
		for _, k := range c.Capture {
			run.Hit("defineloop-capture:" + k)
		}
	}
	if c.Ctx == "condloop" {
		callee := c.Callee
		if c.Dir == "meth" {
			callee = "method:" + c.Recv
		}
		run.Hit("condloop:" + c.CondOp)
		run.Hit("condloop-callee:" + callee)
	}
	run.Hit(fmt.Sprintf("params:%d", len(c.Sig.In)))
	run.Hit(fmt.Sprintf("results:%d", len(c.Sig.Out)))
	if c.Sig.Variadic {
		how := "elems"
		switch {
		case c.Spread:
			how = "spread"
		case len(c.Args) == len(c.Sig.In)-1 && c.ArgSrc == "":
			how = "empty"
		}
		run.Hit("variadic:" + how)
		if how != "elems" && c.Dir != "h2s" {
			callee := c.Callee
			if c.Dir == "meth" {
				callee = "method:" + c.Recv
			}
			if callee == "" {
				callee = "direct"
			}
			run.Hit("variadic:" + how + ":" + c.Ctx + ":" + callee)
		}
		if how == "empty" && c.Dir == "h2s" {
			run.Hit("variadic:empty:host-calls-script:" + c.How)
		}
	}
	if c.Callee != "" {
		run.Hit("callee:" + c.Callee)
	}
	for _, f := range c.Forms {
		run.Hit("form:" + f)
	}
	if c.ArgSrc != "" {
		run.Hit("argsrc:" + c.ArgSrc)
	}
	if c.Dir == "h2s" {
		run.Hit("via:" + c.Via)
		run.Hit("how:" + c.How)
	}
	if c.Dir == "meth" {
		run.Hit("recv:" + c.Recv)
		run.Hit("method:" + c.Method)
	}
	seen := map[string]bool{}
	for _, t := range typesOf(c) {
		t.walk(func(x *TypeD, _ int) {
			k := "kind:" + x.Kind.String()
			if x.Decl != "" {
				k += ":" + x.Decl
			}
			if x.Kind == KIface {
				k = "kind:iface:" + x.Iface
			}
			if !seen[k] {
				seen[k] = true
				run.Hit(k)
			}
		}, 0, map[*TypeD]bool{})
	}
	cb := false
	for _, b := range bodiesOf(c) {
		if b != c.Body {
			cb = true
		}
		for _, e := range b.Rets {
			if e.Op == "call" {
				run.Hit("feature:callback-called")
			}
			if e.Op == "callg" {
				run.Hit("feature:crosses-twice:" + e.G)
			}
		}
	}
	if cb {
		run.Hit("feature:function-value-crosses")
	}
}

func statusClass(s string) string {
	if i := strings.IndexByte(s, ':'); i > 0 {
		return s[:i]
	}
	return s
}

// generateAll: the in-domain stream (no case of it belongs to a class) and one stream per class.
func generateAll(run *common.Run) []*Case {
	n, per := 3000, 40
	if run.Thorough() {
		n, per = 60000, 600
	}
	ctr := 0
	var cases []*Case
	for k := 0; len(cases) < n; k++ {
		g := newGen(run, &ctr, nil)
		c := g.genAny(fmt.Sprintf("d%d", k))
		if classOf(c) != "" {
			continue
		}
		cases = append(cases, c)
	}
	names := []string{}
	for _, k := range classes {
		names = append(names, k.name)
	}
	sort.Strings(names)
	for _, cls := range names {
		got := 0
		for k := 0; got < per && k < per*60; k++ {
			g := newGen(run, &ctr, featuresFor(cls))
			c := g.genFor(cls, fmt.Sprintf("o-%s-%d", cls, k))
			if c == nil || classOf(c) != cls {
				continue
			}
			cases = append(cases, c)
			got++
		}
		if got == 0 {
			run.Errorf("out-of-domain stream %s produced no case", cls)
		}
	}
	return cases
}
