// A small language of function bodies with two interpretations: evaluated natively with reflect (host
// functions, native callbacks, the reference run) and rendered as Go source (script functions, script
// closures, the script twin of a host function).
//
//	body  ::= record every parameter; mutations; return rets
//	expr  ::= p(D,I)            parameter I of the function D levels up
//	        | c(V)              constant (a function constant may capture: its body refers to outer levels)
//	        | add(D,I,V)        parameter + constant of the same numeric/string type
//	        | not(D,I)
//	        | len(D,I)          builtin len of a slice/map/string/array parameter
//	        | call(D,I,args,J)  result J of calling the function-typed parameter
//	        | callg(G,arg)      G ∈ {HInc (host function), SInc (script function)}: func(int) int
package main

import (
	"fmt"
	"reflect"
	"strings"
)

type Expr struct {
	Op   string  `json:"op"`
	D    int     `json:"d,omitempty"`
	I    int     `json:"i,omitempty"`
	J    int     `json:"j,omitempty"`
	C    *Val    `json:"c,omitempty"`
	G    string  `json:"g,omitempty"`
	Args []*Expr `json:"args,omitempty"`
}

type Mut struct {
	P    int    `json:"p"`
	Kind string `json:"kind"` // ptr | idx | map | field
	F    int    `json:"f,omitempty"`
	K    *Val   `json:"k,omitempty"`
	V    *Val   `json:"v"`
}

type Body struct {
	Name   string  `json:"name"`
	Muts   []Mut   `json:"muts,omitempty"`
	Rets   []*Expr `json:"rets,omitempty"`
	Direct bool    `json:"direct,omitempty"` // builtin calls are written inline in the return statement (F23 / F07-1 when not first, repaired)
}

// ---- generation ----

type scopeT struct {
	sig *TypeD
}

func (g *genCfg) newName(prefix string) string {
	*g.fnCounter++
	return fmt.Sprintf("%s%d", prefix, *g.fnCounter)
}

// genBody generates a body for a function of type sig. scopes are the enclosing functions (innermost last).
func (g *genCfg) genBody(sig *TypeD, depth int, top bool) *Body {
	return g.genBodyIn(sig, depth, nil)
}

func (g *genCfg) genBodyIn(sig *TypeD, depth int, outer []*TypeD) *Body {
	b := &Body{Name: g.newName("fn")}
	scopes := append(append([]*TypeD{}, outer...), sig)
	r := g.rng
	// mutations of reference-like parameters
	for i, pt := range sig.In {
		if sig.Variadic && i == len(sig.In)-1 {
			continue
		}
		if r.Intn(3) != 0 {
			continue
		}
		vg := *g
		vg.noFuncs = true
		switch pt.Kind {
		case KPtr:
			if pt.Elem.Kind == KStruct && len(pt.Elem.Fields) > 0 && r.Intn(2) == 0 {
				f := r.Intn(len(pt.Elem.Fields))
				if ft := pt.Elem.Fields[f].T; ft.Kind == KBasic {
					b.Muts = append(b.Muts, Mut{P: i, Kind: "field", F: f, V: vg.gen(ft, depth+2)})
				}
			} else if pt.Elem.Kind == KBasic || pt.Elem.Kind == KStruct && pt.Elem != typeByID("hp.Tree") {
				if !pt.Elem.any(func(x *TypeD, _ int) bool { return x.Kind == KFunc || x.Kind == KIface }) {
					b.Muts = append(b.Muts, Mut{P: i, Kind: "ptr", V: vg.gen(pt.Elem, depth+2)})
				}
			}
		case KSlice:
			if pt.Elem.Kind == KBasic {
				b.Muts = append(b.Muts, Mut{P: i, Kind: "idx", V: vg.gen(pt.Elem, depth+2)})
			}
		case KMap:
			if pt.Elem.Kind == KBasic && pt.Key.Kind == KBasic {
				b.Muts = append(b.Muts, Mut{P: i, Kind: "map", K: vg.gen(pt.Key, depth+2), V: vg.gen(pt.Elem, depth+2)})
			}
		}
	}
	for j, ot := range sig.Out {
		b.Rets = append(b.Rets, g.genExpr(ot, scopes, depth, j))
	}
	if g.feat["builtin-in-multi-return"] {
		b.Direct = r.Intn(2) == 0
	}
	return b
}

// candidates: parameters (D levels up, index I) with a property.
func params(scopes []*TypeD, ok func(*TypeD) bool) [][2]int {
	var out [][2]int
	for lvl := len(scopes) - 1; lvl >= 0; lvl-- {
		for i, pt := range scopes[lvl].In {
			if ok(pt) {
				out = append(out, [2]int{len(scopes) - 1 - lvl, i})
			}
		}
	}
	return out
}

func (g *genCfg) genExpr(ot *TypeD, scopes []*TypeD, depth int, pos int) *Expr {
	r := g.rng
	same := params(scopes, func(p *TypeD) bool { return p == ot })
	type opt func() *Expr
	var opts []opt
	if len(same) > 0 {
		pick := func() *Expr { c := same[r.Intn(len(same))]; return &Expr{Op: "p", D: c[0], I: c[1]} }
		opts = append(opts, pick, pick, pick)
		if ot.Kind == KBasic && !ot.isBool() && ot.Decl == "" {
			opts = append(opts, func() *Expr {
				c := same[r.Intn(len(same))]
				vg := *g
				return &Expr{Op: "add", D: c[0], I: c[1], C: vg.gen(ot, depth+1)}
			})
		}
		if ot.isBool() && ot.Decl == "" {
			opts = append(opts, func() *Expr { c := same[r.Intn(len(same))]; return &Expr{Op: "not", D: c[0], I: c[1]} })
		}
	}
	if ot.ID == "int" {
		lens := params(scopes, func(p *TypeD) bool {
			return p.Kind == KSlice || p.Kind == KMap || p.Kind == KArray || p.isString() && p.Decl == ""
		})
		if len(lens) > 0 {
			opts = append(opts, func() *Expr { c := lens[r.Intn(len(lens))]; return &Expr{Op: "len", D: c[0], I: c[1]} })
		}
		ints := params(scopes, func(p *TypeD) bool { return p.ID == "int" })
		if len(ints) > 0 && g.feat["callg"] {
			opts = append(opts, func() *Expr {
				c := ints[r.Intn(len(ints))]
				return &Expr{Op: "callg", G: []string{"HInc", "SInc"}[r.Intn(2)], Args: []*Expr{{Op: "p", D: c[0], I: c[1]}}}
			})
		}
	}
	// call a function-typed parameter that produces this type
	fns := params(scopes, func(p *TypeD) bool {
		if p.Kind != KFunc || p.Variadic && false {
			return false
		}
		for _, o := range p.Out {
			if o == ot {
				return true
			}
		}
		return false
	})
	if len(fns) > 0 && depth < 4 {
		mk := func() *Expr {
			c := fns[r.Intn(len(fns))]
			ft := scopes[len(scopes)-1-c[0]].In[c[1]]
			e := &Expr{Op: "call", D: c[0], I: c[1]}
			for j, o := range ft.Out {
				if o == ot {
					e.J = j
					break
				}
			}
			for k, at := range ft.In {
				if ft.Variadic && k == len(ft.In)-1 {
					// variadic callback: pass 0..2 elements
					n := r.Intn(3)
					for q := 0; q < n; q++ {
						e.Args = append(e.Args, g.genArgExpr(at.Elem, scopes, depth+1))
					}
					break
				}
				e.Args = append(e.Args, g.genArgExpr(at, scopes, depth+1))
			}
			return e
		}
		opts = append(opts, mk, mk, mk)
	}
	opts = append(opts, func() *Expr {
		vg := *g
		if ot.Kind == KFunc {
			// a function constant may capture the enclosing parameters
			if r.Intn(10) == 0 {
				return &Expr{Op: "c", C: &Val{T: ot, Nil: true}}
			}
			return &Expr{Op: "c", C: &Val{T: ot, Fn: vg.genBodyIn(ot, depth+1, scopes)}}
		}
		vg.scriptDyn = g.scriptCallee && len(scopes) == 1
		if vg.scriptDyn {
			return &Expr{Op: "c", C: vg.gen(ot, 0)}
		}
		return &Expr{Op: "c", C: vg.gen(ot, depth+1)}
	})
	return opts[r.Intn(len(opts))]()
}

// genArgExpr: an argument for a callback call: a parameter of that type or a constant.
func (g *genCfg) genArgExpr(at *TypeD, scopes []*TypeD, depth int) *Expr {
	same := params(scopes, func(p *TypeD) bool { return p == at })
	if len(same) > 0 && g.rng.Intn(3) != 0 {
		c := same[g.rng.Intn(len(same))]
		return &Expr{Op: "p", D: c[0], I: c[1]}
	}
	vg := *g
	if at.Kind == KFunc {
		return &Expr{Op: "c", C: &Val{T: at, Fn: vg.genBodyIn(at, depth+1, scopes)}}
	}
	v := vg.gen(at, depth+1)
	return &Expr{Op: "c", C: v}
}

// calledParams: indices of the function-typed parameters of the function itself that its body calls.
func (b *Body) calledParams() map[int]bool {
	out := map[int]bool{}
	var walk func(e *Expr, lvl int)
	var walkBody func(b *Body, lvl int)
	walk = func(e *Expr, lvl int) {
		if e == nil {
			return
		}
		if e.Op == "call" && e.D == lvl {
			out[e.I] = true
		}
		for _, a := range e.Args {
			walk(a, lvl)
		}
		if e.C != nil {
			walkVal(e.C, func(fb *Body) { walkBody(fb, lvl+1) })
		}
	}
	walkBody = func(b *Body, lvl int) {
		for _, e := range b.Rets {
			walk(e, lvl)
		}
	}
	walkBody(b, 0)
	return out
}

func walkVal(v *Val, f func(*Body)) {
	if v == nil {
		return
	}
	if v.Fn != nil {
		f(v.Fn)
	}
	for _, e := range v.Elts {
		walkVal(e, f)
	}
	for _, e := range v.Keys {
		walkVal(e, f)
	}
	walkVal(v.Ptr, f)
	walkVal(v.Dyn, f)
}

// ---- native evaluation ----

type obsT struct {
	Tag string `json:"tag"`
	V   string `json:"v"`
}

type recorder struct {
	obs []obsT
	rep []obsT // representation class of what a host function received (for the model correspondence)
}

type nativeEnv struct {
	rec   *recorder
	quiet int
	sinc  func(int) int // the script-declared helper as this side reaches it
	hinc  func(int) int
	done  chan struct{} // go statements: the callee has returned
}

func (env *nativeEnv) record(tag string, v reflect.Value) {
	if env == nil || env.quiet > 0 {
		return
	}
	c := (&canonCtx{env: env}).canon(v)
	env.rec.obs = append(env.rec.obs, obsT{tag, c})
}

// makeFunc builds a native function value of type target whose behaviour is body b (signature sig).
func (env *nativeEnv) makeFunc(target reflect.Type, sig *TypeD, b *Body) reflect.Value {
	return env.makeFuncIn(target, sig, b, nil)
}

func (env *nativeEnv) makeFuncIn(target reflect.Type, sig *TypeD, b *Body, outer [][]reflect.Value) reflect.Value {
	return reflect.MakeFunc(target, func(in []reflect.Value) []reflect.Value {
		return env.evalBody(target, sig, b, in, outer)
	})
}

func (env *nativeEnv) evalBody(target reflect.Type, sig *TypeD, b *Body, in []reflect.Value, outer [][]reflect.Value) []reflect.Value {
	frames := append(append([][]reflect.Value{}, outer...), in)
	for i, a := range in {
		env.record(fmt.Sprintf("%s.%d", b.Name, i), a)
		if env.quiet == 0 && env.rec != nil {
			env.rec.rep = append(env.rec.rep, obsT{fmt.Sprintf("%s.%d", b.Name, i), repClass(a)})
		}
	}
	bc := &buildCtx{env: env, frames: frames}
	for _, m := range b.Muts {
		p := in[m.P]
		switch m.Kind {
		case "ptr":
			if !p.IsNil() {
				p.Elem().Set(bc.build(m.V, p.Type().Elem()))
			}
		case "field":
			if !p.IsNil() {
				f := p.Elem().Field(m.F)
				f.Set(bc.build(m.V, f.Type()))
			}
		case "idx":
			if p.Len() > 0 {
				p.Index(0).Set(bc.build(m.V, p.Type().Elem()))
			}
		case "map":
			if !p.IsNil() {
				p.SetMapIndex(bc.build(m.K, p.Type().Key()), bc.build(m.V, p.Type().Elem()))
			}
		}
	}
	out := make([]reflect.Value, len(b.Rets))
	for j, e := range b.Rets {
		out[j] = env.evalExpr(e, target.Out(j), frames, sig)
	}
	return out
}

func (env *nativeEnv) evalExpr(e *Expr, target reflect.Type, frames [][]reflect.Value, sig *TypeD) reflect.Value {
	out := reflect.New(target).Elem()
	at := func(d, i int) reflect.Value { return frames[len(frames)-1-d][i] }
	switch e.Op {
	case "p":
		out.Set(at(e.D, e.I))
	case "c":
		bc := &buildCtx{env: env, frames: frames}
		out.Set(bc.build(e.C, target))
	case "add":
		p := at(e.D, e.I)
		c := (&buildCtx{env: env}).build(e.C, target)
		switch target.Kind() {
		case reflect.Int, reflect.Int8, reflect.Int16, reflect.Int32, reflect.Int64:
			out.SetInt(p.Int() + c.Int())
		case reflect.Uint, reflect.Uint8, reflect.Uint16, reflect.Uint32, reflect.Uint64, reflect.Uintptr:
			out.SetUint(p.Uint() + c.Uint())
		case reflect.Float32:
			out.SetFloat(float64(float32(p.Float()) + float32(c.Float())))
		case reflect.Float64:
			out.SetFloat(p.Float() + c.Float())
		case reflect.Complex64:
			out.SetComplex(complex128(complex64(p.Complex()) + complex64(c.Complex())))
		case reflect.Complex128:
			out.SetComplex(p.Complex() + c.Complex())
		case reflect.String:
			out.SetString(p.String() + c.String())
		}
	case "not":
		out.SetBool(!at(e.D, e.I).Bool())
	case "len":
		out.SetInt(int64(at(e.D, e.I).Len()))
	case "call":
		f := at(e.D, e.I)
		ft := f.Type()
		args := make([]reflect.Value, len(e.Args))
		for k, a := range e.Args {
			var pt reflect.Type
			if ft.IsVariadic() && k >= ft.NumIn()-1 {
				pt = ft.In(ft.NumIn() - 1).Elem()
			} else {
				pt = ft.In(k)
			}
			args[k] = env.evalExpr(a, pt, frames, sig)
		}
		res := goCall(f, args)
		out.Set(res[e.J])
	case "callg":
		x := int(env.evalExpr(e.Args[0], reflect.TypeOf(0), frames, sig).Int())
		if e.G == "HInc" {
			out.SetInt(int64(env.hinc(x)))
		} else {
			out.SetInt(int64(env.sinc(x)))
		}
	}
	return out
}

// goCall calls f on the argument list as a COMPILED caller does: the arguments beyond the fixed parameters of a variadic
// function are passed in a new slice, and a nil slice when there is none (reflect.Value.Call would allocate an empty one).
func goCall(f reflect.Value, args []reflect.Value) []reflect.Value {
	ft := f.Type()
	if !ft.IsVariadic() {
		return f.Call(args)
	}
	nf := ft.NumIn() - 1
	st := ft.In(nf)
	sl := reflect.Zero(st)
	if len(args) > nf {
		sl = reflect.Append(reflect.MakeSlice(st, 0, len(args)-nf), args[nf:]...)
	}
	return f.CallSlice(append(append([]reflect.Value{}, args[:nf]...), sl))
}

// repClass: how a value arrived at the host (observed; compared with the model's argument-preparation table).
func repClass(v reflect.Value) string {
	if !v.IsValid() {
		return "invalid"
	}
	d := v
	pre := ""
	if v.Kind() == reflect.Interface {
		if v.IsNil() {
			return "nil"
		}
		d = v.Elem()
		pre = "dyn:"
	}
	switch {
	case isLeakType(d.Type()) != "":
		return pre + "leak"
	case isIfaceWrapper(d.Type()):
		return pre + "ifacewrap"
	case d.Kind() == reflect.Func:
		if d.IsNil() {
			return pre + "nilfunc"
		}
		return pre + "func"
	}
	return pre + "raw"
}

// ---- script rendering ----

func levelLetter(l int) string { return string(rune('a' + l)) }

func (cx *litCtx) paramName(level, i int) string { return fmt.Sprintf("%s%d", levelLetter(level), i) }

// renderSig renders "(a0 T0, a1 ...T1) (R0, R1)".
func (cx *litCtx) renderSig(t *TypeD, level int) string {
	var b strings.Builder
	b.WriteString("(")
	for i, p := range t.In {
		if i > 0 {
			b.WriteString(", ")
		}
		if t.Variadic && i == len(t.In)-1 {
			b.WriteString(cx.paramName(level, i) + " ..." + p.Elem.ID)
		} else {
			b.WriteString(cx.paramName(level, i) + " " + p.ID)
		}
	}
	b.WriteString(")")
	switch len(t.Out) {
	case 0:
	case 1:
		b.WriteString(" " + t.Out[0].ID)
	default:
		ids := make([]string, len(t.Out))
		for i, o := range t.Out {
			ids[i] = o.ID
		}
		b.WriteString(" (" + strings.Join(ids, ", ") + ")")
	}
	return b.String()
}

func (cx *litCtx) renderFuncLit(t *TypeD, b *Body) string {
	cx.level++
	cx.scopes = append(cx.scopes[:cx.level:cx.level], t)
	defer func() { cx.level-- }()
	return "func" + cx.renderSig(t, cx.level) + " {" + cx.renderBody(t, b, cx.level) + "}"
}

// renderFuncDecl renders a top-level declaration `func name(sig) { body }` (level 0).
func (cx *litCtx) renderFuncDecl(name string, t *TypeD, b *Body) string {
	save, saveSc := cx.level, cx.scopes
	cx.level = 0
	cx.scopes = []*TypeD{t}
	defer func() { cx.level, cx.scopes = save, saveSc }()
	return "func " + name + cx.renderSig(t, 0) + " {" + cx.renderBody(t, b, 0) + "}"
}

func (cx *litCtx) renderBody(t *TypeD, b *Body, level int) string {
	var s []string
	for i := range t.In {
		s = append(s, fmt.Sprintf("hp.Rec(%q, %q, %s)", fmt.Sprintf("%s.%d", b.Name, i), t.In[i].ID, cx.paramName(level, i)))
	}
	for _, m := range b.Muts {
		p := cx.paramName(level, m.P)
		switch m.Kind {
		case "ptr":
			s = append(s, fmt.Sprintf("if %s != nil { *%s = %s }", p, p, cx.lit(m.V, false)))
		case "field":
			s = append(s, fmt.Sprintf("if %s != nil { %s.%s = %s }", p, p, t.In[m.P].Elem.Fields[m.F].Name, cx.lit(m.V, false)))
		case "idx":
			s = append(s, fmt.Sprintf("if len(%s) > 0 { %s[0] = %s }", p, p, cx.lit(m.V, false)))
		case "map":
			s = append(s, fmt.Sprintf("if %s != nil { %s[%s] = %s }", p, p, cx.lit(m.K, false), cx.lit(m.V, false)))
		}
	}
	var pre []string
	rets := make([]string, len(b.Rets))
	for j, e := range b.Rets {
		rets[j] = cx.renderExpr(e, level, &pre, b.Direct, len(b.Rets) == 1)
	}
	s = append(s, pre...)
	if len(rets) > 0 {
		s = append(s, "return "+strings.Join(rets, ", "))
	}
	return " " + strings.Join(s, "; ") + " "
}

func (cx *litCtx) tmp() string {
	cx.tmpN++
	return fmt.Sprintf("t%d", cx.tmpN)
}

func (cx *litCtx) renderExpr(e *Expr, level int, pre *[]string, direct, sole bool) string {
	switch e.Op {
	case "p":
		return cx.paramName(level-e.D, e.I)
	case "c":
		return cx.lit(e.C, false)
	case "add":
		return cx.paramName(level-e.D, e.I) + " + " + cx.lit(e.C, false)
	case "not":
		return "!" + cx.paramName(level-e.D, e.I)
	case "len":
		x := "len(" + cx.paramName(level-e.D, e.I) + ")"
		if direct {
			return x
		}
		t := cx.tmp()
		*pre = append(*pre, t+" := "+x)
		return t
	case "call", "callg":
		var callee string
		nOut := 1
		if e.Op == "call" {
			callee = cx.paramName(level-e.D, e.I)
			nOut = len(cx.scopes[level-e.D].In[e.I].Out)
		} else if e.G == "HInc" {
			callee = "hp.HInc"
		} else {
			callee = "SInc"
		}
		args := make([]string, len(e.Args))
		for k, a := range e.Args {
			args[k] = cx.renderExpr(a, level, pre, direct, false)
		}
		call := callee + "(" + strings.Join(args, ", ") + ")"
		if direct && sole && nOut == 1 {
			return call
		}
		t := cx.tmp()
		lhs := make([]string, nOut)
		for k := range lhs {
			lhs[k] = "_"
		}
		lhs[e.J] = t
		*pre = append(*pre, strings.Join(lhs, ", ")+" := "+call)
		return t
	}
	return "?"
}
