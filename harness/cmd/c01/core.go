package main

// Core-fragment stream: programs inside the Lean fragment (Spec/GoCore.lean) are generated as
// trees, rendered both as Go source and as protocol terms, and compared four ways:
// yaegi = Lean CFG model (y=) = Lean frame-slot model (z=) = Lean Go-spec (g=) = compiled Go.

import (
	"fmt"
	"math/rand"
	"strings"

	"verif/harness/common"
)

type cExpr struct {
	k    string // lit var bin neg cpl
	n    int64
	op   string
	a, b *cExpr
}

type cBool struct {
	k    string // cmp not land lor
	op   string
	x, y *cExpr
	a, b *cBool
}

type cStmt struct {
	k          string // skip seq assign print ite loop brk cont brkL contL
	lab        *loopInfo // loop: its label; brkL / contL: the loop they name
	depth      int       // brkL / contL: number of loops between the statement and the one it names
	x          int
	e          *cExpr
	c          *cBool
	a, b       *cStmt // seq parts / ite branches / loop body, post
	declareVar bool   // loop whose init declares a fresh variable with := (rendering only)
	init       *cStmt // rendering only: `for init; c; post`
	clauses    []cClause
	tag        *cExpr   // switch with a tag: clause i tests tag == vals[i]
	g          int      // call: function index
	args       []*cExpr // call: arguments
}

// cClause is one clause of a switch; the default clause (always last) has isDefault set.
type cClause struct {
	c         *cBool // tagless condition
	val       int64  // tag switch: case value
	body      *cStmt
	fall      bool
	isDefault bool
}

var binGo = map[string]string{"add": "+", "sub": "-", "mul": "*", "and": "&", "or": "|", "xor": "^", "quo": "/", "rem": "%"}
var cmpGo = map[string]string{"eq": "==", "ne": "!=", "lt": "<", "le": "<=", "gt": ">", "ge": ">="}

func (e *cExpr) goSrc() string {
	switch e.k {
	case "lit":
		if e.n < 0 {
			return fmt.Sprintf("(%d)", e.n)
		}
		return fmt.Sprint(e.n)
	case "var":
		return fmt.Sprintf("v%d", e.n)
	case "neg", "cpl":
		op := map[string]string{"neg": "-", "cpl": "^"}[e.k]
		if e.a.k == "neg" || e.a.k == "cpl" {
			return op + "(" + e.a.goSrc() + ")"
		}
		return op + e.a.goSrc()
	}
	return "(" + e.a.goSrc() + " " + binGo[e.op] + " " + e.b.goSrc() + ")"
}

// topSrc renders an expression in a position where it is a whole operand of a statement (right-hand
// side, return value, call argument, Println argument): without the outer parentheses, so that the
// node yaegi sees there is the operator node itself and cfg.go's write-into-the-destination shortcuts
// apply (a parenthesised right-hand side is a parenExpr, which keeps the assign closure). One in four
// (by a deterministic function of the expression) keeps the parentheses, to cover that path too.
func (e *cExpr) topSrc() string {
	if e.k != "bin" {
		return e.goSrc()
	}
	if len(e.sexp())%4 == 0 {
		coreFeat("core:rhs-parenthesised")
		return e.goSrc()
	}
	return e.a.goSrc() + " " + binGo[e.op] + " " + e.b.goSrc()
}

func (e *cExpr) isOp() bool { return e.k == "bin" || e.k == "neg" || e.k == "cpl" }

func (e *cExpr) mentions(x int) bool {
	switch e.k {
	case "lit":
		return false
	case "var":
		return e.n == int64(x)
	case "neg", "cpl":
		return e.a.mentions(x)
	}
	return e.a.mentions(x) || e.b.mentions(x)
}

// curFeats collects the slot-level features of the core program being rendered (reset by genCore).
var curFeats map[string]bool

func coreFeat(f string) {
	if curFeats != nil {
		curFeats[f] = true
	}
}

// assignFeats records which frame-slot shortcut an assignment `vx = e` exercises.
func assignFeats(x int, e *cExpr) {
	if !e.isOp() {
		coreFeat("core:assign-mov")
		return
	}
	coreFeat("core:skip-assign")
	if e.mentions(x) {
		// x = x op …: the destination slot is among the operands
		coreFeat("core:skip-assign:dest-among-operands")
		if e.k == "bin" && ((e.a.isOp() && e.b.mentions(x)) || (e.b.isOp() && e.a.mentions(x))) {
			// … and is read by the top node after an operator child has been evaluated: the case in
			// which handing the destination down to a child would be wrong (dst_down_witness)
			coreFeat("core:skip-assign:dest-read-after-child")
		}
	}
}

func (e *cExpr) isConst() bool {
	switch e.k {
	case "lit":
		return true
	case "var":
		return false
	case "neg", "cpl":
		return e.a.isConst()
	}
	return e.a.isConst() && e.b.isConst()
}

func (e *cExpr) sexp() string {
	switch e.k {
	case "lit":
		return fmt.Sprintf("(lit %d)", e.n)
	case "var":
		return fmt.Sprintf("(var %d)", e.n)
	case "neg", "cpl":
		return "(" + e.k + " " + e.a.sexp() + ")"
	}
	return "(bin " + e.op + " " + e.a.sexp() + " " + e.b.sexp() + ")"
}

func (c *cBool) goSrc() string {
	switch c.k {
	case "cmp":
		return "(" + c.x.goSrc() + " " + cmpGo[c.op] + " " + c.y.goSrc() + ")"
	case "not":
		return "!" + c.a.goSrc()
	case "land":
		return "(" + c.a.goSrc() + " && " + c.b.goSrc() + ")"
	}
	return "(" + c.a.goSrc() + " || " + c.b.goSrc() + ")"
}

// caseSrc renders a clause condition of a tagless switch: a case list `a, b, …` (kind alt, right-nested, only at the
// top of a clause condition) or a single condition.
func (c *cBool) caseSrc() string {
	if c.k == "alt" {
		return c.a.goSrc() + ", " + c.b.caseSrc()
	}
	return c.goSrc()
}

func (c *cBool) sexp() string {
	switch c.k {
	case "cmp":
		return "(cmp " + c.op + " " + c.x.sexp() + " " + c.y.sexp() + ")"
	case "not":
		return "(not " + c.a.sexp() + ")"
	}
	return "(" + c.k + " " + c.a.sexp() + " " + c.b.sexp() + ")"
}

func (s *cStmt) sexp() string {
	switch s.k {
	case "skip", "brk", "cont":
		return s.k
	case "brkL", "contL":
		return fmt.Sprintf("(%s %d)", s.k, s.depth)
	case "seq":
		return "(seq " + s.a.sexp() + " " + s.b.sexp() + ")"
	case "assign":
		return fmt.Sprintf("(assign %d %s)", s.x, s.e.sexp())
	case "print":
		return "(print " + s.e.sexp() + ")"
	case "ret":
		return "(ret " + s.e.sexp() + ")"
	case "call":
		parts := []string{"call", fmt.Sprint(s.x), fmt.Sprint(s.g)}
		for _, a := range s.args {
			parts = append(parts, a.sexp())
		}
		return "(" + strings.Join(parts, " ") + ")"
	case "ite":
		return "(ite " + s.c.sexp() + " " + s.a.sexp() + " " + s.b.sexp() + ")"
	}
	if s.k == "switch" {
		parts := []string{"switch"}
		for _, cl := range s.clauses {
			var c string
			switch {
			case cl.isDefault:
				c = "(cmp eq (lit 0) (lit 0))"
			case s.tag != nil:
				c = "(cmp eq " + s.tag.sexp() + fmt.Sprintf(" (lit %d))", cl.val)
			default:
				c = cl.c.sexp()
			}
			parts = append(parts, "(c "+c+" "+cl.body.sexp()+" "+common.B(cl.fall)+")")
		}
		return "(" + strings.Join(parts, " ") + ")"
	}
	l := "(loop " + s.c.sexp() + " " + s.a.sexp() + " " + s.b.sexp() + ")"
	if s.init != nil {
		return "(seq " + s.init.sexp() + " " + l + ")"
	}
	return l
}

func (s *cStmt) render(b *strings.Builder, ind int) {
	tab := strings.Repeat("\t", ind)
	switch s.k {
	case "skip":
	case "brk":
		b.WriteString(tab + "break\n")
	case "cont":
		b.WriteString(tab + "continue\n")
	case "brkL":
		fmt.Fprintf(b, "%sbreak L%d\n", tab, s.lab.id)
	case "contL":
		fmt.Fprintf(b, "%scontinue L%d\n", tab, s.lab.id)
	case "seq":
		s.a.render(b, ind)
		s.b.render(b, ind)
	case "assign":
		assignFeats(s.x, s.e)
		fmt.Fprintf(b, "%sv%d = %s\n", tab, s.x, s.e.topSrc())
	case "print":
		fmt.Fprintf(b, "%sfmt.Println(%s)\n", tab, s.e.topSrc())
	case "ret":
		if s.e.isOp() {
			coreFeat("core:return-operator")
		}
		fmt.Fprintf(b, "%sreturn %s\n", tab, s.e.topSrc())
	case "call":
		var as []string
		for _, a := range s.args {
			as = append(as, a.topSrc())
			if a.isOp() {
				coreFeat("core:call-operator-argument")
			}
			if a.mentions(s.x) {
				coreFeat("core:call-dest-among-arguments")
			}
		}
		fmt.Fprintf(b, "%sv%d = f%d(%s)\n", tab, s.x, s.g, strings.Join(as, ", "))
	case "ite":
		fmt.Fprintf(b, "%sif %s {\n", tab, s.c.goSrc())
		s.a.render(b, ind+1)
		if s.b.k != "skip" {
			b.WriteString(tab + "} else {\n")
			s.b.render(b, ind+1)
		}
		b.WriteString(tab + "}\n")
	case "switch":
		if s.tag != nil {
			fmt.Fprintf(b, "%sswitch %s {\n", tab, s.tag.goSrc())
		} else {
			b.WriteString(tab + "switch {\n")
		}
		for _, cl := range s.clauses {
			switch {
			case cl.isDefault:
				b.WriteString(tab + "default:\n")
			case s.tag != nil:
				if cl.val < 0 {
					fmt.Fprintf(b, "%scase %d:\n", tab, cl.val)
				} else {
					fmt.Fprintf(b, "%scase %d:\n", tab, cl.val)
				}
			default:
				fmt.Fprintf(b, "%scase %s:\n", tab, cl.c.caseSrc())
			}
			cl.body.render(b, ind+1)
			if cl.fall {
				b.WriteString(tab + "\tfallthrough\n")
			}
		}
		b.WriteString(tab + "}\n")
	case "loop":
		if s.lab != nil && s.lab.used {
			fmt.Fprintf(b, "%sL%d:\n", tab, s.lab.id)
		}
		post := ""
		if s.b.k == "assign" {
			assignFeats(s.b.x, s.b.e)
			post = fmt.Sprintf("v%d = %s", s.b.x, s.b.e.topSrc())
		}
		switch {
		case s.init != nil && s.declareVar:
			// `for w := e0; c; w = …` with the loop variable renamed to a fresh identifier
			fmt.Fprintf(b, "%sfor v%d := %s; %s; %s {\n", tab, s.init.x, s.init.e.topSrc(), s.c.goSrc(), post)
		case s.init != nil:
			fmt.Fprintf(b, "%sfor v%d = %s; %s; %s {\n", tab, s.init.x, s.init.e.topSrc(), s.c.goSrc(), post)
		case post != "":
			fmt.Fprintf(b, "%sfor ; %s; %s {\n", tab, s.c.goSrc(), post)
		default:
			fmt.Fprintf(b, "%sfor %s {\n", tab, s.c.goSrc())
		}
		s.a.render(b, ind+1)
		b.WriteString(tab + "}\n")
	}
}

// loopInfo is the label of a loop; the label is rendered only when some break / continue names it.
type loopInfo struct {
	id        int
	used      bool
	labelable bool // not inside a switch clause (a label there is the recorded finding F43)
}

type coreGen struct {
	loops      []*loopInfo // enclosing loops of the function being generated, outermost first
	nlabels    int
	r          *rand.Rand
	nvars      int
	ro         map[int]bool // variables that must not be assigned (loop counters)
	inLoop     int
	budget     int
	fresh      int
	declare    map[int]bool // variables declared by a `for v := …` (not by the leading var statement)
	dead       map[int]bool // `:=` loop variables whose loop has ended (out of scope)
	inSwitch   int
	nparams    []int // declared functions callable from here: number of parameters of f_i
	recursive0 bool  // f0 is the fixed recursive function
	inFunc     bool  // generating a function body: `return` allowed
}

func (g *coreGen) lit() *cExpr { return &cExpr{k: "lit", n: int64(g.r.Intn(25) - 6)} }
func (g *coreGen) v() *cExpr {
	for {
		x := g.r.Intn(g.nvars)
		if !g.dead[x] {
			return &cExpr{k: "var", n: int64(x)}
		}
	}
}

func (g *coreGen) expr(d int) *cExpr {
	if d <= 0 || g.r.Intn(4) == 0 {
		if g.r.Intn(3) == 0 {
			return g.lit()
		}
		return g.v()
	}
	switch g.r.Intn(10) {
	case 0:
		a := g.expr(d - 1)
		if a.k == "lit" {
			a = g.v()
		}
		return &cExpr{k: []string{"neg", "cpl"}[g.r.Intn(2)], a: a}
	case 1:
		// division: the divisor is a variable (may be zero: run-time panic) or a non-zero literal
		op := []string{"quo", "rem"}[g.r.Intn(2)]
		var dv *cExpr
		if g.r.Intn(2) == 0 {
			dv = g.v()
		} else {
			dv = &cExpr{k: "lit", n: int64(1 + g.r.Intn(7))}
		}
		dd := g.expr(d - 1)
		// (a constant dividend over a constant divisor is folded at compile time as an integer
		// quotient since the repair of quoConst, F48 fixed)
		return &cExpr{k: "bin", op: op, a: dd, b: dv}
	default:
		op := []string{"add", "add", "sub", "mul", "and", "or", "xor"}[g.r.Intn(7)]
		return &cExpr{k: "bin", op: op, a: g.expr(d - 1), b: g.expr(d - 1)}
	}
}

func (g *coreGen) cond(d int) *cBool {
	if d <= 0 || g.r.Intn(3) == 0 {
		op := []string{"eq", "ne", "lt", "le", "gt", "ge"}[g.r.Intn(6)]
		// at least one non-constant operand (a comparison of constants is a listed finding class)
		return &cBool{k: "cmp", op: op, x: &cExpr{k: "bin", op: "add", a: g.v(), b: g.expr(1)}, y: g.expr(1)}
	}
	switch g.r.Intn(3) {
	case 0:
		return &cBool{k: "not", a: g.cond(d - 1)}
	case 1:
		return &cBool{k: "land", a: g.cond(d - 1), b: g.cond(d - 1)}
	}
	return &cBool{k: "lor", a: g.cond(d - 1), b: g.cond(d - 1)}
}

func (g *coreGen) target() int {
	for tries := 0; tries < 20; tries++ {
		x := g.r.Intn(g.nvars)
		if !g.ro[x] {
			return x
		}
	}
	return 0
}

func seqOf(ss []*cStmt) *cStmt {
	if len(ss) == 0 {
		return &cStmt{k: "skip"}
	}
	out := ss[len(ss)-1]
	for i := len(ss) - 2; i >= 0; i-- {
		out = &cStmt{k: "seq", a: ss[i], b: out}
	}
	return out
}

// block: a non-empty statement list (an empty block is a listed finding class)
func (g *coreGen) block(depth int) *cStmt {
	n := 1 + g.r.Intn(3)
	var ss []*cStmt
	for i := 0; i < n; i++ {
		ss = append(ss, g.stmt(depth))
	}
	return seqOf(ss)
}

func (g *coreGen) stmt(depth int) *cStmt {
	g.budget--
	k := g.r.Intn(14)
	if depth >= 3 || g.budget <= 0 {
		k = g.r.Intn(5)
		if g.r.Intn(4) == 0 {
			k = 12 // calls are not nesting constructs
		}
	}
	switch {
	case k < 3:
		return &cStmt{k: "assign", x: g.target(), e: g.expr(2)}
	case k < 5:
		return &cStmt{k: "print", e: g.expr(2)}
	case k < 7:
		els := &cStmt{k: "skip"}
		if g.r.Intn(2) == 0 {
			els = g.block(depth + 1)
		}
		return &cStmt{k: "ite", c: g.cond(2), a: g.block(depth + 1), b: els}
	case k < 10:
		// bounded loop: counter w from 0 (or a small start) while w < lim, incremented by the post
		// statement or at the top of the body
		w := g.nvars
		g.nvars++
		g.ro[w] = true
		lim := int64(2 + g.r.Intn(4))
		cnd := &cBool{k: "cmp", op: "lt", x: &cExpr{k: "var", n: int64(w)}, y: &cExpr{k: "lit", n: lim}}
		if g.r.Intn(3) == 0 {
			cnd = &cBool{k: "land", a: cnd, b: g.cond(1)}
		}
		inc := &cStmt{k: "assign", x: w, e: &cExpr{k: "bin", op: "add", a: &cExpr{k: "var", n: int64(w)}, b: &cExpr{k: "lit", n: 1}}}
		init := &cStmt{k: "assign", x: w, e: &cExpr{k: "lit", n: int64(g.r.Intn(2))}}
		g.inLoop++
		g.nlabels++
		li := &loopInfo{id: g.nlabels, labelable: true} // labels inside switch clauses work since fix 126ac4d (F43)
		g.loops = append(g.loops, li)
		var l *cStmt
		switch g.r.Intn(4) {
		case 0: // for cond { w++; body }
			body := &cStmt{k: "seq", a: inc, b: g.block(depth + 1)}
			l = &cStmt{k: "seq", a: init, b: &cStmt{k: "loop", c: cnd, a: body, b: &cStmt{k: "skip"}, lab: li}}
		case 1: // for ; cond; post { body }
			l = &cStmt{k: "seq", a: init, b: &cStmt{k: "loop", c: cnd, a: g.block(depth + 1), b: inc, lab: li}}
		case 2: // for w = init; cond; post { body }
			l = &cStmt{k: "loop", c: cnd, a: g.block(depth + 1), b: inc, init: init, lab: li}
		default: // for w := init; cond; post { body }
			g.declare[w] = true
			l = &cStmt{k: "loop", c: cnd, a: g.block(depth + 1), b: inc, init: init, declareVar: true, lab: li}
		}
		g.loops = g.loops[:len(g.loops)-1]
		g.inLoop--
		if g.declare[w] {
			g.dead[w] = true
		}
		return l
	case k == 12 && len(g.nparams) > 0:
		// x = f(args…): arguments are copied; the callee prints into the same output
		fi := g.r.Intn(len(g.nparams))
		c := &cStmt{k: "call", x: g.target(), g: fi}
		for i := 0; i < g.nparams[fi]; i++ {
			c.args = append(c.args, g.expr(1))
		}
		if fi == 0 && g.recursive0 {
			// bound the recursion depth of the recursive function
			c.args[0] = &cExpr{k: "bin", op: "and", a: c.args[0], b: &cExpr{k: "lit", n: 7}}
		}
		return c
	case k == 13 && g.inFunc:
		return &cStmt{k: "ite", c: g.cond(1), a: &cStmt{k: "ret", e: g.expr(2)}, b: &cStmt{k: "skip"}}
	case k == 11:
		// switch: tag or tagless, default (if any) last, clause bodies never empty, fallthrough never
		// from the last clause; `break` inside a clause leaves the switch
		sw := &cStmt{k: "switch"}
		if g.r.Intn(2) == 0 {
			sw.tag = &cExpr{k: "bin", op: "rem", a: g.v(), b: &cExpr{k: "lit", n: 3}}
		}
		n := 1 + g.r.Intn(3)
		used := map[int64]bool{}
		g.inSwitch++
		for i := 0; i < n; i++ {
			cl := cClause{body: g.block(depth + 1)}
			if sw.tag != nil {
				v := int64(g.r.Intn(5) - 2)
				for used[v] {
					v++
				}
				used[v] = true
				cl.val = v
			} else {
				cl.c = g.cond(1)
				if g.r.Intn(3) == 0 {
					// a case list of 2 or 3 conditions (cfg.go chains them since 3b98047)
					coreFeat("core:tagless-case-list")
					conds := []*cBool{cl.c, g.cond(1)}
					if g.r.Intn(2) == 0 {
						conds = append(conds, g.cond(0))
					}
					lst := conds[len(conds)-1]
					for i := len(conds) - 2; i >= 0; i-- {
						lst = &cBool{k: "alt", a: conds[i], b: lst}
					}
					cl.c = lst
				}
			}
			if g.r.Intn(6) == 0 {
				cl.body = &cStmt{k: "seq", a: &cStmt{k: "ite", c: g.cond(1), a: &cStmt{k: "brk"}, b: &cStmt{k: "skip"}}, b: cl.body}
			}
			sw.clauses = append(sw.clauses, cl)
		}
		if g.r.Intn(2) == 0 {
			sw.clauses = append(sw.clauses, cClause{isDefault: true, body: g.block(depth + 1)})
		}
		for i := 0; i+1 < len(sw.clauses); i++ {
			if g.r.Intn(4) == 0 {
				sw.clauses[i].fall = true
			}
		}
		g.inSwitch--
		return sw
	case k == 10 && g.inLoop > 0:
		if g.r.Intn(2) == 0 {
			// labelled break / continue naming one of the enclosing loops
			d := g.r.Intn(len(g.loops))
			if li := g.loops[len(g.loops)-1-d]; li.labelable {
				li.used = true
				kw := []string{"brkL", "contL"}[g.r.Intn(2)]
				return &cStmt{k: "ite", c: g.cond(1), a: &cStmt{k: kw, lab: li, depth: d}, b: &cStmt{k: "skip"}}
			}
		}
		kw := []string{"brk", "cont"}[g.r.Intn(2)]
		return &cStmt{k: "ite", c: g.cond(1), a: &cStmt{k: kw}, b: &cStmt{k: "skip"}}
	default:
		return &cStmt{k: "print", e: g.expr(3)}
	}
}

// genFunc generates one function: parameters v0…, locals, a body, a final return.
func genFunc(r *rand.Rand, idx int, callable []int, rec0 bool) (src string, term string, np int) {
	np = 1 + r.Intn(2)
	g := &coreGen{r: r, nvars: np + 1 + r.Intn(2), ro: map[int]bool{}, budget: 3 + r.Intn(6), declare: map[int]bool{},
		dead: map[int]bool{}, nparams: callable, inFunc: true, recursive0: rec0}
	base := g.nvars
	var ss []*cStmt
	for g.budget > 0 {
		ss = append(ss, g.stmt(1))
	}
	ss = append(ss, &cStmt{k: "ret", e: g.expr(2)})
	p := seqOf(ss)
	var b strings.Builder
	var params []string
	for i := 0; i < np; i++ {
		params = append(params, fmt.Sprintf("v%d", i))
	}
	fmt.Fprintf(&b, "func f%d(%s int) int {\n", idx, strings.Join(params, ", "))
	var names []string
	for i := np; i < g.nvars; i++ {
		if !g.declare[i] {
			names = append(names, fmt.Sprintf("v%d", i))
		}
	}
	if len(names) > 0 {
		fmt.Fprintf(&b, "\tvar %s int\n", strings.Join(names, ", "))
		for _, n := range names {
			fmt.Fprintf(&b, "\t_ = %s\n", n)
		}
	}
	_ = base
	p.render(&b, 1)
	b.WriteString("}\n\n")
	return b.String(), p.sexp(), np
}

// factSrc / factTerm: a fixed recursive function (accumulating factorial-like recursion), index 0 when present.
const factSrc = "func f0(v0, v1 int) int {\n\tvar v2 int\n\t_ = v2\n\tif (v0 <= 0) {\n\t\treturn v1\n\t}\n\tv2 = f0((v0 - 1), (v1 + (v0 * v0)))\n\treturn v2\n}\n\n"
const factTerm = "(ite (cmp le (var 0) (lit 0)) (ret (var 1)) (seq (call 2 0 (bin sub (var 0) (lit 1)) (bin add (var 1) (bin mul (var 0) (var 0)))) (ret (var 2))))"

// genCore returns Go source, the protocol term (function bodies and main) and the slot-level feature
// buckets of one core program.
func genCore(r *rand.Rand) (string, string, map[string]bool) {
	curFeats = map[string]bool{}
	defer func() { curFeats = nil }()
	var fsrc, fterm []string
	var nparams []int
	rec0 := false
	if r.Intn(2) == 0 {
		if r.Intn(2) == 0 {
			fsrc, fterm, nparams = append(fsrc, factSrc), append(fterm, factTerm), append(nparams, 2)
			rec0 = true
		}
		for n := r.Intn(3); n > 0; n-- {
			// a function may call the functions declared before it (and the recursive one)
			src, term, np := genFunc(r, len(nparams), append([]int{}, nparams...), rec0)
			fsrc, fterm, nparams = append(fsrc, src), append(fterm, term), append(nparams, np)
		}
	}
	g := &coreGen{r: r, nvars: 3 + r.Intn(3), ro: map[int]bool{}, budget: 6 + r.Intn(14), declare: map[int]bool{}, dead: map[int]bool{}, nparams: nparams, recursive0: rec0}
	base := g.nvars
	var ss []*cStmt
	for i := 0; i < base; i++ {
		ss = append(ss, &cStmt{k: "assign", x: i, e: &cExpr{k: "lit", n: int64(g.r.Intn(12) - 3)}})
	}
	for g.budget > 0 {
		ss = append(ss, g.stmt(0))
	}
	for i := 0; i < base; i++ {
		ss = append(ss, &cStmt{k: "print", e: &cExpr{k: "var", n: int64(i)}})
	}
	p := seqOf(ss)
	var b strings.Builder
	b.WriteString("package main\n\nimport \"fmt\"\n\n")
	for _, f := range fsrc {
		b.WriteString(f)
	}
	b.WriteString("func main() {\n")
	var names []string
	for i := 0; i < g.nvars; i++ {
		if !g.declare[i] {
			names = append(names, fmt.Sprintf("v%d", i))
		}
	}
	fmt.Fprintf(&b, "\tvar %s int\n", strings.Join(names, ", "))
	fmt.Fprintf(&b, "\t_, _, _ = %s\n", strings.Join(names[:3], ", "))
	p.render(&b, 1)
	b.WriteString("}\n")
	return b.String(), "(funs " + strings.Join(fterm, " ") + ") " + p.sexp(), curFeats
}

func parseInts(out string) string {
	return strings.Join(strings.Fields(out), ",")
}

// coreStream runs the four-way comparison on programs of the Lean fragment.
func coreStream(run *common.Run) {
	drv, err := common.StartDriver("C01")
	if err != nil {
		run.Errorf("driver: %v", err)
		return
	}
	defer drv.Close()
	n := 600
	if run.Thorough() {
		n = 12000
	}
	for done := 0; done < n; done += 600 {
		var srcs, terms, lines []string
		var feats []map[string]bool
		for i := 0; i < 600; i++ {
			src, term, ft := genCore(rand.New(rand.NewSource(run.Rng.Int63())))
			feats = append(feats, ft)
			srcs = append(srcs, src)
			terms = append(terms, term)
			lines = append(lines, "C01 run 200000 "+term)
		}
		answers, err := drv.AskAll(lines)
		if err != nil {
			run.Errorf("driver: %v", err)
			return
		}
		ys, gs, err := runAll(srcs)
		if err != nil {
			run.Errorf("oracle: %v", err)
			return
		}
		for i := range srcs {
			if strings.HasPrefix(gs[i].End, "reject:") {
				run.Errorf("core generator produced a program the toolchain rejects: %s\n%s", gs[i].End, srcs[i])
				continue
			}
			ans := common.Fields(answers[i])
			if ans["y"] == "" || ans["g"] == "" || ans["z"] == "" {
				run.Errorf("driver answered %q", answers[i])
				continue
			}
			impl := ys[i].End + ":" + parseInts(ys[i].Stdout)
			ref := gs[i].End + ":" + parseInts(gs[i].Stdout)
			nontrivial := strings.Contains(terms[i], "(loop ") && strings.Contains(terms[i], "(ite ")
			run.Count("core:"+terms[i], nontrivial)
			run.Hit("core:end:" + gs[i].End)
			if strings.Contains(terms[i], " brk") || strings.Contains(terms[i], " cont") {
				run.Hit("core:break-or-continue")
			}
			if strings.Contains(terms[i], "(brkL ") || strings.Contains(terms[i], "(contL ") {
				run.Hit("core:labelled-break-or-continue")
			}
			if strings.Contains(terms[i], "(brkL 1)") || strings.Contains(terms[i], "(contL 1)") || strings.Contains(terms[i], "(brkL 2)") || strings.Contains(terms[i], "(contL 2)") {
				run.Hit("core:labelled-outer-loop")
			}
			if strings.Contains(terms[i], "(switch ") {
				run.Hit("core:switch")
			}
			if strings.Contains(terms[i], "(call ") {
				run.Hit("core:call")
			}
			if strings.Contains(terms[i], "(call 2 0 ") {
				run.Hit("core:recursion")
			}
			if strings.Contains(terms[i], ") 1) (c ") {
				run.Hit("core:fallthrough")
			}
			if strings.Contains(terms[i], "(land ") || strings.Contains(terms[i], "(lor ") {
				run.Hit("core:short-circuit")
			}
			for f := range feats[i] {
				run.Hit(f)
			}
			if len(run.Res.Samples) < 2 {
				run.Sample(map[string]interface{}{"src": srcs[i], "term": terms[i], "impl": impl, "model": ans["y"], "model-slots": ans["z"], "spec": ans["g"], "ref": ref}, 2)
			}
			in := map[string]interface{}{"src": srcs[i], "term": terms[i]}
			clip := func(s string) string {
				if len(s) > 400 {
					return s[:400] + "…"
				}
				return s
			}
			if ans["z"] != ans["y"] {
				// the two levels of OUR model disagree (Props/C01.lean slots_refine says they cannot on
				// terminating runs): a defect of the machinery, never a finding
				run.Errorf("model levels disagree: level-1 y=%s, slot level z=%s on %s", clip(ans["y"]), clip(ans["z"]), terms[i])
			}
			switch {
			case impl != ans["y"] && impl != ans["z"]:
				run.Disagree(common.Disagreement{Kind: "impl-vs-model", Input: in, Impl: clip(impl), Model: clip(ans["z"]), Ref: clip(ref), Note: "both model levels (CFG level y=" + clip(ans["y"]) + ")"})
			case impl != ans["y"]:
				run.Disagree(common.Disagreement{Kind: "impl-vs-model", Input: in, Impl: clip(impl), Model: clip(ans["y"]), Ref: clip(ref), Note: "CFG level only"})
			case impl != ans["z"]:
				run.Disagree(common.Disagreement{Kind: "impl-vs-model", Input: in, Impl: clip(impl), Model: clip(ans["z"]), Ref: clip(ref), Note: "frame-slot level only"})
			}
			if ref != ans["g"] {
				run.Disagree(common.Disagreement{Kind: "spec-vs-ref", Input: in, Spec: clip(ans["g"]), Ref: clip(ref)})
			}
			if impl != ref {
				run.Disagree(common.Disagreement{Kind: "impl-vs-ref", Input: in, Impl: clip(impl), Ref: clip(ref)})
			}
		}
	}
}
