// C01 correspondence harness: interpreted programs behave like compiled ones.
//
//	impl  = yaegi evaluating the program (stdout bytes, normal end or panic)
//	ref   = the same source built with the Go toolchain and run
//	model = for programs of the Lean core fragment: Lean CFG compilation + closure loop (y=) and
//	        the Go-spec big-step semantics (g=), see core.go
package main

import (
	"encoding/json"
	"fmt"
	"go/ast"
	"go/importer"
	"go/parser"
	"go/token"
	"go/types"
	"math/rand"
	"os"
	"regexp"
	"runtime"
	"sort"
	"strings"
	"sync"
	"sync/atomic"
	"time"

	"verif/harness/common"
)

type outcome struct {
	Stdout string `json:"stdout"`
	End    string `json:"end"`              // normal | panic | reject:<first line> | crash:<first line> | timeout
	Detail string `json:"detail,omitempty"` // not compared: the panic / error text
}

func (o outcome) String() string {
	s := o.Stdout
	if len(s) > 400 {
		s = s[:400] + "…"
	}
	if o.Detail != "" {
		return o.End + "(" + o.Detail + ")|" + s
	}
	return o.End + "|" + s
}

// timeouts counts interpreter timeouts; after many of them (a mis-wired graph loops forever on
// every program with a loop) the remaining programs are answered "timeout" without being run.
var timeouts int64

func yaegiOutcome(src string) outcome {
	if atomic.LoadInt64(&timeouts) > 40 {
		return outcome{End: "timeout", Detail: "not run: too many timeouts already"}
	}
	r := common.RunYaegi(src, 5*time.Second)
	if r.Timeout && atomic.LoadInt64(&timeouts) < 10 {
		// a loaded machine can make a long-running program exceed the short deadline: confirm with a
		// generous one before the timeout is treated as an outcome
		r = common.RunYaegi(src, 30*time.Second)
	}
	if r.Timeout {
		atomic.AddInt64(&timeouts, 1)
	}
	o := outcome{Stdout: r.Stdout}
	switch {
	case r.Crash != "":
		o.End = "crash:" + common.FirstLine(r.Crash)
	case r.Timeout:
		o.End = "timeout"
	case r.Panic != "" || strings.Contains(r.Err, "panic"):
		o.End = "panic"
		o.Detail = common.FirstLine(r.Err)
	case r.Err != "":
		o.End = "reject:" + common.FirstLine(r.Err)
	default:
		o.End = "normal"
	}
	return o
}

func goOutcome(g common.GoResult) outcome {
	o := outcome{Stdout: g.Stdout}
	switch {
	case g.CompileErr != "":
		o.End = "reject:" + common.FirstLine(g.CompileErr)
	case g.Timeout:
		o.End = "timeout"
	case g.Panic() != "":
		o.End = "panic"
	case g.Exit != 0:
		o.End = fmt.Sprintf("exit:%d", g.Exit)
	default:
		o.End = "normal"
	}
	return o
}

func same(a, b outcome) bool {
	ea, eb := a.End, b.End
	return a.Stdout == b.Stdout && ea == eb
}

type progCase struct {
	Src  string         `json:"src"`
	Feat map[string]int `json:"-"`
}

func runAll(srcs []string) ([]outcome, []outcome, error) {
	gos, err := common.RunGoBatch(srcs, 20*time.Second)
	if err != nil {
		return nil, nil, err
	}
	ys := make([]outcome, len(srcs))
	var wg sync.WaitGroup
	sem := make(chan struct{}, runtime.NumCPU())
	for i := range srcs {
		wg.Add(1)
		sem <- struct{}{}
		go func(i int) {
			defer wg.Done()
			defer func() { <-sem }()
			ys[i] = yaegiOutcome(srcs[i])
		}(i)
	}
	wg.Wait()
	gs := make([]outcome, len(srcs))
	for i := range gos {
		gs[i] = goOutcome(gos[i])
	}
	return ys, gs, nil
}

// shrink: statement-level delta debugging. A candidate is kept when the toolchain still accepts
// it (pre-filtered in-process with go/types) and the two outcomes still differ. Each round tries
// every single-unit removal (a statement line, or a block with its matching brace), then the union
// of all removals that individually preserve the divergence.
func shrink(src string) string {
	cur := src
	deadline := time.Now().Add(60 * time.Second)
	for round := 0; round < 15 && time.Now().Before(deadline); round++ {
		lines := strings.Split(cur, "\n")
		start := 0
		for i, l := range lines {
			if strings.HasPrefix(l, "func f0(") || (start == 0 && strings.HasPrefix(l, "func main()")) {
				if start == 0 {
					start = i + 1
				}
			}
		}
		type unit struct{ i, j int }
		var units []unit
		for i := start; i < len(lines)-1; i++ {
			t := strings.TrimSpace(lines[i])
			if t == "" || t == "}" || strings.HasPrefix(t, "} else") || strings.HasPrefix(t, "case ") || t == "default:" || strings.HasPrefix(t, "func ") {
				continue
			}
			j := i
			if strings.HasSuffix(t, "{") {
				ind := len(lines[i]) - len(strings.TrimLeft(lines[i], "\t"))
				for j = i + 1; j < len(lines); j++ {
					if strings.TrimRight(lines[j], " ") == strings.Repeat("\t", ind)+"}" {
						break
					}
				}
				if j >= len(lines) {
					continue
				}
			}
			units = append(units, unit{i, j})
		}
		build := func(us []unit) string {
			drop := map[int]bool{}
			for _, u := range us {
				for k := u.i; k <= u.j; k++ {
					drop[k] = true
				}
			}
			var out []string
			for k, l := range lines {
				if !drop[k] {
					out = append(out, l)
				}
			}
			return strings.Join(out, "\n")
		}
		var cands []string
		var cu []unit
		for _, u := range units {
			c := build([]unit{u})
			if emptyBlockRe.MatchString(c) {
				continue // do not slip into the empty-block finding class while shrinking
			}
			if typeChecks(c) {
				cands = append(cands, c)
				cu = append(cu, u)
			}
		}
		if len(cands) == 0 {
			break
		}
		ys, gs, err := runAll(cands)
		if err != nil {
			break
		}
		var good []unit
		best := -1
		for i := range cands {
			if strings.HasPrefix(gs[i].End, "reject:") || gs[i].End == "timeout" {
				continue
			}
			if !same(ys[i], gs[i]) {
				good = append(good, cu[i])
				if best < 0 || len(cands[i]) < len(cands[best]) {
					best = i
				}
			}
		}
		if best < 0 {
			break
		}
		next := cands[best]
		if len(good) > 1 {
			// non-overlapping subset, outermost first
			var pickd []unit
			for _, u := range good {
				ok := true
				for _, v := range pickd {
					if !(u.j < v.i || u.i > v.j) {
						ok = false
					}
				}
				if ok {
					pickd = append(pickd, u)
				}
			}
			u := build(pickd)
			if !emptyBlockRe.MatchString(u) && typeChecks(u) {
				y2, g2, err := runAll([]string{u})
				if err == nil && !strings.HasPrefix(g2[0].End, "reject:") && !same(y2[0], g2[0]) {
					next = u
				}
			}
		}
		cur = next
	}
	return cur
}

// siTagLine: a line printed by the helper si of the construct switch-tag-case-list-call (tags are g.fresh("t"): t<number>)
var siTagLine = regexp.MustCompile(`(?m)^t\d+\n`)

var emptyBlockRe = regexp.MustCompile(`\{\n\t*\}|:\n\t*(case |default:|\})`)

var typesImporter = importer.ForCompiler(token.NewFileSet(), "source", nil)
var typesMu sync.Mutex

// typeChecks: is the program accepted by go/types (quick pre-filter for the shrinker).
func typeChecks(src string) bool {
	fset := token.NewFileSet()
	f, err := parser.ParseFile(fset, "p.go", src, 0)
	if err != nil {
		return false
	}
	typesMu.Lock()
	defer typesMu.Unlock()
	conf := types.Config{Importer: typesImporter, Error: func(error) {}}
	_, err = conf.Check("main", fset, []*ast.File{f}, nil)
	return err == nil
}

func main() {
	run := common.NewRun("C01")
	run.Res.Rule = "cases = complete Go programs from a seeded type-directed grammar (functions, recursion, closures incl. loop-variable capture, if/else-if/for/range/switch/fallthrough/goto/labelled break-continue, multi-value calls, compound assignment to fields/elements/pointees, shadowing, defer, int/int8/uint16/float64/string/bool/struct/array/slice/map/pointer data) plus programs of the Lean core fragment; compared: stdout bytes and normal/panic end, yaegi vs compiled Go (vs both levels of the Lean model — CFG and frame slots — and the Lean spec for core programs, whose right-hand sides are rendered unparenthesised so that cfg.go's write-into-destination shortcuts apply); non-trivial = contains at least one loop and one call or switch; distinct = distinct source text"
	defer run.Finish()
	findings, err := common.LoadFindings("C01")
	if err != nil {
		run.Errorf("known findings: %v", err)
	}

	if run.Replay != "" {
		b, err := os.ReadFile(run.Replay)
		if err != nil {
			run.Errorf("replay: %v", err)
			return
		}
		var rp struct {
			Input progCase `json:"input"`
		}
		if err := json.Unmarshal(b, &rp); err != nil {
			run.Errorf("replay: %v", err)
			return
		}
		ys, gs, err := runAll([]string{rp.Input.Src})
		if err != nil {
			run.Errorf("oracle: %v", err)
			return
		}
		run.Count(rp.Input.Src, true)
		run.Sample(map[string]interface{}{"impl": ys[0], "ref": gs[0]}, 1)
		if !same(ys[0], gs[0]) {
			run.Disagree(common.Disagreement{Kind: "impl-vs-ref", Input: rp.Input, Impl: ys[0].String(), Ref: gs[0].String()})
		}
		return
	}

	if dir := os.Getenv("VERIF_C01_TRIAGE"); dir != "" {
		triage(run, dir)
		return
	}

	// listed findings first
	var ksrc []string
	for _, f := range findings {
		var c progCase
		if err := json.Unmarshal(f.Replay, &c); err != nil {
			run.Errorf("finding %s: bad replay: %v", f.ID, err)
			continue
		}
		ksrc = append(ksrc, c.Src)
	}
	if len(ksrc) > 0 {
		ys, gs, err := runAll(ksrc)
		if err != nil {
			run.Errorf("oracle: %v", err)
		} else {
			k := 0
			for _, f := range findings {
				var c progCase
				if json.Unmarshal(f.Replay, &c) != nil {
					continue
				}
				if strings.HasPrefix(gs[k].End, "reject:") {
					run.Errorf("finding %s: replay program rejected by the toolchain: %s", f.ID, gs[k].End)
				}
				run.Res.Known = append(run.Res.Known, common.KnownReplay{ID: f.ID, Status: f.Status, What: f.What,
					StillFails: !same(ys[k], gs[k]), Detail: "impl=" + ys[k].String() + " ref=" + gs[k].String()})
				k++
			}
		}
	}

	if os.Getenv("VERIF_C01_ONLY") == "clos" { // development aid: only the closure-fragment stream
		closStream(run)
		return
	}

	// core-fragment programs: four-way comparison through the Lean driver
	coreStream(run)

	// closure-fragment programs (variables as cells, :=, function literals, loop variables): four-way comparison
	closStream(run)

	var statf *os.File
	if p := os.Getenv("VERIF_C01_STATS"); p != "" {
		statf, _ = os.Create(p)
		defer statf.Close()
	}
	n, batch := 400, 400
	if v := os.Getenv("VERIF_C01_N"); v != "" {
		fmt.Sscan(v, &n)
	}
	if run.Thorough() {
		n = 16000
	}
	shrunk := 0
	for done := 0; done < n; done += batch {
		var cases []progCase
		for i := 0; i < batch; i++ {
			size := 6 + run.Rng.Intn(30)
			src, feat := genProgram(rand.New(rand.NewSource(run.Rng.Int63())), size, disabledFeatures())
			cases = append(cases, progCase{Src: src, Feat: feat})
		}
		srcs := make([]string, len(cases))
		for i, c := range cases {
			srcs[i] = c.Src
		}
		ys, gs, err := runAll(srcs)
		if err != nil {
			run.Errorf("oracle: %v", err)
			return
		}
		for i, c := range cases {
			if strings.HasPrefix(gs[i].End, "reject:") {
				// the generator must only produce valid programs
				run.Errorf("generator produced a program the toolchain rejects: %s\n%s", gs[i].End, c.Src)
				continue
			}
			if gs[i].End == "timeout" {
				run.Hit("ref:timeout")
				continue
			}
			loops := c.Feat["for3"] + c.Feat["for-cond"] + c.Feat["range-int"] + c.Feat["range-slice"] + c.Feat["range-array"] + c.Feat["range-string"]
			calls := c.Feat["call"] + c.Feat["switch-tag"] + c.Feat["switch-tagless"] + c.Feat["closure-call"] + c.Feat["method-call"]
			run.Count(c.Src, loops > 0 && calls > 0)
			for f := range c.Feat {
				run.Hit("construct:" + f)
			}
			run.Hit("end:" + gs[i].End)
			if len(run.Res.Samples) < 3 {
				run.Sample(map[string]interface{}{"src": c.Src, "impl": ys[i], "ref": gs[i]}, 3)
			}
			if statf != nil {
				fs := []string{}
				for f := range c.Feat {
					fs = append(fs, f)
				}
				fmt.Fprintf(statf, "%v %s\n", !same(ys[i], gs[i]), strings.Join(fs, ","))
			}
			if !same(ys[i], gs[i]) {
				in := c
				if shrunk < 2 && os.Getenv("VERIF_NOSHRINK") == "" && c.Feat["switch-tag-case-list-call"] == 0 {
					shrunk++
					in = progCase{Src: shrink(c.Src)}
				}
				d := common.Disagreement{Kind: "impl-vs-ref", Input: in, Impl: ys[i].String(), Ref: gs[i].String()}
				if c.Feat["switch-tag-case-list-call"] > 0 && ys[i].End == gs[i].End &&
					siTagLine.ReplaceAllString(ys[i].Stdout, "") == siTagLine.ReplaceAllString(gs[i].Stdout, "") {
					// (kept to divergences that consist of extra `si` tag lines only: anything else in such a program is reported)
					// divergence class of F54 (decidable on the input): a tagged switch clause lists several expressions with calls
					d.Finding = "tagged-switch-case-list-call"
				}
				run.Disagree(d)
			}
		}
	}
	if os.Getenv("VERIF_DEBUG_MEM") != "" {
		var m runtime.MemStats
		runtime.GC()
		runtime.ReadMemStats(&m)
		fmt.Fprintln(os.Stderr, "heap MB:", m.HeapAlloc>>20, "sys MB:", m.Sys>>20, "goroutines:", runtime.NumGoroutine(), "timeouts:", atomic.LoadInt64(&timeouts))
	}
	// construct coverage summary
	var cs []string
	for k := range run.Res.Distribution {
		if strings.HasPrefix(k, "construct:") {
			cs = append(cs, k)
		}
	}
	sort.Strings(cs)
	run.Res.Extra = map[string]interface{}{"constructs_exercised": len(cs)}
}

// triage (development aid): generate programs, shrink every diverging one in parallel and write the
// minimal programs with both outcomes to a directory.
func triage(run *common.Run, dir string) {
	os.MkdirAll(dir, 0o755)
	var srcs []string
	nprog := 300
	if v := os.Getenv("VERIF_C01_N"); v != "" {
		fmt.Sscan(v, &nprog)
	}
	for i := 0; i < nprog; i++ {
		size := 6 + run.Rng.Intn(30)
		src, _ := genProgram(rand.New(rand.NewSource(run.Rng.Int63())), size, disabledFeatures())
		srcs = append(srcs, src)
	}
	ys, gs, err := runAll(srcs)
	if err != nil {
		run.Errorf("%v", err)
		return
	}
	var wg sync.WaitGroup
	sem := make(chan struct{}, 6)
	n := 0
	for i := range srcs {
		if same(ys[i], gs[i]) || strings.HasPrefix(gs[i].End, "reject:") {
			continue
		}
		n++
		if n > 60 {
			break
		}
		wg.Add(1)
		sem <- struct{}{}
		go func(i, n int) {
			defer wg.Done()
			defer func() { <-sem }()
			m := shrink(srcs[i])
			y, g, _ := runAll([]string{m})
			body := m
			if k := strings.Index(m, "func fact("); k >= 0 {
				body = m[k:]
			}
			os.WriteFile(fmt.Sprintf("%s/t%03d.txt", dir, n), []byte(body+"\n--- IMPL "+y[0].String()+"\n--- REF  "+g[0].String()+"\n"), 0o644)
		}(i, n)
	}
	wg.Wait()
}
