package main

// Closure-fragment stream: programs of Spec/GoClosure.lean (variables as cells, `:=`, function literals,
// per-iteration loop variables) are generated type-directedly as trees, rendered both as Go source and as
// protocol terms, and compared four ways:
//   yaegi = Lean frame-mechanism model (c=) = Lean Go scoping semantics (s=) = compiled Go.
//
// Types: int and func(int…) int with 0, 1 or 2 parameters. A name has one type for the whole program
// (the pool it comes from); shadowing re-declares a visible name in an inner block.
// Termination by construction: loop counters come from a pool whose names are only ever incremented, every
// loop tests `counter < small literal`; a closure stored under a function name of rank r only calls names
// of rank < r, except the self-recursive template, which recurses on a decreasing, clamped argument.

import (
	"fmt"
	"math/rand"
	"os"
	"regexp"
	"sort"
	"strings"

	"verif/harness/common"
)

type kExpr struct {
	k    string // lit var bin neg cpl
	n    int64  // lit value / name id
	op   string
	a, b *kExpr
}

type kCond struct {
	k    string // cmp not land lor
	op   string
	x, y *kExpr
	a, b *kCond
}

type kStmt struct {
	k     string // skip seq set setfn setcall iife block ite while forc rng print ret brk cont
	d     bool
	x     int
	e     *kExpr
	ps    []int
	body  *kStmt
	f     int
	args  []*kExpr
	c     *kCond
	a, b  *kStmt
	py    int
	pe    *kExpr
	recur bool // setfn: the self-recursive template (bucket only)
}

// name pools: id → rendered name and type
const (
	nInt   = 6 // ids 0..5: general ints a0..a5
	nLoop  = 3 // ids 6..8: loop counters i0..i2 (only ever incremented)
	nFnPer = 3 // function names per arity, rank = index within the arity class
)

func isIntName(id int) bool  { return id < nInt+nLoop }
func isLoopName(id int) bool { return id >= nInt && id < nInt+nLoop }
func fnArity(id int) int     { return (id - nInt - nLoop) / nFnPer }
func fnRank(id int) int      { return (id-nInt-nLoop)%nFnPer + 1 }
func fnName(ar, j int) int   { return nInt + nLoop + ar*nFnPer + j }
func nameOf(id int) string {
	switch {
	case id < nInt:
		return fmt.Sprintf("a%d", id)
	case id < nInt+nLoop:
		return fmt.Sprintf("i%d", id-nInt)
	}
	return fmt.Sprintf("f%d_%d", fnArity(id), (id-nInt-nLoop)%nFnPer)
}

func (e *kExpr) goSrc() string {
	switch e.k {
	case "lit":
		if e.n < 0 {
			return fmt.Sprintf("(%d)", e.n)
		}
		return fmt.Sprint(e.n)
	case "var":
		return nameOf(int(e.n))
	case "neg", "cpl":
		op := map[string]string{"neg": "-", "cpl": "^"}[e.k]
		return op + "(" + e.a.goSrc() + ")"
	}
	return "(" + e.a.goSrc() + " " + binGo[e.op] + " " + e.b.goSrc() + ")"
}

func (e *kExpr) top() string {
	if e.k == "bin" {
		return e.a.goSrc() + " " + binGo[e.op] + " " + e.b.goSrc()
	}
	return e.goSrc()
}

func (e *kExpr) sexp() string {
	switch e.k {
	case "lit":
		return fmt.Sprintf("(lit %d)", e.n)
	case "var":
		return fmt.Sprintf("(var %d)", e.n)
	case "neg", "cpl":
		return "(" + e.k + " " + e.a.sexp() + ")"
	}
	return "(bin " + e.op + " " + e.a.sexp() + " " + e.b.sexp() + ")"
}

func (e *kExpr) vars(m map[int]bool) {
	switch e.k {
	case "var":
		m[int(e.n)] = true
	case "neg", "cpl":
		e.a.vars(m)
	case "bin":
		e.a.vars(m)
		e.b.vars(m)
	}
}

func (c *kCond) goSrc() string {
	switch c.k {
	case "cmp":
		return "(" + c.x.goSrc() + " " + cmpGo[c.op] + " " + c.y.goSrc() + ")"
	case "not":
		return "!" + c.a.goSrc()
	case "land":
		return "(" + c.a.goSrc() + " && " + c.b.goSrc() + ")"
	}
	return "(" + c.a.goSrc() + " || " + c.b.goSrc() + ")"
}

func (c *kCond) sexp() string {
	switch c.k {
	case "cmp":
		return "(cmp " + c.op + " " + c.x.sexp() + " " + c.y.sexp() + ")"
	case "not":
		return "(not " + c.a.sexp() + ")"
	}
	return "(" + c.k + " " + c.a.sexp() + " " + c.b.sexp() + ")"
}

func (c *kCond) vars(m map[int]bool) {
	switch c.k {
	case "cmp":
		c.x.vars(m)
		c.y.vars(m)
	case "not":
		c.a.vars(m)
	default:
		c.a.vars(m)
		c.b.vars(m)
	}
}

func flag(d bool) string {
	if d {
		return "1"
	}
	return "0"
}

func (s *kStmt) sexp() string {
	switch s.k {
	case "skip", "brk", "cont":
		return s.k
	case "seq":
		return "(seq " + s.a.sexp() + " " + s.b.sexp() + ")"
	case "set":
		return fmt.Sprintf("(set %s %d %s)", flag(s.d), s.x, s.e.sexp())
	case "setfn":
		var ps []string
		for _, p := range s.ps {
			ps = append(ps, fmt.Sprint(p))
		}
		return fmt.Sprintf("(setfn %s %d (%s) %s %s)", flag(s.d), s.x, strings.Join(ps, " "), s.body.sexp(), s.e.sexp())
	case "iife":
		// `x := func(ps) int { body; return res }(args)`: literal evaluation + call, through a name of its own
		var ps []string
		for _, p := range s.ps {
			ps = append(ps, fmt.Sprint(p))
		}
		parts := []string{"setcall", flag(s.d), fmt.Sprint(s.x), fmt.Sprint(s.f)}
		for _, a := range s.args {
			parts = append(parts, a.sexp())
		}
		return fmt.Sprintf("(seq (setfn 1 %d (%s) %s %s) (%s))", s.f, strings.Join(ps, " "), s.body.sexp(), s.e.sexp(), strings.Join(parts, " "))
	case "setcall":
		parts := []string{"setcall", flag(s.d), fmt.Sprint(s.x), fmt.Sprint(s.f)}
		for _, a := range s.args {
			parts = append(parts, a.sexp())
		}
		return "(" + strings.Join(parts, " ") + ")"
	case "block":
		return "(block " + s.a.sexp() + ")"
	case "ite":
		return "(ite " + s.c.sexp() + " " + s.a.sexp() + " " + s.b.sexp() + ")"
	case "while":
		return "(while " + s.c.sexp() + " " + s.a.sexp() + ")"
	case "forc":
		return fmt.Sprintf("(forc %d %s %s %d %s %s)", s.x, s.e.sexp(), s.c.sexp(), s.py, s.pe.sexp(), s.a.sexp())
	case "rng":
		return fmt.Sprintf("(rng %d %s %s)", s.x, s.e.sexp(), s.a.sexp())
	case "print":
		return "(print " + s.e.sexp() + ")"
	case "ret":
		return "(ret " + s.e.sexp() + ")"
	}
	panic("kStmt.sexp: " + s.k)
}

func (s *kStmt) render(b *strings.Builder, ind int) {
	tab := strings.Repeat("\t", ind)
	asg := func(d bool) string {
		if d {
			return ":="
		}
		return "="
	}
	use := func(d bool, x int) {
		// "declared and not used" is a compile error: ints are read into the blank identifier, function
		// values by a self-assignment (one scope then never assigns values of two types to `_`)
		if d && isIntName(x) {
			fmt.Fprintf(b, "%s_ = %s\n", tab, nameOf(x))
		} else if d {
			fmt.Fprintf(b, "%s%s = %s\n", tab, nameOf(x), nameOf(x))
		}
	}
	switch s.k {
	case "skip":
	case "seq":
		s.a.render(b, ind)
		s.b.render(b, ind)
	case "set":
		fmt.Fprintf(b, "%s%s %s %s\n", tab, nameOf(s.x), asg(s.d), s.e.top())
		use(s.d, s.x)
	case "setfn":
		var ps []string
		for _, p := range s.ps {
			ps = append(ps, nameOf(p))
		}
		sig := "func() int"
		if len(ps) > 0 {
			sig = "func(" + strings.Join(ps, ", ") + " int) int"
		}
		fmt.Fprintf(b, "%s%s %s %s {\n", tab, nameOf(s.x), asg(s.d), sig)
		s.body.render(b, ind+1)
		fmt.Fprintf(b, "%s\treturn %s\n%s}\n", tab, s.e.top(), tab)
		use(s.d, s.x)
	case "iife":
		var ps, as []string
		for _, p := range s.ps {
			ps = append(ps, nameOf(p))
		}
		for _, a := range s.args {
			as = append(as, a.top())
		}
		sig := "func() int"
		if len(ps) > 0 {
			sig = "func(" + strings.Join(ps, ", ") + " int) int"
		}
		fmt.Fprintf(b, "%s%s %s %s {\n", tab, nameOf(s.x), asg(s.d), sig)
		s.body.render(b, ind+1)
		fmt.Fprintf(b, "%s\treturn %s\n%s}(%s)\n", tab, s.e.top(), tab, strings.Join(as, ", "))
		use(s.d, s.x)
	case "setcall":
		var as []string
		for _, a := range s.args {
			as = append(as, a.top())
		}
		fmt.Fprintf(b, "%s%s %s %s(%s)\n", tab, nameOf(s.x), asg(s.d), nameOf(s.f), strings.Join(as, ", "))
		use(s.d, s.x)
	case "block":
		fmt.Fprintf(b, "%s{\n", tab)
		s.a.render(b, ind+1)
		fmt.Fprintf(b, "%s}\n", tab)
	case "ite":
		fmt.Fprintf(b, "%sif %s {\n", tab, s.c.goSrc())
		s.a.render(b, ind+1)
		if s.b.k == "skip" {
			fmt.Fprintf(b, "%s}\n", tab)
		} else {
			fmt.Fprintf(b, "%s} else {\n", tab)
			s.b.render(b, ind+1)
			fmt.Fprintf(b, "%s}\n", tab)
		}
	case "while":
		fmt.Fprintf(b, "%sfor %s {\n", tab, s.c.goSrc())
		s.a.render(b, ind+1)
		fmt.Fprintf(b, "%s}\n", tab)
	case "forc":
		fmt.Fprintf(b, "%sfor %s := %s; %s; %s = %s {\n", tab, nameOf(s.x), s.e.top(), s.c.goSrc(), nameOf(s.py), s.pe.top())
		s.a.render(b, ind+1)
		fmt.Fprintf(b, "%s}\n", tab)
	case "rng":
		fmt.Fprintf(b, "%sfor %s := range %s {\n", tab, nameOf(s.x), s.e.top())
		fmt.Fprintf(b, "%s\t_ = %s\n", tab, nameOf(s.x))
		s.a.render(b, ind+1)
		fmt.Fprintf(b, "%s}\n", tab)
	case "print":
		fmt.Fprintf(b, "%sfmt.Println(%s)\n", tab, s.e.top())
	case "ret":
		fmt.Fprintf(b, "%sreturn %s\n", tab, s.e.top())
	case "brk":
		fmt.Fprintf(b, "%sbreak\n", tab)
	case "cont":
		fmt.Fprintf(b, "%scontinue\n", tab)
	}
}

func kseq(ss []*kStmt) *kStmt {
	if len(ss) == 0 {
		return &kStmt{k: "skip"}
	}
	if len(ss) == 1 {
		return ss[0]
	}
	return &kStmt{k: "seq", a: ss[0], b: kseq(ss[1:])}
}

// ---- generator ----

type kScope struct {
	here map[int]bool // declared in this block
}

type kGen struct {
	r       *rand.Rand
	scopes  []*kScope // innermost last; function boundaries are not barriers (closures capture)
	fnBase  []int     // index into scopes where each enclosing function literal starts
	maxRank int       // function names usable here have rank < maxRank
	inLoop  int       // loops between here and the enclosing function boundary
	inFunc  int
	budget  int
	feat    map[string]bool
	// captured[id] > 0: a function literal created so far (in generation order) mentions name id from outside
	captured map[int]bool
	loopVars []int // loop variables of the enclosing 3-clause loops of this function (innermost last)
	// protected[id]: the name is the bound of an enclosing `for … := range id`; it is only assigned small values
	protected map[int]bool
}

func (g *kGen) visible(pred func(int) bool) []int {
	seen := map[int]bool{}
	var out []int
	for _, sc := range g.scopes {
		for id := range sc.here {
			if !seen[id] && pred(id) {
				seen[id] = true
				out = append(out, id)
			}
		}
	}
	sort.Ints(out)
	return out
}

func (g *kGen) isVisible(id int) bool {
	for _, sc := range g.scopes {
		if sc.here[id] {
			return true
		}
	}
	return false
}

func (g *kGen) push()         { g.scopes = append(g.scopes, &kScope{here: map[int]bool{}}) }
func (g *kGen) pop()          { g.scopes = g.scopes[:len(g.scopes)-1] }
func (g *kGen) declare(x int) { g.scopes[len(g.scopes)-1].here[x] = true }
func (g *kGen) here(x int) bool {
	return g.scopes[len(g.scopes)-1].here[x]
}

func pickInt(r *rand.Rand, xs []int) int { return xs[r.Intn(len(xs))] }

func (g *kGen) lit() *kExpr { return &kExpr{k: "lit", n: int64(g.r.Intn(9) - 2)} }

func (g *kGen) intVar() *kExpr {
	vs := g.visible(isIntName)
	if len(vs) == 0 {
		return g.lit()
	}
	return &kExpr{k: "var", n: int64(pickInt(g.r, vs))}
}

func (g *kGen) expr(depth int) *kExpr {
	if depth <= 0 || g.r.Intn(3) == 0 {
		if g.r.Intn(3) == 0 {
			return g.lit()
		}
		return g.intVar()
	}
	switch k := g.r.Intn(12); {
	case k == 0:
		return &kExpr{k: "neg", a: g.expr(depth - 1)}
	case k == 1:
		return &kExpr{k: "cpl", a: g.expr(depth - 1)}
	case k == 2:
		// a division whose divisor is a variable expression (a constant zero divisor does not compile)
		d := g.intVar()
		if d.k != "var" {
			return g.lit()
		}
		op := []string{"quo", "rem"}[g.r.Intn(2)]
		if g.r.Intn(4) != 0 {
			// mostly non-zero: v | 1
			return &kExpr{k: "bin", op: op, a: g.expr(depth - 1), b: &kExpr{k: "bin", op: "or", a: d, b: &kExpr{k: "lit", n: 1}}}
		}
		return &kExpr{k: "bin", op: op, a: g.expr(depth - 1), b: d}
	default:
		op := []string{"add", "sub", "mul", "and", "or", "xor", "add", "sub"}[g.r.Intn(8)]
		a, b := g.expr(depth-1), g.expr(depth-1)
		if a.k == "lit" && b.k == "lit" {
			b = g.intVar() // keep constant folding (and constant overflow) out of the picture
		}
		return &kExpr{k: "bin", op: op, a: a, b: b}
	}
}

func (g *kGen) cond(depth int) *kCond {
	if depth <= 0 || g.r.Intn(3) != 0 {
		op := []string{"eq", "ne", "lt", "le", "gt", "ge"}[g.r.Intn(6)]
		x := g.expr(1)
		if x.k == "lit" {
			x = g.intVar()
		}
		return &kCond{k: "cmp", op: op, x: x, y: g.expr(1)}
	}
	switch g.r.Intn(3) {
	case 0:
		return &kCond{k: "not", a: g.cond(depth - 1)}
	case 1:
		return &kCond{k: "land", a: g.cond(depth - 1), b: g.cond(depth - 1)}
	}
	return &kCond{k: "lor", a: g.cond(depth - 1), b: g.cond(depth - 1)}
}

// a name of the pool [lo, hi) to declare here: not yet declared in this block; prefers shadowing sometimes
func (g *kGen) declName(pred func(int) bool, all []int) (int, bool) {
	var free, shadow []int
	for _, id := range all {
		if !pred(id) || g.here(id) {
			continue
		}
		if g.isVisible(id) {
			shadow = append(shadow, id)
		} else {
			free = append(free, id)
		}
	}
	if len(shadow) > 0 && (len(free) == 0 || g.r.Intn(3) == 0) {
		if len(g.scopes) > 1 {
			g.feat["clos:shadowing-in-a-block"] = true
		}
		return pickInt(g.r, shadow), true
	}
	if len(free) > 0 {
		return pickInt(g.r, free), true
	}
	return 0, false
}

func allIds(lo, hi int) []int {
	var out []int
	for i := lo; i < hi; i++ {
		out = append(out, i)
	}
	return out
}

var generalInts = allIds(0, nInt)
var loopInts = allIds(nInt, nInt+nLoop)

func fnIds(ar int) []int { return allIds(fnName(ar, 0), fnName(ar, nFnPer)) }

func (g *kGen) fnVisible(ar int) []int {
	return g.visible(func(id int) bool { return !isIntName(id) && fnArity(id) == ar && fnRank(id) < g.maxRank })
}

// funcLit generates `x (:=|=) func(ps) int { body; return res }` for the function name x.
func (g *kGen) funcLit(d bool, x int, depth int) *kStmt {
	ar := fnArity(x)
	var ps []int
	for len(ps) < ar {
		p := pickInt(g.r, generalInts)
		dup := false
		for _, q := range ps {
			dup = dup || q == p
		}
		if !dup {
			ps = append(ps, p)
		}
	}
	// the body is a new function: own scope, loops and returns of its own
	saveRank, saveLoop, saveLV := g.maxRank, g.inLoop, g.loopVars
	g.maxRank, g.inLoop, g.loopVars = fnRank(x), 0, nil
	g.inFunc++
	g.push()
	for _, p := range ps {
		g.declare(p)
	}
	outerDepth := len(g.scopes) - 1
	var ss []*kStmt
	n := 1 + g.r.Intn(3)
	for i := 0; i < n && g.budget > 0; i++ {
		ss = append(ss, g.stmt(depth+1))
	}
	if g.r.Intn(5) == 0 {
		ss = append(ss, &kStmt{k: "ite", c: g.cond(1), a: &kStmt{k: "ret", e: g.expr(1)}, b: &kStmt{k: "skip"}})
	}
	body := kseq(ss)
	res := g.expr(2)
	g.pop()
	g.inFunc--
	g.maxRank, g.inLoop, g.loopVars = saveRank, saveLoop, saveLV
	st := &kStmt{k: "setfn", d: d, x: x, ps: ps, body: body, e: res}
	g.noteCaptures(st, outerDepth)
	if g.inLoop > 0 {
		g.feat["clos:closure-in-loop"] = true
	}
	if g.inFunc > 0 {
		g.feat["clos:nested-closure"] = true
	}
	return st
}

// noteCaptures records which outer names the literal mentions (free names of the literal).
func (g *kGen) noteCaptures(lit *kStmt, _ int) {
	free := map[int]bool{}
	bound := map[int]bool{}
	for _, p := range lit.ps {
		bound[p] = true
	}
	freeNames(lit.body, bound, free)
	m := map[int]bool{}
	lit.e.vars(m)
	for id := range m {
		// names declared at the top level of the body are visible to the result expression
		if !bound[id] && !declaredTop(lit.body, id) {
			free[id] = true
		}
	}
	for id := range free {
		g.captured[id] = true
		for _, lv := range g.loopVars {
			if lv == id {
				g.feat["clos:captures-loop-variable"] = true
			}
		}
	}
}

func declaredTop(s *kStmt, id int) bool {
	switch s.k {
	case "seq":
		return declaredTop(s.a, id) || declaredTop(s.b, id)
	case "set", "setfn", "setcall", "iife":
		return s.d && s.x == id
	}
	return false
}

// freeNames: names used in s that are not bound by a declaration in scope (approximation by blocks:
// `bound` is copied at every block).
func freeNames(s *kStmt, bound map[int]bool, free map[int]bool) {
	use := func(id int) {
		if !bound[id] {
			free[id] = true
		}
	}
	useE := func(e *kExpr) {
		m := map[int]bool{}
		e.vars(m)
		for id := range m {
			use(id)
		}
	}
	useC := func(c *kCond) {
		m := map[int]bool{}
		c.vars(m)
		for id := range m {
			use(id)
		}
	}
	inner := func(t *kStmt, extra ...int) {
		b2 := map[int]bool{}
		for k := range bound {
			b2[k] = true
		}
		for _, x := range extra {
			b2[x] = true
		}
		freeNames(t, b2, free)
	}
	switch s.k {
	case "seq":
		freeNames(s.a, bound, free)
		freeNames(s.b, bound, free)
	case "set":
		useE(s.e)
		if s.d {
			bound[s.x] = true
		} else {
			use(s.x)
		}
	case "setfn":
		b2 := map[int]bool{}
		for k := range bound {
			b2[k] = true
		}
		for _, p := range s.ps {
			b2[p] = true
		}
		freeNames(s.body, b2, free)
		m := map[int]bool{}
		s.e.vars(m)
		for id := range m {
			if !b2[id] {
				free[id] = true
			}
		}
		if s.d {
			bound[s.x] = true
		} else {
			use(s.x)
		}
	case "iife":
		b2 := map[int]bool{}
		for k := range bound {
			b2[k] = true
		}
		for _, p := range s.ps {
			b2[p] = true
		}
		freeNames(s.body, b2, free)
		m := map[int]bool{}
		s.e.vars(m)
		for id := range m {
			if !b2[id] && !declaredTop(s.body, id) {
				free[id] = true
			}
		}
		for _, a := range s.args {
			useE(a)
		}
		if s.d {
			bound[s.x] = true
		} else {
			use(s.x)
		}
	case "setcall":
		for _, a := range s.args {
			useE(a)
		}
		use(s.f)
		if s.d {
			bound[s.x] = true
		} else {
			use(s.x)
		}
	case "block":
		inner(s.a)
	case "ite":
		useC(s.c)
		inner(s.a)
		inner(s.b)
	case "while":
		useC(s.c)
		inner(s.a)
	case "forc":
		useE(s.e)
		b2 := map[int]bool{}
		for k := range bound {
			b2[k] = true
		}
		b2[s.x] = true
		m := map[int]bool{}
		s.c.vars(m)
		s.pe.vars(m)
		m[s.py] = true
		for id := range m {
			if !b2[id] {
				free[id] = true
			}
		}
		freeNames(s.a, b2, free)
	case "rng":
		useE(s.e)
		inner(s.a, s.x)
	case "print", "ret":
		useE(s.e)
	}
}

// recursive template on the one-parameter name x:
//
//	x = func(n int) int { if n <= 0 || n > 5 { return base }; t := x(n - 1); return t op n }
func (g *kGen) recursive(x int) *kStmt {
	n, t := 0, 1 // a0, a1 as parameter and temporary
	base := g.lit()
	op := []string{"add", "mul", "sub", "xor"}[g.r.Intn(4)]
	body := kseq([]*kStmt{
		{k: "ite", c: &kCond{k: "lor", a: &kCond{k: "cmp", op: "le", x: &kExpr{k: "var", n: int64(n)}, y: &kExpr{k: "lit", n: 0}},
			b: &kCond{k: "cmp", op: "gt", x: &kExpr{k: "var", n: int64(n)}, y: &kExpr{k: "lit", n: 5}}},
			a: &kStmt{k: "ret", e: base}, b: &kStmt{k: "skip"}},
		{k: "setcall", d: true, x: t, f: x, args: []*kExpr{{k: "bin", op: "sub", a: &kExpr{k: "var", n: int64(n)}, b: &kExpr{k: "lit", n: 1}}}},
	})
	g.feat["clos:recursion-through-a-variable"] = true
	g.captured[x] = true
	return &kStmt{k: "setfn", d: false, x: x, ps: []int{n}, body: body,
		e: &kExpr{k: "bin", op: op, a: &kExpr{k: "var", n: int64(t)}, b: &kExpr{k: "var", n: int64(n)}}, recur: true}
}

// iife: `x (:=|=) func(ps) int { body; return res }(args)` — a function literal called where it is written. In the
// protocol term the literal goes through a name of its own (ids 200 + arity, never rendered, never otherwise used):
// literal evaluation, then a call. Inside a loop the body stores an inner literal over the loop variable into an
// outer function variable, which is called after the loop (the shape of seed C01-4).
func (g *kGen) iife(depth int) *kStmt {
	ar := g.r.Intn(3)
	// the body may call what the context may call: take the literal's rank from the highest usable name
	var fn, best = -1, 0
	for _, id := range fnIds(ar) {
		if fnRank(id) < g.maxRank && fnRank(id) > best {
			fn, best = id, fnRank(id)
		}
	}
	if fn < 0 {
		return nil
	}
	lit := g.funcLit(false, fn, depth)
	if len(g.loopVars) > 0 && best > 1 {
		// an inner literal over the enclosing loop variable escapes through an outer function variable
		lv := g.loopVars[len(g.loopVars)-1]
		save := g.maxRank
		g.maxRank = best
		outs := g.fnVisible(0)
		g.maxRank = save
		if len(outs) > 0 {
			out := pickInt(g.r, outs)
			inner := &kStmt{k: "setfn", x: out, body: &kStmt{k: "skip"},
				e: &kExpr{k: "bin", op: []string{"add", "mul", "sub"}[g.r.Intn(3)], a: &kExpr{k: "var", n: int64(lv)}, b: g.lit()}}
			shadowed := false
			for _, p := range lit.ps {
				shadowed = shadowed || p == lv || p == out
			}
			if !shadowed && !declaredTop(lit.body, lv) && !declaredTop(lit.body, out) {
				lit.body = &kStmt{k: "seq", a: lit.body, b: inner}
				g.captured[lv] = true
				g.feat["clos:iife-inner-closure-escapes"] = true
				g.feat["clos:captures-loop-variable"] = true
			}
		}
	}
	var args []*kExpr
	for i := 0; i < ar; i++ {
		args = append(args, g.expr(1))
	}
	st := &kStmt{k: "iife", f: 200 + ar, ps: lit.ps, body: lit.body, e: lit.e, args: args}
	g.feat["clos:literal-called-in-place"] = true
	if g.r.Intn(2) == 0 {
		if x, ok := g.declName(isIntName, generalInts); ok {
			g.declare(x)
			st.d, st.x = true, x
			return st
		}
	}
	vs := g.visible(func(id int) bool { return id < nInt && !g.protected[id] })
	if len(vs) == 0 {
		return nil
	}
	st.x = pickInt(g.r, vs)
	return st
}

// perIteration: closures of distinct iterations kept under distinct function names, each returning (an
// expression of) the loop variable x: `if x == lo+j { fj = func() int { …; return x … } }`
func (g *kGen) perIteration(x int, lo int64, depth int) []*kStmt {
	var ss []*kStmt
	for j, fn := range g.fnVisible(0) {
		if j >= 3 {
			break
		}
		lit := g.funcLit(false, fn, depth)
		if g.r.Intn(2) == 0 {
			lit.e = &kExpr{k: "bin", op: "add", a: &kExpr{k: "var", n: int64(x)}, b: lit.e}
			g.captured[x] = true
			g.feat["clos:captures-loop-variable"] = true
		}
		ss = append(ss, &kStmt{k: "ite", c: &kCond{k: "cmp", op: "eq", x: &kExpr{k: "var", n: int64(x)}, y: &kExpr{k: "lit", n: lo + int64(j)}}, a: lit, b: &kStmt{k: "skip"}})
	}
	return ss
}

func (g *kGen) incr(x int) *kStmt {
	return &kStmt{k: "set", x: x, e: &kExpr{k: "bin", op: "add", a: &kExpr{k: "var", n: int64(x)}, b: &kExpr{k: "lit", n: int64(1 + g.r.Intn(2))}}}
}

func (g *kGen) block(depth int) *kStmt {
	g.push()
	n := 1 + g.r.Intn(3)
	var ss []*kStmt
	for i := 0; i < n; i++ {
		ss = append(ss, g.stmt(depth))
	}
	g.pop()
	return kseq(ss)
}

func (g *kGen) stmt(depth int) *kStmt {
	g.budget--
	deep := depth >= 3
	for tries := 0; tries < 8; tries++ {
		switch k := g.r.Intn(24); {
		case k < 2: // x := e (int)
			if x, ok := g.declName(isIntName, generalInts); ok {
				e := g.expr(2)
				g.declare(x)
				if g.inLoop > 0 && g.captured[x] {
					g.feat["clos:redefine-after-capture"] = true
				}
				return &kStmt{k: "set", d: true, x: x, e: e}
			}
		case k < 5: // x = e (int), loop counters only incremented
			vs := g.visible(isIntName)
			if len(vs) == 0 {
				continue
			}
			x := pickInt(g.r, vs)
			if g.captured[x] {
				g.feat["clos:assign-after-capture"] = true
			}
			if isLoopName(x) {
				for _, lv := range g.loopVars {
					if lv == x {
						g.feat["clos:loopvar-assigned-in-body"] = true
					}
				}
				return g.incr(x)
			}
			if g.protected[x] {
				g.feat["clos:range-bound-assigned-in-loop"] = true
				return &kStmt{k: "set", x: x, e: &kExpr{k: "bin", op: "and", a: g.expr(1), b: &kExpr{k: "lit", n: 3}}}
			}
			return &kStmt{k: "set", x: x, e: g.expr(2)}
		case k < 8 && !deep: // function literal, := or =
			ar := g.r.Intn(3)
			if g.r.Intn(2) == 0 {
				if x, ok := g.declName(func(id int) bool { return fnRank(id) < g.maxRank }, fnIds(ar)); ok {
					st := g.funcLit(true, x, depth)
					g.declare(x)
					return st
				}
				continue
			}
			vs := g.fnVisible(ar)
			if len(vs) == 0 {
				continue
			}
			x := pickInt(g.r, vs)
			if ar == 1 && g.r.Intn(3) == 0 {
				return g.recursive(x)
			}
			return g.funcLit(false, x, depth)
		case k < 11: // call
			ar := g.r.Intn(3)
			fs := g.fnVisible(ar)
			if len(fs) == 0 {
				continue
			}
			f := pickInt(g.r, fs)
			var args []*kExpr
			for i := 0; i < ar; i++ {
				args = append(args, g.expr(1))
			}
			if g.r.Intn(2) == 0 {
				if x, ok := g.declName(isIntName, generalInts); ok {
					g.declare(x)
					if g.inLoop > 0 && g.captured[x] {
						g.feat["clos:redefine-after-capture"] = true
					}
					return &kStmt{k: "setcall", d: true, x: x, f: f, args: args}
				}
			}
			vs := g.visible(func(id int) bool { return id < nInt && !g.protected[id] })
			if len(vs) == 0 {
				continue
			}
			return &kStmt{k: "setcall", x: pickInt(g.r, vs), f: f, args: args}
		case k == 11: // function value copy g := f / g = f
			ar := g.r.Intn(3)
			fs := g.fnVisible(ar)
			if len(fs) == 0 {
				continue
			}
			f := pickInt(g.r, fs)
			if g.r.Intn(2) == 0 {
				if x, ok := g.declName(func(id int) bool { return fnRank(id) >= fnRank(f) && fnRank(id) < g.maxRank }, fnIds(ar)); ok {
					g.declare(x)
					g.feat["clos:function-value-copy"] = true
					return &kStmt{k: "set", d: true, x: x, e: &kExpr{k: "var", n: int64(f)}}
				}
			}
			var ts []int
			for _, t := range fs {
				if fnRank(t) >= fnRank(f) && t != f {
					ts = append(ts, t)
				}
			}
			if len(ts) == 0 {
				continue
			}
			g.feat["clos:function-value-copy"] = true
			return &kStmt{k: "set", x: pickInt(g.r, ts), e: &kExpr{k: "var", n: int64(f)}}
		case k == 12 && !deep:
			return &kStmt{k: "block", a: g.block(depth + 1)}
		case k == 13 && !deep:
			a := g.block(depth + 1)
			b := &kStmt{k: "skip"}
			if g.r.Intn(2) == 0 {
				b = g.block(depth + 1)
			}
			return &kStmt{k: "ite", c: g.cond(1), a: a, b: b}
		case k < 16 && !deep: // three-clause loop over a fresh loop counter
			var cands []int
			for _, id := range loopInts {
				if !g.isVisible(id) || g.r.Intn(4) == 0 {
					cands = append(cands, id)
				}
			}
			if len(cands) == 0 {
				continue
			}
			x := pickInt(g.r, cands)
			lo := int64(g.r.Intn(3))
			hi := lo + 1 + int64(g.r.Intn(3))
			g.push() // the scope of the for statement
			g.declare(x)
			c := &kCond{k: "cmp", op: "lt", x: &kExpr{k: "var", n: int64(x)}, y: &kExpr{k: "lit", n: hi}}
			if g.r.Intn(5) == 0 {
				c = &kCond{k: "land", a: c, b: g.cond(0)}
			}
			py, pe := x, g.incr(x).e
			var pre []*kStmt
			if vs := g.visible(func(id int) bool { return id < nInt }); len(vs) > 0 && g.r.Intn(4) == 0 {
				// the post statement works on another variable; the body increments the loop variable itself
				py = pickInt(g.r, vs)
				pe = &kExpr{k: "bin", op: "add", a: &kExpr{k: "var", n: int64(py)}, b: &kExpr{k: "var", n: int64(x)}}
				pre = append(pre, g.incr(x))
				g.feat["clos:loopvar-assigned-in-body"] = true
				g.feat["clos:post-on-other-variable"] = true
			}
			g.inLoop++
			g.loopVars = append(g.loopVars, x)
			g.push()
			n := 1 + g.r.Intn(3)
			ss := pre
			for i := 0; i < n; i++ {
				ss = append(ss, g.stmt(depth+1))
			}
			if g.r.Intn(2) == 0 {
				ss = append(ss, g.perIteration(x, lo, depth+1)...)
			}
			if g.r.Intn(3) == 0 {
				if st := g.iife(depth + 1); st != nil {
					ss = append(ss, st)
				}
			}
			g.pop()
			g.loopVars = g.loopVars[:len(g.loopVars)-1]
			g.inLoop--
			g.pop()
			return &kStmt{k: "forc", x: x, e: &kExpr{k: "lit", n: lo}, c: c, py: py, pe: pe, a: kseq(ss)}
		case k == 16 && !deep: // condition-only loop: { i := 0; for i < K { i = i + 1; body } }
			var cands []int
			for _, id := range loopInts {
				if !g.isVisible(id) {
					cands = append(cands, id)
				}
			}
			if len(cands) == 0 {
				continue
			}
			x := pickInt(g.r, cands)
			g.push()
			g.declare(x)
			hi := int64(1 + g.r.Intn(3))
			g.inLoop++
			g.push()
			ss := []*kStmt{{k: "set", x: x, e: &kExpr{k: "bin", op: "add", a: &kExpr{k: "var", n: int64(x)}, b: &kExpr{k: "lit", n: 1}}}}
			n := 1 + g.r.Intn(3)
			for i := 0; i < n; i++ {
				ss = append(ss, g.stmt(depth+1))
			}
			g.pop()
			g.inLoop--
			g.pop()
			g.feat["clos:cond-loop"] = true
			return &kStmt{k: "block", a: kseq([]*kStmt{
				{k: "set", d: true, x: x, e: &kExpr{k: "lit", n: 0}},
				{k: "while", c: &kCond{k: "cmp", op: "lt", x: &kExpr{k: "var", n: int64(x)}, y: &kExpr{k: "lit", n: hi}}, a: kseq(ss)}})}
		case (k == 18 || k == 19) && !deep: // for x := range bound
			var cands []int
			for _, id := range loopInts {
				if !g.isVisible(id) || g.r.Intn(4) == 0 {
					cands = append(cands, id)
				}
			}
			if len(cands) == 0 {
				continue
			}
			x := pickInt(g.r, cands)
			small := func() *kExpr { // a value in 0..3 that is not a bare variable
				switch g.r.Intn(3) {
				case 0:
					return &kExpr{k: "lit", n: int64(g.r.Intn(4))}
				case 1:
					return &kExpr{k: "bin", op: "and", a: g.intVar(), b: &kExpr{k: "lit", n: 3}}
				}
				return &kExpr{k: "bin", op: "add", a: &kExpr{k: "bin", op: "and", a: g.intVar(), b: &kExpr{k: "lit", n: 1}}, b: &kExpr{k: "lit", n: 1}}
			}
			body := func() *kStmt {
				g.push() // range scope + body scope: the per-iteration variable
				g.declare(x)
				g.inLoop++
				saveLV := g.loopVars
				g.loopVars = append(g.loopVars, x)
				n := 1 + g.r.Intn(3)
				var ss []*kStmt
				for i := 0; i < n; i++ {
					ss = append(ss, g.stmt(depth+1))
				}
				if g.r.Intn(2) == 0 {
					ss = append(ss, g.perIteration(x, 0, depth+1)...)
				}
				if g.r.Intn(3) == 0 {
					if st := g.iife(depth + 1); st != nil {
						ss = append(ss, st)
					}
				}
				g.loopVars = saveLV
				g.inLoop--
				g.pop()
				return kseq(ss)
			}
			g.feat["clos:range-int"] = true
			if g.r.Intn(10) < 7 {
				return &kStmt{k: "rng", x: x, e: small(), a: body()}
			}
			// the bound is a bare variable (the shape of F51, repaired by 716c992): declared just before
			// the loop, and only ever assigned small values inside it
			g.push()
			bnd, ok := g.declName(isIntName, generalInts)
			if !ok {
				g.pop()
				continue
			}
			init := small()
			g.declare(bnd)
			if g.protected == nil {
				g.protected = map[int]bool{}
			}
			was := g.protected[bnd]
			g.protected[bnd] = true
			bd := body()
			if g.r.Intn(2) == 0 {
				// the body assigns the bound (the shape of F51): the number of iterations must not change
				g.feat["clos:range-bound-assigned-in-loop"] = true
				asg := &kStmt{k: "set", x: bnd, e: &kExpr{k: "bin", op: "and", a: g.expr(1), b: &kExpr{k: "lit", n: 3}}}
				if g.r.Intn(2) == 0 {
					bd = &kStmt{k: "seq", a: asg, b: bd}
				} else {
					bd = &kStmt{k: "seq", a: bd, b: asg}
				}
			}
			g.protected[bnd] = was
			g.pop()
			g.feat["clos:range-bound-variable"] = true
			return &kStmt{k: "block", a: kseq([]*kStmt{
				{k: "set", d: true, x: bnd, e: init},
				{k: "rng", x: x, e: &kExpr{k: "var", n: int64(bnd)}, a: bd}})}
		case (k == 20 || k == 21) && !deep: // function literal called in place
			if st := g.iife(depth); st != nil {
				return st
			}
		case k == 17 && g.inLoop > 0:
			kw := []string{"brk", "cont"}[g.r.Intn(2)]
			g.feat["clos:break-or-continue"] = true
			return &kStmt{k: "ite", c: g.cond(1), a: &kStmt{k: kw}, b: &kStmt{k: "skip"}}
		default:
			return &kStmt{k: "print", e: g.expr(2)}
		}
	}
	return &kStmt{k: "print", e: g.expr(2)}
}

// level2: does some function literal nested in another one mention a name that is declared outside both?
func level2(s *kStmt, encl []map[int]bool, found *bool) {
	switch s.k {
	case "seq":
		level2(s.a, encl, found)
		level2(s.b, encl, found)
	case "block", "while", "forc", "rng":
		level2(s.a, encl, found)
	case "ite":
		level2(s.a, encl, found)
		level2(s.b, encl, found)
	case "setfn", "iife":
		free := map[int]bool{}
		bound := map[int]bool{}
		for _, p := range s.ps {
			bound[p] = true
		}
		freeNames(s.body, bound, free)
		m := map[int]bool{}
		s.e.vars(m)
		for id := range m {
			if !bound[id] && !declaredTop(s.body, id) {
				free[id] = true
			}
		}
		if len(encl) >= 1 {
			// free here and free in the enclosing literal as well: declared two function levels up
			for id := range free {
				if encl[len(encl)-1][id] {
					*found = true
				}
			}
		}
		level2(s.body, append(encl, free), found)
	}
}

// redeclTemplate: programs of the shape of F52 (repaired by 26ad67e): the body of a three-clause or range loop
// declares, at its top level, a variable with the loop variable's name (before the repair cfg.go turned that
// define into a nop, and an operator expression on the right crashed the compiler).
func redeclTemplate(r *rand.Rand) *kStmt {
	i, a := nInt+r.Intn(nLoop), 2
	iv := &kExpr{k: "var", n: int64(i)}
	lo := int64(r.Intn(2))
	hi := lo + 2 + int64(r.Intn(2))
	rhs := []*kExpr{{k: "lit", n: int64(5 + r.Intn(4))}, {k: "var", n: int64(a)}, iv,
		{k: "bin", op: "add", a: iv, b: &kExpr{k: "lit", n: 10}}, {k: "bin", op: "mul", a: iv, b: &kExpr{k: "var", n: int64(a)}}}[r.Intn(5)]
	body := []*kStmt{{k: "set", d: true, x: i, e: rhs}}
	if r.Intn(2) == 0 {
		body = append(body, &kStmt{k: "set", x: i, e: &kExpr{k: "bin", op: "add", a: iv, b: &kExpr{k: "lit", n: int64(1 + r.Intn(3))}}})
	}
	body = append(body, &kStmt{k: "print", e: iv})
	var loop *kStmt
	if r.Intn(3) == 0 {
		loop = &kStmt{k: "rng", x: i, e: &kExpr{k: "lit", n: hi}, a: kseq(body)}
	} else {
		loop = &kStmt{k: "forc", x: i, e: &kExpr{k: "lit", n: lo}, c: &kCond{k: "cmp", op: "lt", x: iv, y: &kExpr{k: "lit", n: hi}},
			py: i, pe: &kExpr{k: "bin", op: "add", a: iv, b: &kExpr{k: "lit", n: 1}}, a: kseq(body)}
	}
	return kseq([]*kStmt{{k: "set", d: true, x: a, e: &kExpr{k: "lit", n: int64(20 + r.Intn(5))}}, loop, {k: "print", e: &kExpr{k: "var", n: int64(a)}}})
}

// genClos returns Go source, the protocol term and the feature buckets of one program.
func genClos(r *rand.Rand) (string, string, map[string]bool) {
	if r.Intn(30) == 0 {
		p := redeclTemplate(r)
		var b strings.Builder
		b.WriteString("package main\n\nimport \"fmt\"\n\nfunc main() {\n")
		p.render(&b, 1)
		b.WriteString("}\n")
		return b.String(), p.sexp(), map[string]bool{"clos:loopvar-redeclared-in-body": true}
	}
	g := &kGen{r: r, maxRank: 1 << 30, budget: 8 + r.Intn(14), feat: map[string]bool{}, captured: map[int]bool{}}
	g.push()
	var ss []*kStmt
	// data and function variables to start with
	for i := 0; i < 2+r.Intn(2); i++ {
		ss = append(ss, &kStmt{k: "set", d: true, x: i + 2, e: g.lit()})
		g.declare(i + 2)
	}
	for ar := 0; ar < 3; ar++ {
		for j := 0; j < nFnPer; j++ {
			if r.Intn(3) != 0 {
				x := fnName(ar, j)
				st := g.funcLit(true, x, 1)
				g.declare(x)
				ss = append(ss, st)
			}
		}
	}
	if fs := g.fnVisible(1); len(fs) > 0 && r.Intn(3) == 0 {
		// recursion through a variable assigned after the literal was created, called at once
		f := pickInt(r, fs)
		ss = append(ss, g.recursive(f))
		ss = append(ss, &kStmt{k: "setcall", x: 2, f: f, args: []*kExpr{{k: "lit", n: int64(2 + r.Intn(3))}}})
		ss = append(ss, &kStmt{k: "print", e: &kExpr{k: "var", n: 2}})
	}
	for g.budget > 0 {
		ss = append(ss, g.stmt(0))
	}
	// observe the final state: every visible int, every visible function once
	for _, id := range g.visible(func(id int) bool { return id < nInt }) {
		ss = append(ss, &kStmt{k: "print", e: &kExpr{k: "var", n: int64(id)}})
	}
	{
		t := generalInts[r.Intn(len(generalInts))]
		first := !g.here(t)
		for ar := 0; ar < 3; ar++ {
			for _, f := range g.fnVisible(ar) {
				var args []*kExpr
				for i := 0; i < ar; i++ {
					args = append(args, &kExpr{k: "lit", n: int64(2 + i)})
				}
				ss = append(ss, &kStmt{k: "setcall", d: first, x: t, f: f, args: args})
				ss = append(ss, &kStmt{k: "print", e: &kExpr{k: "var", n: int64(t)}})
				first = false
			}
		}
	}
	p := kseq(ss)
	l2 := false
	level2(p, nil, &l2)
	if l2 {
		g.feat["clos:nested-closure-level-2"] = true
	}
	var b strings.Builder
	b.WriteString("package main\n\nimport \"fmt\"\n\nfunc main() {\n")
	p.render(&b, 1)
	b.WriteString("}\n")
	return b.String(), p.sexp(), g.feat
}

// closClass: the divergence class of a program of this fragment (a decidable predicate of the input);
// "" = none known. The two classes this stream found — range-int-bound-variable (F51) and
// loopvar-redeclared-in-body (F52) — are repaired (716c992, 26ad67e); their shapes stay in the stream, unlabelled.
func closClass(term string, feat map[string]bool) string {
	return ""
}

var rngVarBound = regexp.MustCompile(`\(rng \d+ \(var `)

// closStream runs the four-way comparison on programs of the closure fragment.
func closStream(run *common.Run) {
	drv, err := common.StartDriver("C01")
	if err != nil {
		run.Errorf("driver: %v", err)
		return
	}
	defer drv.Close()
	n, batch := 300, 300
	if run.Thorough() {
		n, batch = 6000, 600
	}
	if v := envInt("VERIF_C01_CLOS_N"); v > 0 {
		n = v
	}
	for done := 0; done < n; done += batch {
		var srcs, terms, lines []string
		var feats []map[string]bool
		for i := 0; i < batch && done+i < n; i++ {
			src, term, ft := genClos(rand.New(rand.NewSource(run.Rng.Int63())))
			feats = append(feats, ft)
			srcs = append(srcs, src)
			terms = append(terms, term)
			lines = append(lines, "C01 runc 3000 "+term)
		}
		answers, err := drv.AskAll(lines)
		if err != nil {
			run.Errorf("driver: %v", err)
			return
		}
		ys, gs, err := runAll(srcs)
		if err != nil {
			run.Errorf("oracle: %v", err)
			return
		}
		for i := range srcs {
			if strings.HasPrefix(gs[i].End, "reject:") {
				run.Errorf("closure generator produced a program the toolchain rejects: %s\n%s", gs[i].End, srcs[i])
				continue
			}
			ans := common.Fields(answers[i])
			if ans["c"] == "" || ans["s"] == "" {
				run.Errorf("driver answered %q on %s", answers[i], terms[i])
				continue
			}
			if ans["ws"] != "true" {
				run.Errorf("closure generator produced a program that is not well scoped: %s", terms[i])
				continue
			}
			if gs[i].End == "timeout" {
				run.Hit("clos:ref-timeout")
				continue
			}
			impl := ys[i].End + ":" + parseInts(ys[i].Stdout)
			ref := gs[i].End + ":" + parseInts(gs[i].Stdout)
			nontrivial := strings.Contains(terms[i], "(setfn ") && (strings.Contains(terms[i], "(forc ") || strings.Contains(terms[i], "(while ")) && strings.Contains(terms[i], "(setcall ")
			run.Count("clos:"+terms[i], nontrivial)
			run.Hit("clos:end:" + gs[i].End)
			run.Hit("clos:mech:" + ans["mech"])
			if rngVarBound.MatchString(terms[i]) != feats[i]["clos:range-bound-variable"] {
				run.Errorf("range-bound-variable bucket and term disagree on %s", terms[i])
			}
			for f := range feats[i] {
				run.Hit(f)
			}
			if len(run.Res.Samples) < 4 && i < 2 {
				run.Sample(map[string]interface{}{"src": srcs[i], "term": terms[i], "impl": impl, "model": ans["c"], "spec": ans["s"], "ref": ref}, 4)
			}
			in := map[string]interface{}{"src": srcs[i], "term": terms[i]}
			clip := func(s string) string {
				if len(s) > 400 {
					return s[:400] + "…"
				}
				return s
			}
			if impl != ans["c"] {
				run.Disagree(common.Disagreement{Kind: "impl-vs-model", Input: in, Impl: clip(impl), Model: clip(ans["c"]), Ref: clip(ref), Note: "closure fragment: frame-mechanism model (mech " + ans["mech"] + ")"})
			}
			if ref != ans["s"] {
				run.Disagree(common.Disagreement{Kind: "spec-vs-ref", Input: in, Spec: clip(ans["s"]), Ref: clip(ref), Note: "closure fragment"})
			}
			if impl != ref {
				d := common.Disagreement{Kind: "impl-vs-ref", Input: in, Impl: clip(impl), Ref: clip(ref), Note: "closure fragment"}
				if impl == ans["c"] {
					d.Finding = closClass(terms[i], feats[i])
				}
				run.Disagree(d)
			}
		}
	}
}

func envInt(name string) int {
	v := 0
	if s := strings.TrimSpace(os.Getenv(name)); s != "" {
		fmt.Sscan(s, &v)
	}
	return v
}
