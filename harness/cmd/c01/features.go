package main

import (
	"os"
	"strings"
)

// disabledFeatures: construct classes kept out of the default stream because the unchanged tree
// diverges from the toolchain on them (each has a listed finding with its own replay program),
// plus whatever VERIF_C01_DISABLE names (triage only).
func disabledFeatures() map[string]bool {
	d := map[string]bool{}
	for _, f := range gatedOff {
		d[f] = true
	}
	for _, f := range strings.Split(os.Getenv("VERIF_C01_DISABLE"), ",") {
		if f != "" {
			d[f] = true
		}
	}
	for _, f := range strings.Split(os.Getenv("VERIF_C01_ENABLE"), ",") {
		delete(d, f)
	}
	return d
}

// since the repairs ff01288 (F41) and 126ac4d (F43) no class is gated out
var gatedOff = []string{}
