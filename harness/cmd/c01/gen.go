package main

// Seeded, type-directed generator of complete Go programs over the core language of C01.
// Every program is deterministic, terminating (all loops are bounded by construction), carries
// its own data and prints as it goes with fmt.Println. Shapes that are listed findings
// (F25) are never produced; they are replayed from KNOWN_FINDINGS.json instead.

import (
	"fmt"
	"math/rand"
	"regexp"
	"strings"
)

type typ string

const (
	tInt    typ = "int"
	tBool   typ = "bool"
	tStr    typ = "string"
	tFloat  typ = "float64"
	tSlice  typ = "[]int"
	tMap    typ = "map[string]int"
	tP      typ = "P"
	tPtrP   typ = "*P"
	tArr    typ = "[3]int"
	tFn     typ = "func(int) int"
	tInt8   typ = "int8"
	tUint16 typ = "uint16"
)

var valueTypes = []typ{tInt, tInt, tInt, tBool, tStr, tFloat, tSlice, tMap, tP, tPtrP, tArr, tInt8, tUint16}

type variable struct {
	name     string
	t        typ
	readonly bool // loop counters and loop variables of 3-clause for statements
}

type funcSig struct {
	name    string
	params  []variable
	results []typ
}

type gen struct {
	r        *rand.Rand
	b        strings.Builder
	ind      int
	scopes   [][]variable
	funcs    []funcSig
	feat     map[string]int
	id       int
	loops    []string // enclosing loop labels ("" = unlabeled)
	usedLbl  map[string]bool
	budget   int // remaining statements
	inFunc   *funcSig
	noDefine bool // inside a goto span: no declarations at this level
	depth    int
	disabled map[string]bool
	inSwitch int // depth of enclosing switch clauses
}

// off reports whether a construct class is switched off (harness/cmd/c01/features.go).
func (g *gen) off(name string) bool { return g.disabled[name] }

func (g *gen) f(name string) { g.feat[name]++ }

// pickType: a value type whose class is not switched off ("type-<name>").
func (g *gen) pickType() typ {
	for tries := 0; tries < 20; tries++ {
		t := valueTypes[g.r.Intn(len(valueTypes))]
		if !g.off("type-" + string(t)) {
			return t
		}
	}
	return tInt
}

func (g *gen) line(format string, a ...interface{}) {
	g.b.WriteString(strings.Repeat("\t", g.ind))
	fmt.Fprintf(&g.b, format, a...)
	g.b.WriteByte('\n')
}

func (g *gen) fresh(prefix string) string {
	g.id++
	return fmt.Sprintf("%s%d", prefix, g.id)
}

func (g *gen) push() { g.scopes = append(g.scopes, nil) }
func (g *gen) pop()  { g.scopes = g.scopes[:len(g.scopes)-1] }
func (g *gen) declare(v variable) {
	g.scopes[len(g.scopes)-1] = append(g.scopes[len(g.scopes)-1], v)
}

func (g *gen) vars(t typ, writable bool) []variable {
	var out []variable
	seen := map[string]bool{}
	for i := len(g.scopes) - 1; i >= 0; i-- {
		s := g.scopes[i]
		for j := len(s) - 1; j >= 0; j-- {
			v := s[j]
			if seen[v.name] {
				continue
			}
			seen[v.name] = true
			if v.t == t && (!writable || !v.readonly) {
				out = append(out, v)
			}
		}
	}
	return out
}

// refMutOK: may this statement write through a slice, map or pointer? Not inside a declared function that has a
// parameter of such a type: the function is called inside expressions, and Go does not specify whether an operand
// like `q.X` is read before or after a call `f(q)` in the same expression that changes *q (the toolchain reads it
// after, yaegi before: `q.Sum() + q.X + f1(q, q)` was a one-in-16 000 spurious divergence).
func (g *gen) refMutOK() bool {
	if g.inFunc == nil {
		return true
	}
	for _, p := range g.inFunc.params {
		if p.t == tSlice || p.t == tMap || p.t == tPtrP {
			return false
		}
	}
	return true
}

func (g *gen) pickVar(t typ, writable bool) (variable, bool) {
	vs := g.vars(t, writable)
	if len(vs) == 0 {
		return variable{}, false
	}
	return vs[g.r.Intn(len(vs))], true
}

// ---------- expressions ----------

func (g *gen) lit(t typ) string {
	switch t {
	case tInt:
		switch g.r.Intn(8) {
		case 0:
			return fmt.Sprint(g.r.Intn(199) - 99)
		case 1:
			// large values are made non-constant so that constant folding cannot overflow at compile time
			return "id(" + []string{"9223372036854775807", "-9223372036854775808", "4294967296", "255", "-1", "1000003"}[g.r.Intn(6)] + ")"
		default:
			return fmt.Sprint(g.r.Intn(10))
		}
	case tInt8:
		return fmt.Sprintf("toI8(%d)", g.r.Intn(256)-128)
	case tUint16:
		return fmt.Sprintf("toU16(%d)", g.r.Intn(65536))
	case tBool:
		return []string{"true", "false"}[g.r.Intn(2)]
	case tStr:
		return fmt.Sprintf("%q", []string{"", "a", "go", "xyz", "héllo", "k1", "k2"}[g.r.Intn(7)])
	case tFloat:
		return []string{"0.5", "1.25", "-2.0", "3.0", "100.125", "0.0"}[g.r.Intn(6)]
	case tSlice:
		n := 1 + g.r.Intn(4)
		xs := make([]string, n)
		for i := range xs {
			xs[i] = fmt.Sprint(g.r.Intn(20))
		}
		return "[]int{" + strings.Join(xs, ", ") + "}"
	case tMap:
		return fmt.Sprintf("map[string]int{\"k1\": %d, \"k2\": %d}", g.r.Intn(9), g.r.Intn(9))
	case tP:
		return fmt.Sprintf("P{X: %d, Y: %d}", g.r.Intn(9), g.r.Intn(9))
	case tPtrP:
		return fmt.Sprintf("&P{X: %d, Y: %d}", g.r.Intn(9), g.r.Intn(9))
	case tArr:
		return fmt.Sprintf("[3]int{%d, %d, %d}", g.r.Intn(9), g.r.Intn(9), g.r.Intn(9))
	case tFn:
		return fmt.Sprintf("func(a int) int { return a*%d + %d }", 1+g.r.Intn(4), g.r.Intn(9))
	}
	return "0"
}

func (g *gen) expr(t typ, d int) string {
	if d <= 0 || g.r.Intn(5) == 0 {
		if v, ok := g.pickVar(t, false); ok && g.r.Intn(4) != 0 {
			return v.name
		}
		return g.lit(t)
	}
	switch t {
	case tInt:
		switch g.r.Intn(16) {
		case 0, 1, 2:
			op := []string{"+", "-", "*", "&", "|", "^", "&^"}[g.r.Intn(7)]
			if g.off("int-arith") {
				break
			}
			g.f("int-arith")
			return "(" + g.expr(tInt, d-1) + " " + op + " " + g.expr(tInt, d-1) + ")"
		case 3:
			if g.off("int-div") {
				break
			}
			g.f("int-div")
			op := []string{"/", "%"}[g.r.Intn(2)]
			return "(" + g.expr(tInt, d-1) + " " + op + " nz(" + g.expr(tInt, d-1) + "))"
		case 4:
			if g.off("shift") {
				break
			}
			g.f("shift")
			op := []string{"<<", ">>"}[g.r.Intn(2)]
			return "(id(" + g.expr(tInt, d-1) + ") " + op + " " + fmt.Sprint(g.r.Intn(70)) + ")"
		case 5:
			if g.off("unary") {
				break
			}
			g.f("unary")
			return []string{"-", "^", "+"}[g.r.Intn(3)] + g.unaryOperand(g.expr(tInt, d-1))
		case 6:
			if g.off("len") {
				break
			}
			g.f("len")
			switch g.r.Intn(3) {
			case 0:
				return "len(" + g.expr(tSlice, d-1) + ")"
			case 1:
				e := g.expr(tStr, d-1)
				if isConst(e) && g.off("len-const-string") {
					// len of a constant string expression is folded at compile time: listed finding class
					e = "fmt.Sprint(" + e + ")"
				} else if isConst(e) {
					g.f("len-const-string")
				}
				return "len(" + e + ")"
			default:
				return "len(" + g.expr(tMap, d-1) + ")"
			}
		case 7:
			if g.off("index-slice") {
				break
			}
			g.f("index-slice")
			s := g.atom(tSlice)
			return s + "[ix(" + g.expr(tInt, d-1) + ", len(" + s + "))]"
		case 8:
			if g.off("index-array") {
				break
			}
			g.f("index-array")
			return g.atom(tArr) + "[ix(" + g.expr(tInt, d-1) + ", 3)]"
		case 9:
			if g.off("index-map") {
				break
			}
			g.f("index-map")
			return g.atom(tMap) + "[" + g.expr(tStr, d-1) + "]"
		case 10:
			if g.off("field") {
				break
			}
			g.f("field")
			if g.r.Intn(2) == 0 {
				return g.atom(tP) + "." + []string{"X", "Y"}[g.r.Intn(2)]
			}
			return g.atom(tPtrP) + "." + []string{"X", "Y"}[g.r.Intn(2)]
		case 11:
			if g.off("method-call") {
				break
			}
			g.f("method-call")
			if g.r.Intn(2) == 0 {
				return g.atom(tP) + ".Sum()"
			}
			return g.atom(tPtrP) + ".Sum()"
		case 12:
			if c, ok := g.call(tInt, d); ok {
				return c
			}
		case 13:
			if g.off("conv") {
				break
			}
			g.f("conv")
			switch g.r.Intn(3) {
			case 0:
				return "int(" + g.expr(tInt8, d-1) + ")"
			case 1:
				return "int(" + g.expr(tUint16, d-1) + ")"
			default:
				return "int(fid(" + g.expr(tFloat, d-1) + "))"
			}
		case 14:
			if g.off("closure-call") {
				break
			}
			g.f("closure-call")
			return g.atom(tFn) + "(" + g.expr(tInt, d-1) + ")"
		}
		return "(" + g.expr(tInt, d-1) + " + " + g.expr(tInt, d-1) + ")"
	case tInt8:
		if g.off("int8") {
			break
		}
		g.f("int8")
		switch g.r.Intn(3) {
		case 0:
			return "int8(id(" + g.expr(tInt, d-1) + "))"
		default:
			op := []string{"+", "-", "*", "^", "&"}[g.r.Intn(5)]
			return "(" + g.expr(tInt8, d-1) + " " + op + " " + g.expr(tInt8, d-1) + ")"
		}
	case tUint16:
		if g.off("uint16") {
			break
		}
		g.f("uint16")
		switch g.r.Intn(3) {
		case 0:
			return "uint16(id(" + g.expr(tInt, d-1) + "))"
		default:
			op := []string{"+", "-", "*", "|", ">>"}[g.r.Intn(5)]
			if op == ">>" {
				return "(" + g.expr(tUint16, d-1) + " >> " + fmt.Sprint(g.r.Intn(18)) + ")"
			}
			return "(" + g.expr(tUint16, d-1) + " " + op + " " + g.expr(tUint16, d-1) + ")"
		}
	case tBool:
		switch g.r.Intn(8) {
		case 0, 1, 2:
			if g.off("compare") {
				break
			}
			g.f("compare")
			op := []string{"==", "!=", "<", "<=", ">", ">="}[g.r.Intn(6)]
			l, r := g.expr(tInt, d-1), g.expr(tInt, d-1)
			if isConst(l) && isConst(r) {
				// a comparison of two constant expressions is the listed finding class "const-comparison"
				if g.off("const-comparison") {
					l = g.nonConstInt()
				} else {
					g.f("const-comparison")
				}
			}
			return "(" + l + " " + op + " " + r + ")"
		case 3:
			if g.off("land") {
				break
			}
			g.f("land")
			return "(" + g.expr(tBool, d-1) + " && " + g.expr(tBool, d-1) + ")"
		case 4:
			if g.off("lor") {
				break
			}
			g.f("lor")
			return "(" + g.expr(tBool, d-1) + " || " + g.expr(tBool, d-1) + ")"
		case 5:
			if g.off("not") {
				break
			}
			g.f("not")
			e := g.expr(tBool, d-1)
			if (e == "true" || e == "false") && g.off("not-bool-literal") {
				// `!true` / `!false` as an operand is a listed finding class
				e = "(" + g.nonConstInt() + " == " + g.nonConstInt() + ")"
			} else if e == "true" || e == "false" {
				g.f("not-bool-literal")
			}
			return "!" + g.unaryOperand(e)
		case 6:
			if g.off("compare-string") {
				break
			}
			g.f("compare-string")
			op := []string{"==", "!=", "<"}[g.r.Intn(3)]
			l, r := g.expr(tStr, d-1), g.expr(tStr, d-1)
			if isConst(l) && isConst(r) {
				if g.off("const-comparison") {
					l = "fmt.Sprint(" + l + ")"
				} else {
					g.f("const-comparison")
				}
			}
			return "(" + l + " " + op + " " + r + ")"
		default:
			if g.off("compare-float") {
				break
			}
			g.f("compare-float")
			l, r := g.expr(tFloat, d-1), g.expr(tFloat, d-1)
			if isConst(l) && isConst(r) {
				if g.off("const-comparison") {
					l = "fid(" + l + ")"
				} else {
					g.f("const-comparison")
				}
			}
			return "(" + l + " < " + r + ")"
		}
	case tStr:
		switch g.r.Intn(4) {
		case 0:
			if g.off("concat") {
				break
			}
			g.f("concat")
			return "(" + g.expr(tStr, d-1) + " + " + g.expr(tStr, d-1) + ")"
		case 1:
			if g.off("sprint") {
				break
			}
			g.f("sprint")
			return "fmt.Sprint(" + g.expr(tInt, d-1) + ")"
		case 2:
			if c, ok := g.call(tStr, d); ok {
				return c
			}
		}
		return g.lit(tStr)
	case tFloat:
		switch g.r.Intn(4) {
		case 0:
			if g.off("float-arith") {
				break
			}
			g.f("float-arith")
			op := []string{"+", "-", "*"}[g.r.Intn(3)]
			return "(" + g.expr(tFloat, d-1) + " " + op + " " + g.expr(tFloat, d-1) + ")"
		case 1:
			if g.off("conv") {
				break
			}
			g.f("conv")
			return "float64(" + g.expr(tInt8, d-1) + ")"
		}
		return g.lit(tFloat)
	case tSlice:
		switch g.r.Intn(5) {
		case 0:
			if g.off("append") {
				break
			}
			g.f("append")
			return "append(" + g.expr(tSlice, d-1) + ", " + g.expr(tInt, d-1) + ")"
		case 1:
			if g.off("slice-expr") {
				break
			}
			g.f("slice-expr")
			s := g.atom(tSlice)
			return s + "[:ix(" + g.expr(tInt, d-1) + ", len(" + s + "))+1]"
		case 2:
			if g.off("array-slice") {
				break
			}
			g.f("array-slice")
			if v, ok := g.pickVar(tArr, false); ok {
				return v.name + "[:]"
			}
		}
		return g.atom(tSlice)
	case tP:
		if g.r.Intn(3) == 0 {
			if g.off("deref") {
				break
			}
			g.f("deref")
			return "*" + g.atom(tPtrP)
		}
		if g.r.Intn(3) == 0 {
			if g.off("struct-lit") {
				break
			}
			g.f("struct-lit")
			return "P{" + g.expr(tInt, d-1) + ", " + g.expr(tInt, d-1) + "}"
		}
		return g.atom(tP)
	case tPtrP:
		if v, ok := g.pickVar(tP, false); ok && g.r.Intn(2) == 0 {
			if g.off("addr") {
				break
			}
			g.f("addr")
			return "&" + v.name
		}
		return g.atom(tPtrP)
	case tFn:
		if g.r.Intn(2) == 0 {
			if v, ok := g.pickVar(tInt, false); ok {
				if g.off("closure-capture") {
					break
				}
				g.f("closure-capture")
				return fmt.Sprintf("func(a int) int { return a + %s }", v.name)
			}
		}
		return g.atom(tFn)
	}
	return g.atom(t)
}

var simpleOperand = regexp.MustCompile(`^[A-Za-z0-9_.]+$`)

// unaryOperand: a parenthesised identifier or literal under a unary operator (`!(b)`, `-(7)`) is the
// listed finding class "unary-paren-simple"; by default simple operands are written without parentheses.
func (g *gen) unaryOperand(e string) string {
	if simpleOperand.MatchString(e) {
		if !g.off("unary-paren-simple") {
			g.f("unary-paren-simple")
			return "(" + e + ")"
		}
		if e[0] == '-' || e[0] == '+' {
			return " " + e
		}
		return e
	}
	if e[0] == '(' {
		return e
	}
	return "(" + e + ")"
}

var quoted = regexp.MustCompile(`"[^"]*"`)
var letter = regexp.MustCompile(`[A-Za-z_]`)

// isConst: the expression text contains no identifier, i.e. it is a constant expression.
func isConst(e string) bool { return !letter.MatchString(quoted.ReplaceAllString(e, "")) }

// nonConstInt: an int operand that is not a constant expression.
func (g *gen) nonConstInt() string {
	if v, ok := g.pickVar(tInt, false); ok {
		return v.name
	}
	return "id(" + fmt.Sprint(g.r.Intn(10)) + ")"
}

// atom: a variable of the type if there is one, else a literal.
func (g *gen) atom(t typ) string {
	if v, ok := g.pickVar(t, false); ok {
		return v.name
	}
	if t == tSlice || t == tMap || t == tArr || t == tFn || t == tP || t == tPtrP {
		return "(" + g.lit(t) + ")"
	}
	return g.lit(t)
}

// call of a previously declared function whose first result has type t.
func (g *gen) call(t typ, d int) (string, bool) {
	var cands []funcSig
	for _, fs := range g.funcs {
		if len(fs.results) == 1 && fs.results[0] == t {
			cands = append(cands, fs)
		}
	}
	if len(cands) == 0 {
		return "", false
	}
	if g.off("call") {
		return "", false
	}
	fs := cands[g.r.Intn(len(cands))]
	g.f("call")
	return g.callExpr(fs, d), true
}

func (g *gen) callExpr(fs funcSig, d int) string {
	args := make([]string, len(fs.params))
	for i, p := range fs.params {
		args[i] = g.expr(p.t, d-1)
	}
	return fs.name + "(" + strings.Join(args, ", ") + ")"
}

// ---------- statements ----------

func (g *gen) block(n int) {
	g.push()
	g.ind++
	g.depth++
	before := g.b.Len()
	for i := 0; i < n && g.budget > 0; i++ {
		g.stmt()
	}
	if g.b.Len() == before {
		// never an empty block (empty blocks are a listed finding class of their own)
		g.line("fmt.Println(%q)", g.fresh("b"))
	}
	g.depth--
	g.ind--
	g.pop()
}

func (g *gen) printVars() {
	var names []string
	seen := map[string]bool{}
	for i := len(g.scopes) - 1; i >= 0; i-- {
		for _, v := range g.scopes[i] {
			if !seen[v.name] && v.t != tFn && v.t != tPtrP {
				seen[v.name] = true
				names = append(names, v.name)
			}
			if !seen[v.name] && v.t == tPtrP {
				seen[v.name] = true
				names = append(names, "*"+v.name)
			}
		}
	}
	if len(names) > 8 {
		names = names[:8]
	}
	if len(names) > 0 {
		g.line("fmt.Println(%s)", strings.Join(names, ", "))
	}
}

func (g *gen) stmt() {
	g.budget--
	max := 30
	if g.depth > 3 {
		max = 12 // no more nesting
	}
	k := g.r.Intn(max)
	if name, ok := stmtClass[k]; ok && g.off(name) {
		g.line("fmt.Println(%s)", g.expr(tInt, 2))
		return
	}
	switch {
	case k < 3 && !g.noDefine: // define
		t := g.pickType()
		if g.r.Intn(6) == 0 && !g.off("type-func") {
			t = tFn
		}
		name := g.fresh("v")
		e := g.expr(t, 2)
		switch g.r.Intn(3) {
		case 0:
			if g.off("var-decl") {
				return
			}
			g.f("var-decl")
			g.line("var %s %s = %s", name, t, e)
		default:
			if g.off("define") {
				return
			}
			g.f("define")
			if t == tInt8 || t == tUint16 || t == tFloat {
				g.line("var %s %s = %s", name, t, e)
			} else {
				g.line("%s := %s", name, e)
			}
		}
		g.line("_ = %s", name)
		g.declare(variable{name: name, t: t})
	case k < 6: // assign
		t := g.pickType()
		if v, ok := g.pickVar(t, true); ok {
			if g.off("assign") {
				return
			}
			g.f("assign")
			if t == tStr && len(g.loops) > 0 {
				// no exponential string growth inside loops
				g.line("if len(%s) < 64 {", v.name)
				g.line("\t%s = %s", v.name, g.expr(t, 2))
				g.line("}")
			} else {
				g.line("%s = %s", v.name, g.expr(t, 2))
			}
		} else {
			g.line("fmt.Println(%s)", g.expr(tInt, 2))
		}
	case k == 6: // op-assign, inc/dec
		if v, ok := g.pickVar(tInt, true); ok {
			switch g.r.Intn(3) {
			case 0:
				if g.off("incdec") {
					return
				}
				g.f("incdec")
				g.line("%s%s", v.name, []string{"++", "--"}[g.r.Intn(2)])
			default:
				if g.off("op-assign") {
					return
				}
				g.f("op-assign")
				g.line("%s %s= %s", v.name, []string{"+", "-", "*", "|", "^"}[g.r.Intn(5)], g.expr(tInt, 2))
			}
		}
	case k == 7: // compound targets
		switch g.r.Intn(6) {
		case 0:
			if v, ok := g.pickVar(tSlice, false); ok && g.refMutOK() {
				if g.off("assign-elem") {
					return
				}
				g.f("assign-elem")
				g.line("%s[ix(%s, len(%s))] %s %s", v.name, g.expr(tInt, 1), v.name, []string{"=", "+=", "*="}[g.r.Intn(3)], g.expr(tInt, 2))
			}
		case 1:
			if v, ok := g.pickVar(tArr, true); ok {
				if g.off("assign-array-elem") {
					return
				}
				g.f("assign-array-elem")
				g.line("%s[ix(%s, 3)] %s %s", v.name, g.expr(tInt, 1), []string{"=", "-="}[g.r.Intn(2)], g.expr(tInt, 2))
			}
		case 2:
			if v, ok := g.pickVar(tMap, false); ok && g.refMutOK() {
				if g.off("assign-map") {
					return
				}
				g.f("assign-map")
				g.line("%s[%s] %s %s", v.name, g.expr(tStr, 1), []string{"=", "+="}[g.r.Intn(2)], g.expr(tInt, 2))
			}
		case 3:
			if v, ok := g.pickVar(tP, true); ok {
				if g.off("assign-field") {
					return
				}
				g.f("assign-field")
				g.line("%s.%s %s %s", v.name, []string{"X", "Y"}[g.r.Intn(2)], []string{"=", "+="}[g.r.Intn(2)], g.expr(tInt, 2))
			}
		case 4:
			if v, ok := g.pickVar(tPtrP, false); ok && g.refMutOK() {
				if g.off("assign-ptr-field") {
					return
				}
				g.f("assign-ptr-field")
				g.line("%s.%s %s %s", v.name, []string{"X", "Y"}[g.r.Intn(2)], []string{"=", "-="}[g.r.Intn(2)], g.expr(tInt, 2))
			}
		case 5:
			if v, ok := g.pickVar(tPtrP, false); ok && g.refMutOK() {
				if g.off("assign-deref") {
					return
				}
				g.f("assign-deref")
				g.line("*%s = %s", v.name, g.expr(tP, 2))
			}
		}
	case k == 8: // multi-assign
		a, ok1 := g.pickVar(tInt, true)
		b, ok2 := g.pickVar(tInt, true)
		if ok1 && ok2 && a.name != b.name {
			if g.off("multi-assign") {
				return
			}
			g.f("multi-assign")
			g.line("%s, %s = %s, %s", a.name, b.name, g.expr(tInt, 2), g.expr(tInt, 2))
		}
	case k == 9: // method with pointer receiver, delete, copy
		switch g.r.Intn(4) {
		case 0:
			if v, ok := g.pickVar(tP, true); ok {
				if g.off("ptr-method-on-value") {
					return
				}
				g.f("ptr-method-on-value")
				g.line("%s.Inc(%s)", v.name, g.expr(tInt, 1))
			}
		case 1:
			if v, ok := g.pickVar(tPtrP, false); ok && g.refMutOK() {
				if g.off("ptr-method") {
					return
				}
				g.f("ptr-method")
				g.line("%s.Inc(%s)", v.name, g.expr(tInt, 1))
			}
		case 2:
			if v, ok := g.pickVar(tMap, false); ok && g.refMutOK() {
				if g.off("delete") {
					return
				}
				g.f("delete")
				g.line("delete(%s, %s)", v.name, g.expr(tStr, 1))
			}
		default:
			a, ok1 := g.pickVar(tSlice, false)
			if ok1 && g.refMutOK() {
				if g.off("copy") {
					return
				}
				g.f("copy")
				g.line("copy(%s, %s)", a.name, g.expr(tSlice, 1))
			}
		}
	case k == 10 || k == 11: // print
		if g.off("print") {
			return
		}
		g.f("print")
		t := g.pickType()
		if t == tPtrP {
			t = tP
		}
		g.line("fmt.Println(%q, %s)", g.fresh("p"), g.expr(t, 2))
	case k == 12: // if
		if g.off("if") {
			return
		}
		g.f("if")
		if g.r.Intn(4) == 0 && !g.noDefine && !g.off("if-init") {
			g.f("if-init")
			n := g.fresh("c")
			g.push()
			g.line("if %s := %s; %s > %s {", n, g.expr(tInt, 2), n, g.expr(tInt, 1))
			g.declare(variable{name: n, t: tInt})
			g.block(1 + g.r.Intn(3))
			if g.r.Intn(2) == 0 {
				g.line("} else {")
				g.block(1 + g.r.Intn(2))
			}
			g.line("}")
			g.pop()
			return
		}
		g.line("if %s {", g.expr(tBool, 2))
		g.block(1 + g.r.Intn(3))
		for n := g.r.Intn(3); n > 0 && !g.off("else-if"); n-- {
			g.f("else-if")
			g.line("} else if %s {", g.expr(tBool, 2))
			g.block(1 + g.r.Intn(2))
		}
		if g.r.Intn(2) == 0 && !g.off("if-else") {
			g.f("if-else")
			g.line("} else {")
			g.block(1 + g.r.Intn(2))
		}
		g.line("}")
	case k == 13 || k == 14: // 3-clause for
		g.loop3()
	case k == 15: // cond-only / infinite for with counter
		g.loopCond()
	case k == 16: // range
		g.loopRange()
	case k == 17 || k == 18: // switch
		g.switchStmt()
	case k == 19: // break / continue
		if len(g.loops) > 0 {
			kw := []string{"break", "continue"}[g.r.Intn(2)]
			if g.off(kw) {
				return
			}
			lbl := ""
			if g.r.Intn(3) == 0 && !g.off("labeled-"+kw) {
				var ls []string
				for _, l := range g.loops {
					if l != "" {
						ls = append(ls, l)
					}
				}
				if len(ls) > 0 {
					lbl = ls[g.r.Intn(len(ls))]
					g.usedLbl[lbl] = true
					g.f("labeled-" + kw)
				}
			}
			g.f(kw)
			g.line("if %s {", g.expr(tBool, 2))
			g.ind++
			if lbl != "" {
				g.line("%s %s", kw, lbl)
			} else {
				g.line("%s", kw)
			}
			g.ind--
			g.line("}")
		}
	case k == 20: // forward goto over non-declaring statements
		if !g.noDefine && (g.inSwitch == 0 || !g.off("label-in-switch-clause")) {
			if g.inSwitch > 0 {
				g.f("label-in-switch-clause")
			}
			if g.off("goto") {
				return
			}
			g.f("goto")
			lbl := g.fresh("L")
			g.line("if %s {", g.expr(tBool, 2))
			g.line("\tgoto %s", lbl)
			g.line("}")
			save := g.noDefine
			g.noDefine = true
			for n := 1 + g.r.Intn(2); n > 0; n-- {
				g.stmtNoDecl()
			}
			g.noDefine = save
			g.ind--
			g.line("%s:", lbl)
			g.ind++
			g.line("fmt.Println(%q)", lbl)
		}
	case k == 21: // nested block with shadowing
		if !g.noDefine || true {
			if g.off("block") {
				return
			}
			g.f("block")
			g.line("{")
			g.push()
			g.ind++
			if v, ok := g.pickVar(tInt, false); ok && g.r.Intn(2) == 0 && !g.off("shadow") {
				g.f("shadow")
				g.line("%s := %s + 1", v.name, v.name)
				g.line("_ = %s", v.name)
				g.declare(variable{name: v.name, t: tInt})
			}
			for n := 1 + g.r.Intn(3); n > 0 && g.budget > 0; n-- {
				g.stmt()
			}
			g.line("fmt.Println(%q)", g.fresh("b"))
			g.ind--
			g.pop()
			g.line("}")
		}
	case k == 22: // closures capturing loop variables
		if !g.noDefine {
			if g.off("closure-loopvar") {
				return
			}
			g.f("closure-loopvar")
			fs := g.fresh("fs")
			base := g.expr(tInt, 1)
			if g.r.Intn(3) == 0 && !g.off("define-call-captured") {
				// variables defined from the results of an interpreted call (aggregate and scalar results) in a
				// statement executed several times: every execution must get fresh variables, which closures
				// and pointers taken in one pass keep alive after later passes
				g.f("define-call-captured")
				ps, n := g.fresh("ps"), 2+g.r.Intn(3)
				dp, dq := g.fresh("dp"), g.fresh("dq")
				var def, ptrT, mut string
				switch g.r.Intn(4) {
				case 0:
					def, ptrT, mut = dp+", "+dq+" := mkP(%s)", "*P", dp+".X++"
				case 1:
					def, ptrT, mut = dp+", "+dq+" := mkA(%s)", "*[3]int", dp+"[1] += 7"
				case 2:
					def, ptrT, mut = dp+", "+dq+" := mkP1(%s), %[1]s", "*P", dp+".Y--"
				default:
					def, ptrT, mut = dq+", "+dp+" := mkI(%s)", "*int", dp+" += 3"
				}
				g.line("var %s []func() string", fs)
				g.line("var %s []%s", ps, ptrT)
				body := func(iv string) {
					g.line(def, iv+" + "+base)
					g.line("%s = append(%s, func() string { %s; return fmt.Sprint(%s, %s) })", fs, fs, mut, dp, dq)
					g.line("%s = append(%s, &%s)", ps, ps, dp)
				}
				switch form := g.r.Intn(3); {
				case form == 0:
					g.line("for i := 0; i < %d; i++ {", n)
					g.ind++
					body("i")
					g.ind--
					g.line("}")
				case form == 1 || g.inSwitch > 0:
					g.line("for i := range %d {", n)
					g.ind++
					body("i")
					g.ind--
					g.line("}")
				default:
					i, lbl := g.fresh("gi"), g.fresh("Again")
					g.line("%s := 0", i)
					g.ind--
					g.line("%s:", lbl)
					g.ind++
					body(i)
					g.line("if %s++; %s < %d {", i, i, n)
					g.line("\tgoto %s", lbl)
					g.line("}")
				}
				g.line("for k, fn := range %s {", fs)
				g.line("\tfmt.Println(fn(), *%s[k], fn())", ps)
				g.line("}")
				return
			}
			if g.r.Intn(3) == 0 && !g.off("goto-backward") && g.inSwitch == 0 {
				// a loop made of a backward goto: every pass must get fresh variables for its := definitions
				g.f("goto-backward")
				i, x, lbl := g.fresh("gi"), g.fresh("gx"), g.fresh("Again")
				n := 2 + g.r.Intn(3)
				op := []string{"*", "+", "-", "|"}[g.r.Intn(4)]
				if g.r.Intn(2) == 0 {
					g.line("var %s []func() int", fs)
					g.line("%s := 0", i)
					g.ind--
					g.line("%s:", lbl)
					g.ind++
					g.line("%s := %s %s %s", x, i, op, base)
					g.line("%s = append(%s, func() int { %s++; return %s })", fs, fs, x, x)
					g.line("%s++", i)
					g.line("if %s < %d {", i, n)
					g.line("\tgoto %s", lbl)
					g.line("}")
					g.line("for _, fn := range %s {", fs)
					g.line("\tfmt.Println(fn(), fn())")
					g.line("}")
				} else {
					ps := g.fresh("ps")
					g.line("var %s []*int", ps)
					g.line("%s := 1", i)
					g.ind--
					g.line("%s:", lbl)
					g.ind++
					g.line("%s := %s %s %s", x, i, op, i)
					g.line("%s = append(%s, &%s)", ps, ps, x)
					g.line("if %s++; %s <= %d {", i, i, n)
					g.line("\tgoto %s", lbl)
					g.line("}")
					g.line("for _, p := range %s {", ps)
					g.line("\tfmt.Println(*p)")
					g.line("}")
				}
				return
			}
			g.line("var %s []func() int", fs)
			switch g.r.Intn(3) {
			case 0:
				g.line("for i := 0; i < %d; i++ {", 2+g.r.Intn(3))
				g.line("\t%s = append(%s, func() int { return i*10 + %s })", fs, fs, base)
			case 1:
				g.line("for i := range %d {", 2+g.r.Intn(3))
				g.line("\t%s = append(%s, func() int { return i*10 + %s })", fs, fs, base)
			default:
				g.line("for i, e := range %s {", g.atom(tSlice))
				g.line("\t%s = append(%s, func() int { return i*100 + e })", fs, fs)
			}
			g.line("}")
			g.line("for _, fn := range %s {", fs)
			g.line("\tfmt.Println(fn())")
			g.line("}")
		}
	case k == 23: // multi-value call, comma-ok
		if !g.noDefine {
			switch g.r.Intn(3) {
			case 0:
				var cands []funcSig
				for _, fs := range g.funcs {
					if len(fs.results) == 2 {
						cands = append(cands, fs)
					}
				}
				if len(cands) > 0 {
					fs := cands[g.r.Intn(len(cands))]
					a, b := g.fresh("r"), g.fresh("r")
					if g.off("multi-value-call") {
						return
					}
					g.f("multi-value-call")
					g.line("%s, %s := %s", a, b, g.callExpr(fs, 2))
					g.line("fmt.Println(%s, %s)", a, b)
					g.declare(variable{name: a, t: fs.results[0]})
					g.declare(variable{name: b, t: fs.results[1]})
				}
			case 1:
				a, b := g.fresh("r"), g.fresh("ok")
				if g.off("comma-ok-map") {
					return
				}
				g.f("comma-ok-map")
				g.line("%s, %s := %s[%s]", a, b, g.atom(tMap), g.expr(tStr, 1))
				g.line("fmt.Println(%s, %s)", a, b)
				g.declare(variable{name: a, t: tInt})
				g.declare(variable{name: b, t: tBool})
			default:
				// closure modifying captured state
				if v, ok := g.pickVar(tInt, true); ok {
					fn := g.fresh("inc")
					if g.off("closure-mutate") {
						return
					}
					g.f("closure-mutate")
					g.line("%s := func(d int) int { %s += d; return %s }", fn, v.name, v.name)
					g.line("fmt.Println(%s(%s), %s(%s), %s)", fn, g.expr(tInt, 1), fn, g.expr(tInt, 1), v.name)
				}
			}
		}
	case k == 24: // call statement / defer
		if g.inFunc != nil && g.r.Intn(2) == 0 && len(g.loops) == 0 {
			if g.off("defer") {
				return
			}
			g.f("defer")
			if g.off("defer-arg-variable") {
				// a deferred call whose argument names a variable assigned later is a listed finding class
				g.line("defer fmt.Println(%q, %d)", g.fresh("d"), g.r.Intn(100))
			} else {
				g.f("defer-arg-variable")
				g.line("defer fmt.Println(%q, %s)", g.fresh("d"), g.expr(tInt, 2))
			}
		} else if len(g.funcs) > 0 {
			fs := g.funcs[g.r.Intn(len(g.funcs))]
			if g.off("call-stmt") {
				return
			}
			g.f("call-stmt")
			if len(fs.results) == 1 {
				g.line("fmt.Println(%s)", g.callExpr(fs, 2))
			} else {
				g.line("fmt.Println(%s)", g.callExpr(fs, 2))
			}
		}
	case k == 25: // early return
		if g.inFunc != nil && g.depth > 1 {
			if g.off("early-return") {
				return
			}
			g.f("early-return")
			g.line("if %s {", g.expr(tBool, 2))
			g.ind++
			g.ret()
			g.ind--
			g.line("}")
		}
	case k == 26: // array / struct copy semantics
		if !g.noDefine {
			switch g.r.Intn(2) {
			case 0:
				if v, ok := g.pickVar(tArr, true); ok {
					c := g.fresh("cp")
					if g.off("array-copy") {
						return
					}
					g.f("array-copy")
					g.line("%s := %s", c, v.name)
					g.line("%s[0] = %s", v.name, g.expr(tInt, 1))
					g.line("fmt.Println(%s, %s)", c, v.name)
					g.declare(variable{name: c, t: tArr})
				}
			default:
				if v, ok := g.pickVar(tP, true); ok {
					c := g.fresh("cp")
					if g.off("struct-copy") {
						return
					}
					g.f("struct-copy")
					g.line("%s := %s", c, v.name)
					g.line("%s.X = %s", v.name, g.expr(tInt, 1))
					g.line("fmt.Println(%s, %s)", c, v.name)
					g.declare(variable{name: c, t: tP})
				}
			}
		}
	case k == 27: // explicit panic under a condition (rare)
		if g.r.Intn(6) == 0 {
			if g.off("panic") {
				return
			}
			g.f("panic")
			g.line("if %s {", g.expr(tBool, 2))
			g.line("\tpanic(%q)", g.fresh("boom"))
			g.line("}")
		}
	case k == 28: // named results assigned before a panic, the caller recovers (the shape of F01, repaired by 1b5ab85)
		x, ok := g.pickVar(tInt, true)
		if !ok {
			return
		}
		g.f("named-result-recover")
		arg := g.expr(tInt, 1)
		g.line("func() {")
		g.line("\tdefer func() { recover() }()")
		if sv, ok2 := g.pickVar(tStr, true); ok2 && g.r.Intn(2) == 0 {
			g.f("named-result-recover-multi")
			g.line("\t%s, %s = nrQ(%s)", x.name, sv.name, arg)
			g.line("}()")
			g.line("fmt.Println(%s, %s)", x.name, sv.name)
		} else {
			g.line("\t%s = nrP(%s)", x.name, arg)
			g.line("}()")
			g.line("fmt.Println(%s)", x.name)
		}
	default:
		if g.off("print") {
			return
		}
		g.f("print")
		g.line("fmt.Println(%s)", g.expr(tInt, 3))
	}
}

// stmtClass names the statement alternatives that can be switched off as a whole.
var stmtClass = map[int]string{
	7: "compound-target", 8: "multi-assign", 9: "method-delete-copy", 12: "if", 13: "for3", 14: "for3", 15: "for-cond",
	16: "range", 17: "switch", 18: "switch", 19: "break-continue", 20: "goto", 21: "block", 22: "closure-loopvar",
	23: "multi-value", 24: "call-defer", 25: "early-return", 26: "copy-semantics", 27: "panic", 28: "named-result-recover",
}

func lastLine(s string) string {
	s = strings.TrimRight(s, "\n")
	if i := strings.LastIndexByte(s, '\n'); i >= 0 {
		return s[i+1:]
	}
	return s
}

func (g *gen) stmtNoDecl() {
	switch g.r.Intn(3) {
	case 0:
		if v, ok := g.pickVar(tInt, true); ok {
			g.line("%s += %s", v.name, g.expr(tInt, 1))
			return
		}
		fallthrough
	default:
		g.line("fmt.Println(%q, %s)", g.fresh("g"), g.expr(tInt, 2))
	}
}

func (g *gen) loopHeader(lbl string) string {
	if lbl == "" {
		return ""
	}
	return lbl + ": "
}

// body of a loop; returns the text so that the label is emitted only if used
func (g *gen) loopBody(lbl string, pre func(), n int) string {
	if g.inSwitch > 0 && g.off("label-in-switch-clause") {
		lbl = "" // a label inside a switch clause is a listed finding class
	}
	saved := g.b
	g.b = strings.Builder{}
	g.loops = append(g.loops, lbl)
	g.push()
	g.ind++
	g.depth++
	if pre != nil {
		pre()
	}
	before := g.b.Len()
	for i := 0; i < n && g.budget > 0; i++ {
		g.stmt()
	}
	if g.b.Len() == before {
		g.line("fmt.Println(%q)", g.fresh("b"))
	}
	g.depth--
	g.ind--
	g.pop()
	g.loops = g.loops[:len(g.loops)-1]
	body := g.b.String()
	g.b = saved
	return body
}

func (g *gen) emitLoop(lbl, header, body string) {
	if g.usedLbl[lbl] {
		g.ind--
		g.line("%s:", lbl)
		g.ind++
	}
	g.line("%s {", header)
	g.b.WriteString(body)
	g.line("}")
}

func (g *gen) loop3() {
	if g.off("for3") {
		return
	}
	g.f("for3")
	i := g.fresh("i")
	lbl := g.fresh("Loop")
	n := 2 + g.r.Intn(4)
	g.push()
	g.declare(variable{name: i, t: tInt, readonly: true})
	var header string
	step := "+="
	switch g.r.Intn(4) {
	case 0:
		header = fmt.Sprintf("for %s := %d; %s > 0; %s-- ", i, n, i, i)
		step = "-="
	case 1:
		header = fmt.Sprintf("for %s := 0; %s < %d; %s += 2 ", i, i, 2*n, i)
	default:
		header = fmt.Sprintf("for %s := 0; %s < %d; %s++ ", i, i, n, i)
	}
	if g.r.Intn(12) == 0 && !g.off("loop-empty-body") {
		// a loop whose body is empty (only the generated loop-variable nodes): F50, repaired by 78c1f77
		g.f("loop-empty-body")
		g.line("%s{", header)
		g.line("}")
		g.line("fmt.Println(%q)", g.fresh("after"))
		g.pop()
		return
	}
	var pre func()
	if g.r.Intn(4) == 0 && !g.off("loopvar-assigned-in-body") {
		// the body assigns its := loop variable (in the direction of the post statement, so the loop
		// still terminates): the post statement and the condition must see the assignment (F24, repaired by 8ca6eff)
		g.f("loopvar-assigned-in-body")
		k, d := g.r.Intn(n+1), g.r.Intn(3)
		// … and half of the time the iteration is then left by a labelled continue out of a nested loop or
		// switch: the update must still reach the post statement (round-3 seed C01-3)
		leave := g.r.Intn(2) == 0 && !g.off("labeled-continue")
		if leave {
			g.usedLbl[lbl] = true
			g.f("loopvar-assigned-then-labeled-continue")
		}
		nested := g.r.Intn(2)
		pre = func() {
			g.line("if %s == %d {", i, k)
			g.line("\t%s %s %d", i, step, d)
			g.line("}")
			if leave {
				j := g.fresh("lj")
				if nested == 0 {
					g.line("for %s := 0; %s < 2; %s++ {", j, j, j)
					g.line("\tif %s == 1 && %s %% 2 == 0 {", j, i)
					g.line("\t\tcontinue %s", lbl)
					g.line("\t}")
					g.line("\tfmt.Println(%q, %s, %s)", j, i, j)
					g.line("}")
				} else {
					g.line("switch {")
					g.line("case %s %% 3 == 0:", i)
					g.line("\tfmt.Println(%q, %s)", j, i)
					g.line("\tcontinue %s", lbl)
					g.line("}")
				}
			}
		}
	}
	body := g.loopBody(lbl, pre, 1+g.r.Intn(4))
	g.emitLoop(lbl, strings.TrimSpace(header), body)
	g.pop()
}

func (g *gen) loopCond() {
	if g.off("for-cond") {
		return
	}
	g.f("for-cond")
	n := g.fresh("n")
	lbl := g.fresh("Loop")
	lim := 2 + g.r.Intn(4)
	g.line("%s := 0", n)
	g.declare(variable{name: n, t: tInt, readonly: true})
	inf := g.r.Intn(3) == 0 && !g.off("for-infinite")
	body := g.loopBody(lbl, func() {
		g.line("%s++", n)
		if inf {
			g.f("for-infinite")
			g.line("if %s > %d {", n, lim)
			g.line("\tbreak")
			g.line("}")
		}
	}, 1+g.r.Intn(4))
	if inf {
		g.emitLoop(lbl, "for", body)
	} else {
		g.emitLoop(lbl, fmt.Sprintf("for %s < %d", n, lim), body)
	}
}

func (g *gen) loopRange() {
	lbl := g.fresh("Loop")
	kinds := []string{"range-int", "range-slice", "range-array", "range-string", "range-slice-novar"}
	kind := g.r.Intn(5)
	if g.off(kinds[kind]) {
		return
	}
	g.push()
	var header string
	switch kind {
	case 0:
		g.f("range-int")
		i := g.fresh("i")
		g.declare(variable{name: i, t: tInt, readonly: true})
		header = fmt.Sprintf("for %s := range %d", i, 2+g.r.Intn(4))
		body := g.loopBody(lbl, func() { g.line("_ = %s", i) }, 1+g.r.Intn(3))
		g.emitLoop(lbl, header, body)
		g.pop()
		return
	case 1:
		g.f("range-slice")
		i, e := g.fresh("i"), g.fresh("e")
		header = fmt.Sprintf("for %s, %s := range %s", i, e, g.expr(tSlice, 1))
		g.declare(variable{name: i, t: tInt, readonly: true})
		g.declare(variable{name: e, t: tInt})
		body := g.loopBody(lbl, func() { g.line("_, _ = %s, %s", i, e) }, 1+g.r.Intn(3))
		g.emitLoop(lbl, header, body)
		g.pop()
		return
	case 2:
		g.f("range-array")
		e := g.fresh("e")
		header = fmt.Sprintf("for _, %s := range %s", e, g.atom(tArr))
		g.declare(variable{name: e, t: tInt})
		body := g.loopBody(lbl, func() { g.line("_ = %s", e) }, 1+g.r.Intn(3))
		g.emitLoop(lbl, header, body)
		g.pop()
		return
	case 3:
		g.f("range-string")
		i, c := g.fresh("i"), g.fresh("c")
		header = fmt.Sprintf("for %s, %s := range %s", i, c, g.expr(tStr, 1))
		g.declare(variable{name: i, t: tInt, readonly: true})
		body := g.loopBody(lbl, func() { g.line("fmt.Println(%s, %s)", i, c) }, 1+g.r.Intn(2))
		g.emitLoop(lbl, header, body)
		g.pop()
		return
	default:
		g.f("range-slice-novar")
		header = fmt.Sprintf("for range %s", g.atom(tSlice))
		if g.r.Intn(4) == 0 && !g.off("loop-empty-body") {
			g.f("loop-empty-body")
			g.line("%s {", header)
			g.line("}")
			g.line("fmt.Println(%q)", g.fresh("after"))
			g.pop()
			return
		}
	}
	body := g.loopBody(lbl, nil, 1+g.r.Intn(3))
	g.emitLoop(lbl, header, body)
	g.pop()
}

func (g *gen) switchStmt() {
	tagless := g.r.Intn(3) == 0
	if g.off("switch-tagless") {
		tagless = false
	}
	if g.off("switch-tag") {
		tagless = true
		if g.off("switch-tagless") {
			return
		}
	}
	g.push()
	hdr := "switch"
	initVar := ""
	if g.r.Intn(4) == 0 && !g.noDefine && !g.off("switch-init") {
		g.f("switch-init")
		initVar = g.fresh("s")
		hdr += fmt.Sprintf(" %s := %s;", initVar, g.expr(tInt, 2))
		g.declare(variable{name: initVar, t: tInt})
	}
	if tagless {
		g.f("switch-tagless")
		g.line("%s {", hdr)
	} else {
		g.f("switch-tag")
		if initVar != "" {
			g.line("%s (%s + %s) %% 4 {", hdr, initVar, g.expr(tInt, 1))
		} else {
			g.line("%s %s %% 4 {", hdr, g.expr(tInt, 2))
		}
	}
	ncase := 1 + g.r.Intn(4)
	defAt := -1
	if g.r.Intn(2) == 0 && !g.off("switch-default") {
		defAt = g.r.Intn(ncase + 1)
		// a default clause that is not last is fine in a tagless switch (conditions stay in source
		// order since the repair of the switchIfStmt wiring, F44 fixed); in a switch with a tag the
		// default clause is still moved to the end, which is only visible with fallthrough (see below)
		_ = tagless
	}
	used := map[int]bool{}
	constFalse := false
	for c := 0; c <= ncase; c++ {
		if c == defAt {
			g.f("switch-default")
			g.line("default:")
		} else if c == ncase {
			break
		} else if tagless && g.r.Intn(3) == 0 && !g.off("switch-tagless-case-list") {
			// a clause with a LIST of conditions: evaluated left to right, the clause is chosen at the first true one
			// (F53: the unchanged tree looks at the first expression only)
			g.f("switch-tagless-case-list")
			var items []string
			for n := 2 + g.r.Intn(2); n > 0; n-- {
				switch k := g.r.Intn(5); {
				case k == 0 && !constFalse:
					constFalse = true // at most one constant per switch: duplicate constant cases do not compile
					items = append(items, "2 < 1")
				case k == 1:
					g.f("switch-tagless-case-list-call")
					items = append(items, fmt.Sprintf("sb(%q, %s)", g.fresh("c"), g.expr(tBool, 1)))
				default:
					items = append(items, g.expr(tBool, 1))
				}
			}
			g.line("case %s:", strings.Join(items, ", "))
		} else if tagless {
			if initVar != "" {
				g.line("case %s > %d || %s:", initVar, g.r.Intn(9), g.expr(tBool, 1))
			} else {
				g.line("case %s:", g.expr(tBool, 2))
			}
		} else {
			// distinct constant case values (duplicates are a compile error)
			v := g.r.Intn(7) - 3
			for used[v] {
				v++
			}
			used[v] = true
			if g.r.Intn(4) == 0 && !g.off("switch-tag-case-list-call") {
				// a list of NON-constant expressions, with calls that print: Go evaluates them left to right and stops
				// at the first that equals the tag
				g.f("switch-tag-case-list-call")
				w := v + 10
				used[w] = true
				items := []string{fmt.Sprintf("si(%q, %d)", g.fresh("t"), v), fmt.Sprintf("si(%q, %d)", g.fresh("t"), w)}
				if g.r.Intn(2) == 0 {
					items[0] = fmt.Sprintf("id(%d)", v)
				}
				if g.r.Intn(3) == 0 {
					items = append(items, "id("+g.atom(tInt)+")") // never a constant (duplicate constant cases do not compile), and without calls: si is the only side effect of the list
				}
				g.line("case %s:", strings.Join(items, ", "))
			} else if g.r.Intn(4) == 0 && !g.off("switch-multi-value-case") {
				w := v + 10
				used[w] = true
				g.line("case %d, %d:", v, w)
				g.f("switch-multi-value-case")
			} else {
				g.line("case %d:", v)
			}
		}
		// clause bodies are never empty (an empty clause after a fallthrough is F22)
		g.push()
		g.ind++
		g.depth++
		g.inSwitch++
		if initVar != "" {
			g.line("_ = %s", initVar)
		}
		saveLoops := g.loops
		for n := 1 + g.r.Intn(2); n > 0 && g.budget > 0; n-- {
			g.stmt()
		}
		g.line("fmt.Println(%q)", g.fresh("case"))
		last := c == ncase || (c == ncase-1 && defAt != ncase)
		nonLastDefaultTag := !tagless && defAt >= 0 && defAt != ncase
		if !last && g.r.Intn(5) == 0 && !g.off("fallthrough") && (!nonLastDefaultTag || !g.off("tag-switch-nonlast-default-fallthrough")) {
			if nonLastDefaultTag {
				g.f("tag-switch-nonlast-default-fallthrough")
			}
			g.f("fallthrough")
			g.line("fallthrough")
		} else if g.r.Intn(8) == 0 && !g.off("switch-break") {
			g.f("switch-break")
			g.line("if %s {", g.expr(tBool, 1))
			g.line("\tbreak")
			g.line("}")
			g.line("fmt.Println(%q)", g.fresh("after-break"))
		}
		g.loops = saveLoops
		g.inSwitch--
		g.depth--
		g.ind--
		g.pop()
	}
	g.line("}")
	g.pop()
}

func (g *gen) ret() {
	fs := g.inFunc
	rs := make([]string, len(fs.results))
	for i, t := range fs.results {
		// since fix b3c279d (F23) any expression — builtin and other calls included — may be an operand of
		// a multi-value return
		if len(fs.results) > 1 && g.off("multi-return-expr") {
			if v, ok := g.pickVar(t, false); ok {
				rs[i] = v.name
			} else {
				rs[i] = g.lit(t)
			}
		} else {
			rs[i] = g.expr(t, 2)
		}
	}
	if len(fs.results) > 1 {
		g.f("multi-return-expr")
	}
	g.line("return %s", strings.Join(rs, ", "))
}

func (g *gen) funcDecl(idx int) {
	fs := funcSig{name: fmt.Sprintf("f%d", idx)}
	for n := g.r.Intn(4); n > 0; n-- {
		fs.params = append(fs.params, variable{name: g.fresh("a"), t: g.pickType()})
	}
	fs.results = []typ{[]typ{tInt, tInt, tStr, tBool}[g.r.Intn(4)]}
	if g.r.Intn(4) == 0 {
		fs.results = append(fs.results, []typ{tInt, tStr}[g.r.Intn(2)])
	}
	var ps []string
	for _, p := range fs.params {
		ps = append(ps, p.name+" "+string(p.t))
	}
	var rs []string
	for _, t := range fs.results {
		rs = append(rs, string(t))
	}
	res := strings.Join(rs, ", ")
	if len(rs) > 1 {
		res = "(" + res + ")"
	}
	g.line("func %s(%s) %s {", fs.name, strings.Join(ps, ", "), res)
	g.scopes = [][]variable{nil}
	for _, p := range fs.params {
		g.declare(p)
	}
	g.inFunc = &fs
	g.ind++
	g.depth = 1
	g.budget = 4 + g.r.Intn(8)
	for g.budget > 0 {
		g.stmt()
	}
	g.ret()
	g.ind--
	g.depth = 0
	g.inFunc = nil
	g.line("}")
	g.line("")
	g.funcs = append(g.funcs, fs)
}

const prelude = `package main

import "fmt"

type P struct{ X, Y int }

func (p P) Sum() int { return p.X + p.Y }

func (p *P) Inc(d int) { p.X += d; p.Y -= d }

// results of interpreted calls used by the define-call-captured construct
func mkP(a int) (P, bool) { return P{a, a * 2}, a%2 == 0 }

func mkA(a int) ([3]int, string) { return [3]int{a, a + 1, a * a}, fmt.Sprint("s", a) }

func mkP1(a int) P { return P{a, -a} }

func mkI(a int) (string, int) { return fmt.Sprint("i", a), a * 3 }

// sb prints its tag: which conditions of a case list are evaluated, and in which order
func sb(tag string, b bool) bool { fmt.Println(tag); return b }

func si(tag string, v int) int { fmt.Println(tag); return v }

// named results assigned before a panic, and changed by a deferred closure (construct named-result-recover)
func nrP(a int) (r int) {
	r = a * 2
	if a%2 == 0 {
		panic("nrP")
	}
	r++
	return
}

func nrQ(a int) (r int, s string) {
	r, s = a, "s"
	defer func() { r += 100 }()
	if a%3 == 0 {
		panic(a)
	}
	return r + 1, s + "t"
}

// ix maps any integer to a valid index of a non-empty sequence of length n.
func ix(i, n int) int {
	i %= n
	if i < 0 {
		i += n
	}
	return i
}

// nz maps 0 to 1 so that divisions never panic.
func nz(i int) int {
	if i == 0 {
		return 1
	}
	return i
}

// id, fid, toI8, toU16 defeat constant folding so that every generated expression is valid Go.
func id(i int) int         { return i }
func fid(f float64) float64 { return f }
func toI8(i int) int8      { return int8(i) }
func toU16(i int) uint16   { return uint16(i) }

func fact(n int) int {
	if n <= 1 {
		return 1
	}
	return n * fact(n-1)
}

`

// genProgram returns a complete program and the construct counts it contains.
func genProgram(r *rand.Rand, size int, disabled map[string]bool) (string, map[string]int) {
	g := &gen{r: r, feat: map[string]int{}, usedLbl: map[string]bool{}, disabled: disabled}
	g.b.WriteString(prelude)
	nf := g.r.Intn(4)
	if g.off("funcs") {
		nf = 0
	}
	for i := 0; i < nf; i++ {
		g.funcDecl(i)
	}
	g.line("func main() {")
	g.scopes = [][]variable{nil}
	g.ind++
	g.depth = 1
	// data the program carries
	g.line("x, y, z := %d, %d, %d", g.r.Intn(10), g.r.Intn(20)-10, g.r.Intn(100))
	g.line("s := []int{%d, %d, %d}", g.r.Intn(9), g.r.Intn(9), g.r.Intn(9))
	g.line("m := map[string]int{\"k1\": %d}", g.r.Intn(9))
	g.line("p := P{%d, %d}", g.r.Intn(9), g.r.Intn(9))
	g.line("q := &P{%d, %d}", g.r.Intn(9), g.r.Intn(9))
	g.line("arr := [3]int{%d, %d, %d}", g.r.Intn(9), g.r.Intn(9), g.r.Intn(9))
	g.line("str := %q", []string{"hello", "gö", "abc"}[g.r.Intn(3)])
	g.line("b := %v", g.r.Intn(2) == 0)
	g.line("_, _, _, _, _, _, _, _, _, _ = x, y, z, s, m, p, q, arr, str, b")
	for _, v := range []variable{{"x", tInt, false}, {"y", tInt, false}, {"z", tInt, false}, {"s", tSlice, false}, {"m", tMap, false},
		{"p", tP, false}, {"q", tPtrP, false}, {"arr", tArr, false}, {"str", tStr, false}, {"b", tBool, false}} {
		g.declare(v)
	}
	if g.r.Intn(3) == 0 && !g.off("recursion") {
		g.f("recursion")
		g.line("fmt.Println(fact(%d))", g.r.Intn(8))
	}
	g.budget = size
	for g.budget > 0 {
		g.stmt()
	}
	g.printVars()
	g.ind--
	g.line("}")
	return g.b.String(), g.feat
}
