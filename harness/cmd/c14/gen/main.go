// gen writes ../ref_gen.go: for every package that the repository's stdlib directories wrap (the go:generate
// lists of stdlib/stdlib.go and stdlib/stdlib-go1.22.go, plus syscall, unsafe and os/exec), every exported,
// non-generic package-level object of the INSTALLED toolchain, referenced directly as `pkg.Name`:
//
//	functions  reflect.ValueOf(pkg.F)            variables  reflect.ValueOf(&pkg.V)
//	types      reflect.TypeOf((*pkg.T)(nil)).Elem()
//	constants  the exact value go/types computes, and the compiled value (reflect.ValueOf for typed constants,
//	           int64/uint64/float64/string/bool conversions for untyped ones)
//
// together with the release in which GOROOT/api first lists the object. The table is built from go/types scopes,
// independently of the repository's tables and of its extract package.
//
// Run from /verif/harness:  go run ./cmd/c14/gen [-repo /repo]   (host platform; the file is committed)
package main

import (
	"bufio"
	"bytes"
	"flag"
	"fmt"
	"go/build"
	"go/constant"
	"go/format"
	"go/importer"
	"go/token"
	"go/types"
	"math/big"
	"os"
	"path/filepath"
	"regexp"
	"runtime"
	"sort"
	"strconv"
	"strings"
)

var genRe = regexp.MustCompile(`(?m)^//go:generate \S*extract/extract(?: -\S+)? (.*)$`)
var featRe = regexp.MustCompile(`^pkg ([^ ,(]+)(?: \(([a-z0-9-]+)\))?, (const|func|var|type) ([A-Za-z_][A-Za-z0-9_]*)(.*)$`)
var ifaceMethRe = regexp.MustCompile(`^ interface, ([A-Za-z_][A-Za-z0-9_]*)\(`)

// methSince[pkg][type][method] = release whose api file lists the interface method
var methSince = map[string]map[string]map[string]int{}

func pkgList(repo string) []string {
	set := map[string]bool{"syscall": true, "unsafe": true, "os/exec": true}
	for _, f := range []string{"stdlib/stdlib.go", "stdlib/stdlib-go1.22.go"} {
		b, err := os.ReadFile(filepath.Join(repo, f))
		if err != nil {
			panic(err)
		}
		for _, m := range genRe.FindAllStringSubmatch(string(b), -1) {
			for _, p := range strings.Fields(m[1]) {
				set[p] = true
			}
		}
	}
	var out []string
	for p := range set {
		out = append(out, p)
	}
	sort.Strings(out)
	return out
}

// since[pkg][name] = first release whose api file lists the object for this platform
func apiSince() map[string]map[string]int {
	dir := filepath.Join(runtime.GOROOT(), "api")
	except := map[string]bool{}
	if b, err := os.ReadFile(filepath.Join(dir, "except.txt")); err == nil {
		for _, l := range strings.Split(string(b), "\n") {
			except[strings.TrimSpace(l)] = true
		}
	}
	out := map[string]map[string]int{}
	names, _ := filepath.Glob(filepath.Join(dir, "go1*.txt"))
	host := runtime.GOOS + "-" + runtime.GOARCH
	for _, p := range names {
		b := strings.TrimSuffix(filepath.Base(p), ".txt")
		rel := 0
		if b != "go1" {
			v, err := strconv.Atoi(strings.TrimPrefix(b, "go1."))
			if err != nil {
				continue
			}
			rel = v
		}
		f, err := os.Open(p)
		if err != nil {
			panic(err)
		}
		sc := bufio.NewScanner(f)
		sc.Buffer(make([]byte, 1<<20), 1<<24)
		for sc.Scan() {
			line := strings.TrimSpace(sc.Text())
			if except[line] {
				continue
			}
			if i := strings.Index(line, " #"); i >= 0 {
				line = strings.TrimSpace(line[:i])
			}
			m := featRe.FindStringSubmatch(line)
			if m == nil || (m[2] != "" && m[2] != host) {
				continue
			}
			if out[m[1]] == nil {
				out[m[1]] = map[string]int{}
			}
			if old, ok := out[m[1]][m[4]]; !ok || rel < old {
				out[m[1]][m[4]] = rel
			}
			if m[3] == "type" {
				if mm := ifaceMethRe.FindStringSubmatch(m[5]); mm != nil {
					if methSince[m[1]] == nil {
						methSince[m[1]] = map[string]map[string]int{}
					}
					if methSince[m[1]][m[4]] == nil {
						methSince[m[1]][m[4]] = map[string]int{}
					}
					if old, ok := methSince[m[1]][m[4]][mm[1]]; !ok || rel < old {
						methSince[m[1]][m[4]][mm[1]] = rel
					}
				}
			}
		}
		f.Close()
	}
	return out
}

func exact(v constant.Value) string {
	switch v.Kind() {
	case constant.Int:
		return "int:" + v.ExactString()
	case constant.Float:
		var r *big.Rat
		switch x := constant.Val(v).(type) {
		case *big.Rat:
			r = x
		case *big.Float:
			r, _ = x.Rat(nil)
		}
		if r != nil {
			return "rat:" + r.Num().String() + "/" + r.Denom().String()
		}
	case constant.String:
		return "str:" + constant.StringVal(v)
	case constant.Bool:
		return "bool:" + v.ExactString()
	case constant.Complex:
		return "complex:" + v.ExactString()
	}
	return ""
}

func main() {
	repo := flag.String("repo", "/repo", "repository")
	out := flag.String("o", "cmd/c14/ref_gen.go", "output file")
	flag.Parse()
	build.Default.CgoEnabled = false
	os.Setenv("CGO_ENABLED", "0")
	imp := importer.ForCompiler(token.NewFileSet(), "source", nil)
	since := apiSince()
	var body bytes.Buffer
	var imports []string
	total := 0
	for i, ipath := range pkgList(*repo) {
		var pkg *types.Package
		if ipath == "unsafe" {
			pkg = types.Unsafe
		} else {
			var err error
			pkg, err = imp.Import(ipath)
			if err != nil {
				panic(fmt.Sprintf("%s: %v", ipath, err))
			}
		}
		alias := fmt.Sprintf("p%d", i)
		imports = append(imports, fmt.Sprintf("\t%s %q", alias, ipath))
		fmt.Fprintf(&body, "\t%q: {\n", ipath+"/"+pkg.Name())
		sc := pkg.Scope()
		used := false
		for _, name := range sc.Names() {
			o := sc.Lookup(name)
			if !o.Exported() {
				continue
			}
			sn, listed := since[ipath][name]
			if !listed {
				sn = -1
			}
			q := alias + "." + name
			switch o := o.(type) {
			case *types.Func:
				if s := o.Type().(*types.Signature); s.TypeParams().Len() > 0 {
					continue
				}
				fmt.Fprintf(&body, "\t\t%q: {Kind: \"func\", Since: %d, V: reflect.ValueOf(%s)},\n", name, sn, q)
			case *types.Var:
				fmt.Fprintf(&body, "\t\t%q: {Kind: \"var\", Since: %d, V: reflect.ValueOf(&%s)},\n", name, sn, q)
			case *types.TypeName:
				if t, ok := o.Type().(*types.Named); ok && t.TypeParams().Len() > 0 {
					continue
				}
				iface, sealed := false, false
				var meths []string
				if t, ok := o.Type().Underlying().(*types.Interface); ok {
					if t.NumMethods() == 0 && t.NumEmbeddeds() != 0 {
						continue
					}
					iface = true
					for k := 0; k < t.NumMethods(); k++ {
						if t.Method(k).Exported() {
							mn := t.Method(k).Name()
							meths = append(meths, fmt.Sprintf("%q: %d", mn, methSince[ipath][name][mn]))
						} else {
							sealed = true
						}
					}
				}
				extra := ""
				if iface {
					extra = fmt.Sprintf(", Iface: true, Sealed: %v, Meths: map[string]int{%s}", sealed, strings.Join(meths, ", "))
				}
				fmt.Fprintf(&body, "\t\t%q: {Kind: \"type\", Since: %d, T: reflect.TypeOf((*%s)(nil)).Elem()%s},\n", name, sn, q, extra)
			case *types.Const:
				ex := strconv.Quote(exact(o.Val()))
				if b, ok := o.Type().(*types.Basic); ok && b.Info()&types.IsUntyped != 0 {
					switch o.Val().Kind() {
					case constant.Int:
						extra := ""
						if v, ok := constant.Int64Val(o.Val()); ok {
							_ = v
							extra = fmt.Sprintf("HasI: true, I64: int64(%s), ", q)
						} else if _, ok := constant.Uint64Val(o.Val()); ok {
							extra = fmt.Sprintf("HasU: true, U64: uint64(%s), ", q)
						}
						ck, deft := "int", "int"
						if b.Kind() == types.UntypedRune {
							ck, deft = "rune", "int32"
						}
						if _, fits := constant.Int64Val(o.Val()); !fits {
							deft = "" // does not fit its default type: `x := pkg.C` is not a valid program
						}
						fmt.Fprintf(&body, "\t\t%q: {Kind: \"const\", CK: %q, DefT: %q, Since: %d, Exact: %s, %sHasF: true, F: float64(%s)},\n", name, ck, deft, sn, ex, extra, q)
					case constant.Float:
						fmt.Fprintf(&body, "\t\t%q: {Kind: \"const\", CK: \"float\", DefT: \"float64\", Since: %d, Exact: %s, HasF: true, F: float64(%s)},\n", name, sn, ex, q)
					case constant.String:
						fmt.Fprintf(&body, "\t\t%q: {Kind: \"const\", CK: \"string\", DefT: \"string\", Since: %d, Exact: %s, V: reflect.ValueOf(%s)},\n", name, sn, ex, q)
					case constant.Bool:
						fmt.Fprintf(&body, "\t\t%q: {Kind: \"const\", CK: \"bool\", DefT: \"bool\", Since: %d, Exact: %s, V: reflect.ValueOf(%s)},\n", name, sn, ex, q)
					default:
						fmt.Fprintf(&body, "\t\t%q: {Kind: \"const\", CK: \"complex\", Since: %d, Exact: %s, V: reflect.ValueOf(%s)},\n", name, sn, ex, q)
					}
				} else {
					fmt.Fprintf(&body, "\t\t%q: {Kind: \"const\", CK: \"typed\", Since: %d, Exact: %s, V: reflect.ValueOf(%s)},\n", name, sn, ex, q)
				}
			default:
				continue
			}
			used = true
			total++
		}
		body.WriteString("\t},\n")
		if !used {
			imports[len(imports)-1] = fmt.Sprintf("\t_ %q", ipath)
		}
	}
	var src bytes.Buffer
	fmt.Fprintf(&src, "// Code generated by cmd/c14/gen with %s for %s/%s (%d objects). DO NOT EDIT.\n\n", runtime.Version(), runtime.GOOS, runtime.GOARCH, total)
	src.WriteString("package main\n\nimport (\n\t\"reflect\"\n\n" + strings.Join(imports, "\n") + "\n)\n\n")
	fmt.Fprintf(&src, "const refToolchain = %q\n\n", runtime.Version())
	src.WriteString("// refTable: Symbols key → name → the namesake, referenced directly\nvar refTable = map[string]map[string]refEntry{\n")
	src.Write(body.Bytes())
	src.WriteString("}\n")
	fm, err := format.Source(src.Bytes())
	if err != nil {
		os.WriteFile(*out+".broken", src.Bytes(), 0o644)
		panic(err)
	}
	if err := os.WriteFile(*out, fm, 0o644); err != nil {
		panic(err)
	}
	fmt.Printf("%s: %d objects\n", *out, total)
}
