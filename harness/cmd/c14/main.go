// C14 correspondence harness: every standard-library binding denotes the symbol it is named after.
//
//	impl  = the value actually found in stdlib.Symbols / stdlib/syscall / stdlib/unsafe / stdlib/unrestricted at run
//	        time (reflect: function pointer and runtime.FuncForPC name, variable address, type identity, exact
//	        go/constant value), and what the interpreter computes for `pkg.Name`
//	model = the Lean checkers of Model/Bind.lean (driver-C14) applied to the entry as the extractor PARSED it from the
//	        binding file and to the reference object the extractor built with go/types (lean/…/Generated/C14/host.json)
//	ref   = the namesake obtained independently: ref_gen.go references pkg.Name directly (written by cmd/c14/gen from
//	        go/types scopes) and is compiled into this binary
//
// On every binding: impl vs model (does the parsed table predict what is bound at run time), extractor's reference vs
// compiled reference (spec-vs-ref), impl vs ref (the property). Wrapper structs are exercised behaviourally: every
// method is called with stub fields and must reach exactly the field W<Method>.
package main

import (
	"context"
	"encoding/json"
	"fmt"
	"go/constant"
	"go/token"
	"math/big"
	"os"
	"path/filepath"
	"reflect"
	"runtime"
	"sort"
	"strings"
	"time"

	"github.com/traefik/yaegi/interp"
	"github.com/traefik/yaegi/stdlib"
	ysyscall "github.com/traefik/yaegi/stdlib/syscall"
	"github.com/traefik/yaegi/stdlib/unrestricted"
	yunsafe "github.com/traefik/yaegi/stdlib/unsafe"
	"verif/harness/common"
)

type refEntry struct {
	Kind string
	CK   string
	// default type of an untyped constant as the run time names it ("" when the value does not fit it)
	DefT  string
	Since int
	Exact string
	V     reflect.Value
	T     reflect.Type
	Iface bool
	// an interface with unexported methods: no struct outside its package implements it
	Sealed bool
	// exported methods of an interface → release in which GOROOT/api first lists the method (0 = with the type)
	Meths map[string]int
	HasI  bool
	I64   int64
	HasU  bool
	U64   uint64
	HasF  bool
	F     float64
}

type hostEntry struct {
	SymKey string `json:"symkey"`
	Pkg    string `json:"pkg"`
	File   string `json:"file"`
	Key    string `json:"key"`
	Form   string `json:"form"`
	Qual   string `json:"qual"`
	Sel    string `json:"sel"`
	Tok    string `json:"tok,omitempty"`
	Lit    string `json:"lit,omitempty"`
	Val    string `json:"val,omitempty"`
	RKind  string `json:"rkind"`
	RCK    string `json:"rck,omitempty"`
	RVal   string `json:"rval,omitempty"`
	RSkip  bool   `json:"rskip,omitempty"`
}

type hostFacts struct {
	Tier    string      `json:"tier"`
	Host    string      `json:"host"`
	Go      string      `json:"go"`
	Entries []hostEntry `json:"entries"`
}

// input identifies one binding (replay format of the known findings)
type input struct {
	Table string `json:"table,omitempty"` // stdlib | syscall | unsafe | unrestricted
	Pkg   string `json:"pkg"`             // import path
	Name  string `json:"name"`
	Via   string `json:"via,omitempty"` // table | interp | wrapper | missing | probe386
}

const classRounded = "float-const-rounded"
const classRune = "untyped-rune-as-int"

func tableOf(file string) string {
	switch filepath.ToSlash(filepath.Dir(file)) {
	case "stdlib/syscall":
		return "syscall"
	case "stdlib/unsafe":
		return "unsafe"
	case "stdlib/unrestricted":
		return "unrestricted"
	}
	return "stdlib"
}

func runtimeTable(t string) map[string]map[string]reflect.Value {
	switch t {
	case "syscall":
		return ysyscall.Symbols
	case "unsafe":
		return yunsafe.Symbols
	case "unrestricted":
		return unrestricted.Symbols
	}
	return stdlib.Symbols
}

var tablePkgPath = map[string]string{
	"stdlib":       "github.com/traefik/yaegi/stdlib",
	"syscall":      "github.com/traefik/yaegi/stdlib/syscall",
	"unsafe":       "github.com/traefik/yaegi/stdlib/unsafe",
	"unrestricted": "github.com/traefik/yaegi/stdlib/unrestricted",
}

func exact(v constant.Value) string {
	switch v.Kind() {
	case constant.Int:
		return "int:" + v.ExactString()
	case constant.Float:
		var r *big.Rat
		switch x := constant.Val(v).(type) {
		case *big.Rat:
			r = x
		case *big.Float:
			r, _ = x.Rat(nil)
		}
		if r != nil {
			return "rat:" + r.Num().String() + "/" + r.Denom().String()
		}
	case constant.String:
		return "str:" + constant.StringVal(v)
	case constant.Bool:
		return "bool:" + v.ExactString()
	case constant.Complex:
		return "complex:" + v.ExactString()
	}
	return "unknown"
}

func short(s string) string {
	if len(s) > 160 {
		return s[:160] + "…"
	}
	return s
}

// observe describes what is bound at run time and whether it is the namesake.
//
//	same: the bound value is the namesake object of refTable
//	ident: for functions and types, the declared name as the runtime knows it (to recognise local replacements)
//	specBad: the exact go/types value and the compiled value of the namesake disagree (harness problem)
func observe(v reflect.Value, re refEntry, haveRef bool) (same bool, desc, ident, specBad string) {
	defer func() {
		if r := recover(); r != nil {
			same, desc = false, fmt.Sprintf("panic while observing: %v", r)
		}
	}()
	if !v.IsValid() {
		return false, "invalid", "", ""
	}
	if v.CanAddr() {
		desc = "var " + v.Type().String()
		same = haveRef && re.Kind == "var" && re.V.IsValid() && v.Addr().Pointer() == re.V.Pointer() && v.Type() == re.V.Type().Elem()
		return
	}
	if v.CanInterface() {
		if cv, ok := v.Interface().(constant.Value); ok {
			ex := exact(cv)
			desc = "lit " + ex
			same = haveRef && re.Kind == "const" && ex == re.Exact
			if haveRef && re.Kind == "const" {
				// compiled cross-check of the reference itself
				ref := constant.Make(0)
				okv := false
				switch {
				case re.HasI:
					ref, okv = constant.MakeInt64(re.I64), true
				case re.HasU:
					ref, okv = constant.MakeUint64(re.U64), true
				}
				if okv && "int:"+ref.ExactString() != re.Exact {
					specBad = fmt.Sprintf("go/types says %s, the compiler %s", re.Exact, ref.ExactString())
				}
				if re.HasF && strings.HasPrefix(re.Exact, "rat:") {
					var r big.Rat
					if _, ok := r.SetString(re.Exact[4:]); ok {
						f, _ := r.Float64()
						if f != re.F {
							specBad = fmt.Sprintf("go/types says %s (≈%g), the compiler %g", re.Exact, f, re.F)
						}
					}
				}
				if re.CK == "string" && re.V.IsValid() && "str:"+re.V.String() != re.Exact {
					specBad = fmt.Sprintf("go/types says %q, the compiler %q", re.Exact, re.V.String())
				}
			}
			return
		}
	}
	switch v.Kind() {
	case reflect.Func:
		p := v.Pointer()
		if f := runtime.FuncForPC(p); f != nil {
			ident = f.Name()
		}
		desc = "func " + ident
		same = haveRef && re.Kind == "func" && re.V.IsValid() && re.V.Pointer() == p && re.V.Type() == v.Type()
		return
	case reflect.Ptr:
		if v.IsNil() {
			t := v.Type().Elem()
			ident = t.PkgPath() + "." + t.Name()
			desc = "type " + t.String()
			same = haveRef && re.Kind == "type" && re.T == t
			return
		}
	}
	desc = fmt.Sprintf("value %s %v", v.Type(), short(fmt.Sprint(v.Interface())))
	if haveRef && re.Kind == "const" && re.V.IsValid() && re.V.Type() == v.Type() && re.V.Type().Comparable() {
		same = v.Interface() == re.V.Interface()
		if same && re.Exact != "" && (re.CK == "typed") {
			// typed constants: the compiled value against go/types' exact value
			switch v.Kind() {
			case reflect.Int, reflect.Int8, reflect.Int16, reflect.Int32, reflect.Int64:
				if fmt.Sprintf("int:%d", v.Int()) != re.Exact {
					specBad = fmt.Sprintf("go/types says %s, the compiler %d", re.Exact, v.Int())
				}
			case reflect.Uint, reflect.Uint8, reflect.Uint16, reflect.Uint32, reflect.Uint64, reflect.Uintptr:
				if fmt.Sprintf("int:%d", v.Uint()) != re.Exact {
					specBad = fmt.Sprintf("go/types says %s, the compiler %d", re.Exact, v.Uint())
				}
			case reflect.String:
				if "str:"+v.String() != re.Exact {
					specBad = fmt.Sprintf("go/types says %q, the compiler %q", re.Exact, v.String())
				}
			}
		}
	}
	return
}

func q(s string) string { return common.Q(s) }

func orNone(s string) string {
	if s == "" || strings.HasPrefix(s, "complex:") {
		return "none"
	}
	return s
}

func (he hostEntry) line() string {
	rname := he.Key
	if he.Form == "wrap" {
		rname = strings.TrimPrefix(he.Key, "_")
	}
	rk := he.RKind
	if rk == "" {
		rk = "func"
		rname = "?" // no object of that name in the extractor's reference: never matches
	}
	return "C14 chk " + q(he.Pkg) + " " +
		common.L(q(he.Key), q(he.Form), q(he.Qual), q(he.Sel), q(he.Tok), q(orNone(he.Val))) + " " +
		common.L(q(rname), q(rk), q(he.RCK), q(orNone(he.RVal)), common.B(he.RSkip))
}

func main() {
	run := common.NewRun("C14")
	run.Res.Rule = "cases = every binding of the tables the toolchain selects on this host (stdlib, stdlib/syscall, stdlib/unsafe, stdlib/unrestricted; release of the running toolchain's go1.22 files) as (table, package, name): runtime value vs parsed entry (Lean checkers) vs compiled namesake; every interface wrapper struct called method by method with stub fields; every API object of the release looked up in the runtime tables; a seeded sample of names evaluated inside the interpreter (quick 1500, thorough all). non-trivial = the name has a compiled namesake or is a documented replacement; distinct = distinct (table, package, name, via)"
	defer run.Finish()
	findings, err := common.LoadFindings("C14")
	if err != nil {
		run.Errorf("known findings: %v", err)
	}
	b, err := os.ReadFile(filepath.Join(common.VerifDir(), "lean", "YaegiVerif", "Generated", "C14", "host.json"))
	if err != nil {
		run.Errorf("host facts: %v", err)
		return
	}
	var facts hostFacts
	if err := json.Unmarshal(b, &facts); err != nil {
		run.Errorf("host facts: %v", err)
		return
	}
	if facts.Host != runtime.GOOS+"/"+runtime.GOARCH {
		run.Errorf("host facts are for %s", facts.Host)
		return
	}
	drv, err := common.StartDriver("C14")
	if err != nil {
		run.Errorf("driver: %v", err)
		return
	}
	defer drv.Close()

	entries := facts.Entries
	var only *input
	if run.Replay != "" {
		rb, err := os.ReadFile(run.Replay)
		if err != nil {
			run.Errorf("replay: %v", err)
			return
		}
		var rp struct {
			Input input `json:"input"`
		}
		if err := json.Unmarshal(rb, &rp); err != nil {
			run.Errorf("replay: %v", err)
			return
		}
		only = &rp.Input
	}

	h := &harness{run: run, drv: drv, entries: entries}
	if only == nil {
		for _, f := range findings {
			var in input
			if err := json.Unmarshal(f.Replay, &in); err != nil {
				run.Errorf("finding %s: bad replay: %v", f.ID, err)
				continue
			}
			var fails bool
			var detail string
			if in.Via == "probe386" {
				fails, detail = h.replayProbe(in)
			} else if in.Via == "interp" {
				fails, detail = h.replayInterp(in)
			} else {
				fails, detail = h.replayOne(in)
			}
			run.Res.Known = append(run.Res.Known, common.KnownReplay{ID: f.ID, Status: f.Status, What: f.What, StillFails: fails, Detail: detail})
		}
	}
	h.tables(only)
	if only == nil {
		h.roundingModel()
	}
	if only == nil || only.Via == "wrapper" {
		h.wrappers(only)
	}
	if only == nil || only.Via == "missing" {
		h.completeness(only)
	}
	if only == nil || only.Via == "interp" {
		h.interpreter(only)
	}
	if only == nil || only.Via == "probe386" {
		h.probe386(only)
	}
}

type harness struct {
	run     *common.Run
	drv     *common.Driver
	entries []hostEntry
}

func lookupRef(he hostEntry) (refEntry, bool) {
	name := he.Key
	if he.Form == "wrap" {
		name = strings.TrimPrefix(name, "_")
	}
	re, ok := refTable[he.SymKey][name]
	return re, ok
}

type verdict struct {
	implKind  string // namesake | replacement | other | absent
	modelKind string
	desc      string
	class     string
	specBad   string
	refDesc   string
}

// judge compares one binding three ways.
func (h *harness) judge(he hostEntry, ans map[string]string) verdict {
	var vd verdict
	tbl := tableOf(he.File)
	re, haveRef := lookupRef(he)
	if haveRef {
		vd.refDesc = re.Kind
		if re.Kind == "const" {
			vd.refDesc += " " + re.CK + " " + short(re.Exact)
		}
	} else {
		vd.refDesc = "no such object"
	}
	// model
	ok := ans["n"] == "1" && ans["f"] == "1" && ans["v"] == "1"
	switch {
	case ok && ans["r"] == "1":
		vd.modelKind = "replacement"
	case ok && ans["x"] == "1":
		vd.modelKind = "namesake"
	case ok:
		vd.modelKind = "rounded" // the literal fixConst emits for the namesake's value, which is not that value
	default:
		vd.modelKind = "other"
	}
	if ans["c"] == "1" {
		vd.class = classRounded
	}
	// implementation
	v, present := runtimeTable(tbl)[he.SymKey][he.Key]
	if !present {
		vd.implKind, vd.desc = "absent", "no such key at run time"
		return vd
	}
	if he.Form == "wrap" {
		// `_X`: nil pointer to the local wrapper struct of interface X
		same, desc, ident, _ := observe(v, refEntry{}, false)
		_ = same
		vd.desc = desc
		want := tablePkgPath[tbl] + "." + he.Sel
		if haveRef && re.Kind == "type" && re.Iface && ident == want && v.Kind() == reflect.Ptr && v.Type().Elem().Kind() == reflect.Struct {
			vd.implKind = "namesake"
		} else {
			vd.implKind = "other"
		}
		return vd
	}
	same, desc, ident, specBad := observe(v, re, haveRef)
	vd.desc, vd.specBad = desc, specBad
	switch {
	case same:
		vd.implKind = "namesake"
	case he.Qual == "" && he.Sel != "" && isLocal(ident, tablePkgPath[tbl], he.Sel):
		vd.implKind = "replacement"
	case haveRef && re.Kind == "const" && strings.HasPrefix(desc, "lit ") && strings.HasPrefix(re.Exact, "rat:") && desc == "lit "+fixConstReplica(re.Exact):
		vd.implKind = "rounded" // exactly what extract.go fixConst yields for the exact value (math/big replica)
	default:
		vd.implKind = "other"
	}
	return vd
}

// fixConstReplica redoes extract.go fixConst on an exact "rat:n/d" value with math/big itself: SetRat into a
// big.Float of precision 0 (→ max(bitlen n, bitlen d, 64) bits), Text('g', prec), MakeFromLiteral.
func fixConstReplica(ex string) string {
	r, ok := new(big.Rat).SetString(strings.TrimPrefix(ex, "rat:"))
	if !ok {
		return "?"
	}
	f := new(big.Float).SetRat(r)
	return exact(constant.MakeFromLiteral(f.Text('g', int(f.Prec())), token.FLOAT, 0))
}

// isLocal: the runtime name of a function or type declared in the binding package itself under `sel`
// (a function literal bound in an init function is `<pkg>.init.funcN`).
func isLocal(ident, pkgPath, sel string) bool {
	if sel == "<funclit>" {
		return strings.HasPrefix(ident, pkgPath+".init.") && strings.Contains(ident[len(pkgPath):], "func")
	}
	return ident == pkgPath+"."+sel
}

func (h *harness) checkEntries(es []hostEntry, record bool) (fails []string) {
	lines := make([]string, len(es))
	for i, he := range es {
		lines[i] = he.line()
	}
	answers, err := h.drv.AskAll(lines)
	if err != nil {
		h.run.Errorf("driver: %v", err)
		return
	}
	for i, he := range es {
		ans := common.Fields(answers[i])
		if ans["n"] == "" {
			h.run.Errorf("driver answered %q to %q", answers[i], lines[i])
			continue
		}
		vd := h.judge(he, ans)
		in := input{Table: tableOf(he.File), Pkg: he.Pkg, Name: he.Key, Via: "table"}
		propertyHolds := vd.implKind == "namesake" || (vd.implKind == "replacement" && ans["r"] == "1")
		if !propertyHolds {
			fails = append(fails, fmt.Sprintf("%s.%s: bound %s, namesake %s", he.Pkg, he.Key, short(vd.desc), vd.refDesc))
		}
		if !record {
			continue
		}
		re, haveRef := lookupRef(he)
		h.run.Count(fmt.Sprintf("%s %s %s table", in.Table, in.Pkg, in.Name), haveRef || vd.modelKind == "replacement")
		h.run.Hit("table:" + in.Table)
		h.run.Hit("form:" + he.Form)
		h.run.Hit("impl:" + vd.implKind)
		if vd.class != "" {
			h.run.Hit("class:" + vd.class)
		}
		if he.Key == "Pi" || he.Key == "Exit" || he.Key == "Chown" {
			h.run.Sample(map[string]interface{}{"input": in, "parsed": he.Form + " " + he.Qual + "." + he.Sel + " " + short(he.Lit), "impl": vd.implKind + ": " + short(vd.desc),
				"model": vd.modelKind, "ref": vd.refDesc}, 8)
		}
		if vd.implKind != vd.modelKind {
			h.run.Disagree(common.Disagreement{Kind: "impl-vs-model", Input: in, Impl: vd.implKind + ": " + short(vd.desc), Model: vd.modelKind + " " + answers[i], Ref: vd.refDesc})
		}
		// extractor's reference against the compiled one
		if haveRef {
			rv := he.RVal
			bad := he.RKind != re.Kind || (re.Kind == "const" && (he.RCK != re.CK || rv != re.Exact))
			if bad {
				h.run.Disagree(common.Disagreement{Kind: "spec-vs-ref", Input: in, Spec: he.RKind + " " + he.RCK + " " + short(rv), Ref: re.Kind + " " + re.CK + " " + short(re.Exact)})
			}
			if vd.specBad != "" {
				h.run.Disagree(common.Disagreement{Kind: "spec-vs-ref", Input: in, Spec: vd.specBad, Ref: "compiled value", Note: "go/types and the compiler disagree on the namesake"})
			}
		} else if he.RKind != "" && he.RKind != "builtin" {
			h.run.Disagree(common.Disagreement{Kind: "spec-vs-ref", Input: in, Spec: he.RKind, Ref: "no compiled namesake", Note: "object known to the extractor's reference only"})
		}
		if !propertyHolds {
			cls := vd.class
			if cls == classRounded && vd.implKind != "rounded" {
				// the class explains only the value fixConst yields for the exact constant, nothing else
				cls = ""
			}
			d := common.Disagreement{Kind: "impl-vs-ref", Input: in, Impl: vd.implKind + ": " + short(vd.desc), Model: vd.modelKind, Ref: vd.refDesc, Finding: cls}
			if vd.implKind != vd.modelKind {
				d.Finding, d.Note = "", "differs from the namesake and from what the parsed table predicts"
			}
			h.run.Disagree(d)
		}
	}
	return
}

// roundingModel validates the Lean model of fixConst (`asBuilt`, g-side) against math/big (reference) on every
// floating-point constant of the compiled reference table and on seeded random fractions.
func (h *harness) roundingModel() {
	var vals []string
	for _, names := range refTable {
		for _, re := range names {
			if re.Kind == "const" && strings.HasPrefix(re.Exact, "rat:") && !strings.HasPrefix(re.Exact, "rat:-") && !strings.HasPrefix(re.Exact, "rat:0/") {
				vals = append(vals, re.Exact)
			}
		}
	}
	sort.Strings(vals)
	n := 300
	if h.run.Thorough() {
		n = 3000
	}
	for i := 0; i < n; i++ {
		nb, db := 1+h.run.Rng.Intn(300), 1+h.run.Rng.Intn(300)
		num := new(big.Int).Rand(h.run.Rng, new(big.Int).Lsh(big.NewInt(1), uint(nb)))
		den := new(big.Int).Rand(h.run.Rng, new(big.Int).Lsh(big.NewInt(1), uint(db)))
		if i%3 == 0 { // decimal fractions, as source literals are
			den = new(big.Int).Exp(big.NewInt(10), big.NewInt(int64(h.run.Rng.Intn(80))), nil)
		}
		if num.Sign() == 0 || den.Sign() == 0 {
			continue
		}
		r := new(big.Rat).SetFrac(num, den)
		vals = append(vals, "rat:"+r.Num().String()+"/"+r.Denom().String())
	}
	lines := make([]string, len(vals))
	for i, v := range vals {
		lines[i] = "C14 round " + q(v)
	}
	answers, err := h.drv.AskAll(lines)
	if err != nil {
		h.run.Errorf("driver: %v", err)
		return
	}
	for i, v := range vals {
		want := fixConstReplica(v)
		got := common.Fields(answers[i])["a"]
		h.run.Count("round "+v, true)
		if want == v {
			h.run.Hit("round:exact")
		} else {
			h.run.Hit("round:inexact")
		}
		if got != want {
			h.run.Disagree(common.Disagreement{Kind: "spec-vs-ref", Input: map[string]string{"value": v}, Spec: short(got), Ref: short(want), Note: "Lean asBuilt against math/big SetRat+Text+MakeFromLiteral"})
		}
	}
}

func (h *harness) find(in input) []hostEntry {
	var out []hostEntry
	for _, he := range h.entries {
		if he.Pkg == in.Pkg && he.Key == in.Name && (in.Table == "" || in.Table == tableOf(he.File)) {
			out = append(out, he)
		}
	}
	return out
}

func (h *harness) replayOne(in input) (bool, string) {
	es := h.find(in)
	if len(es) == 0 {
		return false, "no such binding in the host tables"
	}
	fails := h.checkEntries(es, false)
	if len(fails) > 0 {
		return true, short(fails[0])
	}
	return false, "bound to the namesake"
}

func (h *harness) tables(only *input) {
	es := h.entries
	if only != nil {
		if only.Via != "" && only.Via != "table" {
			return
		}
		es = h.find(*only)
	}
	h.checkEntries(es, true)
	if only != nil {
		return
	}
	// keys present at run time that no parsed table has
	parsed := map[string]bool{}
	for _, he := range h.entries {
		parsed[tableOf(he.File)+" "+he.SymKey+" "+he.Key] = true
	}
	for _, t := range []string{"stdlib", "syscall", "unsafe", "unrestricted"} {
		for sk, m := range runtimeTable(t) {
			if strings.HasPrefix(sk, "github.com/") || sk == "." {
				continue
			}
			for k := range m {
				if !parsed[t+" "+sk+" "+k] {
					h.run.Disagree(common.Disagreement{Kind: "impl-vs-model", Input: input{Table: t, Pkg: filepath.ToSlash(filepath.Dir(sk)), Name: k, Via: "table"},
						Impl: "key present at run time", Model: "no parsed table has it"})
				}
			}
		}
	}
}

// ---- wrappers: call every method with stub fields ----------------------------------------------------------

// composedWrappers: the hand-written wrappers registered in stdlib.MapTypes (wrapper-composed.go)
func (h *harness) composedWrappers(only *input) {
	for _, ts := range stdlib.MapTypes {
		for _, st := range ts {
			if st.Kind() != reflect.Struct {
				continue
			}
			if _, ok := st.FieldByName("IValue"); !ok {
				continue
			}
			if only != nil && only.Name != st.Name() {
				continue
			}
			in := input{Table: "stdlib", Pkg: "", Name: st.Name(), Via: "wrapper"}
			h.run.Count("stdlib composed "+st.Name()+" wrapper", true)
			h.run.Hit("wrapper-composed")
			if problems := wrapperProblems(st, refEntry{}, false, true); len(problems) > 0 {
				h.run.Disagree(common.Disagreement{Kind: "impl-vs-ref", Input: in, Impl: strings.Join(problems, "; "), Ref: "every method reaches the field of its own name with its own arguments"})
			}
		}
	}
}

func (h *harness) wrappers(only *input) {
	h.composedWrappers(only)
	for _, he := range h.entries {
		if he.Form != "wrap" || (only != nil && (he.Pkg != only.Pkg || he.Key != only.Name)) {
			continue
		}
		tbl := tableOf(he.File)
		v, ok := runtimeTable(tbl)[he.SymKey][he.Key]
		if !ok || v.Kind() != reflect.Ptr || v.Type().Elem().Kind() != reflect.Struct {
			continue // reported by the table pass
		}
		in := input{Table: tbl, Pkg: he.Pkg, Name: he.Key, Via: "wrapper"}
		st := v.Type().Elem()
		re, haveRef := lookupRef(he)
		problems := wrapperProblems(st, re, haveRef, false)
		h.run.Count(fmt.Sprintf("%s %s %s wrapper", tbl, he.Pkg, he.Key), st.NumMethod() > 0)
		h.run.Hit(fmt.Sprintf("wrapper-methods:%d", min(st.NumMethod(), 8)))
		if len(problems) > 0 {
			h.run.Disagree(common.Disagreement{Kind: "impl-vs-ref", Input: in, Impl: strings.Join(problems, "; "), Ref: "every method reaches the field of its own name with its own arguments"})
		}
	}
}

func wrapperProblems(st reflect.Type, re refEntry, haveRef, composed bool) (problems []string) {
	defer func() {
		if r := recover(); r != nil {
			problems = append(problems, fmt.Sprintf("panic: %v", r))
		}
	}()
	if haveRef && re.Kind == "type" && re.Iface {
		want, newer := 0, 0
		for _, since := range re.Meths {
			if since <= hostRelease {
				want++
			} else {
				newer++
			}
		}
		if !re.Sealed && newer == 0 && !st.Implements(re.T) {
			problems = append(problems, "the struct does not implement "+re.T.String())
		}
		if st.NumMethod() != want {
			problems = append(problems, fmt.Sprintf("%d methods, the interface has %d exported ones in go1.%d", st.NumMethod(), want, hostRelease))
		}
		for i := 0; i < re.T.NumMethod(); i++ {
			im := re.T.Method(i)
			if since, ok := re.Meths[im.Name]; im.PkgPath != "" || !ok || since > hostRelease {
				continue
			}
			if fl, ok := st.FieldByName("W" + im.Name); !ok || fl.Type != im.Type {
				problems = append(problems, fmt.Sprintf("field W%s does not have the type of %s.%s", im.Name, re.T, im.Name))
			}
		}
	} else if !composed {
		problems = append(problems, "no interface of that name")
	}
	if f, ok := st.FieldByName("IValue"); !ok || f.Type.Kind() != reflect.Interface {
		problems = append(problems, "no IValue field")
	}
	for i := 0; i < st.NumMethod(); i++ {
		m := st.Method(i)
		called := ""
		var gotArgs []reflect.Value
		w := reflect.New(st).Elem()
		for j := 0; j < st.NumField(); j++ {
			f := st.Field(j)
			if f.Type.Kind() != reflect.Func {
				continue
			}
			name := f.Name
			ft := f.Type
			w.Field(j).Set(reflect.MakeFunc(ft, func(args []reflect.Value) []reflect.Value {
				called += name + " "
				gotArgs = args
				outs := make([]reflect.Value, ft.NumOut())
				for k := range outs {
					outs[k] = marker(ft.Out(k), k)
				}
				return outs
			}))
		}
		mt := m.Type // func(recv, params…)
		args := []reflect.Value{w}
		for k := 1; k < mt.NumIn(); k++ {
			args = append(args, marker(mt.In(k), k))
		}
		var outs []reflect.Value
		if mt.IsVariadic() {
			outs = m.Func.CallSlice(args)
		} else {
			outs = m.Func.Call(args)
		}
		if strings.TrimSpace(called) != "W"+m.Name {
			problems = append(problems, fmt.Sprintf("%s calls [%s]", m.Name, strings.TrimSpace(called)))
			continue
		}
		if len(gotArgs) != len(args)-1 {
			problems = append(problems, fmt.Sprintf("%s passes %d arguments", m.Name, len(gotArgs)))
			continue
		}
		for k, a := range gotArgs {
			if !sameMarker(a, args[k+1]) {
				problems = append(problems, fmt.Sprintf("%s: argument %d is not passed through", m.Name, k))
			}
		}
		for k, o := range outs {
			if !sameMarker(o, marker(mt.Out(k), k)) {
				problems = append(problems, fmt.Sprintf("%s: result %d is not returned", m.Name, k))
			}
		}
	}
	return problems
}

// marker builds a distinguishable value of a type where that is cheap (numbers, strings, bools, slices), else zero.
func marker(t reflect.Type, k int) reflect.Value {
	v := reflect.New(t).Elem()
	switch t.Kind() {
	case reflect.Int, reflect.Int8, reflect.Int16, reflect.Int32, reflect.Int64:
		v.SetInt(int64(40 + k))
	case reflect.Uint, reflect.Uint8, reflect.Uint16, reflect.Uint32, reflect.Uint64, reflect.Uintptr:
		v.SetUint(uint64(40 + k))
	case reflect.Float32, reflect.Float64:
		v.SetFloat(float64(k) + 0.5)
	case reflect.String:
		v.SetString(fmt.Sprintf("m%d", k))
	case reflect.Bool:
		v.SetBool(k%2 == 1)
	case reflect.Slice:
		v.Set(reflect.MakeSlice(t, k+1, k+1))
	}
	return v
}

func sameMarker(a, b reflect.Value) bool {
	if a.Type() != b.Type() {
		return false
	}
	switch a.Kind() {
	case reflect.Slice:
		return a.Len() == b.Len()
	case reflect.Func, reflect.Map, reflect.Chan, reflect.Ptr, reflect.Interface, reflect.UnsafePointer:
		return a.IsZero() == b.IsZero()
	}
	if a.Type().Comparable() && a.CanInterface() && b.CanInterface() {
		return a.Interface() == b.Interface()
	}
	return true
}

// ---- completeness at run time ----------------------------------------------------------------------------

const hostRelease = 22 // the binding files compiled into this binary are the go1.22 ones

func (h *harness) completeness(only *input) {
	parsed := map[string]bool{}
	for _, he := range h.entries {
		parsed[he.SymKey+" "+he.Key] = true
	}
	for sk, names := range refTable {
		pkg := filepath.ToSlash(filepath.Dir(sk))
		if pkg == "os/exec" {
			continue // deliberately partial (unrestricted.go)
		}
		for name, re := range names {
			if re.Since < 0 || re.Since > hostRelease {
				continue
			}
			if only != nil && (only.Pkg != pkg || only.Name != name) {
				continue
			}
			found := false
			for _, t := range []string{"stdlib", "syscall", "unsafe", "unrestricted"} {
				if _, ok := runtimeTable(t)[sk][name]; ok {
					found = true
				}
			}
			h.run.Count(fmt.Sprintf("- %s %s missing", pkg, name), true)
			h.run.Hit("api-object-looked-up")
			if !found {
				in := input{Pkg: pkg, Name: name, Via: "missing"}
				if parsed[sk+" "+name] {
					h.run.Disagree(common.Disagreement{Kind: "impl-vs-model", Input: in, Impl: "absent at run time", Model: "a parsed table has the key"})
				}
				h.run.Disagree(common.Disagreement{Kind: "impl-vs-ref", Input: in, Impl: "absent from every table at run time",
					Ref: fmt.Sprintf("%s declared by the API since go1.%d", re.Kind, re.Since)})
			}
		}
	}
}

// ---- inside the interpreter ------------------------------------------------------------------------------

type icase struct {
	he   hostEntry
	expr string // Go expression over the import alias p
	want string
}

func interpCase(he hostEntry, re refEntry) (icase, bool) {
	c := icase{he: he}
	n := "p." + he.Key
	switch re.Kind {
	case "const":
		switch {
		case re.CK == "typed" && re.V.IsValid():
			c.expr = fmt.Sprintf(`fmt.Sprintf("%%v %%T", %s, %s)`, n, n)
			c.want = fmt.Sprintf("%v %T", re.V.Interface(), re.V.Interface())
		case (re.CK == "int" || re.CK == "rune") && re.HasI && re.DefT != "":
			// value, and the default type the constant takes in `x := pkg.C`
			c.expr = fmt.Sprintf(`fmt.Sprintf("%%v %%T", int64(%s), %s)`, n, n)
			c.want = fmt.Sprintf("%d %s", re.I64, re.DefT)
		case (re.CK == "int" || re.CK == "rune") && re.HasI:
			c.expr = fmt.Sprintf(`fmt.Sprint(int64(%s))`, n)
			c.want = fmt.Sprint(re.I64)
		case re.CK == "int" && re.HasU:
			c.expr = fmt.Sprintf(`fmt.Sprint(uint64(%s))`, n)
			c.want = fmt.Sprint(re.U64)
		case re.CK == "float" && re.HasF:
			c.expr = fmt.Sprintf(`fmt.Sprintf("%%v %%T", float64(%s), %s)`, n, n)
			c.want = fmt.Sprintf("%v float64", re.F)
		case (re.CK == "string" || re.CK == "bool") && re.V.IsValid():
			c.expr = fmt.Sprintf(`fmt.Sprintf("%%v %%T", %s, %s)`, n, n)
			c.want = fmt.Sprintf("%v %s", re.V.Interface(), re.DefT)
		default:
			return c, false
		}
	case "func":
		c.expr = fmt.Sprintf(`fmt.Sprintf("%%T", %s)`, n)
		c.want = re.V.Type().String()
	case "var":
		c.expr = fmt.Sprintf(`fmt.Sprintf("%%T", &%s)`, n)
		c.want = re.V.Type().String()
	case "type":
		c.expr = fmt.Sprintf(`fmt.Sprintf("%%T", (*%s)(nil))`, n)
		c.want = reflect.PointerTo(re.T).String()
	default:
		return c, false
	}
	return c, true
}

func newInterp() *interp.Interpreter {
	i := interp.New(interp.Options{})
	i.Use(stdlib.Symbols)
	i.Use(ysyscall.Symbols)
	i.Use(yunsafe.Symbols)
	i.Use(unrestricted.Symbols)
	return i
}

// evalBatch evaluates the expressions of one package; a batch that fails is split.
func evalBatch(pkg string, cs []icase) []string {
	out := make([]string, len(cs))
	var try func(lo, hi int)
	try = func(lo, hi int) {
		if lo >= hi {
			return
		}
		var b strings.Builder
		fmt.Fprintf(&b, "package main\nimport (\n\t\"fmt\"\n\tp %q\n)\nfunc R() []string {\n\treturn []string{\n", pkg)
		for _, c := range cs[lo:hi] {
			b.WriteString("\t\t" + c.expr + ",\n")
		}
		b.WriteString("\t}\n}\n")
		res, errs := func() (res []string, errs string) {
			defer func() {
				if r := recover(); r != nil {
					errs = fmt.Sprintf("crash: %v", r)
				}
			}()
			ctx, cancel := context.WithTimeout(context.Background(), 60*time.Second)
			defer cancel()
			i := newInterp()
			if _, err := i.EvalWithContext(ctx, b.String()); err != nil {
				return nil, "error: " + common.FirstLine(err.Error())
			}
			v, err := i.EvalWithContext(ctx, "R()")
			if err != nil {
				return nil, "error: " + common.FirstLine(err.Error())
			}
			if s, ok := v.Interface().([]string); ok {
				return s, ""
			}
			return nil, "error: R() is not a []string"
		}()
		if errs == "" && len(res) == hi-lo {
			copy(out[lo:hi], res)
			return
		}
		if hi-lo == 1 {
			out[lo] = errs
			return
		}
		mid := (lo + hi) / 2
		try(lo, mid)
		try(mid, hi)
	}
	for lo := 0; lo < len(cs); lo += 150 {
		try(lo, min(lo+150, len(cs)))
	}
	return out
}

func (h *harness) replayInterp(in input) (bool, string) {
	for _, he := range h.find(in) {
		re, ok := lookupRef(he)
		if !ok {
			continue
		}
		if c, ok := interpCase(he, re); ok {
			got := evalBatch(he.Pkg, []icase{c})[0]
			if got != c.want {
				return true, fmt.Sprintf("%s inside the interpreter: %s, host: %s", c.expr, short(got), short(c.want))
			}
			return false, "the interpreter agrees with the host"
		}
	}
	return false, "no such binding in the host tables"
}

func (h *harness) interpreter(only *input) {
	var cases []icase
	for _, he := range h.entries {
		if he.Form == "wrap" || tableOf(he.File) == "unsafe" {
			continue
		}
		if only != nil && (he.Pkg != only.Pkg || he.Key != only.Name) {
			continue
		}
		re, ok := lookupRef(he)
		if !ok {
			continue
		}
		if c, ok := interpCase(he, re); ok {
			cases = append(cases, c)
		}
	}
	if only == nil && !h.run.Thorough() && len(cases) > 1500 {
		h.run.Rng.Shuffle(len(cases), func(i, j int) { cases[i], cases[j] = cases[j], cases[i] })
		cases = cases[:1500]
	}
	byPkg := map[string][]icase{}
	for _, c := range cases {
		byPkg[c.he.Pkg] = append(byPkg[c.he.Pkg], c)
	}
	pkgs := make([]string, 0, len(byPkg))
	for p := range byPkg {
		pkgs = append(pkgs, p)
	}
	sort.Strings(pkgs)
	type job struct {
		pkg string
		cs  []icase
		out []string
	}
	jobs := make([]*job, len(pkgs))
	sem := make(chan struct{}, max(2, runtime.NumCPU()/2))
	done := make(chan struct{})
	for i, p := range pkgs {
		jobs[i] = &job{pkg: p, cs: byPkg[p]}
		go func(j *job) {
			sem <- struct{}{}
			j.out = evalBatch(j.pkg, j.cs)
			<-sem
			done <- struct{}{}
		}(jobs[i])
	}
	for range pkgs {
		<-done
	}
	for _, j := range jobs {
		for k, c := range j.cs {
			got := j.out[k]
			in := input{Table: tableOf(c.he.File), Pkg: c.he.Pkg, Name: c.he.Key, Via: "interp"}
			h.run.Count(fmt.Sprintf("%s %s %s interp", in.Table, in.Pkg, in.Name), true)
			h.run.Hit("interp:" + c.he.RKind)
			if c.he.Key == "Pi" || c.he.Key == "MaxInt64" {
				h.run.Sample(map[string]interface{}{"input": in, "expr": c.expr, "interp": got, "host": c.want}, 8)
			}
			if got != c.want {
				h.run.Hit("interp-differs")
				h.run.Disagree(common.Disagreement{Kind: "impl-vs-ref", Input: in, Impl: short(got), Ref: short(c.want), Finding: interpClass(c, got),
					Note: "value of " + c.expr + " inside the interpreter against the host"})
			}
		}
	}
}

// interpClass: class label (a predicate of the input: the kind of the namesake) of a known divergence; it explains
// the difference only if the table holds what the model of the unchanged code predicts (an INT literal of the
// exact value) and the interpreter shows exactly the loss of the rune kind.
func interpClass(c icase, got string) string {
	if c.he.RCK == "rune" && c.he.Form == "lit" && c.he.Tok == "INT" && c.he.Val == c.he.RVal &&
		got == strings.TrimSuffix(c.want, "int32")+"int" {
		return classRune
	}
	return ""
}
