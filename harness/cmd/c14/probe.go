package main

// probe386: the platform-independent tables on a 32-bit platform. A small program is built for GOARCH=386 against
// the repository (the host kernel runs 386 binaries), reads the shipped tables and asks the interpreter, and prints
// next to each value what the constant is worth in that very process.

import (
	"fmt"
	"os"
	"os/exec"
	"path/filepath"
	"strings"
	"time"

	"verif/harness/common"
)

const classFrozen = "platform-frozen-const"

// frozenClass: the untyped constants of platform-independent packages whose value depends on the platform (the
// class label is a predicate of the input name)
var frozenClass = map[string]bool{
	"math.MaxInt": true, "math.MinInt": true, "math.MaxUint": true, "math/bits.UintSize": true, "strconv.IntSize": true,
	"os.DevNull": true, "os.PathSeparator": true, "os.PathListSeparator": true,
	"path/filepath.Separator": true, "path/filepath.ListSeparator": true,
}

const probeSrc = `package main

import (
	"fmt"
	"go/constant"
	"math"
	"math/bits"
	"os"
	"path/filepath"
	"strconv"

	"github.com/traefik/yaegi/interp"
	"github.com/traefik/yaegi/stdlib"
)

type probe struct {
	pkg, name, expr string
	host            string
}

func main() {
	probes := []probe{
		{"math", "MaxInt", "int64(p.MaxInt)", fmt.Sprint(int64(math.MaxInt))},
		{"math", "MinInt", "int64(p.MinInt)", fmt.Sprint(int64(math.MinInt))},
		{"math", "MaxUint", "uint64(p.MaxUint)", fmt.Sprint(uint64(math.MaxUint))},
		{"math/bits", "UintSize", "int64(p.UintSize)", fmt.Sprint(int64(bits.UintSize))},
		{"strconv", "IntSize", "int64(p.IntSize)", fmt.Sprint(int64(strconv.IntSize))},
		// controls: platform-independent constants of the same tables
		{"math", "MaxInt64", "int64(p.MaxInt64)", fmt.Sprint(int64(math.MaxInt64))},
		{"math", "MaxInt32", "int64(p.MaxInt32)", fmt.Sprint(int64(math.MaxInt32))},
		{"math", "MaxUint32", "uint64(p.MaxUint32)", fmt.Sprint(uint64(math.MaxUint32))},
		{"os", "PathSeparator", "int64(p.PathSeparator)", fmt.Sprint(int64(os.PathSeparator))},
		{"os", "DevNull", "p.DevNull", fmt.Sprint(os.DevNull)},
		{"path/filepath", "Separator", "int64(p.Separator)", fmt.Sprint(int64(filepath.Separator))},
	}
	for _, pr := range probes {
		sym := "absent"
		if v, ok := stdlib.Symbols[pr.pkg+"/"+filepath.Base(pr.pkg)][pr.name]; ok && v.CanInterface() {
			if cv, ok := v.Interface().(constant.Value); ok {
				if cv.Kind() == constant.String {
					sym = constant.StringVal(cv)
				} else {
					sym = cv.ExactString()
				}
			} else {
				sym = "not-a-literal"
			}
		}
		got := func() (out string) {
			defer func() {
				if r := recover(); r != nil {
					out = fmt.Sprintf("crash: %v", r)
				}
			}()
			i := interp.New(interp.Options{})
			i.Use(stdlib.Symbols)
			if _, err := i.Eval("import (\"fmt\"; p \"" + pr.pkg + "\")"); err != nil {
				return "error: " + err.Error()
			}
			v, err := i.Eval("fmt.Sprint(" + pr.expr + ")")
			if err != nil {
				return "error: " + err.Error()
			}
			return v.String()
		}()
		fmt.Printf("PROBE\t%s\t%s\t%s\t%s\t%s\n", pr.pkg, pr.name, sym, got, pr.host)
	}
}
`

type probeRow struct {
	Pkg, Name, Sym, Interp, Host string
}

// runProbe builds and runs the probe for GOARCH=386; err != nil means the probe could not be run here.
func runProbe() ([]probeRow, error) {
	repo := os.Getenv("VERIF_REPO")
	if repo == "" {
		repo = "/repo"
	}
	repo, _ = filepath.Abs(repo)
	dir, err := os.MkdirTemp("", "verif-c14-probe-")
	if err != nil {
		return nil, err
	}
	defer os.RemoveAll(dir)
	gomod := "module probe\n\ngo 1.21\n\nrequire github.com/traefik/yaegi v0.0.0\n\nreplace github.com/traefik/yaegi => " + repo + "\n"
	if err := os.WriteFile(filepath.Join(dir, "go.mod"), []byte(gomod), 0o644); err != nil {
		return nil, err
	}
	if b, err := os.ReadFile(filepath.Join(repo, "go.sum")); err == nil {
		os.WriteFile(filepath.Join(dir, "go.sum"), b, 0o644)
	}
	if err := os.WriteFile(filepath.Join(dir, "main.go"), []byte(probeSrc), 0o644); err != nil {
		return nil, err
	}
	env := append(os.Environ(), "GOARCH=386", "GOOS=linux", "CGO_ENABLED=0", "GOFLAGS=-mod=mod", "GOPROXY=off", "GOSUMDB=off", "GOTOOLCHAIN=local")
	build := exec.Command("go", "build", "-o", "probe386", ".")
	build.Dir, build.Env = dir, env
	if out, err := build.CombinedOutput(); err != nil {
		return nil, fmt.Errorf("go build (GOARCH=386): %v: %s", err, common.FirstLine(string(out)))
	}
	cmd := exec.Command(filepath.Join(dir, "probe386"))
	cmd.Dir = dir
	done := make(chan struct{})
	var out []byte
	var rerr error
	go func() { out, rerr = cmd.Output(); close(done) }()
	select {
	case <-done:
	case <-time.After(120 * time.Second):
		cmd.Process.Kill()
		return nil, fmt.Errorf("probe timed out")
	}
	if rerr != nil {
		return nil, fmt.Errorf("probe: %v", rerr)
	}
	var rows []probeRow
	for _, l := range strings.Split(string(out), "\n") {
		f := strings.Split(l, "\t")
		if len(f) == 6 && f[0] == "PROBE" {
			rows = append(rows, probeRow{f[1], f[2], f[3], f[4], f[5]})
		}
	}
	if len(rows) == 0 {
		return nil, fmt.Errorf("probe printed nothing")
	}
	return rows, nil
}

var probeCache []probeRow
var probeErr error
var probeRan bool

func probeRows() ([]probeRow, error) {
	if !probeRan {
		probeCache, probeErr = runProbe()
		probeRan = true
	}
	return probeCache, probeErr
}

// probe386 records the rows as cases; a value that differs from the process's own constant is a failure of the
// property on linux/386 (class platform-frozen-const for the listed names, provided the table holds the literal the
// parsed host table has: the same file is compiled on both platforms).
func (h *harness) probe386(only *input) {
	rows, err := probeRows()
	if err != nil {
		h.run.Hit("probe386:not-run")
		h.run.Res.Extra = map[string]interface{}{"probe386": "not run: " + err.Error()}
		return
	}
	for _, r := range rows {
		if only != nil && (only.Pkg != r.Pkg || only.Name != r.Name) {
			continue
		}
		in := input{Table: "stdlib", Pkg: r.Pkg, Name: r.Name, Via: "probe386"}
		h.run.Count(fmt.Sprintf("stdlib %s %s probe386", r.Pkg, r.Name), true)
		h.run.Hit("probe386:row")
		h.run.Sample(map[string]interface{}{"input": in, "table-on-386": r.Sym, "interp-on-386": r.Interp, "namesake-on-386": r.Host}, 8)
		parsed := ""
		for _, he := range h.find(input{Table: "stdlib", Pkg: r.Pkg, Name: r.Name}) {
			parsed = strings.TrimPrefix(strings.TrimPrefix(he.Val, "int:"), "str:")
		}
		if parsed != r.Sym {
			h.run.Disagree(common.Disagreement{Kind: "impl-vs-model", Input: in, Impl: "table on 386: " + r.Sym, Model: "parsed literal: " + parsed})
		}
		if r.Sym != r.Host || r.Interp != r.Host {
			cls := ""
			if frozenClass[r.Pkg+"."+r.Name] && parsed == r.Sym {
				cls = classFrozen
			}
			h.run.Disagree(common.Disagreement{Kind: "impl-vs-ref", Input: in, Impl: "table " + r.Sym + ", interpreter " + r.Interp, Ref: r.Host, Finding: cls,
				Note: "linux/386: value of the constant in the shipped table and inside the interpreter against the process's own constant"})
		}
	}
}

func (h *harness) replayProbe(in input) (bool, string) {
	rows, err := probeRows()
	if err != nil {
		return false, "probe not run: " + err.Error()
	}
	for _, r := range rows {
		if r.Pkg == in.Pkg && r.Name == in.Name {
			if r.Sym != r.Host || r.Interp != r.Host {
				return true, fmt.Sprintf("linux/386: table %s, interpreter %s, %s.%s = %s", r.Sym, r.Interp, r.Pkg, r.Name, r.Host)
			}
			return false, "agrees on linux/386"
		}
	}
	return false, "not probed"
}
