package main

// The typing fragment of Model/Typecheck.lean and Spec/GoTyping.lean on the Go side: flat types,
// expressions, statements, functions; rendering to Go source and to protocol terms.

import (
	"fmt"
	"strings"
)

// ---- types ----

var basics = []string{"bool", "int", "int8", "int16", "int32", "int64", "uint", "uint8", "uint16", "uint32", "uint64", "uintptr",
	"float32", "float64", "complex64", "complex128", "string"}

// named type catalogue: `type N<i> <under>` with methods M<j>() (value receivers)
type namedT struct {
	ID      int
	Under   string
	Methods []int
}

var namedCat = []namedT{
	{0, "int", []int{0}},
	{1, "int", nil},
	{2, "string", []int{0, 1}},
	{3, "float64", nil},
	{4, "bool", nil},
	{5, "uint8", nil},
}

// struct type catalogue: `type S<i> struct { F0 T0; F1 T1 … }` with methods
type structT struct {
	ID      int
	Fields  []sty
	Methods []int
}

var structCat = []structT{
	{0, []sty{{B: "int"}, {B: "string"}}, []int{0}},
	{1, []sty{{B: "int"}, {B: "string"}}, nil},
	{2, []sty{{B: "float64"}}, []int{0, 1}},
	{3, []sty{{B: "int"}}, []int{0, 8}},
}

// interface catalogue: I0 is the literal `interface{}`; the others are declared `type I<i> interface{…}`
type ifaceT struct {
	ID      int
	Methods []int
}

var ifaceCat = []ifaceT{{0, nil}, {1, []int{0}}, {2, []int{0, 1}}, {3, []int{0, 8}}}

// sty: simple (element-level) type: a basic type or a named basic type
type sty struct {
	B     string // basic name, or underlying of the named type
	Named int    // -1+1 encoding: 0 = not named, k+1 = namedCat[k]
}

func (s sty) named() *namedT {
	if s.Named == 0 {
		return nil
	}
	return &namedCat[s.Named-1]
}

func (s sty) src() string {
	if n := s.named(); n != nil {
		return fmt.Sprintf("N%d", n.ID)
	}
	return s.B
}

// mname: method j is exported (M<j>) when j < 8 and not exported (m<j>) otherwise (Lean: methodExported)
func mname(j int) string {
	if j < 8 {
		return fmt.Sprintf("M%d", j)
	}
	return fmt.Sprintf("m%d", j)
}

func ints(xs []int) string {
	p := make([]string, len(xs))
	for i, x := range xs {
		p[i] = fmt.Sprint(x)
	}
	return "(" + strings.Join(p, " ") + ")"
}

func (s sty) sexp() string {
	if n := s.named(); n != nil {
		return fmt.Sprintf("(named %d %s %s)", n.ID, n.Under, ints(n.Methods))
	}
	return s.B
}

func stys(xs []sty) string {
	p := make([]string, len(xs))
	for i, x := range xs {
		p[i] = x.sexp()
	}
	return "(" + strings.Join(p, " ") + ")"
}

// ty: a type of the fragment
type ty struct {
	K      string // s ptr slice array map chan func struct iface
	S      sty    // K == s; element of ptr slice array chan; value of map
	Key    sty    // map
	N      int    // array length
	Dir    string // chan: both send recv
	Args   []sty  // func
	Rets   []sty  // func
	Struct int    // index in structCat
	Iface  int    // index in ifaceCat
}

func tS(s sty) ty              { return ty{K: "s", S: s} }
func tB(b string) ty           { return ty{K: "s", S: sty{B: b}} }
func tN(k int) ty              { return ty{K: "s", S: sty{B: namedCat[k].Under, Named: k + 1}} }
func tPtr(s sty) ty            { return ty{K: "ptr", S: s} }
func tSlice(s sty) ty          { return ty{K: "slice", S: s} }
func tArr(n int, s sty) ty     { return ty{K: "array", N: n, S: s} }
func tMap(k, v sty) ty         { return ty{K: "map", Key: k, S: v} }
func tChan(d string, s sty) ty { return ty{K: "chan", Dir: d, S: s} }
func tStruct(i int) ty         { return ty{K: "struct", Struct: i} }
func tIface(i int) ty          { return ty{K: "iface", Iface: i} }

func (t ty) src() string {
	switch t.K {
	case "s":
		return t.S.src()
	case "ptr":
		return "*" + t.S.src()
	case "slice":
		return "[]" + t.S.src()
	case "array":
		return fmt.Sprintf("[%d]%s", t.N, t.S.src())
	case "map":
		return "map[" + t.Key.src() + "]" + t.S.src()
	case "chan":
		switch t.Dir {
		case "send":
			return "chan<- " + t.S.src()
		case "recv":
			return "<-chan " + t.S.src()
		}
		return "chan " + t.S.src()
	case "func":
		a := make([]string, len(t.Args))
		for i, x := range t.Args {
			a[i] = x.src()
		}
		r := make([]string, len(t.Rets))
		for i, x := range t.Rets {
			r[i] = x.src()
		}
		s := "func(" + strings.Join(a, ", ") + ")"
		if len(r) == 1 {
			s += " " + r[0]
		} else if len(r) > 1 {
			s += " (" + strings.Join(r, ", ") + ")"
		}
		return s
	case "struct":
		return fmt.Sprintf("S%d", structCat[t.Struct].ID)
	case "iface":
		if t.Iface == 0 {
			return "interface{}"
		}
		return fmt.Sprintf("I%d", ifaceCat[t.Iface].ID)
	}
	return "?"
}

func (t ty) sexp() string {
	switch t.K {
	case "s":
		return t.S.sexp()
	case "ptr", "slice":
		return "(" + t.K + " " + t.S.sexp() + ")"
	case "array":
		return fmt.Sprintf("(array %d %s)", t.N, t.S.sexp())
	case "map":
		return "(map " + t.Key.sexp() + " " + t.S.sexp() + ")"
	case "chan":
		return "(chan " + t.Dir + " " + t.S.sexp() + ")"
	case "func":
		return "(func " + stys(t.Args) + " " + stys(t.Rets) + ")"
	case "struct":
		s := structCat[t.Struct]
		return fmt.Sprintf("(struct %d %s %s)", s.ID, stys(s.Fields), ints(s.Methods))
	case "iface":
		i := ifaceCat[t.Iface]
		return fmt.Sprintf("(iface %d %s)", i.ID, ints(i.Methods))
	}
	return "?"
}

// class of a type for class labels and buckets
func (t ty) class() string {
	switch t.K {
	case "s":
		c := basicClass(t.S.B)
		if t.S.Named != 0 {
			return "named-" + c
		}
		return c
	case "chan":
		return "chan-" + t.Dir
	case "iface":
		if t.Iface == 0 {
			return "iface-empty"
		}
		return "iface"
	}
	return t.K
}

func basicClass(b string) string {
	switch {
	case b == "bool" || b == "string":
		return b
	case strings.HasPrefix(b, "int"):
		return "int"
	case strings.HasPrefix(b, "uint"):
		return "uint"
	case strings.HasPrefix(b, "float"):
		return "float"
	case strings.HasPrefix(b, "complex"):
		return "complex"
	}
	return b
}

// prelude declares every catalogue type (and its methods)
func prelude() string {
	var b strings.Builder
	for _, n := range namedCat {
		fmt.Fprintf(&b, "type N%d %s\n", n.ID, n.Under)
		for _, m := range n.Methods {
			fmt.Fprintf(&b, "func (N%d) %s() {}\n", n.ID, mname(m))
		}
	}
	for _, s := range structCat {
		fmt.Fprintf(&b, "type S%d struct {\n", s.ID)
		for i, f := range s.Fields {
			fmt.Fprintf(&b, "\tF%d %s\n", i, f.src())
		}
		b.WriteString("}\n")
		for _, m := range s.Methods {
			fmt.Fprintf(&b, "func (S%d) %s() {}\n", s.ID, mname(m))
		}
	}
	for _, i := range ifaceCat[1:] {
		fmt.Fprintf(&b, "type I%d interface {\n", i.ID)
		for _, m := range i.Methods {
			fmt.Fprintf(&b, "\t%s()\n", mname(m))
		}
		b.WriteString("}\n")
	}
	return b.String()
}

// ---- expressions ----

type expr struct {
	K    string // var lit nil un recv bin cmp shift call conv index assert
	I    int    // var index (absolute position in the environment), call: function index
	Lit  string // lit kind: int float rune string bool
	V    int64  // lit value (int, rune; float: integral part; bool: 0/1; string: ignored)
	Frac bool   // float literal with a fractional part (.5)
	Op   string
	A, B *expr
	Args []*expr
	T    *ty // conv target, asserted type
}

var unGo = map[string]string{"pos": "+", "neg": "-", "bitnot": "^", "not": "!"}
var binGo = map[string]string{"add": "+", "sub": "-", "mul": "*", "quo": "/", "rem": "%", "and": "&", "or": "|", "xor": "^",
	"andnot": "&^", "land": "&&", "lor": "||"}
var cmpGo = map[string]string{"eq": "==", "ne": "!=", "lt": "<", "le": "<=", "gt": ">", "ge": ">="}
var shGo = map[string]string{"shl": "<<", "shr": ">>"}

func (e *expr) src() string {
	switch e.K {
	case "var":
		return fmt.Sprintf("v%d", e.I)
	case "lit":
		switch e.Lit {
		case "int":
			if e.V < 0 {
				return fmt.Sprintf("(%d)", e.V)
			}
			return fmt.Sprint(e.V)
		case "float":
			f := ".0"
			if e.Frac {
				f = ".5"
			}
			if e.V < 0 {
				return fmt.Sprintf("(%d%s)", e.V, f)
			}
			return fmt.Sprintf("%d%s", e.V, f)
		case "rune":
			return fmt.Sprintf("'\\x%02x'", e.V&0x7f)
		case "string":
			return `"s"`
		case "bool":
			if e.V != 0 {
				return "true"
			}
			return "false"
		}
	case "nil":
		return "nil"
	case "un":
		return "(" + unGo[e.Op] + e.A.src() + ")"
	case "recv":
		return "(<-" + e.A.src() + ")"
	case "bin":
		return "(" + e.A.src() + " " + binGo[e.Op] + " " + e.B.src() + ")"
	case "cmp":
		return "(" + e.A.src() + " " + cmpGo[e.Op] + " " + e.B.src() + ")"
	case "shift":
		return "(" + e.A.src() + " " + shGo[e.Op] + " " + e.B.src() + ")"
	case "call":
		a := make([]string, len(e.Args))
		for i, x := range e.Args {
			a[i] = x.src()
		}
		return fmt.Sprintf("f%d(%s)", e.I, strings.Join(a, ", "))
	case "conv":
		t := e.T.src()
		if strings.ContainsAny(t, "*<( ") || strings.HasPrefix(t, "func") {
			t = "(" + t + ")"
		}
		return t + "(" + e.A.src() + ")"
	case "index":
		return e.A.src() + "[" + e.B.src() + "]"
	case "assert":
		return e.A.src() + ".(" + e.T.src() + ")"
	}
	return "?"
}

// top renders an expression in statement position without the outer parentheses (the interpreter's
// slot shortcuts look at the direct parent of an operator node, so `v = a - b` and `v = (a - b)` differ).
func (e *expr) top() string {
	s := e.src()
	switch e.K {
	case "un", "recv", "bin", "cmp", "shift":
		if len(s) >= 2 && s[0] == '(' && s[len(s)-1] == ')' {
			return s[1 : len(s)-1]
		}
	}
	return s
}

func exprs(xs []*expr) string {
	p := make([]string, len(xs))
	for i, x := range xs {
		p[i] = x.sexp()
	}
	return "(" + strings.Join(p, " ") + ")"
}

func (e *expr) sexp() string {
	switch e.K {
	case "var":
		return fmt.Sprintf("(var %d)", e.I)
	case "lit":
		v := e.V
		if e.Lit == "rune" {
			v &= 0x7f
		}
		f := 0
		if e.Frac {
			f = 1
		}
		return fmt.Sprintf("(lit %s %d %d)", e.Lit, v, f)
	case "nil":
		return "nil"
	case "un":
		return "(un " + e.Op + " " + e.A.sexp() + ")"
	case "recv":
		return "(recv " + e.A.sexp() + ")"
	case "bin", "cmp", "shift":
		return "(" + e.K + " " + e.Op + " " + e.A.sexp() + " " + e.B.sexp() + ")"
	case "call":
		return fmt.Sprintf("(call %d %s)", e.I, exprs(e.Args))
	case "conv":
		return "(conv " + e.T.sexp() + " " + e.A.sexp() + ")"
	case "index":
		return "(index " + e.A.sexp() + " " + e.B.sexp() + ")"
	case "assert":
		return "(assert " + e.T.sexp() + " " + e.A.sexp() + ")"
	}
	return "?"
}

func (e *expr) clone() *expr {
	if e == nil {
		return nil
	}
	c := *e
	c.A, c.B = e.A.clone(), e.B.clone()
	if e.Args != nil {
		c.Args = make([]*expr, len(e.Args))
		for i, a := range e.Args {
			c.Args[i] = a.clone()
		}
	}
	if e.T != nil {
		t := *e.T
		c.T = &t
	}
	return &c
}

// ---- statements ----

type stmt struct {
	K    string // decl declz define defineok assign opassign incdec send call if for ret
	T    *ty    // decl, declz; defineok: asserted type
	I    int    // assign/opassign/incdec: variable index; call: function index
	Op   string // opassign: bin or shift operator; incdec: inc dec
	E    *expr  // decl define assign opassign: value; if for: condition; send: value
	C    *expr  // send: channel
	Args []*expr
	Then []*stmt
	Else []*stmt // nil: no else
}

func (s *stmt) clone() *stmt {
	c := *s
	c.E, c.C = s.E.clone(), s.C.clone()
	if s.T != nil {
		t := *s.T
		c.T = &t
	}
	if s.Args != nil {
		c.Args = make([]*expr, len(s.Args))
		for i, a := range s.Args {
			c.Args[i] = a.clone()
		}
	}
	c.Then, c.Else = cloneBlock(s.Then), cloneBlock(s.Else)
	return &c
}

func cloneBlock(b []*stmt) []*stmt {
	if b == nil {
		return nil
	}
	out := make([]*stmt, len(b))
	for i, s := range b {
		out[i] = s.clone()
	}
	return out
}

// fn is a function of the program; parameters are the first variables of its environment
type fn struct {
	Params []sty
	Rets   []sty
	Body   []*stmt
}

type prog struct {
	Funcs []*fn
	Main  []*stmt
}

func (p *prog) clone() *prog {
	q := &prog{Main: cloneBlock(p.Main)}
	for _, f := range p.Funcs {
		q.Funcs = append(q.Funcs, &fn{Params: append([]sty(nil), f.Params...), Rets: append([]sty(nil), f.Rets...), Body: cloneBlock(f.Body)})
	}
	return q
}

// renderBlock: nv is the number of variables in scope at block entry (variables are numbered by
// their position in the environment, so a variable declared in a nested block reuses the number
// a later sibling declaration gets: Go scoping makes that harmless).
func renderBlock(b *strings.Builder, blk []*stmt, nv int, ind string) {
	for _, s := range blk {
		switch s.K {
		case "decl":
			fmt.Fprintf(b, "%svar v%d %s = %s\n%s_ = v%d\n", ind, nv, s.T.src(), s.E.top(), ind, nv)
			nv++
		case "declz":
			fmt.Fprintf(b, "%svar v%d %s\n%s_ = v%d\n", ind, nv, s.T.src(), ind, nv)
			nv++
		case "define":
			fmt.Fprintf(b, "%sv%d := %s\n%s_ = v%d\n", ind, nv, s.E.top(), ind, nv)
			nv++
		case "defineok":
			fmt.Fprintf(b, "%sv%d, v%d := %s.(%s)\n%s_, _ = v%d, v%d\n", ind, nv, nv+1, s.E.src(), s.T.src(), ind, nv, nv+1)
			nv += 2
		case "assign":
			fmt.Fprintf(b, "%sv%d = %s\n", ind, s.I, s.E.top())
		case "opassign":
			op := binGo[s.Op]
			if op == "" {
				op = shGo[s.Op]
			}
			fmt.Fprintf(b, "%sv%d %s= %s\n", ind, s.I, op, s.E.top())
		case "incdec":
			op := "++"
			if s.Op == "dec" {
				op = "--"
			}
			fmt.Fprintf(b, "%sv%d%s\n", ind, s.I, op)
		case "send":
			fmt.Fprintf(b, "%s%s <- %s\n", ind, s.C.src(), s.E.top())
		case "call":
			a := make([]string, len(s.Args))
			for i, x := range s.Args {
				a[i] = x.src()
			}
			fmt.Fprintf(b, "%sf%d(%s)\n", ind, s.I, strings.Join(a, ", "))
		case "if":
			fmt.Fprintf(b, "%sif %s {\n", ind, s.E.top())
			renderBlock(b, s.Then, nv, ind+"\t")
			if s.Else != nil {
				fmt.Fprintf(b, "%s} else {\n", ind)
				renderBlock(b, s.Else, nv, ind+"\t")
			}
			fmt.Fprintf(b, "%s}\n", ind)
		case "for":
			fmt.Fprintf(b, "%sfor %s {\n", ind, s.E.top())
			renderBlock(b, s.Then, nv, ind+"\t")
			fmt.Fprintf(b, "%s}\n", ind)
		case "ret":
			a := make([]string, len(s.Args))
			for i, x := range s.Args {
				a[i] = x.top()
			}
			if len(a) == 0 {
				fmt.Fprintf(b, "%sreturn\n", ind)
			} else {
				fmt.Fprintf(b, "%sreturn %s\n", ind, strings.Join(a, ", "))
			}
		}
	}
}

func blockSexp(blk []*stmt) string {
	p := make([]string, len(blk))
	for i, s := range blk {
		p[i] = s.sexp()
	}
	return "(" + strings.Join(p, " ") + ")"
}

func (s *stmt) sexp() string {
	switch s.K {
	case "decl":
		return "(decl " + s.T.sexp() + " " + s.E.sexp() + ")"
	case "declz":
		return "(declz " + s.T.sexp() + ")"
	case "define":
		return "(define " + s.E.sexp() + ")"
	case "defineok":
		return "(defineok " + s.T.sexp() + " " + s.E.sexp() + ")"
	case "assign":
		return fmt.Sprintf("(assign %d %s)", s.I, s.E.sexp())
	case "opassign":
		return fmt.Sprintf("(opassign %s %d %s)", s.Op, s.I, s.E.sexp())
	case "incdec":
		return fmt.Sprintf("(incdec %s %d)", s.Op, s.I)
	case "send":
		return "(send " + s.C.sexp() + " " + s.E.sexp() + ")"
	case "call":
		return fmt.Sprintf("(callstmt %d %s)", s.I, exprs(s.Args))
	case "if":
		if s.Else == nil {
			return "(if " + s.E.sexp() + " " + blockSexp(s.Then) + ")"
		}
		return "(ifelse " + s.E.sexp() + " " + blockSexp(s.Then) + " " + blockSexp(s.Else) + ")"
	case "for":
		return "(for " + s.E.sexp() + " " + blockSexp(s.Then) + ")"
	case "ret":
		return "(ret " + exprs(s.Args) + ")"
	}
	return "?"
}

// source renders a complete program: the marker is the first (and only) statement of main.
func (p *prog) source() string {
	var b strings.Builder
	b.WriteString("package main\n\nimport \"fmt\"\n\n")
	b.WriteString(prelude())
	for i, f := range p.Funcs {
		ps := make([]string, len(f.Params))
		for j, t := range f.Params {
			ps[j] = fmt.Sprintf("v%d %s", j, t.src())
		}
		rs := make([]string, len(f.Rets))
		for j, t := range f.Rets {
			rs[j] = t.src()
		}
		r := ""
		if len(rs) == 1 {
			r = " " + rs[0]
		} else if len(rs) > 1 {
			r = " (" + strings.Join(rs, ", ") + ")"
		}
		fmt.Fprintf(&b, "func f%d(%s)%s {\n", i, strings.Join(ps, ", "), r)
		for j := range f.Params {
			fmt.Fprintf(&b, "\t_ = v%d\n", j)
		}
		renderBlock(&b, f.Body, len(f.Params), "\t")
		b.WriteString("}\n")
	}
	// every phase of an execution is visible: package variable initialisation, init, main. The
	// generated statements live in a function that is compiled but never called, so that accepted
	// programs have no run-time behaviour of their own (nil channels, loops).
	b.WriteString("var g0 = ginit()\n\nfunc ginit() int {\n\tfmt.Println(\"GVAR\")\n\treturn 1\n}\n\nfunc init() {\n\tfmt.Println(\"INIT\")\n}\n\n")
	b.WriteString("func main() {\n\tfmt.Println(\"MARK\")\n}\n\nfunc body() {\n")
	renderBlock(&b, p.Main, 0, "\t")
	b.WriteString("}\n")
	return b.String()
}

// line renders the protocol line: C12 prog ((params rets body)…) main
func (p *prog) line() string {
	fs := make([]string, len(p.Funcs))
	for i, f := range p.Funcs {
		fs[i] = "(" + stys(f.Params) + " " + stys(f.Rets) + " " + blockSexp(f.Body) + ")"
	}
	return "C12 prog (" + strings.Join(fs, " ") + ") " + blockSexp(p.Main)
}
