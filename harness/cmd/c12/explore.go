package main

// Development aid (VERIF_C12_EXPLORE=1): run every probe against the interpreter and go/types
// and print the verdict pairs grouped by class. Not part of the check.

import (
	"fmt"
	"math/rand"
	"os"
	"runtime"
	"sort"
	"strings"
	"sync"

	"verif/harness/common"
)

func explore() {
	full := os.Getenv("VERIF_C12_EXPLORE") == "full"
	ps := enumProbes(rand.New(rand.NewSource(1)), full, 0.15)
	filter := os.Getenv("VERIF_C12_CTX")
	type res struct{ impl, ref, detail, rdetail string }
	rs := make([]res, len(ps))
	var wg sync.WaitGroup
	sem := make(chan struct{}, runtime.NumCPU())
	for i := range ps {
		if filter != "" && !strings.HasPrefix(ps[i].Class, filter) {
			continue
		}
		wg.Add(1)
		sem <- struct{}{}
		go func(i int) {
			defer wg.Done()
			defer func() { <-sem }()
			src := ps[i].P.source()
			v, _, d := compileOnly(src)
			r, errs := refCheck(src)
			rd := ""
			if len(errs) > 0 {
				rd = errs[0]
			}
			rs[i] = res{v, r, d, rd}
		}(i)
	}
	wg.Wait()
	// model and spec verdicts
	drv, err := common.StartDriver("C12")
	if err != nil {
		fmt.Println("driver:", err)
		return
	}
	defer drv.Close()
	lines := make([]string, len(ps))
	for i := range ps {
		lines[i] = ps[i].P.line()
	}
	answers, err := drv.AskAll(lines)
	if err != nil {
		fmt.Println("driver:", err)
		return
	}
	mode := os.Getenv("VERIF_C12_MODE") // "" = impl vs ref, "model" = impl vs y, "spec" = ref vs g
	type agg struct {
		n      int
		sample string
	}
	m := map[string]*agg{}
	for i, p := range ps {
		if rs[i].impl == "" {
			continue
		}
		a := common.Fields(answers[i])
		k := fmt.Sprintf("%-70s impl=%-5s ref=%-5s", p.Class, rs[i].impl, rs[i].ref)
		switch mode {
		case "model":
			if a["y"] == "abstain" || a["y"] == rs[i].impl {
				continue
			}
			k = fmt.Sprintf("%-70s impl=%-5s y=%-5s", p.Class, rs[i].impl, a["y"])
		case "spec":
			if a["g"] == "abstain" || a["g"] == rs[i].ref {
				continue
			}
			k = fmt.Sprintf("%-70s ref=%-5s g=%-5s", p.Class, rs[i].ref, a["g"])
		case "lax":
			if a["lax"] == "" || a["lax"] == "none" {
				continue
			}
			k = fmt.Sprintf("%-28s %-60s y=%-7s g=%-7s impl=%-5s ref=%-5s", a["lax"], p.Class, a["y"], a["g"], rs[i].impl, rs[i].ref)
		case "abstain":
			if a["y"] != "abstain" && a["g"] != "abstain" {
				continue
			}
			k = fmt.Sprintf("%-70s y=%-7s g=%-7s impl=%-5s ref=%-5s", p.Class, a["y"], a["g"], rs[i].impl, rs[i].ref)
		}
		if m[k] == nil {
			body := p.P.source()
			if j := strings.Index(body, "func body()"); j >= 0 {
				body = body[j:]
			}
			m[k] = &agg{sample: strings.ReplaceAll(strings.ReplaceAll(body, "\n", " ; "), "\t", "") + " || " + rs[i].detail + " || " + rs[i].rdetail}
		}
		m[k].n++
	}
	var keys []string
	for k := range m {
		keys = append(keys, k)
	}
	sort.Strings(keys)
	onlyDiff := os.Getenv("VERIF_C12_ALL") == ""
	for _, k := range keys {
		if mode == "" && onlyDiff && (strings.Contains(k, "impl=ok    ref=ok") || strings.Contains(k, "impl=err   ref=err")) {
			continue
		}
		fmt.Printf("%s n=%d  %s\n", k, m[k].n, m[k].sample)
	}
	fmt.Println("probes:", len(ps))
}
