package main

// (a) the operator × reflect-kind table stream and (e) the pipeline stream: entry points other than
// Eval(string), and programs that import a source package (whose initialisation runs while the
// importer is still being compiled).

import (
	"bytes"
	"fmt"
	"strings"
	"testing/fstest"

	"github.com/traefik/yaegi/interp"
	"github.com/traefik/yaegi/stdlib"
	"verif/harness/common"
)

// one type of the fragment per reflect kind (unsafe.Pointer is not reachable in restricted mode)
func kindTypes() map[string]ty {
	m := map[string]ty{}
	for _, b := range basics {
		m[b] = tB(b)
	}
	i := sty{B: "int"}
	m["array"] = tArr(3, i)
	m["chan"] = tChan("both", i)
	m["func"] = ty{K: "func", Args: []sty{i}, Rets: []sty{i}}
	m["interface"] = tIface(0)
	m["map"] = tMap(sty{B: "string"}, i)
	m["ptr"] = tPtr(i)
	m["slice"] = tSlice(i)
	m["struct"] = tStruct(0)
	return m
}

var tableOps = []string{"inc", "dec", "pos", "neg", "bitnot", "not", "add", "sub", "mul", "quo", "rem", "and", "or", "xor", "andnot", "land", "lor"}

func tableProg(op string, t ty) *prog {
	a := operand{t: &t}
	switch op {
	case "inc", "dec":
		return mk([]operand{a}, func(es []*expr, nv int) []*stmt { return []*stmt{{K: "incdec", Op: op, I: 0}} })
	case "pos", "neg", "bitnot", "not":
		return mk([]operand{a}, func(es []*expr, nv int) []*stmt {
			return []*stmt{{K: "define", E: &expr{K: "un", Op: op, A: es[0]}}}
		})
	}
	return mk([]operand{a}, func(es []*expr, nv int) []*stmt {
		return []*stmt{{K: "define", E: &expr{K: "bin", Op: op, A: es[0], B: es[0].clone()}}}
	})
}

func tableCases() []caseT {
	var out []caseT
	kt := kindTypes()
	for _, op := range tableOps {
		for k, t := range kt {
			p := tableProg(op, t)
			out = append(out, caseT{Stream: "table", Class: "table:" + op + ":" + k, Src: p.source(), Line: p.line()})
		}
	}
	return out
}

// tableCheck: the table decision of the Lean side (`op` query: y = predY over the regenerated tables,
// g = Spec.definedOn) against the real decision and go/types, for every operator × kind. && and ||
// never reach the table in the unchanged code (fact landLorChecked): their entries are compared with
// the specification only.
func tableCheck(h *harness) {
	kt := kindTypes()
	var lines []string
	type key struct{ op, k string }
	var keys []key
	for _, op := range tableOps {
		for k := range kt {
			lines = append(lines, "C12 op "+op+" "+k)
			keys = append(keys, key{op, k})
		}
	}
	answers, err := h.drv.AskAll(lines)
	if err != nil {
		h.run.Errorf("driver: %v", err)
		return
	}
	for i, kk := range keys {
		a := common.Fields(answers[i])
		p := tableProg(kk.op, kt[kk.k])
		src := p.source()
		iv, _, _ := compileOnly(src)
		rv, _ := refCheck(src)
		c := caseT{Stream: "table", Class: "table-entry:" + kk.op + ":" + kk.k, Src: src, Line: lines[i]}
		h.run.Count("entry "+lines[i], false)
		h.run.Hit("table-entry:y=" + a["y"] + ":g=" + a["g"])
		if (a["g"] == "1") != (rv == "ok") {
			h.run.Disagree(common.Disagreement{Kind: "spec-vs-ref", Input: c, Spec: "definedOn=" + a["g"], Ref: rv})
		}
		if kk.op == "land" || kk.op == "lor" {
			continue
		}
		if (a["y"] == "1") != (iv == "ok") {
			h.run.Disagree(common.Disagreement{Kind: "impl-vs-model", Input: c, Impl: iv, Model: "table=" + a["y"], Ref: rv,
				Note: "the operator table regenerated from typecheck.go/type.go does not predict the interpreter's decision"})
		}
	}
}

// ---- pipeline ----

const libSrc = `package lib

import "fmt"

var V = vinit()

func vinit() int {
	fmt.Println("LIBVAR")
	return 1
}

func init() {
	fmt.Println("LIBINIT")
}

func F() int { return V }
`

func pipelineProgram(bad bool, withLib bool) string {
	imp, use := "", ""
	if withLib {
		imp, use = "\n\t\"lib\"", "\t_ = lib.F()\n"
	}
	stmt := "\tvar x int = 1\n"
	if bad {
		stmt = "\tvar x int = \"s\"\n"
	}
	return "package main\n\nimport (\n\t\"fmt\"" + imp + "\n)\n\nvar g0 = ginit()\n\nfunc ginit() int {\n\tfmt.Println(\"GVAR\")\n\treturn 1\n}\n\nfunc init() {\n\tfmt.Println(\"INIT\")\n}\n\nfunc main() {\n\tfmt.Println(\"MARK\")\n" +
		use + stmt + "\t_ = x\n}\n"
}

func pipelineInputs() []caseT {
	var out []caseT
	for _, entry := range []string{"Eval", "EvalPath", "EvalWithContext", "Compile+Execute"} {
		for _, bad := range []bool{false, true} {
			for _, lib := range []bool{false, true} {
				c := caseT{Stream: "pipeline", Src: pipelineProgram(bad, lib), Class: fmt.Sprintf("pipeline:%s:bad=%v:source-import=%v", entry, bad, lib)}
				if lib {
					c.Files = map[string]string{"gp/src/lib/lib.go": libSrc}
				}
				out = append(out, c)
			}
		}
	}
	return out
}

// runEntry evaluates through one entry point; returns (error kind, stdout)
func runEntry(c caseT) (res string, out string) {
	var so, se bytes.Buffer
	defer func() {
		if r := recover(); r != nil {
			res, out = "crash", so.String()
		}
	}()
	fs := fstest.MapFS{}
	for p, s := range c.Files {
		fs[p] = &fstest.MapFile{Data: []byte(s)}
	}
	fs["gp/src/app/main.go"] = &fstest.MapFile{Data: []byte(c.Src)}
	i := interp.New(interp.Options{Stdout: &so, Stderr: &se, GoPath: "gp", SourcecodeFilesystem: fs})
	if err := i.Use(stdlib.Symbols); err != nil {
		return "harness:" + err.Error(), ""
	}
	entry := strings.Split(c.Class, ":")[1]
	var err error
	switch entry {
	case "Eval":
		_, err = i.Eval(c.Src)
	case "EvalPath":
		_, err = i.EvalPath("gp/src/app/main.go")
	case "EvalWithContext":
		_, err = i.EvalWithContext(bgCtx(), c.Src)
	case "Compile+Execute":
		p, cerr := i.Compile(c.Src)
		if cerr != nil {
			err = cerr
		} else {
			_, err = i.Execute(p)
		}
	}
	switch err.(type) {
	case nil:
		return "ok", so.String()
	case interp.Panic:
		return "panic", so.String()
	}
	return "err", so.String()
}

// pipelineFails: does the property fail on this pipeline case
func pipelineFails(c caseT) (bool, string) {
	bad := strings.Contains(c.Class, "bad=true")
	res, out := runEntry(c)
	detail := fmt.Sprintf("result=%s stdout=%q", res, out)
	if bad {
		return res != "err" || out != "", detail
	}
	want := fullOutput
	if strings.Contains(c.Class, "source-import=true") {
		want = "LIBVAR\nLIBINIT\n" + fullOutput
	}
	return res != "ok" || out != want, detail
}

func pipelineCases(h *harness, cs []caseT) {
	// the Lean pipeline model: compile failure ⇒ error, nothing executed
	for _, c := range cs {
		bad := strings.Contains(c.Class, "bad=true")
		lib := strings.Contains(c.Class, "source-import=true")
		ans, err := h.drv.Ask("C12 pipeline " + common.B(bad) + " 0")
		if err != nil {
			h.run.Errorf("driver: %v", err)
			return
		}
		a := common.Fields(ans)
		res, out := runEntry(c)
		h.run.Count(c.Class+c.Src, bad)
		h.run.Hit("stream:pipeline")
		h.run.Hit(fmt.Sprintf("pipeline:bad=%v:lib=%v:result=%s", bad, lib, res))
		// model: err flag and whether Execute was entered (observable: the program's own markers)
		ranMain := false
		for _, l := range strings.Split(out, "\n") {
			if l == "MARK" || l == "GVAR" || l == "INIT" {
				ranMain = true
			}
		}
		if a["known"] != "1" {
			h.run.Disagree(common.Disagreement{Kind: "impl-vs-model", Input: c, Model: ans, Note: "the statement list of eval is not the one the pipeline model understands"})
		} else if (a["err"] == "1") != (res == "err") || (a["executed"] == "1") != ranMain {
			h.run.Disagree(common.Disagreement{Kind: "impl-vs-model", Input: c, Impl: fmt.Sprintf("result=%s stdout=%q", res, out), Model: ans})
		}
		fails, detail := pipelineFails(c)
		if fails {
			d := common.Disagreement{Kind: "impl-vs-ref", Input: c, Impl: detail, Ref: "error and no output / normal run", Note: "pipeline"}
			// compile-time side effects of an imported source package: listed class, only when the program's own code did not run
			if bad && lib && res == "err" && !ranMain && out != "" {
				d.Finding = "pipeline/imported-package-initialised-during-compilation"
			}
			h.run.Disagree(d)
		}
	}
}
