package main

// Abstract typing queries: one check site per program, over the type universe of the fragment.
// Each probe is a tiny fragment program (declarations of the operand variables, then one statement)
// so that the same protocol answers it.

import (
	"fmt"
	"math/rand"
)

// universe of variable types: every kind class has at least one representative; pairs with equal
// erasure but different identity (N0/N1/int, S0/S1, []N1/[]int) are there on purpose.
func universe() []ty {
	var u []ty
	for _, b := range basics {
		u = append(u, tB(b))
	}
	for k := range namedCat {
		u = append(u, tN(k))
	}
	i, s, n0, n1, u8 := sty{B: "int"}, sty{B: "string"}, tN(0).S, tN(1).S, sty{B: "uint8"}
	u = append(u, tPtr(i), tPtr(n0), tPtr(s),
		tSlice(i), tSlice(n1), tSlice(u8), tSlice(s),
		tArr(3, i), tArr(3, n1), tArr(4, i), tArr(0, i),
		tMap(s, i), tMap(i, s), tMap(n1, i),
		tChan("both", i), tChan("send", i), tChan("recv", i), tChan("both", s), tChan("both", n1),
		ty{K: "func"}, ty{K: "func", Args: []sty{i}, Rets: []sty{i}}, ty{K: "func", Args: []sty{n1}, Rets: []sty{i}},
		tStruct(0), tStruct(1), tStruct(2), tStruct(3),
		tIface(0), tIface(1), tIface(2), tIface(3))
	return u
}

// literal operands
func literals() []*expr {
	return []*expr{
		{K: "lit", Lit: "int", V: 1}, {K: "lit", Lit: "int", V: 0}, {K: "lit", Lit: "int", V: 200}, {K: "lit", Lit: "int", V: 300}, {K: "lit", Lit: "int", V: -1},
		{K: "lit", Lit: "int", V: -129}, {K: "lit", Lit: "int", V: 70000},
		{K: "lit", Lit: "float", V: 1, Frac: true}, {K: "lit", Lit: "float", V: 2}, {K: "lit", Lit: "float", V: 0},
		{K: "lit", Lit: "rune", V: 'a'}, {K: "lit", Lit: "string"}, {K: "lit", Lit: "bool", V: 1}, {K: "nil"},
		// typed constants: zero divisors, shift counts and indexes whose value must be examined (F12-9, F12-18)
		typedConst("int", 0), typedConst("int", -1),
	}
}

func typedConst(b string, v int64) *expr {
	t := tB(b)
	return &expr{K: "conv", T: &t, A: &expr{K: "lit", Lit: "int", V: v}}
}

func litClass(e *expr) string {
	if e.K == "nil" {
		return "nil"
	}
	if e.K == "conv" {
		return "typed-" + e.T.class() + "-" + litClass(e.A)
	}
	switch e.Lit {
	case "int":
		switch {
		case e.V == 0:
			return "const-int-zero"
		case e.V < -128:
			return "const-int-lt-int8"
		case e.V < 0:
			return "const-int-neg"
		case e.V > 65535:
			return "const-int-gt-uint16"
		case e.V > 255:
			return "const-int-gt-uint8"
		case e.V > 127:
			return "const-int-gt-int8"
		}
		return "const-int"
	case "float":
		if e.Frac {
			return "const-float-frac"
		}
		if e.V == 0 {
			return "const-float-zero"
		}
		return "const-float-integral"
	}
	return "const-" + e.Lit
}

type probe struct {
	P     *prog
	Ctx   string // context of the check site
	Class string // ctx + operator + operand classes (label for buckets and findings)
	Lits  bool   // involves a literal operand
}

type operand struct {
	t   *ty   // variable of this type, or
	lit *expr // this literal
}

func (o operand) class() string {
	if o.t != nil {
		return o.t.class()
	}
	return litClass(o.lit)
}

// mk builds the program: declare the variable operands, then the statement produced by f from the operand expressions.
func mk(ops []operand, f func(es []*expr, nv int) []*stmt, funcs ...*fn) *prog {
	p := &prog{Funcs: funcs}
	var es []*expr
	nv := 0
	for _, o := range ops {
		if o.t != nil {
			t := *o.t
			p.Main = append(p.Main, &stmt{K: "declz", T: &t})
			es = append(es, &expr{K: "var", I: nv})
			nv++
		} else {
			es = append(es, o.lit.clone())
		}
	}
	p.Main = append(p.Main, f(es, nv)...)
	return p
}

var binOps = []string{"add", "sub", "mul", "quo", "rem", "and", "or", "xor", "andnot", "land", "lor"}
var cmpOps = []string{"eq", "ne", "lt", "le", "gt", "ge"}
var shOps = []string{"shl", "shr"}
var unOps = []string{"pos", "neg", "bitnot", "not"}

func opKind(op string) string {
	for _, o := range cmpOps {
		if o == op {
			return "cmp"
		}
	}
	for _, o := range shOps {
		if o == op {
			return "shift"
		}
	}
	return "bin"
}

// enumProbes: the full product when full, otherwise a seeded sample of the pair products
// (every single-operand probe and every same-type pair is always kept).
func enumProbes(rng *rand.Rand, full bool, keep float64) []probe {
	U := universe()
	L := literals()
	var ops []operand
	for i := range U {
		ops = append(ops, operand{t: &U[i]})
	}
	var lops []operand
	for _, l := range L {
		lops = append(lops, operand{lit: l})
	}
	var out []probe
	add := func(ctx, op string, p *prog, os ...operand) {
		cl := ctx
		if op != "" {
			cl += ":" + op
		}
		lits := false
		for _, o := range os {
			cl += ":" + o.class()
			if o.lit != nil {
				lits = true
			}
		}
		out = append(out, probe{P: p, Ctx: ctx, Class: cl, Lits: lits})
	}
	sample := func(a, b operand) bool {
		if full {
			return true
		}
		if a.t != nil && b.t != nil && a.t.class() == b.t.class() {
			return true
		}
		return rng.Float64() < keep
	}
	pairs := func(f func(a, b operand)) {
		for _, a := range ops {
			for _, b := range ops {
				if sample(a, b) {
					f(a, b)
				}
			}
			for _, l := range lops {
				if sample(a, l) {
					f(a, l)
				}
				if sample(l, a) {
					f(l, a)
				}
			}
		}
	}
	// binary, comparison, shift: `x := a OP b`
	for _, op := range append(append(append([]string{}, binOps...), cmpOps...), shOps...) {
		op := op
		k := opKind(op)
		pairs(func(a, b operand) {
			add(k, op, mk([]operand{a, b}, func(es []*expr, nv int) []*stmt {
				return []*stmt{{K: "define", E: &expr{K: k, Op: op, A: es[0], B: es[1]}}}
			}), a, b)
		})
	}
	// unary and receive
	for _, a := range ops {
		for _, op := range unOps {
			op := op
			add("un", op, mk([]operand{a}, func(es []*expr, nv int) []*stmt {
				return []*stmt{{K: "define", E: &expr{K: "un", Op: op, A: es[0]}}}
			}), a)
		}
		add("recv", "", mk([]operand{a}, func(es []*expr, nv int) []*stmt {
			return []*stmt{{K: "define", E: &expr{K: "recv", A: es[0]}}}
		}), a)
		add("incdec", "inc", mk([]operand{a}, func(es []*expr, nv int) []*stmt {
			return []*stmt{{K: "incdec", Op: "inc", I: 0}}
		}), a)
		add("cond-if", "", mk([]operand{a}, func(es []*expr, nv int) []*stmt {
			return []*stmt{{K: "if", E: es[0], Then: []*stmt{}}}
		}), a)
		add("cond-for", "", mk([]operand{a}, func(es []*expr, nv int) []*stmt {
			return []*stmt{{K: "for", E: es[0], Then: []*stmt{}}}
		}), a)
		add("define", "", mk([]operand{a}, func(es []*expr, nv int) []*stmt {
			return []*stmt{{K: "define", E: es[0]}}
		}), a)
	}
	for _, l := range lops {
		add("cond-if", "", mk([]operand{l}, func(es []*expr, nv int) []*stmt {
			return []*stmt{{K: "if", E: es[0], Then: []*stmt{}}}
		}), l)
		add("cond-for", "", mk([]operand{l}, func(es []*expr, nv int) []*stmt {
			return []*stmt{{K: "for", E: es[0], Then: []*stmt{}}}
		}), l)
		add("define", "", mk([]operand{l}, func(es []*expr, nv int) []*stmt {
			return []*stmt{{K: "define", E: es[0]}}
		}), l)
	}
	// nil where no other operand gives it a type (F12-17 / F12-25): both operands of an operator, the operand of a
	// receive or a unary operator, the channel of a send, the indexed operand; the same with the other literals as partner
	nilOp := operand{lit: &expr{K: "nil"}}
	for _, l := range lops {
		for _, op := range append(append(append([]string{}, binOps...), cmpOps...), shOps...) {
			op := op
			k := opKind(op)
			for _, pr := range [][2]operand{{nilOp, l}, {l, nilOp}} {
				pr := pr
				add(k, op, mk([]operand{pr[0], pr[1]}, func(es []*expr, nv int) []*stmt {
					return []*stmt{{K: "define", E: &expr{K: k, Op: op, A: es[0], B: es[1]}}}
				}), pr[0], pr[1])
			}
		}
		add("recv", "", mk([]operand{l}, func(es []*expr, nv int) []*stmt {
			return []*stmt{{K: "define", E: &expr{K: "recv", A: es[0]}}}
		}), l)
		add("send-lit-chan", "", mk([]operand{l}, func(es []*expr, nv int) []*stmt {
			return []*stmt{{K: "send", C: es[0], E: &expr{K: "lit", Lit: "int", V: 1}}}
		}), l)
		add("index-lit", "", mk([]operand{l}, func(es []*expr, nv int) []*stmt {
			return []*stmt{{K: "define", E: &expr{K: "index", A: es[0], B: &expr{K: "lit", Lit: "int", V: 0}}}}
		}), l)
	}
	for _, op := range unOps {
		op := op
		add("un", op, mk([]operand{nilOp}, func(es []*expr, nv int) []*stmt {
			return []*stmt{{K: "define", E: &expr{K: "un", Op: op, A: es[0]}}}
		}), nilOp)
	}
	add("incdec-lit", "inc", &prog{Main: []*stmt{{K: "declz", T: func() *ty { t := tB("int"); return &t }()}, {K: "opassign", Op: "add", I: 0, E: &expr{K: "nil"}}}}, nilOp)
	// assignment contexts: `var x T = e`, `x = e`, conversion `T(e)`, send `c <- e`, index `a[i]`, op-assignment
	pairs(func(a, b operand) {
		if a.t != nil { // a: destination type, b: source operand
			dt := *a.t
			add("decl", "", mk([]operand{b}, func(es []*expr, nv int) []*stmt {
				return []*stmt{{K: "decl", T: &dt, E: es[0]}}
			}), a, b)
			add("assign", "", mk([]operand{a, b}, func(es []*expr, nv int) []*stmt {
				return []*stmt{{K: "assign", I: 0, E: es[1]}}
			}), a, b)
			add("conv", "", mk([]operand{b}, func(es []*expr, nv int) []*stmt {
				return []*stmt{{K: "define", E: &expr{K: "conv", T: &dt, A: es[0]}}}
			}), a, b)
			add("assert", "", mk([]operand{b}, func(es []*expr, nv int) []*stmt {
				return []*stmt{{K: "define", E: &expr{K: "assert", T: &dt, A: es[0]}}}
			}), a, b)
			add("assert-commaok", "", mk([]operand{b}, func(es []*expr, nv int) []*stmt {
				return []*stmt{{K: "defineok", T: &dt, E: es[0]}}
			}), a, b)
			add("send", "", mk([]operand{a, b}, func(es []*expr, nv int) []*stmt {
				return []*stmt{{K: "send", C: es[0], E: es[1]}}
			}), a, b)
			add("index", "", mk([]operand{a, b}, func(es []*expr, nv int) []*stmt {
				return []*stmt{{K: "define", E: &expr{K: "index", A: es[0], B: es[1]}}}
			}), a, b)
			for _, op := range []string{"add", "rem", "and", "shl"} {
				op := op
				add("opassign", op, mk([]operand{a, b}, func(es []*expr, nv int) []*stmt {
					return []*stmt{{K: "opassign", Op: op, I: 0, E: es[1]}}
				}), a, b)
			}
			// call argument and return value against a parameter / result of a simple type
			if a.t.K == "s" {
				st := a.t.S
				add("arg", "", mk([]operand{b}, func(es []*expr, nv int) []*stmt {
					return []*stmt{{K: "call", I: 0, Args: []*expr{es[0]}}}
				}, &fn{Params: []sty{st}, Body: []*stmt{{K: "ret"}}}), a, b)
				if b.t != nil && b.t.K == "s" {
					// return of a parameter of type b from a function with result type a
					add("return", "", &prog{Funcs: []*fn{{Params: []sty{b.t.S}, Rets: []sty{st}, Body: []*stmt{{K: "ret", Args: []*expr{{K: "var", I: 0}}}}}}}, a, b)
				} else if b.lit != nil {
					add("return", "", &prog{Funcs: []*fn{{Rets: []sty{st}, Body: []*stmt{{K: "ret", Args: []*expr{b.lit.clone()}}}}}}, a, b)
				}
			}
		}
	})
	// operator expressions as the source of a declaration, an assignment, a return (the interpreter's slot shortcuts)
	srcOps := []struct{ k, op string }{{"bin", "sub"}, {"bin", "add"}, {"bin", "and"}, {"shift", "shl"}, {"cmp", "lt"}, {"cmp", "eq"}, {"un", "neg"}, {"un", "not"}, {"recv", ""}, {"bin", "land"},
		{"bin", "rem"}, {"nest", "negsub"}, {"nest", "subsub"}, {"nest", "shlsub"}, {"nest", "addsub"}, {"nest", "notlt"}, {"nest", "convsub"}}
	for _, a := range ops {
		for _, b := range ops {
			// the operator-source contexts are sampled in both tiers (40 % of the type pairs in the thorough tier)
			opKeep := 4 * keep
			if full {
				opKeep = 0.4
			}
			if rng.Float64() >= opKeep && a.t.class() != b.t.class() {
				continue
			}
			for _, so := range srcOps {
				so := so
				dt := *a.t
				mkSrc := func(e *expr) *expr {
					switch so.k {
					case "un":
						return &expr{K: "un", Op: so.op, A: e}
					case "recv":
						return &expr{K: "recv", A: e}
					case "nest":
						sub := &expr{K: "bin", Op: "sub", A: e, B: e.clone()}
						switch so.op {
						case "negsub":
							return &expr{K: "un", Op: "neg", A: sub}
						case "subsub":
							return &expr{K: "bin", Op: "sub", A: sub, B: e.clone()}
						case "shlsub":
							return &expr{K: "shift", Op: "shl", A: sub, B: e.clone()}
						case "addsub":
							return &expr{K: "bin", Op: "add", A: sub, B: e.clone()}
						case "notlt":
							return &expr{K: "un", Op: "not", A: &expr{K: "cmp", Op: "lt", A: sub, B: e.clone()}}
						case "convsub":
							tt := *b.t
							return &expr{K: "bin", Op: "sub", A: &expr{K: "conv", T: &tt, A: sub}, B: e.clone()}
						}
					}
					return &expr{K: so.k, Op: so.op, A: e, B: e.clone()}
				}
				add("decl-op", so.k+so.op, mk([]operand{b}, func(es []*expr, nv int) []*stmt {
					return []*stmt{{K: "decl", T: &dt, E: mkSrc(es[0])}}
				}), a, b)
				add("assign-op", so.k+so.op, mk([]operand{a, b}, func(es []*expr, nv int) []*stmt {
					return []*stmt{{K: "assign", I: 0, E: mkSrc(es[1])}}
				}), a, b)
				if so.k == "nest" || so.op == "sub" || so.op == "neg" {
					add("opassign-op", so.k+so.op, mk([]operand{a, b}, func(es []*expr, nv int) []*stmt {
						return []*stmt{{K: "opassign", Op: "add", I: 0, E: mkSrc(es[1])}}
					}), a, b)
				}
				if a.t.K == "s" && b.t.K == "s" && so.k != "recv" {
					add("return-op", so.k+so.op, &prog{Funcs: []*fn{{Params: []sty{b.t.S}, Rets: []sty{a.t.S}, Body: []*stmt{{K: "ret", Args: []*expr{mkSrc(&expr{K: "var", I: 0})}}}}}}, a, b)
				}
			}
		}
	}
	// `v = v OP c`, `v = c OP v`, `return v OP c` with an untyped constant operand: the operation's own type is checked against
	// the destination since aa2ac2f (operationResult); the valid forms must stay accepted
	opLits := []*expr{{K: "lit", Lit: "int", V: 1}, {K: "lit", Lit: "int", V: 200}, {K: "lit", Lit: "float", V: 2}, {K: "lit", Lit: "float", V: 1, Frac: true}, {K: "lit", Lit: "string"}}
	for _, a := range ops {
		for _, l := range opLits {
			for _, so := range []struct{ k, op string }{{"bin", "sub"}, {"bin", "add"}, {"shift", "shl"}, {"cmp", "lt"}, {"cmp", "eq"}, {"bin", "rem"}} {
				so, l := so, l
				lo := operand{lit: l}
				for _, left := range []bool{true, false} {
					left := left
					mkE := func(v *expr) *expr {
						if left {
							return &expr{K: so.k, Op: so.op, A: l.clone(), B: v}
						}
						return &expr{K: so.k, Op: so.op, A: v, B: l.clone()}
					}
					side := "right"
					if left {
						side = "left"
					}
					add("assign-op-const", so.k+so.op+":"+side, mk([]operand{a}, func(es []*expr, nv int) []*stmt {
						return []*stmt{{K: "assign", I: 0, E: mkE(es[0])}}
					}), a, lo)
					if a.t.K == "s" {
						add("return-op-const", so.k+so.op+":"+side, &prog{Funcs: []*fn{{Params: []sty{a.t.S}, Rets: []sty{a.t.S}, Body: []*stmt{{K: "ret", Args: []*expr{mkE(&expr{K: "var", I: 0})}}}}}}, a, lo)
					}
				}
			}
		}
	}
	// a receive as the source of a declaration, then a use of the variable at its declared type
	for _, a := range ops {
		for _, b := range ops {
			if b.t.K != "s" {
				continue
			}
			ct := tChan("both", b.t.S)
			dt := *a.t
			add("decl-recv", "", &prog{Main: []*stmt{{K: "declz", T: &ct}, {K: "declz", T: &dt},
				{K: "decl", T: &dt, E: &expr{K: "recv", A: &expr{K: "var", I: 0}}},
				{K: "assign", I: 2, E: &expr{K: "var", I: 1}}}}, a, b)
		}
	}
	// `(a == a) && b`, `b || (a != a)`: a comparison, untyped boolean in Go, combined with a value of every type (F12-3, F12-19),
	// also as the source of a declaration of type bool and of the operand's own type
	for _, a := range ops {
		for _, op := range []string{"land", "lor"} {
			op := op
			cmpOf := func(e *expr) *expr { return &expr{K: "cmp", Op: "eq", A: e, B: e.clone()} }
			add("logical-cmp", op+":left", mk([]operand{a}, func(es []*expr, nv int) []*stmt {
				return []*stmt{{K: "define", E: &expr{K: "bin", Op: op, A: cmpOf(es[0]), B: es[0].clone()}}}
			}), a)
			add("logical-cmp", op+":right", mk([]operand{a}, func(es []*expr, nv int) []*stmt {
				return []*stmt{{K: "define", E: &expr{K: "bin", Op: op, A: es[0], B: cmpOf(es[0].clone())}}}
			}), a)
			bt := tB("bool")
			add("logical-cmp-decl-bool", op, mk([]operand{a}, func(es []*expr, nv int) []*stmt {
				return []*stmt{{K: "decl", T: &bt, E: &expr{K: "bin", Op: op, A: cmpOf(es[0]), B: es[0].clone()}}}
			}), a)
			at := *a.t
			add("logical-cmp-decl-own", op, mk([]operand{a}, func(es []*expr, nv int) []*stmt {
				return []*stmt{{K: "decl", T: &at, E: &expr{K: "bin", Op: op, A: es[0], B: cmpOf(es[0].clone())}}}
			}), a)
		}
	}
	// arity of calls and returns
	i := sty{B: "int"}
	for np := 0; np <= 2; np++ {
		for na := 0; na <= 3; na++ {
			f := &fn{Params: make([]sty, np), Body: []*stmt{{K: "ret"}}}
			for k := range f.Params {
				f.Params[k] = i
			}
			args := make([]*expr, na)
			for k := range args {
				args[k] = &expr{K: "lit", Lit: "int", V: 1}
			}
			out = append(out, probe{P: &prog{Funcs: []*fn{f}, Main: []*stmt{{K: "call", I: 0, Args: args}}}, Ctx: "call-arity", Class: fmt.Sprintf("call-arity:%d-params:%d-args", np, na)})
		}
	}
	for nr := 0; nr <= 2; nr++ {
		for nv := 0; nv <= 3; nv++ {
			f := &fn{Rets: make([]sty, nr)}
			for k := range f.Rets {
				f.Rets[k] = i
			}
			vals := make([]*expr, nv)
			for k := range vals {
				vals[k] = &expr{K: "lit", Lit: "int", V: 1}
			}
			f.Body = []*stmt{{K: "ret", Args: vals}}
			out = append(out, probe{P: &prog{Funcs: []*fn{f}}, Ctx: "return-arity", Class: fmt.Sprintf("return-arity:%d-results:%d-values", nr, nv)})
		}
	}
	// a call used as a value must have exactly one result; undefined names
	for nr := 0; nr <= 2; nr++ {
		f := &fn{Rets: make([]sty, nr)}
		vals := make([]*expr, nr)
		for k := range f.Rets {
			f.Rets[k] = i
			vals[k] = &expr{K: "lit", Lit: "int", V: 1}
		}
		f.Body = []*stmt{{K: "ret", Args: vals}}
		out = append(out, probe{P: &prog{Funcs: []*fn{f}, Main: []*stmt{{K: "define", E: &expr{K: "call", I: 0}}}}, Ctx: "call-value", Class: fmt.Sprintf("call-value:%d-results", nr)})
		// the same call in the other single-value contexts (F12-12): operand, condition, declaration, assignment, send,
		// index, conversion, argument of a one-parameter function, sole operand of a return
		call := func() *expr { return &expr{K: "call", I: 0} }
		one := &expr{K: "lit", Lit: "int", V: 1}
		it, ct, st := tB("int"), tChan("both", i), tSlice(i)
		ctxs := []struct {
			name string
			main []*stmt
		}{
			{"operand-left", []*stmt{{K: "define", E: &expr{K: "bin", Op: "add", A: call(), B: one.clone()}}}},
			{"operand-right", []*stmt{{K: "declz", T: &it}, {K: "define", E: &expr{K: "bin", Op: "mul", A: &expr{K: "var", I: 0}, B: call()}}}},
			{"comparison", []*stmt{{K: "define", E: &expr{K: "cmp", Op: "eq", A: call(), B: one.clone()}}}},
			{"unary", []*stmt{{K: "define", E: &expr{K: "un", Op: "neg", A: call()}}}},
			{"shift-count", []*stmt{{K: "declz", T: &it}, {K: "define", E: &expr{K: "shift", Op: "shl", A: &expr{K: "var", I: 0}, B: call()}}}},
			{"condition", []*stmt{{K: "if", E: &expr{K: "cmp", Op: "lt", A: call(), B: one.clone()}, Then: []*stmt{}}}},
			{"decl", []*stmt{{K: "decl", T: &it, E: call()}}},
			{"assign", []*stmt{{K: "declz", T: &it}, {K: "assign", I: 0, E: call()}}},
			{"opassign", []*stmt{{K: "declz", T: &it}, {K: "opassign", Op: "add", I: 0, E: call()}}},
			{"send", []*stmt{{K: "declz", T: &ct}, {K: "send", C: &expr{K: "var", I: 0}, E: call()}}},
			{"index", []*stmt{{K: "declz", T: &st}, {K: "define", E: &expr{K: "index", A: &expr{K: "var", I: 0}, B: call()}}}},
			{"conversion", []*stmt{{K: "define", E: &expr{K: "conv", T: &it, A: call()}}}},
		}
		for _, cx := range ctxs {
			out = append(out, probe{P: &prog{Funcs: []*fn{f}, Main: cx.main}, Ctx: "call-value", Class: fmt.Sprintf("call-value-%s:%d-results", cx.name, nr)})
		}
		g := &fn{Params: []sty{i}, Body: []*stmt{{K: "ret"}}}
		out = append(out, probe{P: &prog{Funcs: []*fn{f, g}, Main: []*stmt{{K: "call", I: 1, Args: []*expr{call()}}}}, Ctx: "call-value", Class: fmt.Sprintf("call-value-argument:%d-results", nr)})
		h := &fn{Rets: []sty{i}, Body: []*stmt{{K: "ret", Args: []*expr{call()}}}}
		out = append(out, probe{P: &prog{Funcs: []*fn{f, h}}, Ctx: "call-value", Class: fmt.Sprintf("call-value-return:%d-results", nr)})
	}
	out = append(out, probe{P: &prog{Main: []*stmt{{K: "define", E: &expr{K: "var", I: 3}}}}, Ctx: "undefined", Class: "undefined:var"})
	out = append(out, probe{P: &prog{Main: []*stmt{{K: "call", I: 2}}}, Ctx: "undefined", Class: "undefined:func"})
	out = append(out, probe{P: &prog{Main: []*stmt{{K: "assign", I: 2, E: &expr{K: "lit", Lit: "int", V: 1}}}}, Ctx: "undefined", Class: "undefined:assign"})
	return out
}
