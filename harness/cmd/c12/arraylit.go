package main

// Array and slice literals: the index discipline of typecheck.go arrayLitExpr (keyed and positional elements), outside
// the expression fragment. One literal per program, in the function that is compiled but never called; the Lean side
// answers with `arrayLitY` (the transcription, parametrised by the extracted fact arrayLitBound) and `arrayLitG`
// (the specification: running index = previous key + 1, every index of an array below its length, no duplicate).

import (
	"fmt"
	"math/rand"
	"strings"
)

type litElem struct {
	keyed bool
	k     int
}

func (e litElem) sexp() string {
	if e.keyed {
		return fmt.Sprintf("(key %d)", e.k)
	}
	return "pos"
}

func arrayLitCase(length int, es []litElem) caseT {
	var parts, sx, cl []string
	for j, e := range es {
		v := fmt.Sprint(10 * (j + 1))
		if e.keyed {
			parts = append(parts, fmt.Sprintf("%d: %s", e.k, v))
			cl = append(cl, fmt.Sprintf("k%d", e.k))
		} else {
			parts = append(parts, v)
			cl = append(cl, "p")
		}
		sx = append(sx, e.sexp())
	}
	typ, name := fmt.Sprintf("[%d]int", length), fmt.Sprintf("array%d", length)
	if length < 0 {
		typ, name = "[]int", "slice"
	}
	body := fmt.Sprintf("func body() {\n\tx := %s{%s}\n\t_ = x\n}\n", typ, strings.Join(parts, ", "))
	src := strings.Replace((&prog{}).source(), "func body() {\n}\n", body, 1)
	return caseT{Stream: "arraylit", Class: "arraylit:" + name + ":" + strings.Join(cl, "-"), Src: src,
		Line: fmt.Sprintf("C12 arraylit %d (%s)", length, strings.Join(sx, " "))}
}

// arrayLitCases: every element list up to three elements (four in the thorough tier, sampled in the quick tier) over
// {positional, keys -1, 0, 1, 2, 3}, for a slice type and array types of length 0 to 3.
func arrayLitCases(rng *rand.Rand, full bool) []caseT {
	opts := []litElem{{}, {true, 0}, {true, 1}, {true, 2}, {true, 3}, {true, -1}}
	var out []caseT
	var rec func(length int, es []litElem, depth int)
	rec = func(length int, es []litElem, depth int) {
		if len(es) < 4 || full || rng.Intn(12) == 0 {
			out = append(out, arrayLitCase(length, append([]litElem{}, es...)))
		}
		if depth == 0 {
			return
		}
		for _, o := range opts {
			rec(length, append(es, o), depth-1)
		}
	}
	for _, length := range []int{-1, 0, 1, 2, 3} {
		rec(length, nil, 4)
	}
	// a few longer ones: a key in the middle of a run of positional elements
	for _, length := range []int{-1, 3, 4} {
		for k := 0; k <= 4; k++ {
			for npos := 1; npos <= 3; npos++ {
				es := []litElem{{}, {true, k}}
				for j := 0; j < npos; j++ {
					es = append(es, litElem{})
				}
				out = append(out, arrayLitCase(length, es))
			}
		}
	}
	return out
}
