package main

// Seeded generator of well-typed programs of the fragment (type-directed), inside the domain of
// the theorems: no constant-only operator expressions, no untyped constant as a shifted operand,
// no division of a floating-point value by a constant zero, no comparison of channels of different
// directions, no nil assigned to an interface variable (the interpreter's nil type is mutated by it).

import (
	"math/rand"
)

type genv struct {
	rng   *rand.Rand
	vars  []ty // variables in scope, by index
	funcs []*fn
	self  int // functions with index < self may be called (no recursion needed)
}

func tyEq(a, b ty) bool { return a.sexp() == b.sexp() }

func (g *genv) varsOf(t ty) []int {
	var out []int
	for i, v := range g.vars {
		if tyEq(v, t) {
			out = append(out, i)
		}
	}
	return out
}

func under(t ty) string {
	if t.K == "s" {
		return t.S.B
	}
	return ""
}

func isIntB(b string) bool {
	c := basicClass(b)
	return c == "int" || c == "uint"
}
func isNumB(b string) bool {
	c := basicClass(b)
	return c == "int" || c == "uint" || c == "float" || c == "complex"
}

func intRange(b string) (lo, hi int64) {
	switch b {
	case "int8":
		return -128, 127
	case "uint8":
		return 0, 255
	case "int16":
		return -32768, 32767
	case "uint16":
		return 0, 65535
	}
	if basicClass(b) == "uint" {
		return 0, 100000
	}
	return -100000, 100000
}

// literal of (a type whose underlying is) basic b
func (g *genv) lit(b string) *expr {
	switch basicClass(b) {
	case "int", "uint":
		lo, hi := intRange(b)
		v := int64(g.rng.Intn(120)) + 1
		if g.rng.Intn(4) == 0 {
			v = lo + g.rng.Int63n(hi-lo+1)
		}
		if v < lo || v > hi {
			v = 1
		}
		if v == 0 {
			v = 1
		}
		if b == "int32" && g.rng.Intn(3) == 0 {
			return &expr{K: "lit", Lit: "rune", V: int64('a' + g.rng.Intn(20))}
		}
		return &expr{K: "lit", Lit: "int", V: v}
	case "float", "complex":
		switch g.rng.Intn(3) {
		case 0:
			return &expr{K: "lit", Lit: "int", V: int64(g.rng.Intn(50)) + 1}
		case 1:
			return &expr{K: "lit", Lit: "float", V: int64(g.rng.Intn(50)) + 1, Frac: true}
		}
		return &expr{K: "lit", Lit: "float", V: int64(g.rng.Intn(50)) + 1}
	case "string":
		return &expr{K: "lit", Lit: "string"}
	case "bool":
		return &expr{K: "lit", Lit: "bool", V: int64(g.rng.Intn(2))}
	}
	return nil
}

func isConstE(e *expr) bool {
	switch e.K {
	case "lit":
		return true
	case "conv":
		return isConstE(e.A)
	}
	return false
}

// nonConst returns a non-constant expression of type t, or nil if none can be built.
func (g *genv) nonConst(t ty, depth int) *expr {
	for try := 0; try < 6; try++ {
		e := g.expr(t, depth, false)
		if e != nil && !isConstE(e) {
			return e
		}
	}
	if vs := g.varsOf(t); len(vs) > 0 {
		return &expr{K: "var", I: vs[g.rng.Intn(len(vs))]}
	}
	return nil
}

// expr returns an expression of exactly type t (constants allowed when allowConst), or nil.
func (g *genv) expr(t ty, depth int, allowConst bool) *expr {
	vs := g.varsOf(t)
	b := under(t)
	var alts []func() *expr
	if len(vs) > 0 {
		alts = append(alts, func() *expr { return &expr{K: "var", I: vs[g.rng.Intn(len(vs))]} })
		alts = append(alts, func() *expr { return &expr{K: "var", I: vs[g.rng.Intn(len(vs))]} })
	}
	if allowConst && b != "" {
		alts = append(alts, func() *expr { return g.lit(b) })
	}
	if depth > 0 {
		// type assertion of an interface variable to t (t implements the interface, or t is an interface type)
		if cands := g.assertable(t); len(cands) > 0 {
			alts = append(alts, func() *expr {
				tt := t
				return &expr{K: "assert", T: &tt, A: &expr{K: "var", I: cands[g.rng.Intn(len(cands))]}}
			})
		}
		if b != "" {
			if isNumB(b) || b == "string" {
				alts = append(alts, func() *expr { // arithmetic
					ops := []string{"add"}
					if isNumB(b) {
						ops = append(ops, "sub", "mul", "quo")
					}
					if isIntB(b) {
						ops = append(ops, "rem", "and", "or", "xor", "andnot")
					}
					op := ops[g.rng.Intn(len(ops))]
					x := g.nonConst(t, depth-1)
					if x == nil {
						return nil
					}
					var y *expr
					if g.rng.Intn(3) == 0 {
						y = g.lit(b) // never zero
					} else {
						y = g.nonConst(t, depth-1)
					}
					if y == nil {
						return nil
					}
					if g.rng.Intn(2) == 0 && op != "quo" && op != "rem" {
						x, y = y, x
					}
					return &expr{K: "bin", Op: op, A: x, B: y}
				})
			}
			if isNumB(b) {
				alts = append(alts, func() *expr {
					x := g.nonConst(t, depth-1)
					if x == nil {
						return nil
					}
					op := "neg"
					if g.rng.Intn(3) == 0 {
						op = "pos"
					}
					if isIntB(b) && g.rng.Intn(2) == 0 {
						op = "bitnot"
					}
					return &expr{K: "un", Op: op, A: x}
				})
			}
			if isIntB(b) {
				alts = append(alts, func() *expr { // shift
					x := g.nonConst(t, depth-1)
					if x == nil {
						return nil
					}
					var y *expr
					if g.rng.Intn(2) == 0 {
						y = &expr{K: "lit", Lit: "int", V: int64(g.rng.Intn(7))}
					} else {
						cts := []ty{tB("uint"), tB("int"), tB("uint8"), tN(1)}
						y = g.nonConst(cts[g.rng.Intn(len(cts))], 0)
					}
					if y == nil {
						return nil
					}
					return &expr{K: "shift", Op: shOps[g.rng.Intn(2)], A: x, B: y}
				})
			}
			if b == "bool" {
				alts = append(alts, func() *expr { // comparison
					var cands []ty
					for _, v := range g.vars {
						switch v.K {
						case "s", "ptr", "array", "struct":
							cands = append(cands, v)
						case "chan":
							if v.Dir == "both" {
								cands = append(cands, v)
							}
						}
					}
					if len(cands) == 0 {
						return nil
					}
					ct := cands[g.rng.Intn(len(cands))]
					op := cmpOps[g.rng.Intn(2)]
					if cb := under(ct); cb != "" && cb != "bool" && basicClass(cb) != "complex" {
						op = cmpOps[g.rng.Intn(len(cmpOps))]
					}
					x := g.nonConst(ct, depth-1)
					if x == nil {
						return nil
					}
					var y *expr
					if cb := under(ct); cb != "" && g.rng.Intn(3) == 0 {
						y = g.lit(cb)
					} else {
						y = g.nonConst(ct, depth-1)
					}
					if y == nil {
						return nil
					}
					return &expr{K: "cmp", Op: op, A: x, B: y}
				})
				alts = append(alts, func() *expr { // logical
					x, y := g.nonConst(t, depth-1), g.nonConst(t, depth-1)
					if x == nil || y == nil {
						return nil
					}
					ops := []string{"land", "lor"}
					if t.S.Named != 0 && g.rng.Intn(4) != 0 {
						// `(a < b) && c` with c of a defined boolean type is the shape of F12-19 (the comparison is typed bool):
						// a program's class is that of its FIRST differing check site, so most generated programs give the
						// comparison the defined type explicitly (`N(a < b) && c`) and keep the later sites visible;
						// the raw shape stays in one program out of four and in the logical-cmp probes
						wrap := func(e *expr) *expr {
							if untypedBool(e) {
								tt := t
								return &expr{K: "conv", T: &tt, A: e}
							}
							return e
						}
						x, y = wrap(x), wrap(y)
					}
					return &expr{K: "bin", Op: ops[g.rng.Intn(2)], A: x, B: y}
				})
				alts = append(alts, func() *expr {
					x := g.nonConst(t, depth-1)
					if x == nil {
						return nil
					}
					return &expr{K: "un", Op: "not", A: x}
				})
			}
			// conversion from another numeric / identical-underlying type
			alts = append(alts, func() *expr {
				var cands []ty
				for _, v := range g.vars {
					vb := under(v)
					if vb == "" || tyEq(v, t) {
						continue
					}
					if vb == b || (isNumB(vb) && isNumB(b) && (basicClass(vb) == "complex") == (basicClass(b) == "complex")) {
						cands = append(cands, v)
					}
				}
				if len(cands) == 0 {
					return nil
				}
				x := g.nonConst(cands[g.rng.Intn(len(cands))], depth-1)
				if x == nil {
					return nil
				}
				tt := t
				return &expr{K: "conv", T: &tt, A: x}
			})
		}
		if t.K == "s" {
			// index / receive / call producing an element of simple type t.S
			alts = append(alts, func() *expr {
				var cands []int
				for i, v := range g.vars {
					switch v.K {
					case "slice", "array", "map":
						if v.S == t.S {
							cands = append(cands, i)
						}
					case "s":
						if v.S.B == "string" && t.S.Named == 0 && t.S.B == "uint8" {
							cands = append(cands, i)
						}
					}
				}
				if len(cands) == 0 {
					return nil
				}
				ai := cands[g.rng.Intn(len(cands))]
				at := g.vars[ai]
				var idx *expr
				switch at.K {
				case "map":
					idx = g.expr(tS(at.Key), depth-1, true)
				case "array":
					if g.rng.Intn(2) == 0 {
						idx = &expr{K: "lit", Lit: "int", V: int64(g.rng.Intn(at.N))}
					} else {
						idx = g.nonConst(tB("int"), depth-1)
					}
				default:
					if g.rng.Intn(2) == 0 {
						idx = &expr{K: "lit", Lit: "int", V: int64(g.rng.Intn(5))}
					} else {
						its := []ty{tB("int"), tB("uint8"), tB("int64"), tN(1)}
						idx = g.nonConst(its[g.rng.Intn(len(its))], depth-1)
					}
				}
				if idx == nil {
					return nil
				}
				return &expr{K: "index", A: &expr{K: "var", I: ai}, B: idx}
			})
			alts = append(alts, func() *expr {
				var cands []int
				for i, v := range g.vars {
					if v.K == "chan" && v.Dir != "send" && v.S == t.S {
						cands = append(cands, i)
					}
				}
				if len(cands) == 0 {
					return nil
				}
				return &expr{K: "recv", A: &expr{K: "var", I: cands[g.rng.Intn(len(cands))]}}
			})
			alts = append(alts, func() *expr {
				var cands []int
				for i := 0; i < g.self && i < len(g.funcs); i++ {
					f := g.funcs[i]
					if len(f.Rets) == 1 && f.Rets[0] == t.S {
						cands = append(cands, i)
					}
				}
				if len(cands) == 0 {
					return nil
				}
				fi := cands[g.rng.Intn(len(cands))]
				args := g.args(g.funcs[fi].Params, depth-1)
				if args == nil {
					return nil
				}
				return &expr{K: "call", I: fi, Args: args}
			})
		}
	}
	if len(alts) == 0 {
		return nil
	}
	for try := 0; try < 4; try++ {
		if e := alts[g.rng.Intn(len(alts))](); e != nil {
			return e
		}
	}
	if len(vs) > 0 {
		return &expr{K: "var", I: vs[0]}
	}
	if allowConst && b != "" {
		return g.lit(b)
	}
	return nil
}

// args builds arguments for the parameter list (nil if some parameter cannot be served; an empty list is non-nil)
func (g *genv) args(params []sty, depth int) []*expr {
	out := []*expr{}
	for _, p := range params {
		e := g.expr(tS(p), depth, true)
		if e == nil {
			return nil
		}
		out = append(out, e)
	}
	return out
}

func (g *genv) poolType() ty {
	u := universe()
	// simple types more often
	if g.rng.Intn(3) > 0 {
		b := []ty{tB("int"), tB("int"), tB("string"), tB("bool"), tB("float64"), tB("uint8"), tB("int8"), tB("int64"), tB("uint"), tB("int32"),
			tB("complex128"), tB("float32"), tB("uint16"), tN(0), tN(1), tN(2), tN(3), tN(4), tN(5)}
		return b[g.rng.Intn(len(b))]
	}
	return u[g.rng.Intn(len(u))]
}

func simplePool(rng *rand.Rand) sty {
	b := []sty{{B: "int"}, {B: "int"}, {B: "string"}, {B: "bool"}, {B: "float64"}, {B: "uint8"}, {B: "int8"}, {B: "int64"}, tN(0).S, tN(1).S, tN(2).S, tN(4).S}
	return b[rng.Intn(len(b))]
}

// block generates n statements; retTypes non-nil: the block is a function body (a final return is added by the caller).
func (g *genv) block(n, depth int, rets []sty, inFunc bool) []*stmt {
	var out []*stmt
	saved := len(g.vars)
	for i := 0; i < n; i++ {
		s := g.stmt(depth, rets, inFunc)
		if s == nil {
			continue
		}
		out = append(out, s)
	}
	g.vars = g.vars[:saved]
	return out
}

func (g *genv) stmt(depth int, rets []sty, inFunc bool) *stmt {
	for try := 0; try < 8; try++ {
		switch g.rng.Intn(14) {
		case 13: // v, ok := x.(T)
			t := g.poolType()
			c := g.assertable(t)
			if len(c) == 0 {
				continue
			}
			g.vars = append(g.vars, t, tB("bool"))
			return &stmt{K: "defineok", T: &t, E: &expr{K: "var", I: c[g.rng.Intn(len(c))]}}
		case 0, 1: // var v T = e
			t := g.poolType()
			var e *expr
			if nilableTy(t) && t.K != "iface" && g.rng.Intn(3) == 0 {
				e = &expr{K: "nil"}
			} else {
				e = g.expr(t, 2, true)
			}
			if e == nil {
				if t.K == "iface" {
					// any value implementing it
					e = g.implementer(t)
				}
				if e == nil {
					continue
				}
			}
			g.vars = append(g.vars, t)
			return &stmt{K: "decl", T: &t, E: e}
		case 2: // var v T
			t := g.poolType()
			g.vars = append(g.vars, t)
			return &stmt{K: "declz", T: &t}
		case 3: // v := e
			t := g.poolType()
			e := g.nonConst(t, 2)
			if e == nil {
				continue
			}
			if t.K == "s" && t.S.Named != 0 && untypedBool(e) {
				// an untyped boolean value defines a variable of type bool, not of the defined type
				tt := t
				e = &expr{K: "conv", T: &tt, A: e}
			}
			g.vars = append(g.vars, t)
			return &stmt{K: "define", E: e}
		case 4, 5: // v = e
			if len(g.vars) == 0 {
				continue
			}
			i := g.rng.Intn(len(g.vars))
			t := g.vars[i]
			var e *expr
			if nilableTy(t) && t.K != "iface" && g.rng.Intn(4) == 0 {
				e = &expr{K: "nil"}
			} else {
				e = g.expr(t, 2, true)
			}
			if e == nil {
				continue
			}
			return &stmt{K: "assign", I: i, E: e}
		case 6: // v op= e
			i, t, ok := g.pickVar(func(t ty) bool { return isNumB(under(t)) || under(t) == "string" })
			if !ok {
				continue
			}
			b := under(t)
			ops := []string{"add"}
			if isNumB(b) {
				ops = append(ops, "sub", "mul")
			}
			if isIntB(b) {
				ops = append(ops, "and", "or", "xor", "shl", "shr")
			}
			op := ops[g.rng.Intn(len(ops))]
			var e *expr
			if op == "shl" || op == "shr" {
				if g.rng.Intn(2) == 0 {
					e = &expr{K: "lit", Lit: "int", V: int64(g.rng.Intn(7))}
				} else {
					e = g.nonConst(tB("uint"), 1)
				}
			} else {
				e = g.expr(t, 1, true)
			}
			if e == nil {
				continue
			}
			return &stmt{K: "opassign", Op: op, I: i, E: e}
		case 7: // v++
			i, _, ok := g.pickVar(func(t ty) bool { return isNumB(under(t)) })
			if !ok {
				continue
			}
			ops := []string{"inc", "dec"}
			return &stmt{K: "incdec", Op: ops[g.rng.Intn(2)], I: i}
		case 8: // c <- e
			i, t, ok := g.pickVar(func(t ty) bool { return t.K == "chan" && t.Dir != "recv" })
			if !ok {
				continue
			}
			e := g.expr(tS(t.S), 2, true)
			if e == nil {
				continue
			}
			return &stmt{K: "send", C: &expr{K: "var", I: i}, E: e}
		case 9: // f(args)
			if g.self == 0 {
				continue
			}
			fi := g.rng.Intn(g.self)
			args := g.args(g.funcs[fi].Params, 2)
			if args == nil {
				continue
			}
			return &stmt{K: "call", I: fi, Args: args}
		case 10, 11: // if / for
			if depth <= 0 {
				continue
			}
			bt := tB("bool")
			if g.rng.Intn(5) == 0 {
				bt = tN(4)
			}
			c := g.nonConst(bt, 2)
			if c == nil {
				continue
			}
			if g.rng.Intn(3) == 0 {
				return &stmt{K: "for", E: c, Then: g.block(1+g.rng.Intn(3), depth-1, rets, inFunc)}
			}
			s := &stmt{K: "if", E: c, Then: g.block(1+g.rng.Intn(3), depth-1, rets, inFunc)}
			if g.rng.Intn(2) == 0 {
				s.Else = g.block(1+g.rng.Intn(2), depth-1, rets, inFunc)
				if s.Else == nil {
					s.Else = []*stmt{}
				}
			}
			if s.Then == nil {
				s.Then = []*stmt{}
			}
			return s
		case 12: // early return inside a nested block of a function
			if !inFunc || depth > 1 {
				continue
			}
			r := g.ret(rets)
			if r == nil {
				continue
			}
			return r
		}
	}
	return nil
}

func (g *genv) ret(rets []sty) *stmt {
	vals := []*expr{}
	for _, r := range rets {
		// plain sources only: a return of an operator expression takes the interpreter's shortcut (outside the domain only when ill-typed, but keep originals simple)
		e := g.expr(tS(r), 1, true)
		if e == nil {
			return nil
		}
		vals = append(vals, e)
	}
	return &stmt{K: "ret", Args: vals}
}

func (g *genv) pickVar(ok func(ty) bool) (int, ty, bool) {
	var c []int
	for i, v := range g.vars {
		if ok(v) {
			c = append(c, i)
		}
	}
	if len(c) == 0 {
		return 0, ty{}, false
	}
	i := c[g.rng.Intn(len(c))]
	return i, g.vars[i], true
}

// assertable: the interface variables in scope that may be asserted to t
func (g *genv) assertable(t ty) []int {
	var c []int
	for i, v := range g.vars {
		if v.K != "iface" || tyEq(v, t) {
			continue
		}
		if t.K == "iface" || implements(t, v) {
			c = append(c, i)
		}
	}
	return c
}

func nilableTy(t ty) bool {
	switch t.K {
	case "ptr", "slice", "map", "chan", "func", "iface":
		return true
	}
	return false
}

func methodsOf(t ty) []int {
	switch t.K {
	case "s", "ptr":
		if n := t.S.named(); n != nil {
			return n.Methods
		}
	case "struct":
		return structCat[t.Struct].Methods
	case "iface":
		return ifaceCat[t.Iface].Methods
	}
	return nil
}

func implements(t, it ty) bool {
	have := map[int]bool{}
	for _, m := range methodsOf(t) {
		have[m] = true
	}
	for _, m := range ifaceCat[it.Iface].Methods {
		if !have[m] {
			return false
		}
	}
	return true
}

// implementer: a variable whose type implements the interface type it
func (g *genv) implementer(it ty) *expr {
	var c []int
	for i, v := range g.vars {
		if !tyEq(v, it) && implements(v, it) {
			c = append(c, i)
		}
	}
	if len(c) == 0 {
		return nil
	}
	return &expr{K: "var", I: c[g.rng.Intn(len(c))]}
}

// pool: the leading declarations of a body, so that every kind class has a variable in scope
func (g *genv) pool(n int) []*stmt {
	var out []*stmt
	must := []ty{tB("int"), tB("string"), tB("bool"), tB("float64"), tN(0), tSlice(sty{B: "int"}), tChan("both", sty{B: "int"}), tMap(sty{B: "string"}, sty{B: "int"}),
		tArr(3, sty{B: "int"}), tStruct(0), tIface(1), tPtr(sty{B: "int"}), tIface(3), tStruct(3), tIface(0)}
	for i := 0; i < n; i++ {
		var t ty
		if i < len(must) {
			t = must[i]
		} else {
			t = g.poolType()
		}
		g.vars = append(g.vars, t)
		out = append(out, &stmt{K: "declz", T: &t})
	}
	return out
}

// genProgram: 1–3 functions and a main body of about size statements.
func genProgram(rng *rand.Rand, size int) *prog {
	p := &prog{}
	g := &genv{rng: rng}
	nf := 1 + rng.Intn(3)
	for fi := 0; fi < nf; fi++ {
		f := &fn{}
		for k := rng.Intn(4); k > 0; k-- {
			f.Params = append(f.Params, simplePool(rng))
		}
		for k := rng.Intn(3); k > 0; k-- {
			f.Rets = append(f.Rets, simplePool(rng))
		}
		p.Funcs = append(p.Funcs, f)
		g.funcs = p.Funcs
		g.self = fi
		g.vars = nil
		for _, t := range f.Params {
			g.vars = append(g.vars, tS(t))
		}
		body := g.pool(6 + rng.Intn(5))
		n := 2 + rng.Intn(size/2+1)
		for i := 0; i < n; i++ {
			if s := g.stmt(2, f.Rets, true); s != nil {
				body = append(body, s)
			}
		}
		r := g.ret(f.Rets)
		for r == nil {
			// make sure a value of each result type exists: fall back to literals via a fresh pool variable
			for _, t := range f.Rets {
				tt := tS(t)
				g.vars = append(g.vars, tt)
				body = append(body, &stmt{K: "declz", T: &tt})
			}
			r = g.ret(f.Rets)
		}
		f.Body = append(body, r)
	}
	g.self = nf
	g.vars = nil
	p.Main = g.pool(12 + rng.Intn(6))
	for i := 0; i < size; i++ {
		if s := g.stmt(2, nil, false); s != nil {
			p.Main = append(p.Main, s)
		}
	}
	return p
}

// untypedBool: the expression is an untyped boolean value for Go (a comparison, or !, &&, || of such values)
func untypedBool(e *expr) bool {
	switch e.K {
	case "cmp":
		return true
	case "un":
		return e.Op == "not" && untypedBool(e.A)
	case "bin":
		return (e.Op == "land" || e.Op == "lor") && untypedBool(e.A) && untypedBool(e.B)
	}
	return false
}
