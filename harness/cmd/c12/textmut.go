package main

// Text-level part of the mutation catalogue: checks of typecheck.go / cfg.go that lie outside the
// Lean fragment (composite literals, builtins, fields, methods, interface satisfaction, type
// assertions, address/indirection, multi-value assignment, declarations, labels). A hand-written
// well-typed seed program, and single-point replacements each of which must occur exactly once in
// the seed. go/types decides that the original is well-typed and the mutant ill-typed.

import (
	"fmt"
	"strings"
)

const textSeed = `package main

import "fmt"

var g0 = ginit()

func ginit() int {
	fmt.Println("GVAR")
	return 1
}

func init() {
	fmt.Println("INIT")
}

func main() {
	fmt.Println("MARK")
}

type point struct {
	X, Y int
	Name string
}

func (p point) Norm() int       { return p.X*p.X + p.Y*p.Y }
func (p *point) Move(dx int)    { p.X += dx }
func (p point) Label() string   { return p.Name }

type shape interface {
	Norm() int
	Label() string
}

type mover interface {
	Move(dx int)
}

type celsius float64

func (c celsius) String() string { return "c" }

func sum(base int, xs ...int) int {
	for _, x := range xs {
		base += x
	}
	return base
}

type shaper interface {
	area() int
	Name() string
}

type sq struct{ s int }

func (q sq) area() int    { return q.s * q.s }
func (q sq) Name() string { return "sq" }

type pt struct{ x, y int }

type onlyName struct{}

func (onlyName) Name() string { return "" }

type onlyArea struct{}

func (onlyArea) area() int { return 0 }

type wrongSig struct{}

func (wrongSig) area() string { return "" }
func (wrongSig) Name() string { return "" }

type ptrRecv struct{}

func (*ptrRecv) area() int    { return 0 }
func (*ptrRecv) Name() string { return "" }

func pair() (int, string) { return 1, "a" }

func apply(f func(int) int, v int) int { return f(v) }

func body() {
	p := point{X: 1, Y: 2, Name: "p"}
	q := point{3, 4, "q"}
	pp := &p
	pp.Move(1)
	var s shape = q
	_ = s.Norm()
	var mv mover = pp
	mv.Move(2)
	xs := []int{1, 2, 3}
	ys := [3]string{"a", "b", "c"}
	m := map[string]int{"a": 1, "b": 2}
	ms := map[string]point{"o": {X: 0, Y: 0, Name: "o"}}
	_ = ms
	xs = append(xs, 4, 5)
	n := len(xs) + cap(xs) + len(ys) + len(m) + len("lit")
	zs := make([]int, 2, 4)
	n += copy(zs, xs)
	delete(m, "a")
	ch := make(chan int, 1)
	ch <- n
	close(ch)
	np := new(point)
	np.X = p.X
	_ = q.Label()
	a, b := pair()
	_, _ = a, b
	var e interface{} = p
	if pt, ok := e.(point); ok {
		_ = pt.X
	}
	if sh, ok := e.(shape); ok {
		_ = sh
	}
	ip := &n
	*ip = 3
	total := sum(1, xs...)
	total += sum(2, 3, 4)
	_ = apply(func(v int) int { return v + 1 }, total)
	for i, x := range xs {
		_, _ = i, x
	}
	for k, v := range m {
		_, _ = k, v
	}
	switch total {
	case 1:
		n = 1
	case 2, 3:
		n = 2
	default:
		n = 3
	}
	var t celsius = 36.6
	_ = t.String()
	sub := xs[1:2]
	_ = sub
	c, d := 1, "x"
	c, d = 2, "y"
	_, _ = c, d
	var arr [2]point
	arr[1].X = 5
	const k8 int8 = 100
	_ = k8
	var sh2 shaper = sq{2}
	if a1, ok := sh2.(sq); ok {
		_ = a1
	}
	a2 := sh2.(*ptrRecv)
	_ = a2
	switch a3 := sh2.(type) {
	case sq:
		_ = a3
	}
	okc := n > 0
	if okc { n = 10 }
	if okc { n = 11 } else { n = 12 }
	if c1 := n; okc { n = c1 }
	if c2 := n; okc { n = c2 } else { n = 13 }
	for okc { n = 14; break }
	for c3 := 0; okc; { n = c3; break }
	for ; okc; n++ { n = 15; break }
	for c4 := 0; okc; c4++ { n = 16; break }
outer:
	for i := 0; i < 2; i++ {
		for {
			continue outer
		}
	}
	defer fmt.Sprint(total)
	go sum(1)
	func() {
		_ = recover()
	}()
}
`

type textMut struct {
	Op       string
	Old, New string
}

// the catalogue (operator names mirror the message families of typecheck.go / cfg.go)
var textMuts = []textMut{
	// impossible type assertions (typecheck.go typeAssertionExpr) and type switch cases
	{"assert-missing-unexported-and-exported-struct", `sh2.(sq); ok`, `sh2.(pt); ok`},
	{"assert-missing-unexported-method", `sh2.(sq); ok`, `sh2.(onlyName); ok`},
	{"assert-missing-exported-method", `sh2.(sq); ok`, `sh2.(onlyArea); ok`},
	{"assert-missing-methods-basic-type", `sh2.(sq); ok`, `sh2.(int); ok`},
	{"assert-missing-methods-defined-type", `sh2.(sq); ok`, `sh2.(celsius); ok`},
	{"assert-wrong-signature", `sh2.(sq); ok`, `sh2.(wrongSig); ok`},
	{"assert-missing-methods-struct-pointer", `a2 := sh2.(*ptrRecv)`, `a2 := sh2.(*pt)`},
	{"assert-pointer-receiver-value-type", `a2 := sh2.(*ptrRecv)`, `a2 := sh2.(ptrRecv)`},
	{"assert-non-interface-operand", `a2 := sh2.(*ptrRecv)`, `a2 := np.(*ptrRecv)`},
	{"assert-missing-unexported-single-value", `a2 := sh2.(*ptrRecv)`, `a2 := sh2.(onlyName)`},
	{"typeswitch-impossible-case", "\tcase sq:\n\t\t_ = a3", "\tcase pt:\n\t\t_ = a3"},
	{"typeswitch-impossible-case-unexported", "\tcase sq:\n\t\t_ = a3", "\tcase onlyName:\n\t\t_ = a3"},
	{"typeswitch-non-interface-operand", `switch a3 := sh2.(type) {`, `switch a3 := n.(type) {`},
	// a constant non-boolean condition in each of the eight if / for forms of cfg.go (F11, repaired)
	{"cond-ifStmt0-constant", `if okc { n = 10 }`, `if 1 { n = 10 }`},
	{"cond-ifStmt1-constant", `if okc { n = 11 }`, `if "a" { n = 11 }`},
	{"cond-ifStmt2-constant", `if c1 := n; okc {`, `if c1 := n; 1.5 {`},
	{"cond-ifStmt3-constant", `if c2 := n; okc {`, `if c2 := n; 'x' {`},
	{"cond-forStmt2-constant", `for okc { n = 14`, `for 1 { n = 14`},
	{"cond-forStmt3-constant", `for c3 := 0; okc; {`, `for c3 := 0; "a"; {`},
	{"cond-forStmt5-constant", `for ; okc; n++ {`, `for ; 2; n++ {`},
	{"cond-forStmt7-constant", `for c4 := 0; okc; c4++ {`, `for c4 := 0; 0; c4++ {`},
	{"cond-forStmt7-typed-constant", `for c4 := 0; okc; c4++ {`, `for c4 := 0; int8(1); c4++ {`},
	{"cond-ifStmt2-nonconstant", `if c1 := n; okc {`, `if c1 := n; c1 {`},
	// composite literals (structLitExpr, arrayLitExpr, mapLitExpr)
	{"struct-literal-unknown-field", `point{X: 1, Y: 2, Name: "p"}`, `point{X: 1, Y: 2, Nme: "p"}`},
	{"struct-literal-duplicate-field", `point{X: 1, Y: 2, Name: "p"}`, `point{X: 1, X: 2, Name: "p"}`},
	{"struct-literal-field-type", `point{X: 1, Y: 2, Name: "p"}`, `point{X: "1", Y: 2, Name: "p"}`},
	{"struct-literal-too-few-values", `point{3, 4, "q"}`, `point{3, 4}`},
	{"struct-literal-too-many-values", `point{3, 4, "q"}`, `point{3, 4, "q", 5}`},
	{"struct-literal-value-type", `point{3, 4, "q"}`, `point{3, "4", "q"}`},
	{"struct-literal-mixed-keys", `point{3, 4, "q"}`, `point{X: 3, 4, "q"}`},
	{"slice-literal-element-type", `[]int{1, 2, 3}`, `[]int{1, "2", 3}`},
	{"slice-literal-duplicate-index", `[]int{1, 2, 3}`, `[]int{0: 1, 0: 2, 3}`},
	{"slice-literal-index-type", `[]int{1, 2, 3}`, `[]int{"a": 1, 2, 3}`},
	{"array-literal-out-of-bounds", `[3]string{"a", "b", "c"}`, `[3]string{"a", "b", "c", "d"}`},
	{"array-literal-element-type", `[3]string{"a", "b", "c"}`, `[3]string{"a", 2, "c"}`},
	{"array-literal-index-out-of-bounds", `[3]string{"a", "b", "c"}`, `[3]string{5: "a"}`},
	{"array-literal-key-then-positional-out-of-bounds", `[3]string{"a", "b", "c"}`, `[3]string{2: "a", "b"}`},
	{"array-literal-key-then-positional-out-of-bounds-late", `[3]string{"a", "b", "c"}`, `[3]string{"a", 1: "b", "c", "d"}`},
	{"array-literal-duplicate-index-after-key", `[3]string{"a", "b", "c"}`, `[3]string{1: "a", 0: "b", "c"}`},
	{"array-literal-negative-index", `[3]string{"a", "b", "c"}`, `[3]string{-1: "a"}`},
	{"array-literal-non-constant-index", `[3]string{"a", "b", "c"}`, `[3]string{n0: "a"}`},
	{"array-literal-index-type", `[3]string{"a", "b", "c"}`, `[3]string{"x": "a"}`},
	{"slice-literal-duplicate-index-after-key", `[]int{1, 2, 3}`, `[]int{1: 1, 0: 2, 3}`},
	{"slice-literal-negative-index", `[]int{1, 2, 3}`, `[]int{-1: 1, 2, 3}`},
	{"map-literal-duplicate-key-value-type", `map[string]point{"o": {X: 0, Y: 0, Name: "o"}}`, `map[string]point{"o": {X: 0, Y: 0, Name: "o"}, "o": {}}`},
	{"struct-literal-duplicate-field-keyed", `point{X: 1, Y: 2, Name: "p"}`, `point{X: 1, Y: 2, Name: "p", Y: 3}`},
	{"struct-literal-too-many-keyed", `point{X: 1, Y: 2, Name: "p"}`, `point{X: 1, Y: 2, Name: "p", Z: 3}`},
	{"struct-literal-positional-type", `point{3, 4, "q"}`, `point{3, 4, 5}`},
	{"map-literal-missing-key", `map[string]int{"a": 1, "b": 2}`, `map[string]int{"a": 1, 2}`},
	{"map-literal-key-type", `map[string]int{"a": 1, "b": 2}`, `map[string]int{1: 1, "b": 2}`},
	{"map-literal-value-type", `map[string]int{"a": 1, "b": 2}`, `map[string]int{"a": "1", "b": 2}`},
	{"map-literal-duplicate-key", `map[string]int{"a": 1, "b": 2}`, `map[string]int{"a": 1, "a": 2}`},
	{"nested-literal-unknown-field", `{X: 0, Y: 0, Name: "o"}`, `{X: 0, Z: 0, Name: "o"}`},
	// builtins (typecheck.builtin)
	{"append-non-slice", `append(xs, 4, 5)`, `append(n0, 4, 5)`},
	{"append-element-type", `append(xs, 4, 5)`, `append(xs, 4, "5")`},
	{"append-no-arguments", `xs = append(xs, 4, 5)`, `xs = append()`},
	{"len-invalid-argument", `len(m) + len("lit")`, `len(p) + len("lit")`},
	{"len-argument-count", `len(m) + len("lit")`, `len(m, m) + len("lit")`},
	{"cap-invalid-argument", `cap(xs)`, `cap(m)`},
	{"make-invalid-type", `make([]int, 2, 4)`, `make(int, 2, 4)`},
	{"make-too-many-arguments", `make([]int, 2, 4)`, `make([]int, 2, 4, 6)`},
	{"make-missing-length", `make([]int, 2, 4)`, `make([]int)`},
	{"make-size-type", `make([]int, 2, 4)`, `make([]int, "2", 4)`},
	{"make-len-larger-than-cap", `make([]int, 2, 4)`, `make([]int, 5, 4)`},
	{"copy-non-slice", `copy(zs, xs)`, `copy(n0, xs)`},
	{"copy-element-types", `copy(zs, xs)`, `copy(zs, ys[:])`},
	{"delete-non-map", `delete(m, "a")`, `delete(xs, "a")`},
	{"delete-key-type", `delete(m, "a")`, `delete(m, 1)`},
	{"delete-argument-count", `delete(m, "a")`, `delete(m)`},
	{"close-non-channel", `close(ch)`, `close(xs)`},
	{"close-argument-count", `close(ch)`, `close(ch, ch)`},
	{"new-argument-count", `new(point)`, `new(point, point)`},
	{"builtin-not-called", `n += copy(zs, xs)`, `n += copy(zs, xs); _ = len`},
	{"recover-arguments", `recover()`, `recover(1)`},
	// fields and methods (selectorExpr)
	{"undefined-field", `np.X = p.X`, `np.X = p.Z`},
	{"undefined-field-assign", `np.X = p.X`, `np.W = p.X`},
	{"undefined-method", `_ = q.Label()`, `_ = q.Lable()`},
	{"method-argument-count", `pp.Move(1)`, `pp.Move(1, 2)`},
	{"method-argument-type", `pp.Move(1)`, `pp.Move("1")`},
	{"method-missing-argument", `pp.Move(1)`, `pp.Move()`},
	{"undefined-interface-method", `_ = s.Norm()`, `_ = s.Nrm()`},
	{"field-of-non-struct", `arr[1].X = 5`, `n.X = 5`},
	{"undefined-package-symbol", `defer fmt.Sprint(total)`, `defer fmt.Sprnt(total)`},
	// interface satisfaction
	{"missing-method-assign", `var s shape = q`, `var s shape = n`},
	{"missing-method-pointer-receiver", `var mv mover = pp`, `var mv mover = p`},
	{"missing-method-named-type", `var s shape = q`, `var s shape = celsius(1)`},
	{"missing-method-conversion", `_ = s.Norm()`, `_ = shape(n).Norm()`},
	// type assertions
	{"assert-non-interface", `e.(point); ok`, `p.(point); ok`},
	{"impossible-assertion", `if sh, ok := e.(shape); ok {`, `if sh, ok := s.(celsius); ok {`},
	// address / indirection
	{"indirect-non-pointer", `*ip = 3`, `*n = 3`},
	{"address-of-non-addressable", `ip := &n`, `ip := &(n + 1)`},
	{"address-type", `ip := &n`, `ip := &p`},
	// calls
	{"call-non-function", `total += sum(2, 3, 4)`, `total += n(2, 3, 4)`},
	{"variadic-element-type", `sum(2, 3, 4)`, `sum(2, 3, "4")`},
	{"spread-non-variadic", `apply(func(v int) int { return v + 1 }, total)`, `apply(func(v int) int { return v + 1 }, xs...)`},
	{"spread-wrong-slice", `sum(1, xs...)`, `sum(1, ys[:]...)`},
	{"function-value-type", `apply(func(v int) int { return v + 1 }, total)`, `apply(func(v string) int { return 1 }, total)`},
	{"closure-return-type", `func(v int) int { return v + 1 }`, `func(v int) int { return "v" }`},
	// multi-value
	{"assignment-count", `a, b := pair()`, `a, b, b2 := pair()`},
	{"assignment-count-values", `c, d = 2, "y"`, `c, d = 2`},
	{"tuple-assignment-type", `c, d = 2, "y"`, `c, d = "2", "y"`},
	{"multi-value-in-single-context", `a, b := pair()`, `a, b := pair(), 1`},
	{"no-new-variables", `c, d := 1, "x"`, `c, d := 1, "x"; c, d := 2, "z"`},
	// declarations and names
	{"duplicate-variable", `var arr [2]point`, `var arr, arr [2]point`},
	{"undefined-type", `var arr [2]point`, `var arr [2]pointt`},
	{"not-a-type", `var arr [2]point`, `var arr [2]n`},
	{"array-length-non-constant", `var arr [2]point`, `var arr [n]point`},
	{"typed-constant-overflow", `const k8 int8 = 100`, `const k8 int8 = 300`},
	{"typed-constant-overflow-bit-length", `const k8 int8 = 100`, `const k8 int8 = 200`},
	{"constant-type-mismatch", `const k8 int8 = 100`, `const k8 int8 = "100"`},
	{"assign-to-constant", `_ = k8`, `k8 = 1`},
	{"named-float-from-string", `var t celsius = 36.6`, `var t celsius = "36.6"`},
	// statements
	{"range-non-iterable", `for i, x := range xs {`, `for i, x := range p {`},
	{"range-value-type", `for k, v := range m {`, `var k int; var v int; for k, v = range m {`},
	{"switch-case-type", `case 2, 3:`, `case 2, "3":`},
	{"switch-duplicate-case", `case 2, 3:`, `case 2, 1:`},
	{"undefined-label", `continue outer`, `continue inner`},
	{"slice-of-non-sliceable", `sub := xs[1:2]`, `sub := n[1:2]`},
	{"slice-index-type", `sub := xs[1:2]`, `sub := xs["1":2]`},
	{"slice-constant-indices-inverted", `sub := xs[1:2]`, `sub := xs[2:1]`},
	{"slice-constant-indices-low-above-max", `sub := xs[1:2]`, `sub := xs[2:n0:1]`},
	{"slice-constant-indices-high-above-max", `sub := xs[1:2]`, `sub := xs[1:3:2]`},
	{"slice-constant-indices-low-above-high-3", `sub := xs[1:2]`, `sub := xs[2:1:3]`},
	{"slice-three-index-string", `sub := xs[1:2]`, `sub := xs[1:2]; _ = "abc"[0:1:2]`},
	{"defer-wrong-arguments", `defer fmt.Sprint(total)`, `defer sum("1")`},
	{"go-wrong-arguments", `go sum(1)`, `go sum("1")`},
	{"receiver-method-return-type", `{ return p.Name }`, `{ return p.X }`},
	{"variadic-range-type", `base += x`, `base += "x"`},
	{"unused-result-assign", `n += copy(zs, xs)`, `n += close(ch)`},
	// around the findings repaired in the third round (F12-3, F12-7, F12-12, F12-14, F12-16): same shapes, more variants
	{"no-value-method-as-operand", `n += copy(zs, xs)`, `n += pp.Move(3)`},
	{"multi-value-as-operand", `n += copy(zs, xs)`, `n += pair()`},
	{"multi-value-argument-type", `total += sum(2, 3, 4)`, `total += sum(pair())`},
	{"no-value-call-in-condition", `okc := n > 0`, `okc := n > 0 && pp.Move(1)`},
	{"assignment-count-values-call", `c, d = 2, "y"`, `c, d = sum(1)`},
	{"define-count-values", `c, d := 1, "x"`, `c, d := 1`},
	{"no-value-call-assigned", `ip := &n`, `ip := &n; nv := pp.Move(1); _ = nv`},
	{"logical-operand-type", `okc := n > 0`, `okc := n > 0 && n`},
	{"logical-operand-string", `okc := n > 0`, `okc := "a" || n > 0`},
	{"logical-operands-mismatched-bool-types", `okc := n > 0`, `type myb bool; var mb myb; okd := n > 0; okc := mb && okd`},
	{"logical-comparison-with-defined-bool-assigned-to-bool", `okc := n > 0`, `type myb bool; var mb myb; var okc bool = n > 0 && mb`},
	{"send-value-type", "\tch <- n\n", "\tch <- \"n\"\n"},
	{"send-on-receive-only", "\tch <- n\n", "\tvar rch <-chan int = ch; rch <- n\n"},
	{"send-non-channel", "\tch <- n\n", "\txs <- n\n"},
	{"range-non-iterable-pointer-to-struct", `for i, x := range xs {`, `for i, x := range pp {`},
	{"range-non-iterable-function", `for i, x := range xs {`, `for i, x := range pair {`},
	{"switch-case-not-representable", `case 2, 3:`, `case 2, 1.5:`},
	{"switch-case-nil", `case 2, 3:`, `case 2, nil:`},
	{"switch-duplicate-case-across-clauses", `case 2, 3:`, `case 2, 3, 3:`},
	{"missing-method-pointer-receiver-conversion", `_ = s.Norm()`, `_ = mover(q)`},
	{"missing-method-pointer-receiver-assign-later", `mv.Move(2)`, `mv = q`},
	{"typeswitch-impossible-case-pointer", "\tcase sq:\n\t\t_ = a3", "\tcase *pt:\n\t\t_ = a3"},
	{"typeswitch-duplicate-case", "\tcase sq:\n\t\t_ = a3", "\tcase sq, sq:\n\t\t_ = a3"},
	{"typeswitch-impossible-case-basic", "\tcase sq:\n\t\t_ = a3", "\tcase int:\n\t\t_ = a3"},
	{"index-non-indexable-struct", `np.X = p.X`, `np.X = p[0]`},
	{"index-non-indexable-pointer", `np.X = p.X`, `np.X = ip[0]`},
	{"constant-expression-overflow-decl", `const k8 int8 = 100`, `const k8 int8 = 100; var k9 int8 = 100 + 100; _ = k9`},
	{"constant-expression-overflow-assign", `_ = k8`, `_ = k8; var k9 int8; k9 = 100 + 100; _ = k9`},
	{"constant-expression-overflow-argument", `pp.Move(1)`, `pp.Move(1 << 70)`},
	{"constant-return-overflow", `func (p point) Norm() int       { return p.X*p.X + p.Y*p.Y }`, `func (p point) Norm() int       { return 1 << 70 }`},
	{"nil-to-basic-field", `np.X = p.X`, `np.X = nil`},
	{"boolean-literal-to-int-field", `np.X = p.X`, `np.X = true`},
	{"constant-to-nonempty-interface", `var s shape = q`, `var s shape = 1`},
}

func withPlaceholders(s string) string {
	// n0: an int variable that exists at every mutation point (declared at the top of body)
	return s
}

// textCases: the seed (original) and every mutant; the seed declares `n0` for the builtin mutants.
func textCases() ([]caseT, []string) {
	seed := strings.Replace(textSeed, "func body() {\n", "func body() {\n\tn0 := 7\n\t_ = n0\n", 1)
	out := []caseT{{Stream: "text-orig", Class: "original", Src: seed, Want: "ok"}}
	var ops []string
	for _, m := range textMuts {
		ops = append(ops, m.Op)
		if strings.Count(seed, m.Old) != 1 {
			out = append(out, caseT{Stream: "text-mutant", Class: m.Op + ":seed-mismatch", Src: fmt.Sprintf("package main\n// mutation point %q occurs %d times\nfunc main() {", m.Old, strings.Count(seed, m.Old))})
			continue
		}
		out = append(out, caseT{Stream: "text-mutant", Class: m.Op, Src: strings.Replace(seed, m.Old, m.New, 1), Want: "err"})
	}
	return out, ops
}
