package main

// The mutation catalogue on fragment programs: single-point type-breaking mutations, mirroring the
// checks of interp/typecheck.go and their call sites in interp/cfg.go. Every operator is applied at
// every applicable site of a generated well-typed program. The class label of a mutant is a
// function of the mutant alone (operator + classes of the types involved).

import (
	"fmt"
	"math/rand"
	"sort"
)

type mutant struct {
	P     *prog
	Op    string // mutation operator
	Class string // class label
}

// ---- static types of expressions (of the ORIGINAL, well-typed program) ----

type scope struct {
	vars  []ty
	funcs []*fn
	rets  []sty
}

// typeOf: the type of a well-typed expression; ok=false for untyped constants and nil
func (sc *scope) typeOf(e *expr) (ty, bool) {
	switch e.K {
	case "var":
		if e.I < len(sc.vars) {
			return sc.vars[e.I], true
		}
	case "un":
		return sc.typeOf(e.A)
	case "recv":
		if t, ok := sc.typeOf(e.A); ok && t.K == "chan" {
			return tS(t.S), true
		}
	case "bin", "shift":
		if t, ok := sc.typeOf(e.A); ok {
			return t, true
		}
		if e.K == "bin" {
			return sc.typeOf(e.B)
		}
	case "cmp":
		return tB("bool"), true
	case "call":
		if e.I < len(sc.funcs) && len(sc.funcs[e.I].Rets) == 1 {
			return tS(sc.funcs[e.I].Rets[0]), true
		}
	case "conv", "assert":
		return *e.T, true
	case "index":
		if t, ok := sc.typeOf(e.A); ok {
			switch t.K {
			case "slice", "array", "map":
				return tS(t.S), true
			case "s":
				return tB("uint8"), true
			}
		}
	}
	return ty{}, false
}

func (sc *scope) classOf(e *expr) string {
	if t, ok := sc.typeOf(e); ok {
		return t.class()
	}
	return litClass(e)
}

// relation between two types, for class labels
func rel(a, b ty) string {
	switch {
	case tyEq(a, b):
		return "same"
	case eraseKey(a) == eraseKey(b):
		return "same-reflect-type"
	}
	return "different"
}

// eraseKey: the reflect type the interpreter builds (defined types collapse to their underlying type, struct names are dropped)
func eraseKey(t ty) string {
	e := func(s sty) string { return s.B }
	switch t.K {
	case "s":
		return e(t.S)
	case "ptr", "slice":
		return t.K + " " + e(t.S)
	case "array":
		return fmt.Sprintf("array %d %s", t.N, e(t.S))
	case "map":
		return "map " + e(t.Key) + " " + e(t.S)
	case "chan":
		return "chan " + t.Dir + " " + e(t.S)
	case "func":
		s := "func("
		for _, a := range t.Args {
			s += e(a) + ","
		}
		s += ")("
		for _, a := range t.Rets {
			s += e(a) + ","
		}
		return s + ")"
	case "struct":
		s := "struct{"
		for _, f := range structCat[t.Struct].Fields {
			s += e(f) + ";"
		}
		return s + "}"
	case "iface":
		if t.Iface == 0 {
			return "interface{}"
		}
		return "valueInterface"
	}
	return "?"
}

// ---- site enumeration ----

// site: a mutable place; apply returns mutated copies of the whole program
type ctx struct {
	root *prog
	out  *[]mutant
	rng  *rand.Rand
}

// path-based mutation: clone the program, find the same node by walking the same path
type path []int

func (c *ctx) emit(op, class string, p *prog) {
	*c.out = append(*c.out, mutant{P: p, Op: op, Class: op + ":" + class})
}

// the walker keeps, for every expression site, a setter that installs a replacement in a fresh clone
type setter func(q *prog, repl *expr)
type stmtGetter func(q *prog) *stmt

func blockOf(q *prog, fi int) *[]*stmt {
	if fi < 0 {
		return &q.Main
	}
	return &q.Funcs[fi].Body
}

// follow a statement path: indices into nested blocks; even positions index statements, odd positions choose Then(0)/Else(1)
func stmtAt(q *prog, fi int, sp []int) *stmt {
	blk := *blockOf(q, fi)
	var s *stmt
	for i := 0; i < len(sp); i += 2 {
		s = blk[sp[i]]
		if i+1 < len(sp) {
			if sp[i+1] == 0 {
				blk = s.Then
			} else {
				blk = s.Else
			}
		}
	}
	return s
}

// expression path inside a statement: first element selects the root (0 = E, 1 = C, 2+k = Args[k]); then 0 = A, 1 = B, 2+k = Args[k]
func exprAt(s *stmt, ep []int) **expr {
	var p **expr
	switch {
	case ep[0] == 0:
		p = &s.E
	case ep[0] == 1:
		p = &s.C
	default:
		p = &s.Args[ep[0]-2]
	}
	for _, k := range ep[1:] {
		switch {
		case k == 0:
			p = &(*p).A
		case k == 1:
			p = &(*p).B
		default:
			p = &(*p).Args[k-2]
		}
	}
	return p
}

func cp(xs []int, more ...int) []int {
	return append(append([]int(nil), xs...), more...)
}

// candidates: variables in scope whose type satisfies pred
func (sc *scope) varsWhere(pred func(ty) bool) []int {
	var out []int
	for i, v := range sc.vars {
		if pred(v) {
			out = append(out, i)
		}
	}
	return out
}

// pickDistinctClasses: at most one variable per type class, in index order (deterministic)
func (sc *scope) onePerClass(idx []int) []int {
	seen := map[string]bool{}
	var out []int
	for _, i := range idx {
		c := sc.vars[i].class()
		if !seen[c] {
			seen[c] = true
			out = append(out, i)
		}
	}
	return out
}

var badLits = []*expr{
	{K: "lit", Lit: "string"}, {K: "lit", Lit: "int", V: 7}, {K: "lit", Lit: "float", V: 1, Frac: true}, {K: "lit", Lit: "bool", V: 1}, {K: "nil"},
}

// mutateProgram enumerates every mutant of p.
func mutateProgram(p *prog, rng *rand.Rand) []mutant {
	var out []mutant
	c := &ctx{root: p, out: &out, rng: rng}
	for fi, f := range p.Funcs {
		sc := &scope{funcs: p.Funcs, rets: f.Rets}
		for _, t := range f.Params {
			sc.vars = append(sc.vars, tS(t))
		}
		c.walkBlock(fi, nil, f.Body, sc)
	}
	sc := &scope{funcs: p.Funcs}
	c.walkBlock(-1, nil, p.Main, sc)
	return out
}

func (c *ctx) walkBlock(fi int, sp []int, blk []*stmt, sc *scope) {
	saved := len(sc.vars)
	for i, s := range blk {
		c.walkStmt(fi, cp(sp, i), s, sc)
		switch s.K {
		case "decl", "declz":
			sc.vars = append(sc.vars, *s.T)
		case "define":
			t, ok := sc.typeOf(s.E)
			if !ok {
				t = tB("int") // generator never defines from a constant
			}
			sc.vars = append(sc.vars, t)
		case "defineok":
			sc.vars = append(sc.vars, *s.T, tB("bool"))
		}
	}
	sc.vars = sc.vars[:saved]
}

// withStmt: clone the program and hand the same statement of the clone to f
func (c *ctx) withStmt(fi int, sp []int, f func(s *stmt)) *prog {
	q := c.root.clone()
	f(stmtAt(q, fi, sp))
	return q
}

func (c *ctx) withExpr(fi int, sp, ep []int, repl *expr) *prog {
	q := c.root.clone()
	s := stmtAt(q, fi, sp)
	*exprAt(s, ep) = repl
	return q
}

func (c *ctx) walkStmt(fi int, sp []int, s *stmt, sc *scope) {
	// expressions of this statement
	if s.E != nil {
		c.walkExpr(fi, sp, []int{0}, s.E, sc)
	}
	if s.C != nil {
		c.walkExpr(fi, sp, []int{1}, s.C, sc)
	}
	for k, a := range s.Args {
		c.walkExpr(fi, sp, []int{2 + k}, a, sc)
	}
	switch s.K {
	case "decl", "assign":
		var dst ty
		if s.K == "decl" {
			dst = *s.T
		} else {
			dst = sc.vars[s.I]
		}
		// source of another type (one variable per class)
		for _, vi := range sc.onePerClass(sc.varsWhere(func(t ty) bool { return !tyEq(t, dst) })) {
			c.emit(s.K+"-source-type", dst.class()+"<-"+sc.vars[vi].class()+":"+rel(dst, sc.vars[vi]),
				c.withStmt(fi, sp, func(m *stmt) { m.E = &expr{K: "var", I: vi} }))
		}
		for _, l := range badLits {
			l := l
			c.emit(s.K+"-source-literal", dst.class()+"<-"+litClass(l), c.withStmt(fi, sp, func(m *stmt) { m.E = l.clone() }))
		}
		if b := under(dst); isIntB(b) {
			for _, v := range overflowValues(b) {
				v := v
				c.emit(s.K+"-const-overflow", b+"<-"+overflowClass(b, v), c.withStmt(fi, sp, func(m *stmt) { m.E = &expr{K: "lit", Lit: "int", V: v} }))
			}
			c.emit(s.K+"-const-truncated", dst.class()+"<-const-float-frac", c.withStmt(fi, sp, func(m *stmt) { m.E = &expr{K: "lit", Lit: "float", V: 1, Frac: true} }))
		}
		if s.K == "decl" {
			// declared type changed under the same source
			if st, ok := sc.typeOf(s.E); ok {
				for _, nt := range declTypeAlternatives(st) {
					nt := nt
					c.emit("decl-type", nt.class()+"<-"+st.class()+":"+rel(nt, st), c.withStmt(fi, sp, func(m *stmt) { m.T = &nt }))
				}
			}
		} else if s.I < len(sc.vars) {
			c.emit("undefined-assign", "var", c.withStmt(fi, sp, func(m *stmt) { m.I = len(sc.vars) + 3 }))
			// operator expression as the source (the interpreter's slot shortcut)
			for _, vi := range sc.onePerClass(sc.varsWhere(func(t ty) bool { return !tyEq(t, dst) && (isNumB(under(t)) || under(t) == "string") })) {
				for _, op := range []string{"add", "sub"} {
					if op == "sub" && !isNumB(under(sc.vars[vi])) {
						continue
					}
					vi, op := vi, op
					c.emit("assign-source-operator", op+":"+dst.class()+"<-"+sc.vars[vi].class()+":"+rel(dst, sc.vars[vi]),
						c.withStmt(fi, sp, func(m *stmt) { m.E = &expr{K: "bin", Op: op, A: &expr{K: "var", I: vi}, B: &expr{K: "var", I: vi}} }))
				}
				if isNumB(under(sc.vars[vi])) {
					vi := vi
					c.emit("assign-source-operator", "neg:"+dst.class()+"<-"+sc.vars[vi].class()+":"+rel(dst, sc.vars[vi]),
						c.withStmt(fi, sp, func(m *stmt) { m.E = &expr{K: "un", Op: "neg", A: &expr{K: "var", I: vi}} }))
					c.emit("assign-source-operator", "cmp:"+dst.class()+"<-bool",
						c.withStmt(fi, sp, func(m *stmt) { m.E = &expr{K: "cmp", Op: "lt", A: &expr{K: "var", I: vi}, B: &expr{K: "var", I: vi}} }))
				}
			}
		}
	case "defineok":
		c.assertMutants(sc, *s.T, s.E, func(op, class string, nt *ty, ne *expr) {
			c.emit("commaok-"+op, class, c.withStmt(fi, sp, func(m *stmt) {
				if nt != nil {
					m.T = nt
				}
				if ne != nil {
					m.E = ne
				}
			}))
		})
	case "define":
		c.emit("define-nil", "nil", c.withStmt(fi, sp, func(m *stmt) { m.E = &expr{K: "nil"} }))
		for gi, g := range sc.funcs {
			if fi >= 0 && gi >= fi {
				break
			}
			if len(g.Rets) != 1 && len(g.Params) == 0 {
				gi := gi
				c.emit("call-value-count", fmt.Sprintf("%d-results", len(g.Rets)), c.withStmt(fi, sp, func(m *stmt) { m.E = &expr{K: "call", I: gi} }))
			}
		}
	case "opassign":
		dst := sc.vars[s.I]
		for _, vi := range sc.onePerClass(sc.varsWhere(func(t ty) bool { return !tyEq(t, dst) })) {
			vi := vi
			c.emit("opassign-operand-type", s.Op+":"+dst.class()+":"+sc.vars[vi].class()+":"+rel(dst, sc.vars[vi]),
				c.withStmt(fi, sp, func(m *stmt) { m.E = &expr{K: "var", I: vi} }))
		}
		for _, vi := range sc.onePerClass(sc.varsWhere(func(t ty) bool { return !opDefined(s.Op, t) })) {
			vi := vi
			c.emit("opassign-target-type", s.Op+":"+sc.vars[vi].class(), c.withStmt(fi, sp, func(m *stmt) { m.I = vi; m.E = &expr{K: "var", I: vi} }))
		}
		if s.Op == "quo" || s.Op == "rem" || isIntB(under(dst)) {
			c.emit("opassign-const-zero-divisor", dst.class(), c.withStmt(fi, sp, func(m *stmt) { m.Op = "rem"; m.E = &expr{K: "lit", Lit: "int", V: 0} }))
		}
		if isIntB(under(dst)) {
			c.emit("opassign-const-zero-divisor", "quo:"+dst.class(), c.withStmt(fi, sp, func(m *stmt) { m.Op = "quo"; m.E = &expr{K: "lit", Lit: "int", V: 0} }))
			c.emit("opassign-const-zero-divisor", "quo-float-zero:"+dst.class(), c.withStmt(fi, sp, func(m *stmt) { m.Op = "quo"; m.E = &expr{K: "lit", Lit: "float", V: 0} }))
			if dst.S.Named == 0 {
				dt := dst
				c.emit("opassign-typed-const-zero-divisor", dst.class(), c.withStmt(fi, sp, func(m *stmt) {
					m.Op = "rem"
					m.E = &expr{K: "conv", T: &dt, A: &expr{K: "lit", Lit: "int", V: 0}}
				}))
			}
		} else if isNumB(under(dst)) {
			// valid Go: a floating-point or complex variable divided by the constant zero (F12-11)
			c.emit("opassign-const-zero-divisor", "quo-non-integer:"+dst.class(), c.withStmt(fi, sp, func(m *stmt) { m.Op = "quo"; m.E = &expr{K: "lit", Lit: "int", V: 0} }))
		}
	case "incdec":
		for _, vi := range sc.onePerClass(sc.varsWhere(func(t ty) bool { return !isNumB(under(t)) })) {
			vi := vi
			c.emit("incdec-target-type", sc.vars[vi].class(), c.withStmt(fi, sp, func(m *stmt) { m.I = vi }))
		}
	case "send":
		ct, _ := sc.typeOf(s.C)
		for _, vi := range sc.onePerClass(sc.varsWhere(func(t ty) bool { return !tyEq(t, tS(ct.S)) })) {
			vi := vi
			c.emit("send-value-type", tS(ct.S).class()+"<-"+sc.vars[vi].class()+":"+rel(tS(ct.S), sc.vars[vi]),
				c.withStmt(fi, sp, func(m *stmt) { m.E = &expr{K: "var", I: vi} }))
		}
		for _, l := range badLits {
			l := l
			c.emit("send-value-literal", tS(ct.S).class()+"<-"+litClass(l), c.withStmt(fi, sp, func(m *stmt) { m.E = l.clone() }))
		}
		for _, vi := range sc.onePerClass(sc.varsWhere(func(t ty) bool { return t.K != "chan" })) {
			vi := vi
			c.emit("send-non-channel", sc.vars[vi].class(), c.withStmt(fi, sp, func(m *stmt) { m.C = &expr{K: "var", I: vi} }))
		}
		for _, vi := range sc.varsWhere(func(t ty) bool { return t.K == "chan" && t.Dir == "recv" && t.S == ct.S }) {
			vi := vi
			c.emit("send-receive-only", "chan-recv", c.withStmt(fi, sp, func(m *stmt) { m.C = &expr{K: "var", I: vi} }))
			break
		}
	case "call":
		c.callMutants(fi, sp, sc, s.I, len(s.Args), func(m *stmt) *[]*expr { return &m.Args }, func(m *stmt, i int) { m.I = i })
	case "if", "for":
		for _, vi := range sc.onePerClass(sc.varsWhere(func(t ty) bool { return under(t) != "bool" })) {
			vi := vi
			c.emit("condition-non-boolean", s.K+":"+sc.vars[vi].class(), c.withStmt(fi, sp, func(m *stmt) { m.E = &expr{K: "var", I: vi} }))
		}
		for _, l := range badLits {
			if l.Lit == "bool" {
				continue
			}
			l := l
			c.emit("condition-constant-non-boolean", s.K+":"+litClass(l), c.withStmt(fi, sp, func(m *stmt) { m.E = l.clone() }))
		}
		inner := cloneScope(sc)
		c.walkBlock(fi, cp(sp, 0), s.Then, inner)
		if s.Else != nil {
			c.walkBlock(fi, cp(sp, 1), s.Else, cloneScope(sc))
		}
	case "ret":
		n := len(s.Args)
		if n > 0 {
			c.emit("return-count", fmt.Sprintf("%d-results:%d-values", n, n-1), c.withStmt(fi, sp, func(m *stmt) { m.Args = m.Args[:n-1] }))
		}
		c.emit("return-count", fmt.Sprintf("%d-results:%d-values", n, n+1), c.withStmt(fi, sp, func(m *stmt) { m.Args = append(m.Args, &expr{K: "lit", Lit: "int", V: 1}) }))
		for k := range s.Args {
			k := k
			dst := tS(sc.rets[k])
			for _, vi := range sc.onePerClass(sc.varsWhere(func(t ty) bool { return !tyEq(t, dst) })) {
				vi := vi
				c.emit("return-value-type", dst.class()+"<-"+sc.vars[vi].class()+":"+rel(dst, sc.vars[vi]),
					c.withStmt(fi, sp, func(m *stmt) { m.Args[k] = &expr{K: "var", I: vi} }))
			}
			for _, l := range badLits {
				l := l
				c.emit("return-value-literal", dst.class()+"<-"+litClass(l), c.withStmt(fi, sp, func(m *stmt) { m.Args[k] = l.clone() }))
			}
			if b := under(dst); isIntB(b) {
				for _, v := range overflowValues(b) {
					v := v
					c.emit("return-const-overflow", b+"<-"+overflowClass(b, v), c.withStmt(fi, sp, func(m *stmt) { m.Args[k] = &expr{K: "lit", Lit: "int", V: v} }))
				}
				c.emit("return-const-truncated", dst.class()+"<-const-float-frac", c.withStmt(fi, sp, func(m *stmt) { m.Args[k] = &expr{K: "lit", Lit: "float", V: 1, Frac: true} }))
			}
			for _, vi := range sc.onePerClass(sc.varsWhere(func(t ty) bool { return !tyEq(t, dst) && isNumB(under(t)) })) {
				vi := vi
				c.emit("return-source-operator", "sub:"+dst.class()+"<-"+sc.vars[vi].class()+":"+rel(dst, sc.vars[vi]),
					c.withStmt(fi, sp, func(m *stmt) {
						m.Args[k] = &expr{K: "bin", Op: "sub", A: &expr{K: "var", I: vi}, B: &expr{K: "var", I: vi}}
					}))
				c.emit("return-source-operator", "neg:"+dst.class()+"<-"+sc.vars[vi].class()+":"+rel(dst, sc.vars[vi]),
					c.withStmt(fi, sp, func(m *stmt) { m.Args[k] = &expr{K: "un", Op: "neg", A: &expr{K: "var", I: vi}} }))
			}
		}
	}
}

func cloneScope(sc *scope) *scope {
	return &scope{vars: append([]ty(nil), sc.vars...), funcs: sc.funcs, rets: sc.rets}
}

func opDefined(op string, t ty) bool {
	b := under(t)
	switch op {
	case "add":
		return isNumB(b) || b == "string"
	case "sub", "mul", "quo":
		return isNumB(b)
	case "rem", "and", "or", "xor", "andnot", "shl", "shr", "bitnot":
		return isIntB(b)
	case "land", "lor", "not":
		return b == "bool"
	case "neg", "pos":
		return isNumB(b)
	}
	return false
}

// values just outside the range of an integer kind: in the gap the bit-length test cannot see, and beyond it
func overflowValues(b string) []int64 {
	switch b {
	case "int8":
		return []int64{128, 200, 255, 256, 300, -129, -255, -256, -300}
	case "uint8":
		return []int64{256, 300, -1}
	case "int16":
		return []int64{32768, 40000, 65535, 65536, 70000, -32769, -65535, -65536}
	case "uint16":
		return []int64{65536, 70000, -1}
	case "int32":
		return []int64{2147483648, 4294967295, 4294967296, -2147483649, -4294967296}
	case "uint32":
		return []int64{4294967296, -1}
	case "uint", "uint64", "uintptr":
		return []int64{-1}
	}
	return nil
}

func overflowClass(b string, v int64) string {
	bits := map[string]uint{"int8": 8, "int16": 16, "int32": 32, "uint8": 8, "uint16": 16, "uint32": 32}[b]
	if v < 0 {
		if basicClass(b) == "uint" {
			return "negative"
		}
		if bits > 0 && -v < int64(1)<<bits {
			return "below-min-within-bit-length"
		}
		return "below-min"
	}
	if bits > 0 && basicClass(b) == "int" && v < int64(1)<<bits {
		return "above-max-within-bit-length"
	}
	return "above-max"
}

// alternatives for a declared type, given the type of the (typed) source
func declTypeAlternatives(st ty) []ty {
	var out []ty
	seen := map[string]bool{}
	for _, t := range universe() {
		if tyEq(t, st) {
			continue
		}
		k := t.class() + ":" + rel(t, st)
		if !seen[k] {
			seen[k] = true
			out = append(out, t)
		}
	}
	return out
}

// callMutants: arity and argument-type mutations of a call (statement or expression)
func (c *ctx) callMutants(fi int, sp []int, sc *scope, f, nargs int, args func(*stmt) *[]*expr, setF func(*stmt, int)) {
	np := len(sc.funcs[f].Params)
	if nargs > 0 {
		c.emit("call-argument-count", fmt.Sprintf("%d-params:%d-args", np, nargs-1), c.withStmt(fi, sp, func(m *stmt) { a := args(m); *a = (*a)[:nargs-1] }))
	}
	c.emit("call-argument-count", fmt.Sprintf("%d-params:%d-args", np, nargs+1), c.withStmt(fi, sp, func(m *stmt) {
		a := args(m)
		*a = append(*a, &expr{K: "lit", Lit: "int", V: 1})
	}))
	c.emit("undefined-function", "func", c.withStmt(fi, sp, func(m *stmt) { setF(m, len(sc.funcs)+2) }))
	for k := 0; k < nargs && k < np; k++ {
		k := k
		dst := tS(sc.funcs[f].Params[k])
		for _, vi := range sc.onePerClass(sc.varsWhere(func(t ty) bool { return !tyEq(t, dst) })) {
			vi := vi
			c.emit("call-argument-type", dst.class()+"<-"+sc.vars[vi].class()+":"+rel(dst, sc.vars[vi]),
				c.withStmt(fi, sp, func(m *stmt) { (*args(m))[k] = &expr{K: "var", I: vi} }))
		}
		for _, l := range badLits {
			l := l
			c.emit("call-argument-literal", dst.class()+"<-"+litClass(l), c.withStmt(fi, sp, func(m *stmt) { (*args(m))[k] = l.clone() }))
		}
		if b := under(dst); isIntB(b) {
			for _, v := range overflowValues(b) {
				v := v
				c.emit("call-argument-const-overflow", b+"<-"+overflowClass(b, v), c.withStmt(fi, sp, func(m *stmt) { (*args(m))[k] = &expr{K: "lit", Lit: "int", V: v} }))
			}
		}
	}
}

// walkExpr: mutations at an expression site and below
func (c *ctx) walkExpr(fi int, sp, ep []int, e *expr, sc *scope) {
	repl := func(op, class string, r *expr) { c.emit(op, class, c.withExpr(fi, sp, ep, r)) }
	v := func(i int) *expr { return &expr{K: "var", I: i} }
	switch e.K {
	case "var":
		r := e.clone()
		r.I = len(sc.vars) + 3
		repl("undefined-variable", "var", r)
	case "un":
		c.walkExpr(fi, sp, cp(ep, 0), e.A, sc)
		for _, vi := range sc.onePerClass(sc.varsWhere(func(t ty) bool { return !opDefined(e.Op, t) })) {
			r := e.clone()
			r.A = v(vi)
			repl("unary-operand-type", e.Op+":"+sc.vars[vi].class(), r)
		}
		if at, ok := sc.typeOf(e.A); ok {
			for _, op := range unOps {
				if !opDefined(op, at) {
					r := e.clone()
					r.Op = op
					repl("unary-operator", op+":"+at.class(), r)
				}
			}
		}
	case "recv":
		c.walkExpr(fi, sp, cp(ep, 0), e.A, sc)
		for _, vi := range sc.onePerClass(sc.varsWhere(func(t ty) bool { return t.K != "chan" })) {
			r := e.clone()
			r.A = v(vi)
			repl("receive-non-channel", sc.vars[vi].class(), r)
		}
		ct, _ := sc.typeOf(e.A)
		for _, vi := range sc.varsWhere(func(t ty) bool { return t.K == "chan" && t.Dir == "send" && t.S == ct.S }) {
			r := e.clone()
			r.A = v(vi)
			repl("receive-send-only", "chan-send", r)
			break
		}
	case "bin", "cmp", "shift":
		c.walkExpr(fi, sp, cp(ep, 0), e.A, sc)
		c.walkExpr(fi, sp, cp(ep, 1), e.B, sc)
		at, aok := sc.typeOf(e.A)
		bt, bok := sc.typeOf(e.B)
		// one operand replaced by a variable of another type
		if bok {
			for _, vi := range sc.onePerClass(sc.varsWhere(func(t ty) bool { return !tyEq(t, bt) })) {
				r := e.clone()
				r.A = v(vi)
				repl(e.K+"-operand-type", e.Op+":"+sc.vars[vi].class()+":"+bt.class()+":"+rel(sc.vars[vi], bt), r)
			}
		}
		if aok && e.K != "shift" {
			for _, vi := range sc.onePerClass(sc.varsWhere(func(t ty) bool { return !tyEq(t, at) })) {
				r := e.clone()
				r.B = v(vi)
				repl(e.K+"-operand-type", e.Op+":"+at.class()+":"+sc.vars[vi].class()+":"+rel(at, sc.vars[vi]), r)
			}
		}
		if aok {
			for _, l := range badLits {
				r := e.clone()
				r.B = l.clone()
				repl(e.K+"-operand-literal", e.Op+":"+at.class()+":"+litClass(l), r)
			}
			if b := under(at); isIntB(b) && e.K != "shift" {
				for _, val := range overflowValues(b) {
					r := e.clone()
					r.B = &expr{K: "lit", Lit: "int", V: val}
					repl(e.K+"-const-overflow", e.Op+":"+b+":"+overflowClass(b, val), r)
				}
			}
		}
		// operator not defined on the operand type (both operands keep their common type)
		if aok && bok && tyEq(at, bt) {
			var ops []string
			switch e.K {
			case "bin":
				ops = binOps
			case "cmp":
				ops = cmpOps
			}
			for _, op := range ops {
				if op == e.Op {
					continue
				}
				bad := false
				if e.K == "bin" {
					bad = !opDefined(op, at)
				} else {
					bad = (op != "eq" && op != "ne") && !(isNumB(under(at)) && basicClass(under(at)) != "complex" || under(at) == "string")
				}
				if bad {
					r := e.clone()
					r.Op = op
					repl(e.K+"-operator", op+":"+at.class(), r)
				}
			}
			// both operands replaced by variables of a type the operator is not defined on
			if e.K == "bin" {
				for _, vi := range sc.onePerClass(sc.varsWhere(func(t ty) bool { return !opDefined(e.Op, t) })) {
					r := e.clone()
					r.A, r.B = v(vi), v(vi)
					repl("bin-both-operands-type", e.Op+":"+sc.vars[vi].class(), r)
				}
			}
			if e.K == "cmp" {
				for _, vi := range sc.onePerClass(sc.varsWhere(func(t ty) bool {
					switch t.K {
					case "slice", "map", "func":
						return true
					}
					return e.Op != "eq" && e.Op != "ne" && !(isNumB(under(t)) && basicClass(under(t)) != "complex" || under(t) == "string")
				})) {
					r := e.clone()
					r.A, r.B = v(vi), v(vi)
					repl("cmp-both-operands-type", e.Op+":"+sc.vars[vi].class(), r)
				}
			}
		}
		if e.K == "bin" && (e.Op == "quo" || e.Op == "rem") && aok {
			r := e.clone()
			r.B = &expr{K: "lit", Lit: "int", V: 0}
			repl("const-zero-divisor", e.Op+":"+at.class(), r)
			if isIntB(under(at)) {
				r2 := e.clone()
				tt := at
				r2.B = &expr{K: "conv", T: &tt, A: &expr{K: "lit", Lit: "int", V: 0}}
				repl("typed-const-zero-divisor", e.Op+":"+at.class(), r2)
			}
		}
		if e.K == "shift" {
			for _, vi := range sc.onePerClass(sc.varsWhere(func(t ty) bool { return !isIntB(under(t)) })) {
				r := e.clone()
				r.B = v(vi)
				repl("shift-count-type", sc.vars[vi].class(), r)
			}
			r := e.clone()
			r.B = &expr{K: "lit", Lit: "int", V: -1}
			repl("shift-count-negative", "const-int-neg", r)
			r = e.clone()
			r.B = &expr{K: "lit", Lit: "float", V: 1, Frac: true}
			repl("shift-count-literal", "const-float-frac", r)
			r = e.clone()
			r.B = typedConst("int", -1)
			repl("shift-count-typed-negative", "typed-int-const-int-neg", r)
		}
	case "call":
		for k, a := range e.Args {
			c.walkExpr(fi, sp, cp(ep, 2+k), a, sc)
		}
		np := len(sc.funcs[e.I].Params)
		n := len(e.Args)
		if n > 0 {
			r := e.clone()
			r.Args = r.Args[:n-1]
			repl("call-argument-count", fmt.Sprintf("%d-params:%d-args", np, n-1), r)
		}
		r := e.clone()
		r.Args = append(r.Args, &expr{K: "lit", Lit: "int", V: 1})
		repl("call-argument-count", fmt.Sprintf("%d-params:%d-args", np, n+1), r)
		r = e.clone()
		r.I = len(sc.funcs) + 2
		repl("undefined-function", "func", r)
		for k := 0; k < n && k < np; k++ {
			dst := tS(sc.funcs[e.I].Params[k])
			for _, vi := range sc.onePerClass(sc.varsWhere(func(t ty) bool { return !tyEq(t, dst) })) {
				r := e.clone()
				r.Args[k] = v(vi)
				repl("call-argument-type", dst.class()+"<-"+sc.vars[vi].class()+":"+rel(dst, sc.vars[vi]), r)
			}
			for _, l := range badLits {
				r := e.clone()
				r.Args[k] = l.clone()
				repl("call-argument-literal", dst.class()+"<-"+litClass(l), r)
			}
		}
	case "conv":
		c.walkExpr(fi, sp, cp(ep, 0), e.A, sc)
		for _, vi := range sc.onePerClass(sc.varsWhere(func(t ty) bool { return true })) {
			r := e.clone()
			r.A = v(vi)
			repl("conversion-operand-type", e.T.class()+"<-"+sc.vars[vi].class()+":"+rel(*e.T, sc.vars[vi]), r)
		}
		if st, ok := sc.typeOf(e.A); ok {
			for _, nt := range declTypeAlternatives(st) {
				nt := nt
				r := e.clone()
				r.T = &nt
				repl("conversion-target-type", nt.class()+"<-"+st.class()+":"+rel(nt, st), r)
			}
		}
		for _, l := range badLits {
			r := e.clone()
			r.A = l.clone()
			repl("conversion-operand-literal", e.T.class()+"<-"+litClass(l), r)
		}
	case "assert":
		c.walkExpr(fi, sp, cp(ep, 0), e.A, sc)
		c.assertMutants(sc, *e.T, e.A, func(op, class string, nt *ty, ne *expr) {
			r := e.clone()
			if nt != nil {
				r.T = nt
			}
			if ne != nil {
				r.A = ne
			}
			repl(op, class, r)
		})
	case "index":
		c.walkExpr(fi, sp, cp(ep, 0), e.A, sc)
		c.walkExpr(fi, sp, cp(ep, 1), e.B, sc)
		at, _ := sc.typeOf(e.A)
		for _, vi := range sc.onePerClass(sc.varsWhere(func(t ty) bool {
			switch t.K {
			case "slice", "array", "map":
				return false
			}
			return under(t) != "string"
		})) {
			r := e.clone()
			r.A = v(vi)
			repl("index-non-indexable", sc.vars[vi].class()+elemNamed(sc.vars[vi]), r)
		}
		if at.K == "map" {
			for _, vi := range sc.onePerClass(sc.varsWhere(func(t ty) bool { return !tyEq(t, tS(at.Key)) })) {
				r := e.clone()
				r.B = v(vi)
				repl("map-key-type", tS(at.Key).class()+"<-"+sc.vars[vi].class()+":"+rel(tS(at.Key), sc.vars[vi]), r)
			}
			for _, l := range badLits {
				r := e.clone()
				r.B = l.clone()
				repl("map-key-literal", tS(at.Key).class()+"<-"+litClass(l), r)
			}
		} else {
			for _, vi := range sc.onePerClass(sc.varsWhere(func(t ty) bool { return !isIntB(under(t)) })) {
				r := e.clone()
				r.B = v(vi)
				repl("index-type", at.K+":"+sc.vars[vi].class(), r)
			}
			for _, l := range badLits {
				if l.Lit == "int" {
					continue
				}
				r := e.clone()
				r.B = l.clone()
				repl("index-literal", at.K+":"+litClass(l), r)
			}
			r := e.clone()
			r.B = &expr{K: "lit", Lit: "int", V: -1}
			repl("index-constant-negative", at.K, r)
			r = e.clone()
			r.B = typedConst("int", -1)
			repl("index-typed-constant-negative", at.K, r)
			r = e.clone()
			r.B = &expr{K: "lit", Lit: "float", V: -2}
			repl("index-constant-negative", at.K+":float", r)
			if at.K == "array" {
				r := e.clone()
				r.B = &expr{K: "lit", Lit: "int", V: int64(at.N) + 2}
				repl("index-constant-out-of-range", "array", r)
			}
		}
	}
}

// missingClass: which methods of the interface it the type t lacks ("" when it implements it)
func missingClass(t, it ty) string {
	have := map[int]bool{}
	for _, m := range methodsOf(t) {
		have[m] = true
	}
	exp, unexp := false, false
	for _, m := range methodsOf(it) {
		if !have[m] {
			if m < 8 {
				exp = true
			} else {
				unexp = true
			}
		}
	}
	switch {
	case exp && unexp:
		return "missing-exported-and-unexported"
	case exp:
		return "missing-exported"
	case unexp:
		return "missing-unexported"
	}
	return "implements"
}

// assertMutants: mutations of a type assertion x.(T): another asserted type (one per class and per kind
// of missing method), an operand that is not of interface type, a literal operand
func (c *ctx) assertMutants(sc *scope, t ty, x *expr, emit func(op, class string, nt *ty, ne *expr)) {
	xt, ok := sc.typeOf(x)
	if ok && xt.K == "iface" {
		seen := map[string]bool{}
		for _, nt := range universe() {
			if tyEq(nt, t) {
				continue
			}
			k := nt.class() + ":" + missingClass(nt, xt)
			if nt.K == "iface" {
				k = nt.class() + ":interface-target"
			}
			if seen[k] {
				continue
			}
			seen[k] = true
			nt := nt
			emit("assertion-target-type", xt.class()+"->"+k, &nt, nil)
		}
	}
	for _, vi := range sc.onePerClass(sc.varsWhere(func(v ty) bool { return v.K != "iface" })) {
		emit("assertion-operand-not-interface", sc.vars[vi].class(), nil, &expr{K: "var", I: vi})
	}
	for _, vi := range sc.onePerClass(sc.varsWhere(func(v ty) bool { return v.K == "iface" && !(t.K == "iface" || implements(t, v)) })) {
		emit("assertion-operand-interface", sc.vars[vi].class()+"->"+t.class()+":"+missingClass(t, sc.vars[vi]), nil, &expr{K: "var", I: vi})
	}
	for _, l := range badLits {
		emit("assertion-operand-literal", litClass(l), nil, l.clone())
	}
}

func elemNamed(t ty) string {
	if t.K == "ptr" {
		if t.S.Named != 0 {
			return "-to-defined"
		}
		return "-to-basic"
	}
	return ""
}

// classesOf: sorted distinct class labels (for the report)
func classesOf(ms []mutant) []string {
	seen := map[string]bool{}
	for _, m := range ms {
		seen[m.Class] = true
	}
	var out []string
	for k := range seen {
		out = append(out, k)
	}
	sort.Strings(out)
	return out
}
