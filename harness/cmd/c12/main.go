// C12 correspondence harness: ill-typed programs are rejected before anything runs.
//
//	impl  = the real interpreter of /repo (built with -tags verif): Interpreter.Compile for the
//	        compile-time decision (ok / err / crash = a Go panic escaped), Interpreter.Eval in a
//	        fresh interpreter for what ran (error kind, bytes written to Options.Stdout)
//	model = Lean `checkProg (rulesY Generated.C12.tcFacts)` (y=), the transcription of typecheck.go
//	spec  = Lean `checkProg Spec.rulesG` (g=), the Go specification's rules
//	ref   = go/types (importer "source") on the same source text
//
// Checked on every case: impl = y (correspondence), ref = g (spec validation), and the property:
// ref = err ⇒ impl = err, Eval returns a non-panic error and wrote no byte; ref = ok ⇒ impl = ok.
// A difference impl ≠ ref is labelled with the laxity class computed by the Lean side (`lax=`, the
// complement of the domain of the theorems) when the implementation behaves as its model predicts.
package main

import (
	"encoding/json"
	"fmt"
	"io"
	"log"
	"math/rand"
	"os"
	"runtime"
	"sort"
	"strings"
	"sync"

	"verif/harness/common"
)

// caseT is one input: a complete program, and its protocol line when it belongs to the fragment.
type caseT struct {
	Stream string            `json:"stream"`          // table | probe | orig | mutant | text-orig | text-mutant | pipeline
	Class  string            `json:"class"`           // descriptive class (mutation operator and operand classes)
	Src    string            `json:"src"`             // the program
	Line   string            `json:"line,omitempty"`  // protocol line for the Lean driver ("" = outside the fragment)
	Want   string            `json:"want,omitempty"`  // ok / err: what the generator intends the reference to say ("" = whatever)
	Files  map[string]string `json:"files,omitempty"` // pipeline stream: extra source packages (path -> source)
}

type verdictT struct {
	impl implResult
	ref  string
	refd string
	y, g string
	lax  string
}

const fullOutput = "GVAR\nINIT\nMARK\n"

func evaluate(c caseT, ans string) verdictT {
	var v verdictT
	a := common.Fields(ans)
	v.y, v.g, v.lax = a["y"], a["g"], a["lax"]
	var errs []string
	v.ref, errs = refCheck(c.Src)
	if len(errs) > 0 {
		v.refd = errs[0]
	}
	v.impl = implRun(c.Src, true)
	return v
}

// propertyHolds: given the reference verdict, did the implementation do what C12 demands?
func propertyHolds(ref string, r implResult, wantOut string) (bool, string) {
	switch ref {
	case "err":
		if r.Compile != "err" {
			return false, "ill-typed program not rejected with an error (compile=" + r.Compile + ", eval=" + r.Eval + ")"
		}
		if r.Eval != "err" {
			return false, "Compile rejects but Eval ended with " + r.Eval
		}
		if r.Stdout != "" || r.CompOut != "" {
			return false, "output produced although the program was rejected"
		}
		return true, ""
	case "ok":
		if r.Compile != "ok" {
			return false, "well-typed program rejected (compile=" + r.Compile + ")"
		}
		if r.CompOut != "" {
			return false, "Compile wrote to Options.Stdout"
		}
		if r.Eval == "ok" && wantOut != "" && r.Stdout != wantOut {
			return false, "well-typed program ran but printed " + fmt.Sprintf("%q", r.Stdout)
		}
		return true, ""
	}
	return true, ""
}

type harness struct {
	run *common.Run
	drv *common.Driver
	mu  sync.Mutex
}

// process evaluates a batch of cases (driver answers pipelined, implementation runs in parallel).
func (h *harness) process(cases []caseT) {
	run := h.run
	var lines []string
	idx := make([]int, len(cases))
	for i, c := range cases {
		idx[i] = -1
		if c.Line != "" {
			idx[i] = len(lines)
			lines = append(lines, c.Line)
		}
	}
	answers, err := h.drv.AskAll(lines)
	if err != nil {
		run.Errorf("driver: %v", err)
		return
	}
	vs := make([]verdictT, len(cases))
	var wg sync.WaitGroup
	sem := make(chan struct{}, runtime.NumCPU())
	for i := range cases {
		wg.Add(1)
		sem <- struct{}{}
		go func(i int) {
			defer wg.Done()
			defer func() { <-sem }()
			ans := ""
			if idx[i] >= 0 {
				ans = answers[idx[i]]
			}
			vs[i] = evaluate(cases[i], ans)
		}(i)
	}
	wg.Wait()
	for i, c := range cases {
		h.judge(c, vs[i])
	}
}

func (h *harness) judge(c caseT, v verdictT) {
	run := h.run
	if c.Line != "" && (v.y == "" || v.g == "") {
		run.Errorf("driver gave no verdict for %q", trunc(c.Line, 300))
		return
	}
	if v.ref == "parse" {
		run.Errorf("generated program does not parse: %s\n%s", v.refd, c.Src)
		return
	}
	switch c.Want {
	case "ok":
		if v.ref != "ok" {
			run.Errorf("generator produced a program go/types rejects (%s): %s\n%s", c.Class, v.refd, c.Src)
			return
		}
	case "err":
		if v.ref != "err" {
			run.Hit(c.Stream + ":mutant-still-well-typed")
			// still a valid case for the well-typed half of the property
		}
	}
	opclass := c.Class
	if i := strings.IndexByte(opclass, ':'); i > 0 {
		opclass = opclass[:i]
	}
	run.Count(c.Src, c.Stream != "table" && v.ref == "err" || c.Stream == "orig" || c.Stream == "text-orig")
	run.Hit("stream:" + c.Stream)
	run.Hit(fmt.Sprintf("%s:%s:ref=%s:impl=%s", c.Stream, opclass, v.ref, v.impl.Verdict()))
	if v.lax != "" && v.lax != "none" {
		run.Hit("lax:" + v.lax)
	}
	if c.Stream == "mutant" || c.Stream == "probe" {
		run.Sample(map[string]interface{}{"class": c.Class, "program": bodyOf(c.Src), "impl": v.impl.String(), "model": v.y, "spec": v.g, "ref": v.ref, "lax": v.lax}, 8)
	}
	// 1. spec validation
	if c.Line != "" && v.g != "abstain" && v.g != v.ref {
		run.Disagree(common.Disagreement{Kind: "spec-vs-ref", Input: c, Spec: v.g, Ref: v.ref + " " + v.refd})
	}
	// 2. correspondence model / implementation
	modelOK := true
	if c.Line != "" && v.y != "abstain" && v.y != v.impl.Verdict() {
		modelOK = false
		run.Disagree(common.Disagreement{Kind: "impl-vs-model", Input: c, Impl: v.impl.String(), Model: v.y, Ref: v.ref})
	}
	if v.y == "abstain" {
		run.Hit("model-abstains")
	}
	// 3. the theorems' statement, cross-checked: inside the domain the two Lean sides agree
	if c.Line != "" && v.lax == "none" && v.y != "abstain" && v.g != "abstain" && v.y != v.g {
		run.Disagree(common.Disagreement{Kind: "spec-vs-ref", Input: c, Spec: "lax=none but y=" + v.y + " g=" + v.g, Ref: v.ref,
			Note: "the decidable domain does not cover this difference (Props/C12 would be false)"})
	}
	// 4. the property
	want := fullOutput
	if c.Stream == "text-orig" || c.Stream == "text-mutant" || c.Stream == "pipeline" {
		want = ""
	}
	ok, why := propertyHolds(v.ref, v.impl, want)
	if !ok {
		d := common.Disagreement{Kind: "impl-vs-ref", Input: c, Impl: v.impl.String(), Model: v.y, Ref: v.ref + " " + v.refd, Note: why}
		switch {
		case !modelOK:
			d.Note += "; differs from the reference and from the model of the unchanged code"
		case c.Line == "":
			d.Finding = "text/" + opclass // outside the modelled fragment: labelled by the mutation operator
		case v.lax != "" && v.lax != "none":
			d.Finding = v.lax
		case v.y == "abstain" || v.g == "abstain":
			// the fragment's model does not describe this construct (constant arithmetic, multi-value calls): labelled by the mutation operator
			d.Finding = "abstain/" + opclass
		}
		if d.Finding != "" {
			run.Hit("finding:" + d.Finding + ":" + opclass)
		}
		// a rejected program that nevertheless ran or printed is never a listed class
		if v.impl.Compile == "err" && (v.impl.Stdout != "" || v.impl.CompOut != "" || v.impl.Eval == "ok") {
			d.Finding = ""
		}
		run.Disagree(d)
	}
}

func bodyOf(src string) string {
	if i := strings.Index(src, "func body()"); i >= 0 {
		src = src[i:]
	}
	if i := strings.Index(src, "\nfunc f0("); i >= 0 {
		return src[i+1:]
	}
	return src
}

func main() {
	log.SetOutput(io.Discard) // the interpreter logs before some of its panics
	if os.Getenv("VERIF_C12_EXPLORE") != "" {
		explore()
		return
	}
	run := common.NewRun("C12")
	run.Res.Rule = "cases = complete Go programs whose only statement of main prints a marker (package variable initialiser, init and main each print): " +
		"(a) operator × reflect-kind table probes; (b) one check site per program over the fragment's type universe × every context (binary, comparison, shift, unary, receive, declaration, assignment, conversion, send, index, op-assignment, argument, return, condition, arity), full product in the thorough tier (operator-expression sources: 40 % of the type pairs), seeded sample in the quick tier; " +
		"(b') array and slice literals: every list of up to three (thorough: four) keyed / positional elements over keys -1..3 for a slice type and array types of length 0..3, answered by the Lean index rule; (c) seeded type-directed well-typed programs of the fragment × every applicable single-point mutation of the catalogue at every site; (d) hand-written seed programs × text-level mutations for the checks outside the fragment (composite literals, builtins, fields, methods, interfaces, declarations); (e) pipeline cases (entry points, imported source package). " +
		"Every program is type-checked by go/types (original must pass, mutant must fail), compiled and evaluated by the interpreter under recover, and (a,b,c) sent to the Lean model and specification. non-trivial = an ill-typed program (mutant or probe the reference rejects) or a generated original; distinct = distinct source text"
	defer run.Finish()
	drv, err := common.StartDriver("C12")
	if err != nil {
		run.Errorf("driver: %v", err)
		return
	}
	defer drv.Close()
	h := &harness{run: run, drv: drv}
	findings, err := common.LoadFindings("C12")
	if err != nil {
		run.Errorf("known findings: %v", err)
	}

	if run.Replay != "" {
		b, err := os.ReadFile(run.Replay)
		if err != nil {
			run.Errorf("replay: %v", err)
			return
		}
		var rp struct {
			Input caseT `json:"input"`
		}
		if err := json.Unmarshal(b, &rp); err != nil {
			run.Errorf("replay: %v", err)
			return
		}
		if rp.Input.Stream == "pipeline" {
			pipelineCases(h, []caseT{rp.Input})
		} else {
			rp.Input.Want = ""
			h.process([]caseT{rp.Input})
		}
		return
	}

	// listed findings are replayed first
	for _, f := range findings {
		var c caseT
		if err := json.Unmarshal(f.Replay, &c); err != nil {
			run.Errorf("finding %s: bad replay: %v", f.ID, err)
			continue
		}
		var still bool
		var detail string
		if c.Stream == "pipeline" {
			still, detail = pipelineFails(c)
		} else {
			ref, _ := refCheck(c.Src)
			r := implRun(c.Src, true)
			ok, why := propertyHolds(ref, r, "")
			still, detail = !ok, fmt.Sprintf("ref=%s impl=%s %s", ref, r.String(), why)
		}
		run.Res.Known = append(run.Res.Known, common.KnownReplay{ID: f.ID, Status: f.Status, What: f.What, StillFails: still, Detail: detail})
	}

	// (a) operator × kind table
	h.process(tableCases())
	tableCheck(h)

	// (b) probes
	keep := 0.02
	ps := enumProbes(rand.New(rand.NewSource(run.Rng.Int63())), run.Thorough(), keep)
	var pc []caseT
	for _, p := range ps {
		pc = append(pc, caseT{Stream: "probe", Class: p.Class, Src: p.P.source(), Line: p.P.line()})
	}
	for i := 0; i < len(pc); i += 4000 {
		j := i + 4000
		if j > len(pc) {
			j = len(pc)
		}
		h.process(pc[i:j])
	}

	// (b') array and slice literals: keyed and positional elements
	al := arrayLitCases(rand.New(rand.NewSource(run.Rng.Int63())), run.Thorough())
	for i := 0; i < len(al); i += 4000 {
		j := i + 4000
		if j > len(al) {
			j = len(al)
		}
		h.process(al[i:j])
	}

	// (c) generated programs × mutation catalogue
	nprog, perProg := 12, 450
	if run.Thorough() {
		nprog, perProg = 100, 600
	}
	if v := os.Getenv("VERIF_C12_NPROG"); v != "" {
		fmt.Sscan(v, &nprog)
	}
	opSeen := map[string]int{}
	for k := 0; k < nprog; k++ {
		rng := rand.New(rand.NewSource(run.Rng.Int63()))
		p := genProgram(rng, 8+rng.Intn(10))
		batch := []caseT{{Stream: "orig", Class: "original", Src: p.source(), Line: p.line(), Want: "ok"}}
		ms := mutateProgram(p, rng)
		// every mutation operator at least once per program, then a seeded sample of the rest
		rng.Shuffle(len(ms), func(i, j int) { ms[i], ms[j] = ms[j], ms[i] })
		seen := map[string]bool{}
		var first, rest []mutant
		for _, m := range ms {
			if !seen[m.Class] {
				seen[m.Class] = true
				first = append(first, m)
			} else {
				rest = append(rest, m)
			}
		}
		if len(first) > perProg {
			first = first[:perProg]
		}
		if n := perProg - len(first); n > 0 && len(rest) > n {
			rest = rest[:n]
		} else if n <= 0 {
			rest = nil
		}
		for _, m := range append(first, rest...) {
			opSeen[m.Op]++
			batch = append(batch, caseT{Stream: "mutant", Class: m.Class, Src: m.P.source(), Line: m.P.line(), Want: "err"})
		}
		h.process(batch)
	}
	var ops []string
	for k := range opSeen {
		ops = append(ops, k)
	}
	sort.Strings(ops)

	// (d) text-level seeds × mutations (outside the fragment: no model verdict)
	tc, tops := textCases()
	h.process(tc)

	// (e) pipeline
	pipelineCases(h, pipelineInputs())

	run.Res.Extra = map[string]interface{}{"mutation_operators_fragment": ops, "mutation_operators_text": tops,
		"programs_generated": nprog}
}
