package main

// The two real-world sides: go/types (reference) and the interpreter (implementation).

import (
	"bytes"
	"context"
	"fmt"
	"go/ast"
	"go/importer"
	"go/parser"
	"go/token"
	"go/types"
	"runtime"
	"strings"
	"sync"
	"sync/atomic"
	"time"

	"github.com/traefik/yaegi/interp"
	"github.com/traefik/yaegi/stdlib"
)

// a small pool of source importers (each caches the packages it has loaded; go/types is not safe for
// concurrent use of one importer)
type typesWorker struct {
	mu  sync.Mutex
	imp types.Importer
}

var typesPool = func() []*typesWorker {
	n := runtime.NumCPU() / 2
	if n < 2 {
		n = 2
	}
	if n > 8 {
		n = 8
	}
	ws := make([]*typesWorker, n)
	for i := range ws {
		ws[i] = &typesWorker{imp: importer.ForCompiler(token.NewFileSet(), "source", nil)}
	}
	return ws
}()
var typesNext uint32

// refCheck type-checks a complete program with go/types. It returns "ok" or "err" and the list of
// error messages.
func refCheck(src string) (string, []string) {
	fset := token.NewFileSet()
	f, err := parser.ParseFile(fset, "p.go", src, 0)
	if err != nil {
		return "parse", []string{err.Error()}
	}
	var errs []string
	w := typesPool[int(atomic.AddUint32(&typesNext, 1))%len(typesPool)]
	w.mu.Lock()
	defer w.mu.Unlock()
	conf := types.Config{Importer: w.imp, Error: func(e error) { errs = append(errs, e.Error()) }}
	conf.Check("main", fset, []*ast.File{f}, nil)
	if len(errs) > 0 {
		return "err", errs
	}
	return "ok", nil
}

// implResult is what the interpreter did with a program.
type implResult struct {
	Compile string // ok | err | crash      (Interpreter.Compile: nothing may run)
	Eval    string // ok | err | panic | crash | timeout   (Interpreter.Eval in a fresh interpreter)
	Stdout  string // bytes written to Options.Stdout during Eval
	CompOut string // bytes written to Options.Stdout during Compile (must be empty)
	Detail  string // first line of the error / panic text (not compared)
}

// Verdict is the compile-time decision compared with the model and the reference:
// ok (accepted), err (rejected with an error), crash (a Go panic escaped).
func (r implResult) Verdict() string { return r.Compile }

func (r implResult) String() string {
	return fmt.Sprintf("compile=%s eval=%s stdout=%q (%s)", r.Compile, r.Eval, trunc(r.Stdout, 60), trunc(r.Detail, 160))
}

func trunc(s string, n int) string {
	if len(s) > n {
		return s[:n] + "…"
	}
	return s
}

func firstLine(s string) string {
	if i := strings.IndexByte(s, '\n'); i >= 0 {
		return s[:i]
	}
	return s
}

func newInterp(so, se *bytes.Buffer) *interp.Interpreter {
	i := interp.New(interp.Options{Stdout: so, Stderr: se})
	if err := i.Use(stdlib.Symbols); err != nil {
		panic("harness: Use(stdlib.Symbols): " + err.Error())
	}
	return i
}

func compileOnly(src string) (verdict, out, detail string) {
	var so, se bytes.Buffer
	defer func() {
		if r := recover(); r != nil {
			verdict, out, detail = "crash", so.String(), firstLine(fmt.Sprint(r))
		}
	}()
	i := newInterp(&so, &se)
	_, err := i.Compile(src)
	if err != nil {
		return "err", so.String(), firstLine(err.Error())
	}
	return "ok", so.String(), ""
}

func evalOnly(src string, timeout time.Duration) (verdict, out, detail string) {
	var so, se lockedBuf
	done := make(chan struct{})
	go func() {
		defer close(done)
		defer func() {
			if r := recover(); r != nil {
				verdict, detail = "crash", firstLine(fmt.Sprint(r))
			}
		}()
		i := interp.New(interp.Options{Stdout: &so, Stderr: &se})
		if err := i.Use(stdlib.Symbols); err != nil {
			panic("harness: Use(stdlib.Symbols): " + err.Error())
		}
		_, err := i.Eval(src)
		switch e := err.(type) {
		case nil:
			verdict = "ok"
		case interp.Panic:
			verdict, detail = "panic", firstLine(fmt.Sprint(e.Value))
		default:
			verdict, detail = "err", firstLine(err.Error())
		}
	}()
	select {
	case <-done:
	case <-time.After(timeout):
		// the fragment's programs terminate unless a loop condition is constant true; the goroutine is abandoned
		return "timeout", so.String(), ""
	}
	return verdict, so.String(), detail
}

type lockedBuf struct {
	mu sync.Mutex
	b  bytes.Buffer
}

func (l *lockedBuf) Write(p []byte) (int, error) {
	l.mu.Lock()
	defer l.mu.Unlock()
	if l.b.Len() > 1<<16 {
		return len(p), nil
	}
	return l.b.Write(p)
}

func (l *lockedBuf) String() string {
	l.mu.Lock()
	defer l.mu.Unlock()
	return l.b.String()
}

// implRun: compile verdict always; Eval only when wanted (eval = false for programs that may not terminate).
func implRun(src string, eval bool) implResult {
	var r implResult
	r.Compile, r.CompOut, r.Detail = compileOnly(src)
	if eval {
		var d string
		r.Eval, r.Stdout, d = evalOnly(src, 5*time.Second)
		if r.Detail == "" {
			r.Detail = d
		}
	}
	return r
}

func bgCtx() context.Context { return context.Background() }
