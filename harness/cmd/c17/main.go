// C17 correspondence harness: file selection by build constraints.
//
//   impl  = the real skipFile / buildOk of /repo (built with -tags verif)
//   model = Lean `skipFileRaw` / `buildOkRaw` (y=) and the Lean transcription of the toolchain's rule (g=)
//   ref   = go/build.Context.MatchFile
//
// Checked on every case: impl = y (correspondence), ref = g (spec validation), impl = ref (the property).
package main

import (
	"encoding/json"
	"fmt"
	"go/build"
	"io"
	"os"
	"strings"

	"github.com/traefik/yaegi/interp"
	"verif/harness/common"
)

type ctxT struct {
	GOOS, GOARCH string
	Minor        int
	Tags         []string
	Cgo          bool
	Compiler     string
}

func (c ctxT) sexp() string {
	return common.L(common.Q(c.GOOS), common.Q(c.GOARCH), fmt.Sprint(c.Minor), common.QL(c.Tags), common.B(c.Cgo), common.Q(c.Compiler))
}

func (c ctxT) build() build.Context {
	b := build.Default
	b.GOOS, b.GOARCH, b.CgoEnabled, b.Compiler = c.GOOS, c.GOARCH, c.Cgo, c.Compiler
	b.BuildTags = append([]string(nil), c.Tags...)
	b.ToolTags = nil
	b.ReleaseTags = nil
	for i := 1; i <= c.Minor; i++ {
		b.ReleaseTags = append(b.ReleaseTags, fmt.Sprintf("go1.%d", i))
	}
	return b
}

type comment struct {
	Line bool   `json:"line"`
	Text string `json:"text"`
}

// caseT is one input (either a name case or a header case).
type caseT struct {
	Kind      string      `json:"kind"` // name | hdr
	Ctx       ctxT        `json:"ctx"`
	Name      string      `json:"name,omitempty"`
	SkipTest  bool        `json:"skip_test,omitempty"`
	Groups    [][]comment `json:"groups,omitempty"`
	LastBlank bool        `json:"last_blank,omitempty"`
}

func (c caseT) line() string {
	if c.Kind == "name" {
		return "C17 skip " + c.Ctx.sexp() + " " + common.Q(c.Name) + " " + common.B(c.SkipTest)
	}
	parts := []string{"C17 hdr", c.Ctx.sexp(), common.B(c.LastBlank)}
	for _, g := range c.Groups {
		items := []string{"g"}
		for _, cm := range g {
			k := "b"
			if cm.Line {
				k = "l"
			}
			items = append(items, common.L(k, common.Q(cm.Text)))
		}
		parts = append(parts, common.L(items...))
	}
	return strings.Join(parts, " ")
}

func (c caseT) source() string {
	var b strings.Builder
	for i, g := range c.Groups {
		for _, cm := range g {
			if cm.Line {
				b.WriteString("//" + cm.Text + "\n")
			} else {
				b.WriteString("/*" + cm.Text + "*/\n")
			}
		}
		if i+1 < len(c.Groups) || c.LastBlank {
			b.WriteString("\n")
		}
	}
	b.WriteString("package p\n")
	return b.String()
}

var theInterp = interp.New(interp.Options{})

// impl runs the real code.
func impl(c caseT) (out string) {
	defer func() {
		if r := recover(); r != nil {
			out = "panic"
		}
	}()
	bc := c.Ctx.build()
	if c.Kind == "name" {
		if interp.VerifSkipFile(&bc, c.Name, c.SkipTest) {
			return "skip"
		}
		return "keep"
	}
	ok, err := theInterp.VerifBuildOk(&bc, "x.go", c.source())
	if err != nil {
		return "err"
	}
	return fmt.Sprintf("ok:%v", ok)
}

// ref asks go/build.
func ref(c caseT) string {
	bc := c.Ctx.build()
	src := "package p\n"
	name := "x.go"
	if c.Kind == "name" {
		name = c.Name
		if !strings.HasSuffix(name, ".go") || strings.Contains(name, "/") {
			return "not" // only Go source files directly in the package directory take part
		}
	} else {
		src = c.source()
	}
	bc.OpenFile = func(string) (io.ReadCloser, error) { return io.NopCloser(strings.NewReader(src)), nil }
	m, err := bc.MatchFile("/d", name)
	if c.Kind == "name" {
		if err != nil {
			return "err"
		}
		if m && !(c.SkipTest && strings.HasSuffix(name, "_test.go")) {
			return "sel"
		}
		return "not"
	}
	if err != nil {
		return "err"
	}
	if m {
		return "yes"
	}
	return "no"
}

// agree: does the implementation's answer satisfy the property given the reference's answer?
func agree(kind, im, rf string) bool {
	if kind == "name" {
		return (im == "keep") == (rf == "sel")
	}
	switch rf {
	case "yes":
		return im == "ok:true"
	case "no":
		return im == "ok:false"
	}
	return true // reference reports a malformed header: no verdict
}

func main() {
	run := common.NewRun("C17")
	run.Res.Rule = "cases = (context, file name, skipTest) and (context, comment groups before the package clause); systematic product of OS/arch words in the last two name positions plus seeded random names and headers in both constraint syntaxes; non-trivial = name with at least one '_' element and a .go suffix, or header with at least one +build / go:build line; distinct = distinct protocol line"
	defer run.Finish()
	drv, err := common.StartDriver("C17")
	if err != nil {
		run.Errorf("driver: %v", err)
		return
	}
	defer drv.Close()
	findings, err := common.LoadFindings("C17")
	if err != nil {
		run.Errorf("known findings: %v", err)
	}

	var cases []caseT
	if run.Replay != "" {
		b, err := os.ReadFile(run.Replay)
		if err != nil {
			run.Errorf("replay: %v", err)
			return
		}
		var rp struct {
			Input caseT `json:"input"`
		}
		if err := json.Unmarshal(b, &rp); err != nil {
			run.Errorf("replay: %v", err)
			return
		}
		cases = []caseT{rp.Input}
	} else {
		// listed findings are replayed first
		for _, f := range findings {
			var c caseT
			if err := json.Unmarshal(f.Replay, &c); err != nil {
				run.Errorf("finding %s: bad replay: %v", f.ID, err)
				continue
			}
			im, rf := impl(c), ref(c)
			still := !agree(c.Kind, im, rf)
			run.Res.Known = append(run.Res.Known, common.KnownReplay{ID: f.ID, Status: f.Status, What: f.What, StillFails: still,
				Detail: fmt.Sprintf("impl=%s ref=%s", im, rf)})
		}
		cases = generate(run)
	}

	lines := make([]string, len(cases))
	for i, c := range cases {
		lines[i] = c.line()
	}
	answers, err := drv.AskAll(lines)
	if err != nil {
		run.Errorf("driver: %v", err)
		return
	}
	for i, c := range cases {
		ans := common.Fields(answers[i])
		y, g := ans["y"], ans["g"]
		if y == "" || g == "" {
			run.Errorf("driver answered %q to %q", answers[i], lines[i])
			continue
		}
		im, rf := impl(c), ref(c)
		sig := signature(c)
		run.Count(lines[i], nontrivial(c))
		run.Hit(c.Kind + ":impl=" + im)
		run.Hit(c.Kind + ":ref=" + rf)
		if sig != "" {
			run.Hit("class:" + sig)
		} else {
			run.Hit("class:in-domain")
		}
		run.Sample(map[string]interface{}{"case": c, "impl": im, "model": y, "spec": g, "ref": rf}, 8)
		if im != y {
			run.Disagree(common.Disagreement{Kind: "impl-vs-model", Input: c, Impl: im, Model: y, Ref: rf})
		}
		if rf != g {
			run.Disagree(common.Disagreement{Kind: "spec-vs-ref", Input: c, Spec: g, Ref: rf})
		}
		if !agree(c.Kind, im, rf) {
			// a listed class explains the difference only when the implementation still behaves as the
			// model of the unchanged code predicts; otherwise this is a new failing input
			d := common.Disagreement{Kind: "impl-vs-ref", Input: c, Impl: im, Model: y, Ref: rf, Finding: sig}
			if im != y {
				d.Finding, d.Note = "", "differs from the reference and from the model of the unchanged code (class "+sig+")"
			}
			run.Disagree(d)
		}
	}
}
