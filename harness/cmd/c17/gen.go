package main

import (
	"math/rand"
	"strings"

	"verif/harness/common"
)

var yaegiOS = []string{"aix", "android", "darwin", "dragonfly", "freebsd", "illumos", "ios", "js", "linux", "netbsd", "openbsd", "plan9", "solaris", "wasip1", "windows"}
var yaegiArch = []string{"386", "amd64", "arm", "arm64", "loong64", "mips", "mips64", "mips64le", "mipsle", "ppc64", "ppc64le", "s390x", "wasm"}
var goOnlyOS = []string{"hurd", "nacl", "zos"}
var goOnlyArch = []string{"amd64p32", "armbe", "arm64be", "mips64p32", "mips64p32le", "ppc", "riscv", "riscv64", "s390", "sparc", "sparc64"}
var otherWords = []string{"foo", "bar", "x", "unix", "cgo", "gc", "go", "test", "Linux", "amd", "64", ""}

func in(xs []string, s string) bool {
	for _, x := range xs {
		if x == s {
			return true
		}
	}
	return false
}

func pick(r *rand.Rand, xs []string) string { return xs[r.Intn(len(xs))] }

func genCtx(r *rand.Rand) ctxT {
	c := ctxT{GOOS: "linux", GOARCH: "amd64", Minor: 22, Cgo: true, Compiler: "gc"}
	switch r.Intn(10) {
	case 0:
		c.GOOS, c.GOARCH = "windows", "386"
	case 1:
		c.GOOS, c.GOARCH = "darwin", "arm64"
	case 2:
		c.GOOS, c.GOARCH = "freebsd", "arm"
	case 3:
		c.GOOS, c.GOARCH = pick(r, yaegiOS), pick(r, yaegiArch)
	}
	c.Minor = 20 + r.Intn(4)
	c.Cgo = r.Intn(3) != 0
	for n := r.Intn(3); n > 0; n-- {
		c.Tags = append(c.Tags, pick(r, []string{"foo", "bar", "integration", "netgo", "x"}))
	}
	// build tags may also name an OS or an architecture (the toolchain then treats the word as set)
	if r.Intn(4) == 0 {
		c.Tags = append(c.Tags, pick(r, append(append([]string{}, goOS...), goArch...)))
	}
	// … or one of the words with a special reading: ignore (a bare +build line), the alias target of
	// boringcrypto, boringcrypto itself (which the alias hides), unix, cgo, a release word
	if r.Intn(6) == 0 {
		c.Tags = append(c.Tags, pick(r, []string{"ignore", "goexperiment.boringcrypto", "boringcrypto", "unix", "cgo", "go1.0", "go1.30", "gccgo"}))
	}
	if r.Intn(12) == 0 {
		c.Compiler = pick(r, []string{"gccgo", "linux", "amd64", "foo"})
	}
	if c.Tags == nil {
		c.Tags = []string{}
	}
	return c
}

func genWord(r *rand.Rand, c ctxT) string {
	switch r.Intn(12) {
	case 0, 1:
		return c.GOOS
	case 2, 3:
		return c.GOARCH
	case 4:
		return pick(r, yaegiOS)
	case 5:
		return pick(r, yaegiArch)
	case 6:
		return pick(r, goOnlyOS)
	case 7:
		return pick(r, goOnlyArch)
	case 8:
		if len(c.Tags) > 0 {
			return pick(r, c.Tags)
		}
		return "foo"
	default:
		return pick(r, otherWords)
	}
}

func genName(r *rand.Rand, c ctxT) string {
	var parts []string
	parts = append(parts, pick(r, []string{"a", "file", "zsys", "net", "linux", "amd64", "x.y", "foo"}))
	for n := r.Intn(4); n > 0; n-- {
		parts = append(parts, genWord(r, c))
	}
	if r.Intn(4) == 0 {
		parts = append(parts, "test")
	}
	name := strings.Join(parts, "_")
	switch r.Intn(30) {
	case 0:
		name = "_" + name
	case 1:
		name = "." + name
	case 2:
		return name + pick(r, []string{".c", ".s", ".txt", "", ".go.bak"})
	}
	return name + ".go"
}

func genTagWord(r *rand.Rand, c ctxT) string {
	switch r.Intn(14) {
	case 0:
		return "go1." + pick(r, []string{"0", "1", "9", "18", "20", "21", "22", "23", "24", "30", "x", "01", ""})
	case 1:
		return pick(r, []string{"unix", "cgo", "gc", "ignore", "boringcrypto", "gccgo"})
	default:
		w := genWord(r, c)
		if w == "" {
			return "foo"
		}
		return w
	}
}

func genPlus(r *rand.Rand, c ctxT) string {
	var opts []string
	for n := 1 + r.Intn(3); n > 0; n-- {
		var lits []string
		for m := 1 + r.Intn(3); m > 0; m-- {
			w := genTagWord(r, c)
			if r.Intn(3) == 0 {
				w = "!" + w
			}
			switch r.Intn(60) {
			case 0:
				w = ""
			case 1:
				w = "!!" + w
			case 2:
				w = "!"
			}
			lits = append(lits, w)
		}
		opts = append(opts, strings.Join(lits, ","))
	}
	sep := " "
	if r.Intn(25) == 0 {
		sep = "  "
	}
	lead := " "
	switch r.Intn(20) {
	case 0:
		lead = ""
	case 1:
		lead = "  "
	case 2:
		lead = "\t"
	}
	body := strings.Join(opts, sep)
	switch r.Intn(40) {
	case 0:
		return lead + "+build"
	case 1:
		return lead + "+build " + body + " "
	case 2:
		return lead + "+build\t" + body
	case 3:
		return lead + "+builder " + body
	}
	return lead + "+build " + body
}

func genExpr(r *rand.Rand, c ctxT, depth int) string {
	if depth <= 0 || r.Intn(3) == 0 {
		w := genTagWord(r, c)
		if w == "" || strings.HasSuffix(w, ".") {
			w = "foo"
		}
		if r.Intn(4) == 0 {
			return "!" + w
		}
		return w
	}
	a, b := genExpr(r, c, depth-1), genExpr(r, c, depth-1)
	switch r.Intn(4) {
	case 0:
		return "(" + a + " && " + b + ")"
	case 1:
		return "(" + a + " || " + b + ")"
	case 2:
		return a + " && " + b
	default:
		return "!(" + a + " || " + b + ")"
	}
}

func genComment(r *rand.Rand, c ctxT, allowGoBuild bool) comment {
	switch k := r.Intn(12); {
	case k < 6:
		return comment{true, genPlus(r, c)}
	case k < 8 && allowGoBuild:
		return comment{true, "go:build " + genExpr(r, c, 2)}
	case k < 9:
		return comment{false, pick(r, []string{" block ", "\n+build windows\n", " +build ignore ", "\n\n text\n\n"})}
	case k < 10:
		return comment{true, pick(r, []string{"", " ", "line 10", "go:generate echo", "nolint:all"})}
	default:
		return comment{true, pick(r, []string{" Copyright 2024.", " Package p is a package.", " yaegi:tags foo", "  indented"})}
	}
}

func genHeader(r *rand.Rand, c ctxT) caseT {
	cs := caseT{Kind: "hdr", Ctx: c, LastBlank: r.Intn(3) != 0}
	gb := r.Intn(3) == 0
	for n := 1 + r.Intn(3); n > 0; n-- {
		var g []comment
		for m := 1 + r.Intn(3); m > 0; m-- {
			cm := genComment(r, c, gb)
			if strings.HasPrefix(cm.Text, "go:build") {
				gb = r.Intn(10) == 0 // rarely a second //go:build line (the toolchain reports an error)
			}
			g = append(g, cm)
		}
		cs.Groups = append(cs.Groups, g)
	}
	return cs
}

func generate(run *common.Run) []caseT {
	n := 6000
	if run.Thorough() {
		n = 300000
	}
	var out []caseT
	// systematic part: every pair of words in the last two positions, for the host context
	host := ctxT{GOOS: "linux", GOARCH: "amd64", Minor: 22, Tags: []string{}, Cgo: true, Compiler: "gc"}
	var words []string
	words = append(words, yaegiOS...)
	words = append(words, yaegiArch...)
	words = append(words, goOnlyOS...)
	words = append(words, goOnlyArch...)
	words = append(words, "foo", "test", "unix")
	for _, x := range words {
		out = append(out, caseT{Kind: "name", Ctx: host, Name: "f_" + x + ".go", SkipTest: true})
		if run.Thorough() || run.Rng.Intn(4) == 0 {
			for _, y := range words {
				out = append(out, caseT{Kind: "name", Ctx: host, Name: "f_" + x + "_" + y + ".go", SkipTest: true})
				if run.Thorough() {
					out = append(out, caseT{Kind: "name", Ctx: host, Name: "f_" + x + "_" + y + "_test.go", SkipTest: false})
				}
			}
		}
	}
	for i := 0; i < n; i++ {
		c := genCtx(run.Rng)
		if i%2 == 0 {
			out = append(out, caseT{Kind: "name", Ctx: c, Name: genName(run.Rng, c), SkipTest: run.Rng.Intn(4) != 0})
		} else {
			out = append(out, genHeader(run.Rng, c))
		}
	}
	return out
}

func nontrivial(c caseT) bool {
	if c.Kind == "name" {
		return strings.Contains(c.Name, "_") && strings.HasSuffix(c.Name, ".go")
	}
	for _, g := range c.Groups {
		for _, cm := range g {
			if cm.Line && (strings.Contains(cm.Text, "+build") || strings.HasPrefix(cm.Text, "go:build")) {
				return true
			}
		}
	}
	return false
}

var goOS = append(append([]string{}, yaegiOS...), goOnlyOS...)
var goArch = append(append([]string{}, yaegiArch...), goOnlyArch...)
var unixOS = []string{"aix", "android", "darwin", "dragonfly", "freebsd", "hurd", "illumos", "ios", "linux", "netbsd", "openbsd", "solaris"}

// specialWord: words for which go/build's matchTag has a rule yaegi has no counterpart for.
func specialWord(c ctxT, w string) bool {
	return (c.Cgo && w == "cgo") || w == c.Compiler || (c.GOOS == "android" && w == "linux") ||
		(c.GOOS == "illumos" && w == "solaris") || (c.GOOS == "ios" && w == "darwin") ||
		(w == "unix" && in(unixOS, c.GOOS)) || w == "boringcrypto"
}

// signature names the divergence class an input belongs to: the first clause of the proved domain
// (Props.C17.domName / DomLines, and the header-shape conditions stated in DESIGN.md) that the
// input violates. "" = inside the domain, where impl must equal the toolchain.
func signature(c caseT) string {
	if c.Kind == "name" {
		return nameClass(c)
	}
	return hdrClass(c)
}

// nameClass: since the repairs of skipFile (176b19a) and matchTag (c550b24) the file-name rule is proved
// equal to the toolchain's for every name and every context (Props.C17.name_rule_correct): no class.
func nameClass(cs caseT) string { return "" }

// wordClass: since the repairs c550b24 (implicit words) and 56f4c0c (release words) every word is in the
// proved domain (Props.C17.tag_correct has no side condition): no class.
func wordClass(c ctxT, w string) string { return "" }

func validTag(w string) bool {
	if w == "" {
		return false
	}
	for _, ch := range w {
		if !(ch >= 'a' && ch <= 'z' || ch >= 'A' && ch <= 'Z' || ch >= '0' && ch <= '9' || ch == '_' || ch == '.') {
			return false
		}
	}
	return true
}

func hdrClass(c caseT) string {
	// since the repair of buildOk (F17 fixed) a //go:build line is parsed with go/build/constraint and
	// its words are evaluated by buildTagOk: only the word classes below still apply to it
	for _, g := range c.Groups {
		for _, cm := range g {
			if cm.Line && strings.HasPrefix(strings.TrimSpace(cm.Text), "go:build") {
				words := strings.FieldsFunc(strings.TrimPrefix(strings.TrimSpace(cm.Text), "go:build"), func(r rune) bool {
					return !(r >= 'a' && r <= 'z' || r >= 'A' && r <= 'Z' || r >= '0' && r <= '9' || r == '_' || r == '.')
				})
				for _, w := range words {
					if cl := wordClass(c.Ctx, w); cl != "" {
						return cl
					}
				}
				return ""
			}
		}
	}
	if !c.LastBlank {
		// the last group is adjacent to the package clause: the toolchain ignores +build lines there
		for _, cm := range c.Groups[len(c.Groups)-1] {
			if strings.Contains(cm.Text, "+build") {
				return "hdr-placement"
			}
		}
	}
	sawBlock := false
	for _, g := range c.Groups {
		for _, cm := range g {
			if !cm.Line {
				sawBlock = true
				if strings.Contains(cm.Text, "+build") {
					return "hdr-placement"
				}
			}
		}
		if sawBlock {
			for _, cm := range g {
				if strings.Contains(cm.Text, "+build") {
					return "hdr-placement"
				}
			}
		}
	}
	for _, g := range c.Groups {
		for _, cm := range g {
			if !cm.Line || !strings.Contains(cm.Text, "+build") {
				continue
			}
			// since fix 5db3bf8 white space is read as the toolchain reads it (F31 fixed): no line-shape class
			t := strings.TrimSpace(cm.Text)
			if !strings.HasPrefix(t, "+build") {
				continue
			}
			body := strings.TrimPrefix(t, "+build")
			for _, opt := range strings.Fields(body) {
				for _, lit := range strings.Split(opt, ",") {
					w := strings.TrimPrefix(lit, "!")
					if !validTag(w) {
						// empty words, "!" and "!!x" never match for either side since the repair of
						// buildTagOk (F28 fixed); a word with other invalid characters is compared as a
						// plain name by yaegi and is `ignore` for the toolchain: both false unless it is
						// a build tag, which the generator never produces
						continue
					}
					if cl := wordClass(c.Ctx, w); cl != "" {
						return cl
					}
				}
			}
		}
	}
	return ""
}
