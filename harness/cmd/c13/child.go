package main

// Child mode of the harness binary: `harness-C13 -c13child <jobs.json> <report.jsonl>`.
// The child runs scripts in real interpreters of the repository, one job after the other, and appends one
// JSON line per finished job to the report. A script that ends the process ends the child: the parent sees
// a missing report line and the exit status. The child's own stdout / stderr / stdin are "the host's streams":
// before each job a marker line is written to both so that the parent can attribute host output to jobs.

import (
	"bytes"
	"context"
	"encoding/json"
	"flag"
	"fmt"
	"io"
	"log"
	"log/slog"
	"os"
	"path"
	"reflect"
	"sort"
	"strings"
	"testing/fstest"
	"time"

	"github.com/traefik/yaegi/interp"
	"github.com/traefik/yaegi/stdlib"
	"github.com/traefik/yaegi/stdlib/syscall"
	"github.com/traefik/yaegi/stdlib/unrestricted"
	"github.com/traefik/yaegi/stdlib/unsafe"
)

type cfgT struct {
	Unrestricted bool `json:"unrestricted,omitempty"`
	SpecialStdio bool `json:"special_stdio,omitempty"`
	StdinFile    bool `json:"stdin_file,omitempty"`
	StdoutFile   bool `json:"stdout_file,omitempty"`
	StderrFile   bool `json:"stderr_file,omitempty"`
}

type job struct {
	ID         int         `json:"id"`
	Kind       string      `json:"kind"` // script | bind
	Src        string      `json:"src,omitempty"`
	Cfg        cfgT        `json:"cfg"`
	Env        []string    `json:"env,omitempty"`
	Args       []string    `json:"args,omitempty"`
	Stdin      string      `json:"stdin,omitempty"`
	Sets       []string    `json:"sets,omitempty"`
	ImportUsed bool        `json:"import_used,omitempty"`
	GoPath     string      `json:"gopath,omitempty"`
	TimeoutMs  int         `json:"timeout_ms,omitempty"`
	Names      [][2]string `json:"names,omitempty"` // bind: (pkg, name) to look at
	Opts       *optsT      `json:"opts,omitempty"`  // the Options value itself (nil / empty slices, nil / buffer / file streams)
	Call       string      `json:"call,omitempty"`  // an expression evaluated after Src; its string value is reported
}

type jobResult struct {
	ID         int               `json:"id"`
	Err        string            `json:"err,omitempty"`
	Panic      bool              `json:"panic,omitempty"`
	Crash      string            `json:"crash,omitempty"`
	Timeout    bool              `json:"timeout,omitempty"`
	OptOut     string            `json:"opt_out,omitempty"`
	OptErr     string            `json:"opt_err,omitempty"`
	HostBefore []string          `json:"host_before,omitempty"`
	HostAfter  []string          `json:"host_after,omitempty"`
	Binds      map[string]string `json:"binds,omitempty"`
	Keys       []string          `json:"keys,omitempty"`
	Value      string            `json:"value,omitempty"`     // value of job.Call
	HostArgs   []string          `json:"host_args,omitempty"` // the child's own os.Args
}

// childMapFS is the SourcecodeFilesystem of the cases that set one.
var childMapFS = fstest.MapFS{
	"mapgp/src/c13fs/x.go": &fstest.MapFile{Data: []byte("package c13fs\n\nfunc Which() string { return \"mapfs\" }\n")},
}

const marker = "\x01C13JOB "

func sortedEnviron() []string {
	e := os.Environ()
	sort.Strings(e)
	return e
}

func restoreEnviron(want []string) {
	os.Clearenv()
	for _, e := range want {
		if i := strings.IndexByte(e, '='); i > 0 {
			os.Setenv(e[:i], e[i+1:])
		}
	}
}

func childMain(jobsFile, reportFile string) {
	b, err := os.ReadFile(jobsFile)
	if err != nil {
		fmt.Fprintln(os.Stderr, "child:", err)
		os.Exit(97)
	}
	var jobs []job
	if err := json.Unmarshal(b, &jobs); err != nil {
		fmt.Fprintln(os.Stderr, "child:", err)
		os.Exit(97)
	}
	rep, err := os.OpenFile(reportFile, os.O_CREATE|os.O_WRONLY|os.O_APPEND, 0o644)
	if err != nil {
		fmt.Fprintln(os.Stderr, "child:", err)
		os.Exit(97)
	}
	for _, j := range jobs {
		fmt.Fprintf(os.Stdout, "%s%d\n", marker, j.ID)
		fmt.Fprintf(os.Stderr, "%s%d\n", marker, j.ID)
		var r jobResult
		if j.Kind == "bind" {
			r = runBind(j)
		} else {
			r = runScript(j)
		}
		line, _ := json.Marshal(r)
		rep.Write(append(line, '\n'))
		rep.Sync()
	}
	fmt.Fprintf(os.Stdout, "%s%d\n", marker, -1)
	fmt.Fprintf(os.Stderr, "%s%d\n", marker, -1)
	rep.Close()
	os.Exit(0)
}

func newInterp(j job, opt interp.Options) (*interp.Interpreter, error) {
	opt.Env = j.Env
	opt.Args = j.Args
	opt.Unrestricted = j.Cfg.Unrestricted
	opt.GoPath = j.GoPath
	if j.Opts != nil {
		// the value under test, slices exactly as given (nil stays nil, empty stays empty)
		opt.Args, opt.Env, opt.BuildTags = j.Opts.Args, j.Opts.Env, j.Opts.Tags
		opt.GoPath = j.Opts.GoPath
		if j.Opts.GoPath == "tree" {
			opt.GoPath = j.GoPath
		}
		if j.Opts.FS {
			opt.SourcecodeFilesystem = childMapFS
		}
	}
	if j.Cfg.SpecialStdio {
		os.Setenv("YAEGI_SPECIAL_STDIO", "1")
		defer os.Unsetenv("YAEGI_SPECIAL_STDIO")
	}
	i := interp.New(opt)
	if err := i.Use(stdlib.Symbols); err != nil {
		return nil, err
	}
	for _, s := range j.Sets {
		var e interp.Exports
		switch s {
		case "unsafe":
			e = unsafe.Symbols
		case "syscall":
			e = syscall.Symbols
		case "unrestricted":
			e = unrestricted.Symbols
		}
		if err := i.Use(e); err != nil {
			return nil, err
		}
	}
	if j.ImportUsed {
		i.ImportUsed()
	}
	return i, nil
}

// streams are the Options streams of one job: buffers, or temporary files when the configuration asks for *os.File.
type streams struct {
	so, se bytes.Buffer
	fo, fe *os.File
	files  []*os.File
	opt    interp.Options
}

func makeStreams(j job) *streams {
	st := &streams{}
	st.opt = interp.Options{Stdout: &st.so, Stderr: &st.se, Stdin: strings.NewReader(j.Stdin)}
	if j.Opts != nil {
		if j.Opts.Stdout == "nil" {
			st.opt.Stdout = nil
		}
		if j.Opts.Stderr == "nil" {
			st.opt.Stderr = nil
		}
		if j.Opts.Stdin == "nil" {
			st.opt.Stdin = nil
		}
		j.Cfg.StdoutFile, j.Cfg.StderrFile, j.Cfg.StdinFile = j.Opts.Stdout == "file", j.Opts.Stderr == "file", j.Opts.Stdin == "file"
	}
	tmp := func() *os.File {
		f, err := os.CreateTemp("", "c13-stream-")
		if err != nil {
			return nil
		}
		st.files = append(st.files, f)
		return f
	}
	if j.Cfg.StdoutFile {
		if st.fo = tmp(); st.fo != nil {
			st.opt.Stdout = st.fo
		}
	}
	if j.Cfg.StderrFile {
		if st.fe = tmp(); st.fe != nil {
			st.opt.Stderr = st.fe
		}
	}
	if j.Cfg.StdinFile {
		if fi := tmp(); fi != nil {
			fi.WriteString(j.Stdin)
			fi.Seek(0, 0)
			st.opt.Stdin = fi
		}
	}
	return st
}

func (st *streams) close() {
	for _, f := range st.files {
		f.Close()
		os.Remove(f.Name())
	}
}

func runScript(j job) (r jobResult) {
	r.ID = j.ID
	st := makeStreams(j)
	defer st.close()
	opt := st.opt
	so, se, fo, fe := &st.so, &st.se, st.fo, st.fe
	r.HostBefore = sortedEnviron()
	if j.Opts != nil {
		r.HostArgs = append([]string{}, os.Args...)
	}
	timeout := time.Duration(j.TimeoutMs) * time.Millisecond
	if timeout == 0 {
		timeout = 10 * time.Second
	}
	ctx, cancel := context.WithTimeout(context.Background(), timeout)
	defer cancel()
	done := make(chan struct{})
	go func() {
		defer close(done)
		defer func() {
			if p := recover(); p != nil {
				r.Crash = fmt.Sprint(p)
			}
		}()
		i, err := newInterp(j, opt)
		if err != nil {
			r.Err = "use: " + err.Error()
			return
		}
		_, err = i.EvalWithContext(ctx, j.Src)
		if err != nil {
			r.Err = err.Error()
			if r.Err == "" {
				r.Err = "error with empty message"
			}
			_, r.Panic = err.(interp.Panic)
			return
		}
		if j.Call != "" {
			v, err := i.EvalWithContext(ctx, j.Call)
			if err != nil {
				r.Err = "call: " + err.Error()
				_, r.Panic = err.(interp.Panic)
				return
			}
			if v.IsValid() && v.Kind() == reflect.String {
				r.Value = v.String()
			} else {
				r.Err = "call: not a string"
			}
		}
	}()
	select {
	case <-done:
	case <-time.After(timeout + 3*time.Second):
		r.Timeout = true
	}
	if ctx.Err() != nil && r.Err != "" {
		r.Timeout = true
	}
	r.HostAfter = sortedEnviron()
	if strings.Join(r.HostBefore, "\x00") != strings.Join(r.HostAfter, "\x00") {
		restoreEnviron(r.HostBefore)
	}
	read := func(f *os.File, b *bytes.Buffer) string {
		if f == nil {
			return b.String()
		}
		f.Seek(0, 0)
		x, _ := io.ReadAll(f)
		return string(x) + b.String()
	}
	r.OptOut, r.OptErr = read(fo, so), read(fe, se)
	return r
}

// hostValues: the host's own functions and variables, for identity comparison with what a script gets.
var hostFuncs = map[string]interface{}{
	"fmt.Print": fmt.Print, "fmt.Printf": fmt.Printf, "fmt.Println": fmt.Println,
	"fmt.Scan": fmt.Scan, "fmt.Scanf": fmt.Scanf, "fmt.Scanln": fmt.Scanln,
	"fmt.Sprint": fmt.Sprint, "fmt.Fprintln": fmt.Fprintln, "fmt.Errorf": fmt.Errorf,
	"log.Fatal": log.Fatal, "log.Fatalf": log.Fatalf, "log.Fatalln": log.Fatalln,
	"log.Panic": log.Panic, "log.Panicf": log.Panicf, "log.Panicln": log.Panicln,
	"log.Print": log.Print, "log.Printf": log.Printf, "log.Println": log.Println,
	"log.Flags": log.Flags, "log.SetFlags": log.SetFlags, "log.Prefix": log.Prefix, "log.SetPrefix": log.SetPrefix,
	"log.Output": log.Output, "log.SetOutput": log.SetOutput, "log.Writer": log.Writer,
	"log.New": log.New, "log.Default": log.Default,
	"log/slog.Info": slog.Info, "log/slog.Default": slog.Default, "log/slog.NewLogLogger": slog.NewLogLogger, "log/slog.SetDefault": slog.SetDefault,
	"os.Exit": os.Exit, "os.FindProcess": os.FindProcess, "os.Getpid": os.Getpid, "os.Getwd": os.Getwd,
	"os.Setenv": os.Setenv, "os.Unsetenv": os.Unsetenv, "os.Clearenv": os.Clearenv, "os.Getenv": os.Getenv,
	"os.LookupEnv": os.LookupEnv, "os.Environ": os.Environ, "os.ExpandEnv": os.ExpandEnv, "os.Expand": os.Expand,
	"os.UserHomeDir": os.UserHomeDir, "os.TempDir": os.TempDir, "os.UserCacheDir": os.UserCacheDir, "os.UserConfigDir": os.UserConfigDir,
	"os.StartProcess": os.StartProcess,
	"flag.Parse":      flag.Parse, "flag.Args": flag.Args, "flag.String": flag.String, "flag.NewFlagSet": flag.NewFlagSet,
	"flag.PrintDefaults": flag.PrintDefaults, "flag.Parsed": flag.Parsed, "flag.Arg": flag.Arg, "flag.NArg": flag.NArg,
}

var hostVars = map[string]interface{}{
	"os.Args": &os.Args, "os.Stdin": &os.Stdin, "os.Stdout": &os.Stdout, "os.Stderr": &os.Stderr,
	"flag.CommandLine": &flag.CommandLine, "flag.Usage": &flag.Usage,
}

// runBind looks at the interpreter's binary symbols after Use: is pkg.name the host's own object?
func runBind(j job) (r jobResult) {
	r.ID = j.ID
	r.Binds = map[string]string{}
	defer func() {
		if p := recover(); p != nil {
			r.Crash = fmt.Sprint(p)
		}
	}()
	st := makeStreams(j)
	defer st.close()
	i, err := newInterp(j, st.opt)
	if err != nil {
		r.Err = err.Error()
		return r
	}
	// package paths the interpreter holds after Use: every key of the table as Use splits it, confirmed through the
	// exported accessor (Symbols("") cannot be used: it wraps the generic source packages and panics)
	present := func(p string) (ok bool) {
		defer func() {
			if recover() != nil {
				ok = true // a source package (cmp, maps, slices) shadowing the binary one
			}
		}()
		return len(i.Symbols(p)) > 0
	}
	seen := map[string]bool{}
	for k := range stdlib.Symbols {
		d := path.Dir(k)
		if k == "." || d == "." || seen[d] || !present(d) {
			continue
		}
		seen[d] = true
		r.Keys = append(r.Keys, d)
	}
	sort.Strings(r.Keys)
	all := map[string]map[string]reflect.Value{}
	for _, pn := range j.Names {
		if all[pn[0]] == nil {
			all[pn[0]] = i.Symbols(pn[0])[pn[0]]
		}
	}
	for _, pn := range j.Names {
		key := pn[0] + "." + pn[1]
		v, ok := all[pn[0]][pn[1]]
		if !ok || !v.IsValid() {
			r.Binds[key] = "absent"
			continue
		}
		if h, ok := hostFuncs[key]; ok {
			if v.Kind() == reflect.Func && v.Pointer() == reflect.ValueOf(h).Pointer() {
				r.Binds[key] = "host"
			} else {
				r.Binds[key] = "other"
			}
			continue
		}
		if h, ok := hostVars[key]; ok {
			if v.CanAddr() && v.Addr().Pointer() == reflect.ValueOf(h).Pointer() {
				r.Binds[key] = "host"
			} else {
				r.Binds[key] = "other"
			}
			continue
		}
		r.Binds[key] = "no-host-value"
	}
	return r
}
