package main

import (
	"bufio"
	"bytes"
	"context"
	"encoding/json"
	"fmt"
	"os"
	"os/exec"
	"path/filepath"
	"strconv"
	"strings"
	"sync"
	"time"
)

// outcome is what the parent knows about one job.
type outcome struct {
	Res      *jobResult // nil: the child process ended while running this job
	ExitCode int        // exit status of the child when Res == nil
	Killed   bool       // the parent's watchdog killed the child
	HostOut  string     // what reached the child's own stdout during the job
	HostErr  string
}

// splitByMarker attributes captured host output to job ids.
func splitByMarker(s string) map[int]string {
	out := map[int]string{}
	parts := strings.Split(s, marker)
	for _, p := range parts[1:] {
		nl := strings.IndexByte(p, '\n')
		if nl < 0 {
			continue
		}
		id, err := strconv.Atoi(p[:nl])
		if err != nil {
			continue
		}
		out[id] += p[nl+1:]
	}
	return out
}

// hostStdinText is what a script gets when it reads the host's stdin.
const hostStdinText = "HOSTIN1 HOSTIN2 HOSTIN3 HOSTIN4 HOSTIN5 HOSTIN6 HOSTIN7 HOSTIN8\n"

// runShard runs jobs sequentially in child processes, restarting after a job that killed its child.
func runShard(dir string, shard int, jobs []job, hostEnv []string, res map[int]*outcome, mu *sync.Mutex) error {
	self, err := os.Executable()
	if err != nil {
		return err
	}
	round := 0
	for len(jobs) > 0 {
		round++
		jf := filepath.Join(dir, fmt.Sprintf("jobs-%d-%d.json", shard, round))
		rf := filepath.Join(dir, fmt.Sprintf("report-%d-%d.jsonl", shard, round))
		b, _ := json.Marshal(jobs)
		if err := os.WriteFile(jf, b, 0o644); err != nil {
			return err
		}
		ctx, cancel := context.WithTimeout(context.Background(), time.Duration(20+len(jobs)/4)*time.Second+2*time.Minute)
		cmd := exec.CommandContext(ctx, self, "-c13child="+jf, rf)
		cmd.Env = hostEnv
		cmd.Stdin = strings.NewReader(strings.Repeat(hostStdinText, 400))
		var so, se bytes.Buffer
		cmd.Stdout, cmd.Stderr = &so, &se
		runErr := cmd.Run()
		killed := ctx.Err() != nil
		cancel()
		code := 0
		if ee, ok := runErr.(*exec.ExitError); ok {
			code = ee.ExitCode()
		} else if runErr != nil {
			return runErr
		}
		outs, errs := splitByMarker(so.String()), splitByMarker(se.String())
		got := map[int]*jobResult{}
		if f, err := os.Open(rf); err == nil {
			sc := bufio.NewScanner(f)
			sc.Buffer(make([]byte, 1<<20), 1<<26)
			for sc.Scan() {
				var r jobResult
				if json.Unmarshal(sc.Bytes(), &r) == nil {
					rr := r
					got[r.ID] = &rr
				}
			}
			f.Close()
		}
		os.Remove(jf)
		os.Remove(rf)
		next := -1
		mu.Lock()
		for k, j := range jobs {
			if r, ok := got[j.ID]; ok {
				res[j.ID] = &outcome{Res: r, HostOut: outs[j.ID], HostErr: errs[j.ID]}
				continue
			}
			// first job without a report: it ended the child
			res[j.ID] = &outcome{ExitCode: code, Killed: killed, HostOut: outs[j.ID], HostErr: errs[j.ID]}
			next = k + 1
			break
		}
		mu.Unlock()
		if next < 0 {
			if code == 97 {
				return fmt.Errorf("child could not start: %s", se.String())
			}
			break
		}
		jobs = jobs[next:]
	}
	return nil
}

// runJobs distributes the jobs over par child processes.
func runJobs(jobs []job, hostEnv []string, par int) (map[int]*outcome, error) {
	dir, err := os.MkdirTemp("", "verif-c13-")
	if err != nil {
		return nil, err
	}
	defer os.RemoveAll(dir)
	if par < 1 {
		par = 1
	}
	if par > len(jobs) {
		par = len(jobs)
	}
	res := map[int]*outcome{}
	var mu sync.Mutex
	var wg sync.WaitGroup
	errc := make(chan error, par)
	for s := 0; s < par; s++ {
		var mine []job
		for k := s; k < len(jobs); k += par {
			mine = append(mine, jobs[k])
		}
		wg.Add(1)
		go func(s int, mine []job) {
			defer wg.Done()
			if err := runShard(dir, s, mine, hostEnv, res, &mu); err != nil {
				errc <- err
			}
		}(s, mine)
	}
	wg.Wait()
	select {
	case err := <-errc:
		return res, err
	default:
	}
	return res, nil
}
