package main

// Cases of kind "opts": one value of interp.Options (with the nil / empty distinction of its slices and the nil /
// buffer / *os.File distinction of its streams) against what a script observes.
//
//	impl  = a real interpreter in a child process: interp.New(Options) + Use(stdlib.Symbols); the script's observations
//	        come back as the value of a call (not through any stream), tokens it prints are searched in the Options
//	        streams and in the child's own
//	model = the Lean function Options → effective configuration over the regenerated OptFlow / fixStdlib facts
//	ref   = what the property and the doc comments of Options demand: a non-nil Args (empty included) is the script's
//	        os.Args, nil means the host's; the environment is exactly the parsed Options.Env (nil ≡ empty ≡ none); a non-nil
//	        stream is used, nil means the host's; GoPath as given, the file system given if non-nil, the tags given

import (
	"flag"
	"fmt"
	"io"
	"math/rand"
	"sort"
	"strconv"
	"strings"

	"verif/harness/common"
)

type optsT struct {
	Args   []string `json:"args"` // JSON null = nil slice, [] = empty non-nil slice
	Env    []string `json:"env"`
	Stdin  string   `json:"stdin"` // nil | other | file
	Stdout string   `json:"stdout"`
	Stderr string   `json:"stderr"`
	Tags   []string `json:"tags"`
	FS     bool     `json:"fs,omitempty"`     // SourcecodeFilesystem = the MapFS of the child
	GoPath string   `json:"gopath,omitempty"` // "" | tree (the real source tree) | mapgp (the root inside the MapFS)
	Probe  string   `json:"probe,omitempty"`  // "" the main observation script | real (import c13tags of the tree) | map (import c13fs of the MapFS)
}

const (
	tokPrintln = "C13TOKPRINTLN"
	tokLog     = "C13TOKLOG"
	tokBuiltin = "C13TOKBUILTIN"
	tokOsOut   = "C13TOKOSOUT"
	tokOsErr   = "C13TOKOSERR"
	tokClOut   = "c13flag"
)

func sliceSexp(xs []string) string {
	if xs == nil {
		return "(n)"
	}
	items := []string{"s"}
	for _, x := range xs {
		items = append(items, qq(x))
	}
	return common.L(items...)
}

// qq always quotes (an element "s" or "n" must not be read as the marker)
func qq(s string) string {
	var b strings.Builder
	b.WriteByte('"')
	for i := 0; i < len(s); i++ {
		c := s[i]
		switch {
		case c == '"':
			b.WriteString(`\"`)
		case c == '\\':
			b.WriteString(`\\`)
		case c < 32 || c > 126:
			fmt.Fprintf(&b, `\x%02x`, c)
		default:
			b.WriteByte(c)
		}
	}
	b.WriteByte('"')
	return b.String()
}

func (c caseT) optsLine() string {
	o := c.Opts
	return strings.Join([]string{"C13 opts", common.B(c.Cfg.SpecialStdio), common.B(c.Cfg.Unrestricted), sliceSexp(o.Args), sliceSexp(o.Env),
		o.Stdin, o.Stdout, o.Stderr, sliceSexp(o.Tags), common.B(o.FS), qq(o.GoPath)}, " ")
}

// optsScript: the observations come back as the value of Obs().
func (c caseT) optsScript() string {
	switch c.Opts.Probe {
	case "real":
		return "package main\n\nimport \"c13tags\"\n\nfunc Obs() string { return \"which \" + c13tags.Which() + \"\\n\" }\n"
	case "map":
		return "package main\n\nimport \"c13fs\"\n\nfunc Obs() string { return \"which \" + c13fs.Which() + \"\\n\" }\n"
	}
	return `package main

import (
	"flag"
	"fmt"
	"log"
	"os"
	"sort"
	"strings"
)

func Obs() string {
	var b strings.Builder
	fmt.Fprintf(&b, "args %q\n", os.Args)
	fmt.Fprintf(&b, "nargs %d\n", len(os.Args))
	fmt.Fprintf(&b, "clname %q\n", flag.CommandLine.Name())
	flag.CommandLine.String("c13child", "", "u")
	cf := flag.CommandLine.Bool("c13flag", false, "u")
	if len(os.Args) > 0 {
		flag.CommandLine.Parse(os.Args[1:])
	}
	fmt.Fprintf(&b, "clargs %v %q\n", *cf, flag.CommandLine.Args())
	flag.Parse()
	fmt.Fprintf(&b, "fargs %q\n", flag.Args())
	e := os.Environ()
	sort.Strings(e)
	fmt.Fprintf(&b, "environ %q\n", e)
	fmt.Println("` + tokPrintln + `")
	log.Print("` + tokLog + `")
	println("` + tokBuiltin + `")
	fmt.Fprintln(os.Stdout, "` + tokOsOut + `")
	fmt.Fprintln(os.Stderr, "` + tokOsErr + `")
	flag.CommandLine.PrintDefaults()
	func() {
		defer func() { recover() }()
		flag.CommandLine.Parse([]string{"-c13nope"})
	}()
	var s, t string
	fmt.Scan(&s)
	fmt.Fscan(os.Stdin, &t)
	fmt.Fprintf(&b, "scan %q %q\n", s, t)
	return b.String()
}
`
}

// obsNames: the observations of the main script, in the order they are reported.
var obsNames = []string{"args", "nargs", "clname", "clusage", "clargs", "fargs", "environ", "println", "logprint", "builtin", "scan", "osstdout", "osstderr", "osstdin", "clout"}

// usageLine: the heading the flag package prints for a set of that name on a parse error
func usageLine(name string) string {
	if name == "" {
		return "Usage:"
	}
	return "Usage of " + name + ":"
}

// usageSeen: the heading as it was printed (on whichever stream), cut before the list of defaults
func usageSeen(o *outcome) string {
	if o == nil {
		return "not-run"
	}
	all := o.HostErr + o.HostOut
	if o.Res != nil {
		all = o.Res.OptErr + o.Res.OptOut + all
	}
	i := strings.Index(all, "flag provided but not defined: -c13nope\nUsage")
	if i < 0 {
		return "no-usage-line"
	}
	rest := all[i+len("flag provided but not defined: -c13nope\n"):]
	if j := strings.Index(rest, "\n  -c13child"); j >= 0 {
		return rest[:j]
	}
	return "unterminated:" + rest
}

// obsClass is the divergence class of (input, observation): a predicate of the input alone.
func (c caseT) obsClass(obs string) string {
	o := c.Opts
	switch obs {
	case "fargs":
		if o.Args != nil {
			return "package-level flag function"
		}
	case "osstdout":
		if !c.Cfg.SpecialStdio && o.Stdout == "other" {
			return "os.Std* with a non-file Options stream"
		}
	case "osstderr":
		if !c.Cfg.SpecialStdio && o.Stderr == "other" {
			return "os.Std* with a non-file Options stream"
		}
	case "osstdin":
		if !c.Cfg.SpecialStdio && o.Stdin == "other" {
			return "os.Std* with a non-file Options stream"
		}
	}
	return ""
}

// refFlagParse is Go's own flag package on an argument vector (element 0 = program name).
func refFlagParse(argv []string) (clargs, fargs string) {
	fs := flag.NewFlagSet("ref", flag.ContinueOnError)
	fs.SetOutput(io.Discard)
	fs.String("c13child", "", "u")
	cf := fs.Bool("c13flag", false, "u")
	if len(argv) > 0 {
		if err := fs.Parse(argv[1:]); err != nil {
			return "parse-error", "parse-error"
		}
	}
	rest := fs.Args()
	if rest == nil {
		rest = []string{}
	}
	return fmt.Sprintf("%v %q", *cf, rest), fmt.Sprintf("%q", rest)
}

func quoteList(xs []string) string {
	if xs == nil {
		xs = []string{}
	}
	return fmt.Sprintf("%q", xs)
}

// parseEntries is the reference reading of Options.Env: name up to the first '=', later entries win.
func parseEntries(entries []string) []string {
	m := map[string]string{}
	for _, e := range entries {
		if i := strings.IndexByte(e, '='); i >= 0 {
			m[e[:i]] = e[i+1:]
		} else {
			m[e] = ""
		}
	}
	var xs []string
	for k, v := range m {
		xs = append(xs, k+"="+v)
	}
	sort.Strings(xs)
	return xs
}

type obsT struct {
	Name, Impl, Model, Ref, Class string
}

// tokDest: where a token written by the script landed, in the vocabulary opt | host (exactly the expected stream of
// that side and no other), anything else verbatim.
func tokDest(o *outcome, t string, errStream bool) string {
	w := whereTok(o, t)
	optName, hostName := "optStdout", "hostStdout"
	if errStream {
		optName, hostName = "optStderr", "hostStderr"
	}
	switch w {
	case optName:
		return "opt"
	case hostName:
		return "host"
	}
	return w
}

func scanDest(s string) string {
	switch {
	case strings.HasPrefix(s, "OPTIN"):
		return "opt"
	case strings.HasPrefix(s, "HOSTIN"):
		return "host"
	}
	return "neither:" + s
}

// implObs parses what the child reported.
func implObs(c caseT, o *outcome) map[string]string {
	m := map[string]string{}
	status := outcomeOf(o)
	if o == nil || o.Res == nil || status != "returns" {
		msg := status
		if o != nil && o.Res != nil {
			msg += ": " + o.Res.Err + o.Res.Crash
		}
		if c.Opts.Probe != "" {
			// a failed import is the observation
			if status == "error" {
				msg = "error"
			}
			m["which"] = msg
			return m
		}
		for _, n := range obsNames {
			m[n] = msg
		}
		return m
	}
	for _, l := range strings.Split(strings.TrimSuffix(o.Res.Value, "\n"), "\n") {
		if i := strings.IndexByte(l, ' '); i > 0 {
			m[l[:i]] = l[i+1:]
		}
	}
	if c.Opts.Probe != "" {
		return m
	}
	if u, err := strconv.Unquote(m["clname"]); err == nil {
		m["clname"] = u
	}
	var s, t string
	if p, err := strconv.QuotedPrefix(m["scan"]); err == nil {
		s, _ = strconv.Unquote(p)
		t, _ = strconv.Unquote(strings.TrimSpace(m["scan"][len(p):]))
	}
	delete(m, "scan")
	m["scan"], m["osstdin"] = scanDest(s), scanDest(t)
	m["println"] = tokDest(o, tokPrintln, false)
	m["builtin"] = tokDest(o, tokBuiltin, false)
	m["osstdout"] = tokDest(o, tokOsOut, false)
	m["logprint"] = tokDest(o, tokLog, true)
	m["osstderr"] = tokDest(o, tokOsErr, true)
	m["clout"] = tokDest(o, tokClOut, true)
	m["clusage"] = usageSeen(o)
	return m
}

func hostArgsOf(o *outcome) []string {
	if o != nil && o.Res != nil {
		return o.Res.HostArgs
	}
	return nil
}

func hostEnvOf(o *outcome) []string {
	if o != nil && o.Res != nil {
		e := append([]string(nil), o.Res.HostBefore...)
		sort.Strings(e)
		return e
	}
	return nil
}

// argsOfSrc renders an (args …) / (fparse …) / (clname …) answer of the driver as a vector.
func argsOfSrc(xs []sx, host []string) ([]string, bool) {
	if len(xs) == 0 {
		return nil, false
	}
	switch xs[0].atom {
	case "opt":
		v := []string{}
		for _, x := range xs[1:] {
			v = append(v, x.atom)
		}
		return v, true
	case "host":
		return host, true
	}
	return nil, false
}

// sourceOutcome: what importing the probe package gives under an effective (file system, GOPATH, tags).
func sourceOutcome(probe string, fsGiven bool, gopath string, tags []string) string {
	switch probe {
	case "real":
		if fsGiven || gopath != "tree" {
			return "error"
		}
		for _, t := range tags {
			if t == "c13tag" {
				return "tagged"
			}
		}
		return "plain"
	case "map":
		if !fsGiven || gopath != "mapgp" {
			return "error"
		}
		return "mapfs"
	}
	return "?"
}

// modelObs renders the driver's answer in the vocabulary of implObs.
func modelObs(c caseT, answer string, o *outcome) map[string]string {
	m := map[string]string{}
	xs, err := parseSexps(answer)
	if err != nil {
		return m
	}
	host := hostArgsOf(o)
	get := func(name string) []sx {
		v, _ := field(xs, name)
		return v
	}
	atom := func(name string) string {
		v := get(name)
		if len(v) == 0 {
			return "?"
		}
		return v[0].atom
	}
	if c.Opts.Probe != "" {
		tg, gp, fs := get("tags"), get("gopath"), get("fs")
		if len(tg) == 0 || len(gp) < 2 || len(fs) == 0 || gp[0].atom != "given" || tg[0].atom == "unknown" || fs[0].atom == "unknown" {
			m["which"] = "unknown"
			return m
		}
		var tags []string
		if tg[0].atom == "given" {
			for _, x := range tg[1:] {
				tags = append(tags, x.atom)
			}
		} else if len(tg) < 2 || tg[1].atom != "build.Default.BuildTags" {
			m["which"] = "unknown"
			return m
		}
		if fs[0].atom == "dflt" && (len(fs) < 2 || fs[1].atom != "&realFS{}") {
			m["which"] = "unknown"
			return m
		}
		m["which"] = sourceOutcome(c.Opts.Probe, fs[0].atom == "given", gp[1].atom, tags)
		return m
	}
	if av, ok := argsOfSrc(get("args"), host); ok {
		m["args"], m["nargs"] = quoteList(av), strconv.Itoa(len(av))
		m["clargs"], _ = refFlagParse(av)
	} else {
		m["args"], m["nargs"], m["clargs"] = "unknown", "unknown", "unknown"
	}
	// (clname head ARGS) = element 0 of that vector, "" when it is empty | (clname host0) = the host's os.Args[0]
	m["clname"], m["clusage"] = "unknown", "unknown"
	if cn := get("clname"); len(cn) > 0 {
		switch cn[0].atom {
		case "head":
			if nv, ok := argsOfSrc(cn[1:], host); ok {
				name := ""
				if len(nv) > 0 {
					name = nv[0]
				}
				m["clname"], m["clusage"] = name, usageLine(name)
			}
		case "host0":
			if len(host) > 0 {
				m["clname"], m["clusage"] = host[0], usageLine(host[0])
			}
		}
	}
	if fv, ok := argsOfSrc(get("fparse"), host); ok {
		_, m["fargs"] = refFlagParse(fv)
	} else {
		m["fargs"] = "unknown"
	}
	ev := get("environ")
	switch {
	case len(ev) > 0 && ev[0].atom == "virt":
		e := pairsOf(ev[1:])
		sort.Strings(e)
		m["environ"] = quoteList(e)
	case len(ev) > 0 && ev[0].atom == "host":
		m["environ"] = quoteList(hostEnvOf(o))
	default:
		m["environ"] = "unknown"
	}
	for _, n := range []string{"println", "logprint", "builtin", "scan", "osstdout", "osstderr", "osstdin", "clout"} {
		m[n] = atom(n)
	}
	return m
}

// refObs is what the property demands.
func refObs(c caseT, o *outcome) map[string]string {
	m := map[string]string{}
	op := c.Opts
	if op.Probe != "" {
		gp := op.GoPath
		m["which"] = sourceOutcome(op.Probe, op.FS, gp, op.Tags)
		return m
	}
	argv := op.Args
	if argv == nil {
		argv = hostArgsOf(o) // "Cmdline args, defaults to os.Args"
	}
	m["args"], m["nargs"] = quoteList(argv), strconv.Itoa(len(argv))
	m["clargs"], m["fargs"] = refFlagParse(argv)
	if len(argv) > 0 {
		m["clname"], m["clusage"] = argv[0], usageLine(argv[0])
	} else {
		m["clname"], m["clusage"] = "any", "any" // Go itself has no command line without a program name
	}
	if c.Cfg.Unrestricted {
		m["environ"] = "any" // the property is about restricted mode
	} else {
		m["environ"] = quoteList(parseEntries(op.Env))
	}
	d := func(v string) string {
		if v == "nil" {
			return "host" // "They default to os.Stdin, os.Stdout and os.Stderr respectively"
		}
		return "opt"
	}
	m["println"], m["builtin"], m["osstdout"] = d(op.Stdout), d(op.Stdout), d(op.Stdout)
	m["logprint"], m["osstderr"], m["clout"] = d(op.Stderr), d(op.Stderr), d(op.Stderr)
	m["scan"], m["osstdin"] = d(op.Stdin), d(op.Stdin)
	return m
}

func (c caseT) observations(answer string, o *outcome) []obsT {
	im, mo, rf := implObs(c, o), modelObs(c, answer, o), refObs(c, o)
	names := obsNames
	if c.Opts.Probe != "" {
		names = []string{"which"}
	}
	var out []obsT
	for _, n := range names {
		if c.Observe != "" && c.Observe != n {
			continue
		}
		i, ok := im[n]
		if !ok {
			i = "missing"
		}
		if n == "which" {
			i = strings.TrimSpace(i)
		}
		out = append(out, obsT{n, i, mo[n], rf[n], c.obsClass(n)})
	}
	return out
}

// checkOpts compares every observation of one Options value three ways.
func checkOpts(run *common.Run, c caseT, line, answer string, o *outcome) {
	obs := c.observations(answer, o)
	nontrivial := c.Opts.Args != nil || c.Opts.Env != nil || c.Opts.Stdout != "other" || c.Opts.Probe != ""
	run.Count(line, nontrivial)
	run.Sample(map[string]interface{}{"case": c, "observations": obs}, 10)
	switch {
	case c.Opts.Args == nil:
		run.Hit("opts:args=nil")
	case len(c.Opts.Args) == 0:
		run.Hit("opts:args=empty")
	case len(c.Opts.Args) == 1:
		run.Hit("opts:args=one")
	default:
		run.Hit("opts:args=many")
	}
	switch {
	case c.Opts.Env == nil:
		run.Hit("opts:env=nil")
	case len(c.Opts.Env) == 0:
		run.Hit("opts:env=empty")
	default:
		run.Hit("opts:env=entries")
	}
	if c.Cfg.Unrestricted {
		run.Hit("opts:unrestricted")
	} else {
		run.Hit("opts:restricted")
	}
	run.Hit("opts:streams=" + c.Opts.Stdin + "/" + c.Opts.Stdout + "/" + c.Opts.Stderr)
	if c.Opts.Probe != "" {
		run.Hit("opts:probe=" + c.Opts.Probe)
	}
	for _, ob := range obs {
		if ob.Name == "which" {
			run.Hit("opts:which=" + ob.Impl)
		}
		in := c
		in.Observe = ob.Name
		okModel := ob.Impl == ob.Model
		if !okModel {
			run.Disagree(common.Disagreement{Kind: "impl-vs-model", Input: in, Impl: ob.Impl, Model: ob.Model, Ref: ob.Ref, Note: "observation " + ob.Name + "; " + hostNote(o)})
		}
		if !agrees(ob.Impl, ob.Ref) {
			if ob.Class != "" {
				run.Hit("class:" + ob.Class)
			}
			d := common.Disagreement{Kind: "impl-vs-ref", Input: in, Impl: ob.Impl, Model: ob.Model, Ref: ob.Ref, Finding: ob.Class, Note: "observation " + ob.Name + "; " + hostNote(o)}
			if !okModel {
				d.Finding, d.Note = "", "observation "+ob.Name+" differs from what the property demands and from the model of the unchanged code; "+hostNote(o)
			}
			run.Disagree(d)
		}
	}
}

// ---- generator

var argsPool = [][]string{nil, {}, {"prog"}, {"prog", "a1"}, {"prog", "-c13flag", "a1", "a 2", ""}, {"", "x", "--", "-y"}}
var envPool = [][]string{nil, {}, {"A=1"}, {"HOME=/virt-home", "B", "A=x=y", "A=2", "PATH="}}
var streamPool = [][3]string{{"other", "other", "other"}, {"nil", "nil", "nil"}, {"file", "file", "file"}, {"nil", "other", "file"}, {"other", "file", "nil"}, {"file", "nil", "other"}}
var tagsPool = [][]string{nil, {}, {"c13tag"}, {"x", "c13tag"}, {"x"}}
var argTokens = []string{"a1", "a 2", "", "-c13flag", "-c13flag=false", "--c13flag", "--", "-", "é", "x=y", "-c13child=zz", "prog", "\"q\"", "line\nbreak", "þ", "$HOME"}

func staticOpts() []caseT {
	var cs []caseT
	for _, unres := range []bool{false, true} {
		for _, a := range argsPool {
			for _, e := range envPool {
				for _, st := range streamPool {
					cs = append(cs, caseT{Kind: "opts", Cfg: cfgT{Unrestricted: unres}, Opts: &optsT{Args: a, Env: e, Stdin: st[0], Stdout: st[1], Stderr: st[2]}})
				}
			}
		}
		for _, st := range streamPool {
			cs = append(cs, caseT{Kind: "opts", Cfg: cfgT{Unrestricted: unres, SpecialStdio: true}, Opts: &optsT{Args: argsPool[1], Env: envPool[2], Stdin: st[0], Stdout: st[1], Stderr: st[2]}})
		}
		for _, fs := range []bool{false, true} {
			for _, gp := range []string{"", "tree", "mapgp"} {
				for _, tg := range tagsPool {
					for _, pr := range []string{"real", "map"} {
						cs = append(cs, caseT{Kind: "opts", Cfg: cfgT{Unrestricted: unres}, Opts: &optsT{Args: []string{}, Stdin: "other", Stdout: "other", Stderr: "other", Tags: tg, FS: fs, GoPath: gp, Probe: pr}})
					}
				}
			}
		}
	}
	return cs
}

func genOpts(r *rand.Rand) caseT {
	o := &optsT{}
	switch r.Intn(5) {
	case 0:
	case 1:
		o.Args = []string{}
	default:
		o.Args = []string{}
		for n := 1 + r.Intn(5); n > 0; n-- {
			o.Args = append(o.Args, argTokens[r.Intn(len(argTokens))])
		}
	}
	switch r.Intn(5) {
	case 0:
	case 1:
		o.Env = []string{}
	default:
		o.Env = genEntries(r)
	}
	st := []string{"nil", "other", "file"}
	o.Stdin, o.Stdout, o.Stderr = st[r.Intn(3)], st[r.Intn(3)], st[r.Intn(3)]
	c := caseT{Kind: "opts", Opts: o}
	c.Cfg.Unrestricted = r.Intn(4) == 0
	c.Cfg.SpecialStdio = r.Intn(6) == 0
	return c
}
