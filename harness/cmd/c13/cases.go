package main

import (
	"fmt"
	"path"
	"sort"
	"strconv"
	"strings"

	"verif/harness/common"
)

// caseT is one input of the correspondence (also the replay format of known findings).
type caseT struct {
	Kind string `json:"kind"` // exit | io | envsrc | import | used | bind | env | opts
	Cfg  cfgT   `json:"cfg"`

	// exit, io, envsrc, bind
	What   string `json:"what,omitempty"` // exit: fn|method|flagset ; io: fn|builtin|logger|var
	Pkg    string `json:"pkg,omitempty"`
	Name   string `json:"name,omitempty"`
	Method string `json:"method,omitempty"`
	Typed  bool   `json:"typed,omitempty"` // exit/method: through a variable of type *log.Logger
	// exit/flagset: how the set is made (fnvalue | var | conv | typedvar); exit/flagsetinit: which set Init is called on
	// (zero | new | cmdline); io/logger: prefix = the token is the prefix set through the package-level log.SetPrefix
	Variant string `json:"variant,omitempty"`
	Bad     string `json:"bad,omitempty"` // exit/flagset*: the offending arguments: "" an undefined flag | value | help

	// import
	Sets   []string `json:"sets,omitempty"`
	Form   string   `json:"form,omitempty"` // plain | named | dot | blank
	Path   string   `json:"path,omitempty"`
	GoPath bool     `json:"gopath,omitempty"` // Options.GoPath points to a tree that contains srcTree

	// used: is `Probe` (an expression using package name `Name`) usable after ImportUsed?
	Probe string `json:"probe,omitempty"`

	// env
	Entries []string `json:"entries,omitempty"`
	Ops     []opT    `json:"ops,omitempty"`

	// opts: one value of interp.Options; Observe restricts the comparison to one observation (replays)
	Opts    *optsT `json:"opts,omitempty"`
	Observe string `json:"observe,omitempty"`
}

func (c cfgT) sexp() string {
	return common.L(common.B(c.Unrestricted), common.B(c.SpecialStdio), common.B(c.StdinFile), common.B(c.StdoutFile), common.B(c.StderrFile))
}

const tok = "C13TOKEN"

var optArgs = []string{"prog", "optarg1", "optarg2"}

const optStdin = "OPTIN1 OPTIN2 OPTIN3\n"

// functions that still hand out the host's own *log.Logger (F12 as narrowed by 77e1d98: log.Default is repaired)
var hostLoggerSources = map[string]bool{"log/slog.NewLogLogger": true, "log/syslog.NewLogger": true}

var flagPkgLevel = map[string]bool{}

// functions of log/slog that go through its default logger
var slogDefault = map[string]bool{}

func init() {
	for _, n := range strings.Fields("Arg Args Bool BoolFunc BoolVar Duration DurationVar Float64 Float64Var Func Int Int64 Int64Var IntVar Lookup NArg NFlag Parse Parsed PrintDefaults Set String StringVar TextVar Uint Uint64 Uint64Var UintVar Usage Var Visit VisitAll") {
		flagPkgLevel[n] = true
	}
	for _, n := range strings.Fields("Debug DebugContext Info InfoContext Warn WarnContext Error ErrorContext Log LogAttrs Default With") {
		slogDefault[n] = true
	}
}

var hostEnvReaders = map[string]string{"UserHomeDir": "HOME", "UserCacheDir": "XDG_CACHE_HOME", "UserConfigDir": "XDG_CONFIG_HOME", "TempDir": "TMPDIR"}

// class is the divergence class of the input (a predicate of the input alone); "" = inside the proved domain.
func (c caseT) class() string {
	switch c.Kind {
	case "exit":
		if c.What == "method" && hostLoggerSources[c.Pkg+"."+c.Name] {
			return "obtains a host *log.Logger"
		}
		if c.What == "flagsetinit" && c.Name == "ExitOnError" {
			return "FlagSet.Init with flag.ExitOnError"
		}
		if c.What == "fn" && c.Pkg == "flag" && flagPkgLevel[c.Name] {
			return "package-level flag function"
		}
	case "io":
		if c.What == "logger" && hostLoggerSources[c.Pkg+"."+c.Name] {
			return "obtains a host *log.Logger"
		}
		if c.What == "fn" && c.Pkg == "flag" && flagPkgLevel[c.Name] {
			return "package-level flag function"
		}
		if c.What == "fn" && c.Pkg == "log/slog" && slogDefault[c.Name] {
			return "log/slog default logger"
		}
		if c.What == "var" && c.Pkg == "os" && !c.Cfg.SpecialStdio {
			switch {
			case c.Name == "Stdout" && !c.Cfg.StdoutFile, c.Name == "Stderr" && !c.Cfg.StderrFile, c.Name == "Stdin" && !c.Cfg.StdinFile:
				return "os.Std* with a non-file Options stream"
			}
		}
	case "envsrc":
		if _, ok := hostEnvReaders[c.Name]; ok {
			return "os function consulting the environment indirectly"
		}
	}
	return ""
}

// importIPath: the path gta looks up — a relative path is first rewritten relative to the importing package, here the
// main package (src.go relativePath: it stays relative) — with path.Dir / path.Base of it.
func (c caseT) importIPath() (full, dir, base string) {
	p := c.Path
	if strings.HasPrefix(p, "./") || strings.HasPrefix(p, "../") {
		if p = path.Join(".", p); !(strings.HasPrefix(p, "./") || strings.HasPrefix(p, "../")) {
			p = "./" + p
		}
	}
	return p, path.Dir(p), path.Base(p)
}

// line renders the protocol line for the Lean driver.
func (c caseT) line() string {
	q := common.Q
	switch c.Kind {
	case "exit":
		switch c.What {
		case "fn":
			return "C13 exit " + c.Cfg.sexp() + " fn " + q(c.Pkg) + " " + q(c.Name)
		case "method":
			return "C13 exit " + c.Cfg.sexp() + " method " + q(c.Pkg) + " " + q(c.Name) + " " + q(c.Method)
		case "flagset":
			return "C13 exit " + c.Cfg.sexp() + " flagset " + q(c.Name)
		case "flagsetinit":
			return "C13 exit " + c.Cfg.sexp() + " flagsetinit " + q(c.Name)
		}
	case "io":
		switch c.What {
		case "fn", "var":
			return "C13 io " + c.Cfg.sexp() + " fn " + q(c.Pkg) + " " + q(c.Name)
		case "builtin":
			return "C13 io " + c.Cfg.sexp() + " builtin " + q("_"+c.Name)
		case "logger":
			return "C13 io " + c.Cfg.sexp() + " logger " + q(c.Pkg) + " " + q(c.Name)
		}
	case "envsrc":
		return "C13 envsrc " + c.Cfg.sexp() + " " + q(c.Name)
	case "bind":
		return "C13 bind " + c.Cfg.sexp() + " " + q(c.Pkg) + " " + q(c.Name)
	case "import":
		full, dir, base := c.importIPath()
		form := c.Form
		if form == "named" {
			form = "(named alias)"
		}
		var tree []string
		if c.GoPath {
			for p := range srcTree {
				tree = append(tree, p)
			}
			sort.Strings(tree)
		}
		return "C13 import " + common.QL(c.Sets) + " " + form + " " + q(full) + " " + q(dir) + " " + q(base) + " " + common.QL(tree)
	case "opts":
		return c.optsLine()
	case "env":
		parts := []string{"C13 env", c.Cfg.sexp(), common.QL(c.Entries), hostPairsSexp()}
		for _, o := range c.Ops {
			parts = append(parts, o.sexp())
		}
		return strings.Join(parts, " ")
	}
	return "C13 bad"
}

func methodArgs(m string) string {
	switch {
	case strings.HasSuffix(m, "f"):
		return `("%s", "` + tok + `")`
	case m == "Output":
		return `(1, "` + tok + `")`
	}
	return `("` + tok + `")`
}

func prog(imports []string, body string) string {
	var b strings.Builder
	b.WriteString("package main\n\nimport (\n")
	for _, im := range imports {
		b.WriteString("\t" + strconv.Quote(im) + "\n")
	}
	b.WriteString(")\n\nfunc main() {\n" + body + "\n}\n")
	return b.String()
}

// script renders the Go program a case runs in the real interpreter.
func (c caseT) script() string {
	switch c.Kind {
	case "exit":
		switch c.What {
		case "fn":
			switch c.Pkg + "." + c.Name {
			case "os.Exit":
				return prog([]string{"os"}, "\tos.Exit(3)")
			case "flag.Parse":
				return prog([]string{"flag"}, "\tflag.Parse()")
			}
			return prog([]string{c.Pkg}, "\t"+path.Base(c.Pkg)+"."+c.Name+methodArgs(c.Name))
		case "method":
			var mk string
			imports := []string{c.Pkg, "io"}
			switch c.Pkg + "." + c.Name {
			case "log.New":
				mk = `log.New(io.Discard, "", 0)`
			case "log.Default":
				mk = `log.Default()`
			case "log/slog.NewLogLogger":
				mk = `slog.NewLogLogger(slog.NewTextHandler(io.Discard, nil), slog.LevelInfo)`
			default:
				mk = path.Base(c.Pkg) + "." + c.Name + "()"
			}
			body := "\tl := " + mk + "\n\tl." + c.Method + methodArgs(c.Method)
			if c.Typed {
				imports = append(imports, "log")
				body = "\tvar l *log.Logger = " + mk + "\n\tl." + c.Method + methodArgs(c.Method)
			}
			return prog(dedup(imports), body)
		case "flagset", "flagsetinit":
			var mk string
			if c.What == "flagset" {
				switch c.Variant {
				case "fnvalue":
					mk = "\tmk := flag.NewFlagSet\n\tfs := mk(\"x\", flag." + c.Name + ")"
				case "var":
					mk = "\th := flag." + c.Name + "\n\tfs := flag.NewFlagSet(\"x\", h)"
				case "conv":
					mk = "\tfs := flag.NewFlagSet(\"x\", flag.ErrorHandling(" + map[string]string{"ContinueOnError": "0", "ExitOnError": "1", "PanicOnError": "2"}[c.Name] + "))"
				case "typedvar":
					mk = "\tvar fs *flag.FlagSet = flag.NewFlagSet(\"x\", flag." + c.Name + ")"
				default:
					mk = "\tfs := flag.NewFlagSet(\"x\", flag." + c.Name + ")"
				}
			} else {
				switch c.Variant {
				case "new":
					mk = "\tfs := flag.NewFlagSet(\"x\", flag.ContinueOnError)\n\tfs.Init(\"y\", flag." + c.Name + ")"
				case "cmdline":
					mk = "\tflag.CommandLine.Init(\"y\", flag." + c.Name + ")\n\tfs := flag.CommandLine"
				default:
					mk = "\tvar fs0 flag.FlagSet\n\tfs := &fs0\n\tfs.Init(\"x\", flag." + c.Name + ")"
				}
			}
			parse := "fs.Parse([]string{\"-nope\"})"
			switch c.Bad {
			case "value":
				mk += "\n\tfs.Int(\"n\", 0, \"u\")"
				parse = "fs.Parse([]string{\"-n=x\"})"
			case "help":
				parse = "fs.Parse([]string{\"-h\"})"
			}
			return prog([]string{"flag", "fmt", "io"}, mk+"\n\tfs.SetOutput(io.Discard)\n\terr := "+parse+"\n\tfmt.Print(err != nil)")
		}
	case "io":
		switch c.What {
		case "builtin":
			return prog(nil, "\t"+c.Name+`("`+tok+`")`)
		case "logger":
			if c.Variant == "prefix" {
				// the package-level functions and the logger of log.Default() are one logger
				return prog([]string{c.Pkg}, "\tlog.SetPrefix(\""+tok+"\")\n\t"+path.Base(c.Pkg)+"."+c.Name+`().Print("x")`)
			}
			m := c.Method
			if m == "" {
				m = "Print"
			}
			return prog([]string{c.Pkg}, "\t"+path.Base(c.Pkg)+"."+c.Name+`().`+m+methodArgs(m))
		case "var":
			switch c.Name {
			case "Stdout", "Stderr":
				return prog([]string{"fmt", "os"}, "\tfmt.Fprint(os."+c.Name+`, "`+tok+`")`)
			case "Stdin":
				return prog([]string{"fmt", "os"}, "\tvar s string\n\tfmt.Fscan(os.Stdin, &s)\n\tfmt.Print(\"read:\", s)")
			case "Args":
				return prog([]string{"fmt", "os"}, "\tfmt.Print(\"args:\", os.Args)")
			case "CommandLine":
				return prog([]string{"flag"}, "\tflag.CommandLine.Parse([]string{\"-"+tok+"\"})")
			}
		case "fn":
			switch c.Pkg + "." + c.Name {
			case "fmt.Scan":
				return prog([]string{"fmt"}, "\tvar s string\n\tfmt.Scan(&s)\n\tfmt.Print(\"read:\", s)")
			case "fmt.Scanf":
				return prog([]string{"fmt"}, "\tvar s string\n\tfmt.Scanf(\"%s\", &s)\n\tfmt.Print(\"read:\", s)")
			case "fmt.Scanln":
				return prog([]string{"fmt"}, "\tvar s string\n\tfmt.Scanln(&s)\n\tfmt.Print(\"read:\", s)")
			case "log.SetPrefix":
				return prog([]string{"log"}, "\tlog.SetPrefix(\""+tok+"\")\n\tlog.Print(\"x\")")
			case "log.Writer":
				return prog([]string{"fmt", "log"}, "\tfmt.Fprint(log.Writer(), \""+tok+"\")")
			case "flag.Parse", "flag.Args":
				return prog([]string{"flag", "fmt"}, "\tflag.Parse()\n\tfmt.Print(\"args:\", flag.Args())")
			case "flag.PrintDefaults":
				// a flag name of its own per configuration: the definition lands in the host's CommandLine, which
				// outlives the interpreter (F13-2), and a second definition of the same name would panic
				name := fmt.Sprintf("%s_%v%v%v%v%v", tok, common.B(c.Cfg.Unrestricted), common.B(c.Cfg.SpecialStdio), common.B(c.Cfg.StdinFile), common.B(c.Cfg.StdoutFile), common.B(c.Cfg.StderrFile))
				return prog([]string{"flag"}, "\tflag.String(\""+name+"\", \"\", \"usage\")\n\tflag.PrintDefaults()")
			case "flag.Usage":
				return prog([]string{"flag"}, "\tflag.Usage()")
			case "log/slog.Default":
				return prog([]string{"log/slog"}, "\tslog.Default().Info(\""+tok+"\")")
			case "log/slog.With":
				return prog([]string{"log/slog"}, "\tslog.With(\"k\", 1).Info(\""+tok+"\")")
			case "log/slog.InfoContext", "log/slog.WarnContext", "log/slog.ErrorContext":
				return prog([]string{"context", "log/slog"}, "\tslog."+c.Name+"(context.Background(), \""+tok+"\")")
			case "log/slog.Log":
				return prog([]string{"context", "log/slog"}, "\tslog.Log(context.Background(), slog.LevelWarn, \""+tok+"\")")
			}
			return prog([]string{c.Pkg}, "\t"+path.Base(c.Pkg)+"."+c.Name+methodArgs(c.Name))
		}
	case "envsrc":
		switch c.Name {
		case "UserHomeDir", "UserCacheDir", "UserConfigDir":
			return prog([]string{"fmt", "os"}, "\th, _ := os."+c.Name+"()\n\tfmt.Print(h)")
		case "TempDir":
			return prog([]string{"fmt", "os"}, "\tfmt.Print(os.TempDir())")
		case "Getenv":
			return prog([]string{"fmt", "os"}, "\tfmt.Print(os.Getenv(\"HOME\"))")
		case "LookupEnv":
			return prog([]string{"fmt", "os"}, "\ts, _ := os.LookupEnv(\"HOME\")\n\tfmt.Print(s)")
		case "ExpandEnv":
			return prog([]string{"fmt", "os"}, "\tfmt.Print(os.ExpandEnv(\"$HOME\"))")
		case "Environ":
			return prog([]string{"fmt", "os"}, "\tfmt.Print(os.Environ())")
		}
	case "import":
		spec := strconv.Quote(c.Path)
		switch c.Form {
		case "named":
			spec = "alias " + spec
		case "dot":
			spec = ". " + spec
		case "blank":
			spec = "_ " + spec
		}
		return "package main\n\nimport " + spec + "\n\nfunc main() {}\n"
	case "used":
		return c.Probe
	case "env":
		return envScript(c.Ops)
	case "opts":
		return c.optsScript()
	}
	return ""
}

func dedup(xs []string) []string {
	seen := map[string]bool{}
	var out []string
	for _, x := range xs {
		if !seen[x] {
			seen[x] = true
			out = append(out, x)
		}
	}
	return out
}

// job renders the work for the child process.
func (c caseT) job(id int, gopath string) job {
	j := job{ID: id, Kind: "script", Src: c.script(), Cfg: c.Cfg, Args: optArgs, Stdin: optStdin, Sets: c.Sets, TimeoutMs: 10000}
	switch c.Kind {
	case "envsrc":
		j.Env = []string{"HOME=/virt-home", "TMPDIR=/virt-tmp", "XDG_CACHE_HOME=/virt-cache", "XDG_CONFIG_HOME=/virt-config"}
	case "import":
		if c.GoPath {
			j.GoPath = gopath
		}
	case "used":
		j.ImportUsed = true
	case "env":
		j.Env = c.Entries
	case "opts":
		j.Opts, j.Call, j.GoPath, j.Args, j.Env = c.Opts, "Obs()", gopath, nil, nil
	}
	return j
}

// outcomeOf classifies how a job ended.
func outcomeOf(o *outcome) string {
	switch {
	case o == nil:
		return "not-run"
	case o.Res == nil && o.Killed:
		return "hang"
	case o.Res == nil:
		return "exits"
	case o.Res.Crash != "":
		return "crash"
	case o.Res.Timeout:
		return "timeout"
	case o.Res.Err != "" && o.Res.Panic:
		return "panics"
	case o.Res.Err != "":
		return "error"
	}
	return "returns"
}

func whereTok(o *outcome, t string) string {
	if o == nil {
		return "not-run"
	}
	var hits []string
	if o.Res != nil {
		if strings.Contains(o.Res.OptOut, t) {
			hits = append(hits, "optStdout")
		}
		if strings.Contains(o.Res.OptErr, t) {
			hits = append(hits, "optStderr")
		}
	}
	if strings.Contains(o.HostOut, t) {
		hits = append(hits, "hostStdout")
	}
	if strings.Contains(o.HostErr, t) {
		hits = append(hits, "hostStderr")
	}
	if len(hits) == 0 {
		return "nowhere:" + outcomeOf(o)
	}
	return strings.Join(hits, "+")
}

// impl renders what the real code did, in the vocabulary of the model's answer.
func (c caseT) impl(o *outcome) string {
	switch c.Kind {
	case "exit":
		r := outcomeOf(o)
		if r == "exits" {
			return "exits"
		}
		return r
	case "io":
		all := ""
		if o != nil && o.Res != nil {
			all = o.Res.OptOut
		}
		switch {
		case c.What == "var" && c.Name == "Stdin", c.What == "fn" && c.Pkg == "fmt" && strings.HasPrefix(c.Name, "Scan"):
			switch {
			case strings.Contains(all, "read:OPTIN"):
				return "optStdin"
			case strings.Contains(all, "read:HOSTIN"):
				return "hostStdin"
			}
			return "nowhere:" + outcomeOf(o) + ":" + all
		case c.What == "var" && c.Name == "Args":
			switch {
			case strings.Contains(all, "args:"+fmt.Sprint(optArgs)):
				return "args"
			case strings.Contains(all, "-c13child"):
				return "hostArgs"
			}
			return "nowhere:" + outcomeOf(o) + ":" + all
		case c.What == "fn" && c.Pkg == "flag" && (c.Name == "Parse" || c.Name == "Args"):
			switch {
			case strings.Contains(all, "args:"+fmt.Sprint(optArgs[1:])):
				return "args"
			case strings.Contains(all, "args:[") && strings.Contains(all, "report-"):
				return "hostFlag"
			}
			return "nowhere:" + outcomeOf(o) + ":" + all
		case c.What == "fn" && c.Pkg == "flag" && c.Name == "Usage":
			w := whereTok(o, "Usage of ")
			if strings.HasPrefix(w, "host") {
				return "hostFlag"
			}
			return w
		case c.What == "fn" && c.Pkg == "flag":
			w := whereTok(o, tok)
			if strings.HasPrefix(w, "host") {
				return "hostFlag"
			}
			return w
		}
		return whereTok(o, tok)
	case "envsrc":
		if o == nil || o.Res == nil {
			return outcomeOf(o)
		}
		switch {
		case strings.Contains(o.Res.OptOut, "/virt-"):
			return "virt"
		case strings.Contains(o.Res.OptOut, "host-"):
			return "host"
		}
		return "neither:" + o.Res.OptOut
	case "import", "used":
		r := outcomeOf(o)
		if r == "returns" {
			return "ok"
		}
		return r
	}
	return "?"
}

// ref is what the property demands.
func (c caseT) ref() string {
	switch c.Kind {
	case "exit":
		switch {
		case (c.What == "flagset" || c.What == "flagsetinit") && c.Name == "ContinueOnError":
			return "returns"
		case c.What == "fn" && c.Pkg == "flag":
			return "returns"
		}
		return "panics" // a recoverable panic, the host survives
	case "io":
		switch {
		case c.What == "builtin":
			return "optStdout"
		case c.What == "logger":
			return "optStderr"
		case c.Pkg == "fmt" && strings.HasPrefix(c.Name, "Scan"):
			return "optStdin"
		case c.Pkg == "fmt":
			return "optStdout"
		case c.Pkg == "log", c.Pkg == "log/slog":
			return "optStderr"
		case c.Pkg == "os" && c.Name == "Args":
			return "args"
		case c.Pkg == "os":
			return "opt" + c.Name
		case c.Pkg == "flag" && (c.Name == "Parse" || c.Name == "Args"):
			return "args"
		case c.Pkg == "flag":
			return "optStderr"
		}
	case "envsrc":
		return "virt"
	case "import":
		if forbiddenNorm(c.Path) && len(c.Sets) == 0 && !c.GoPath {
			return "error"
		}
		return "any"
	case "used":
		return "any"
	}
	return "?"
}

// srcTree: packages present under GOPATH/src when a case sets GoPath (source packages named like the forbidden ones)
var srcTree = map[string]bool{"unsafe": true, "syscall": true, "os/exec": true, "exec": true, "no/such/pkg": true, "fmt": true, "os": true}

func normPath(p string) string {
	if path.Dir(p) == path.Base(p) {
		return path.Base(p)
	}
	return p
}

func forbiddenNorm(p string) bool {
	// relative spellings included: without a source tree `import "./unsafe"` must fail like `import "unsafe"`
	for strings.HasPrefix(p, "./") || strings.HasPrefix(p, "../") {
		p = p[strings.IndexByte(p, '/')+1:]
	}
	n := normPath(p)
	return n == "unsafe" || n == "syscall" || n == "os/exec"
}

// agrees: does the implementation's behaviour satisfy what the property demands?
func agrees(impl, ref string) bool {
	if ref == "any" {
		return true
	}
	return impl == ref
}

// modelAgrees: is the implementation's behaviour the one the model computes?
func (c caseT) modelAgrees(impl, y string) bool {
	switch c.Kind {
	case "import":
		switch y {
		case "bin", "src":
			return impl == "ok"
		case "error":
			return impl == "error"
		}
		return false
	case "io":
		if c.Pkg == "flag" && flagPkgLevel[c.Name] && y == "hostFlag" {
			return impl == "hostFlag"
		}
	}
	return impl == y
}
