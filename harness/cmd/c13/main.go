// C13 correspondence harness: restricted mode confines scripts.
//
//	impl  = real interpreters of the repository (interp.New + Use(stdlib.Symbols)) running generated scripts in CHILD
//	        processes of this binary; a child that a script terminates is observed by the parent
//	model = Lean model of the symbol tables / fixStdlib / importSpec / the environment (y=), computed from the
//	        facts regenerated from the source; Lean map semantics of the environment functions (g=)
//	ref   = what the property demands: the child survives and Eval returns a recoverable panic; output on the
//	        Options streams and nothing on the process's own; a Go map + the host's os.Expand for the environment,
//	        and the untouched os.Environ() of the process; an error for imports of unsafe / syscall / os/exec
//
// Checked on every case: impl = y (correspondence), g = ref (spec validation), impl = ref (the property).
package main

import (
	"encoding/json"
	"flag"
	"fmt"
	"go/build"
	"os"
	"path"
	"path/filepath"
	"runtime"
	"sort"
	"strings"

	"verif/harness/common"
)

var defaultCfg = cfgT{}

func staticCases(keys []string) []caseT {
	var cs []caseT
	cfgs := []cfgT{{}, {Unrestricted: true}}
	fatal := []string{"Fatal", "Fatalf", "Fatalln"}
	pan := []string{"Panic", "Panicf", "Panicln"}
	for _, cfg := range cfgs {
		// process exit
		cs = append(cs, caseT{Kind: "exit", Cfg: cfg, What: "fn", Pkg: "os", Name: "Exit"})
		for _, m := range append(append([]string{}, fatal...), pan...) {
			cs = append(cs, caseT{Kind: "exit", Cfg: cfg, What: "fn", Pkg: "log", Name: m})
			for _, typed := range []bool{false, true} {
				cs = append(cs, caseT{Kind: "exit", Cfg: cfg, What: "method", Pkg: "log", Name: "New", Method: m, Typed: typed})
			}
			for _, typed := range []bool{false, true} {
				if typed && cfg.Unrestricted {
					// Options.Unrestricted with the restricted table only: log.Default() is the host's *log.Logger while the
					// name log.Logger still denotes the wrapper type of the table, the declaration does not compile
					continue
				}
				cs = append(cs, caseT{Kind: "exit", Cfg: cfg, What: "method", Pkg: "log", Name: "Default", Method: m, Typed: typed})
			}
			cs = append(cs, caseT{Kind: "exit", Cfg: cfg, What: "method", Pkg: "log/slog", Name: "NewLogLogger", Method: m})
		}
		// flag sets: every error handling x how the set is made x what is wrong with the arguments; and the error
		// handling given through (*FlagSet).Init on a zero set, a made set, the command line
		for _, h := range []string{"ContinueOnError", "ExitOnError", "PanicOnError"} {
			for _, bad := range []string{"", "value", "help"} {
				for _, v := range []string{"", "fnvalue", "var", "conv", "typedvar"} {
					cs = append(cs, caseT{Kind: "exit", Cfg: cfg, What: "flagset", Name: h, Variant: v, Bad: bad})
				}
				for _, v := range []string{"zero", "new", "cmdline"} {
					cs = append(cs, caseT{Kind: "exit", Cfg: cfg, What: "flagsetinit", Name: h, Variant: v, Bad: bad})
				}
			}
		}
		// environment consulted by os functions
		for _, n := range []string{"Getenv", "LookupEnv", "ExpandEnv", "Environ", "UserHomeDir", "UserCacheDir", "UserConfigDir", "TempDir"} {
			cs = append(cs, caseT{Kind: "envsrc", Cfg: cfg, Name: n})
		}
	}
	// streams and arguments
	ioCfgs := []cfgT{{}, {StdinFile: true, StdoutFile: true, StderrFile: true}, {SpecialStdio: true}, {StdoutFile: true}, {Unrestricted: true}}
	for _, cfg := range ioCfgs {
		for _, n := range []string{"Print", "Printf", "Println", "Scan", "Scanf", "Scanln"} {
			cs = append(cs, caseT{Kind: "io", Cfg: cfg, What: "fn", Pkg: "fmt", Name: n})
		}
		for _, n := range []string{"print", "println"} {
			cs = append(cs, caseT{Kind: "io", Cfg: cfg, What: "builtin", Name: n})
		}
		for _, n := range []string{"Print", "Printf", "Println", "Output", "Panic", "Panicf", "Panicln", "Fatal", "Fatalf", "Fatalln", "SetPrefix", "Writer"} {
			cs = append(cs, caseT{Kind: "io", Cfg: cfg, What: "fn", Pkg: "log", Name: n})
		}
		for _, n := range []string{"Stdout", "Stderr", "Stdin", "Args"} {
			cs = append(cs, caseT{Kind: "io", Cfg: cfg, What: "var", Pkg: "os", Name: n})
		}
		cs = append(cs, caseT{Kind: "io", Cfg: cfg, What: "var", Pkg: "flag", Name: "CommandLine"})
		cs = append(cs, caseT{Kind: "io", Cfg: cfg, What: "fn", Pkg: "flag", Name: "Parse"})
		cs = append(cs, caseT{Kind: "io", Cfg: cfg, What: "fn", Pkg: "flag", Name: "PrintDefaults"})
		cs = append(cs, caseT{Kind: "io", Cfg: cfg, What: "fn", Pkg: "flag", Name: "Usage"})
		// log/slog: its default logger hands the records to the standard logger of package log
		for _, n := range []string{"Info", "Warn", "Error", "InfoContext", "WarnContext", "ErrorContext", "Log", "Default", "With"} {
			cs = append(cs, caseT{Kind: "io", Cfg: cfg, What: "fn", Pkg: "log/slog", Name: n})
		}
		for _, m := range []string{"", "Printf", "Println", "Output", "Panic", "Panicln", "Fatal", "Fatalf"} {
			if cfg.Unrestricted && strings.HasPrefix(m, "Fatal") {
				continue // ends the child (the host's own logger, by design of unrestricted mode): nothing to look at
			}
			cs = append(cs, caseT{Kind: "io", Cfg: cfg, What: "logger", Pkg: "log", Name: "Default", Method: m})
		}
		cs = append(cs, caseT{Kind: "io", Cfg: cfg, What: "logger", Pkg: "log", Name: "Default", Variant: "prefix"})
	}
	// imports: every package of the table in every form; the forbidden ones in every spelling, form and configuration
	forms := []string{"plain", "named", "dot", "blank"}
	for _, k := range keys {
		for _, f := range forms {
			cs = append(cs, caseT{Kind: "import", Form: f, Path: k})
		}
	}
	for _, p := range []string{"unsafe", "syscall", "os/exec", "unsafe/unsafe", "syscall/syscall", "exec/exec", "os/exec/exec", "no/such/pkg", "fmt/fmt", "os/os",
		"./unsafe", "../syscall", "./os/exec", "./unsafe/unsafe", "./fmt", "x/x"} {
		for _, f := range forms {
			for _, sets := range [][]string{nil, {"unsafe"}, {"syscall"}, {"unrestricted"}, {"syscall", "unsafe", "unrestricted"}} {
				cs = append(cs, caseT{Kind: "import", Form: f, Path: p, Sets: sets})
			}
			cs = append(cs, caseT{Kind: "import", Form: f, Path: p, GoPath: true})
		}
	}
	// ImportUsed
	for _, pr := range [][2]string{{"exec", `exec.Command("true")`}, {"unsafe", `unsafe.Sizeof(1)`}, {"syscall", `syscall.Getpid()`},
		{"fmt", `fmt.Sprint(1)`}, {"strings", `strings.ToUpper("a")`}, {"rand", `rand.Intn(3)`}, {"math_rand", `math_rand.Intn(3)`},
		{"crypto_rand", `crypto_rand.Reader`}, {"os", `os.Getpid()`}, {"template", `template.HTMLEscapeString("a")`},
		{"html_template", `html_template.HTMLEscapeString("a")`}} {
		cs = append(cs, caseT{Kind: "used", Name: pr[0], Probe: pr[1]})
	}
	return cs
}

var bindNames = func() [][2]string {
	var out [][2]string
	for k := range hostFuncs {
		i := strings.IndexByte(k, '.')
		out = append(out, [2]string{k[:i], k[i+1:]})
	}
	for k := range hostVars {
		i := strings.IndexByte(k, '.')
		out = append(out, [2]string{k[:i], k[i+1:]})
	}
	sort.Slice(out, func(i, j int) bool { return out[i][0]+"."+out[i][1] < out[j][0]+"."+out[j][1] })
	return out
}()

func fixKey(k string) string {
	if i := strings.LastIndex(k, "/"); i >= 0 {
		k = k[:i] + "_" + k[i+1:]
	}
	return k
}

func main() {
	if len(os.Args) >= 3 && strings.HasPrefix(os.Args[1], "-c13child=") {
		// the host's flag.CommandLine knows this flag, so that a script's flag.Parse() (which reaches the host's
		// CommandLine, see the known findings) parses the child's arguments instead of ending the child
		flag.String("c13child", "", "child mode: jobs file")
		childMain(strings.TrimPrefix(os.Args[1], "-c13child="), os.Args[2])
		return
	}
	run := common.NewRun("C13")
	run.Res.Rule = "cases = (a) every package of the default table and sixteen spellings (x, x/x, ./x, ../x) of forbidden/absent paths x four import forms x symbol-set configurations, (b) every process-exit entry point (os.Exit, log.Fatal*, Fatal*/Panic* of loggers from log.New, log.Default — also through a typed variable —, slog.NewLogLogger; flag sets: three error handlings x five ways to make the set x three kinds of offending arguments, and the handling given through (*FlagSet).Init on a zero set / a made set / the command line) x configurations, run in child processes, (c) every redirected function/variable/builtin, the logger of log.Default() through eight methods and through the package-level SetPrefix, nine log/slog functions x stream configurations, (d) binding identity of 60 names after Use, (e) seeded sequences of 1..N environment operations over a small pool of colliding names with an Options.Env prefix, (f) values of interp.Options: Args nil / empty / one / many x Env nil / empty / entries x each stream nil / buffer / *os.File x restricted / unrestricted (full product of the pools, plus seeded random vectors), each observed by a script through os.Args, len(os.Args), flag.CommandLine (name, usage line of a parse error, parse of os.Args[1:], output), flag.Parse+flag.Args, os.Environ, fmt.Println, log.Print, println, fmt.Scan, os.Std*, and BuildTags nil / empty / tags x GoPath empty / tree / inside the MapFS x SourcecodeFilesystem nil / MapFS observed through an import; non-trivial = (a) every case except a plain import of a package that is in the table, (b-d) every case, (e) a sequence with a mutation that a later operation observes, (f) every value except the all-defaults-with-buffers one; distinct = distinct protocol line"
	defer run.Finish()
	drv, err := common.StartDriver("C13")
	if err != nil {
		run.Errorf("driver: %v", err)
		return
	}
	defer drv.Close()
	findings, err := common.LoadFindings("C13")
	if err != nil {
		run.Errorf("known findings: %v", err)
	}

	scratch, err := os.MkdirTemp("", "verif-c13-main-")
	if err != nil {
		run.Errorf("scratch: %v", err)
		return
	}
	defer os.RemoveAll(scratch)
	hostTmp := filepath.Join(scratch, "host-tmp")
	os.MkdirAll(hostTmp, 0o755)
	// a GOPATH whose source tree contains packages named like the forbidden ones
	gopath := filepath.Join(scratch, "gopath")
	for p := range srcTree {
		d := filepath.Join(gopath, "src", p)
		os.MkdirAll(d, 0o755)
		os.WriteFile(filepath.Join(d, "x.go"), []byte("package "+path.Base(p)+"\n\nfunc Marker() int { return 1 }\n"), 0o644)
	}
	// a package of the real tree whose two files are selected by a build tag
	os.MkdirAll(filepath.Join(gopath, "src", "c13tags"), 0o755)
	os.WriteFile(filepath.Join(gopath, "src", "c13tags", "tagged.go"), []byte("//go:build c13tag\n\npackage c13tags\n\nfunc Which() string { return \"tagged\" }\n"), 0o644)
	os.WriteFile(filepath.Join(gopath, "src", "c13tags", "plain.go"), []byte("//go:build !c13tag\n\npackage c13tags\n\nfunc Which() string { return \"plain\" }\n"), 0o644)
	if len(build.Default.BuildTags) != 0 {
		run.Errorf("build.Default.BuildTags is not empty on this host: %v", build.Default.BuildTags)
	}
	hostEnv = []string{"GOPATH=" + gopath, "HOME=/host-home", "TMPDIR=" + hostTmp, "XDG_CACHE_HOME=/host-cache", "XDG_CONFIG_HOME=/host-config",
		"PATH=/host-bin", "A=hostA", "B=hostB", "HOSTVAR=hostvalue", "GOMEMLIMIT=1GiB"}
	par := runtime.NumCPU()
	if par > 12 {
		par = 12
	}
	shrinkGoPath, shrinkPar = gopath, par

	var cases []caseT
	replayOnly := false
	if run.Replay != "" {
		b, err := os.ReadFile(run.Replay)
		if err != nil {
			run.Errorf("replay: %v", err)
			return
		}
		var rp struct {
			Input caseT `json:"input"`
		}
		if err := json.Unmarshal(b, &rp); err != nil {
			run.Errorf("replay: %v", err)
			return
		}
		cases = []caseT{rp.Input}
		replayOnly = true
	}

	// what the real interpreter holds after Use: package paths and identity of 60 bindings
	var keys []string
	if !replayOnly {
		var jobs []job
		bindCfgs := []cfgT{{}, {Unrestricted: true}, {StdinFile: true, StdoutFile: true, StderrFile: true}}
		for i, cfg := range bindCfgs {
			jobs = append(jobs, job{ID: i, Kind: "bind", Cfg: cfg, Names: bindNames, Args: optArgs})
		}
		res, err := runJobs(jobs, hostEnv, 3)
		if err != nil {
			run.Errorf("bind jobs: %v", err)
			return
		}
		for i, cfg := range bindCfgs {
			o := res[i]
			if o == nil || o.Res == nil || o.Res.Err != "" || o.Res.Crash != "" {
				run.Errorf("bind job %d did not complete: %+v", i, o)
				continue
			}
			if i == 0 {
				for _, k := range o.Res.Keys {
					if k != "" {
						keys = append(keys, k)
					}
				}
				ans, err := drv.Ask("C13 keys")
				if err != nil {
					run.Errorf("driver: %v", err)
					return
				}
				xs, _ := parseSexps(ans)
				mk, _ := field(xs, "keys")
				var model []string
				for _, x := range mk {
					model = append(model, x.atom)
				}
				sort.Strings(model)
				run.Count("C13 keys", true)
				run.Hit("keys")
				if strings.Join(model, " ") != strings.Join(keys, " ") {
					run.Disagree(common.Disagreement{Kind: "impl-vs-model", Input: "package paths after Use(stdlib.Symbols)", Impl: diffList(keys, model), Model: diffList(model, keys),
						Note: "the interpreter's binPkg and the regenerated key list differ (shown: entries only on one side)"})
				}
			}
			for _, pn := range bindNames {
				c := caseT{Kind: "bind", Cfg: cfg, Pkg: pn[0], Name: pn[1]}
				ans, err := drv.Ask(c.line())
				if err != nil {
					run.Errorf("driver: %v", err)
					return
				}
				y := common.Fields(ans)["y"]
				im := o.Res.Binds[pn[0]+"."+pn[1]]
				run.Count(c.line(), true)
				run.Hit("bind:model=" + y)
				want := map[string]string{"host": "host", "hostVar": "host", "override": "other", "loc": "other", "absent": "absent"}[y]
				if want != im {
					run.Disagree(common.Disagreement{Kind: "impl-vs-model", Input: c, Impl: im, Model: y, Note: "identity of the binding after Use"})
				}
			}
		}
		if len(keys) == 0 {
			run.Errorf("no package keys obtained from the interpreter")
			return
		}
	}

	if !replayOnly {
		// listed findings are replayed first
		var fcases []caseT
		var fidx []int
		for i, f := range findings {
			var c caseT
			if err := json.Unmarshal(f.Replay, &c); err != nil {
				run.Errorf("finding %s: bad replay: %v", f.ID, err)
				continue
			}
			fcases = append(fcases, c)
			fidx = append(fidx, i)
		}
		if len(fcases) > 0 {
			outs, _, err := evalCases(fcases, gopath, par)
			if err != nil {
				run.Errorf("replay of findings: %v", err)
			}
			for k, c := range fcases {
				f := findings[fidx[k]]
				if c.Kind == "opts" {
					ans, err := drv.Ask(c.line())
					if err != nil {
						run.Errorf("driver: %v", err)
						continue
					}
					still, detail := false, ""
					for _, ob := range c.observations(ans, outs[k]) {
						if !agrees(ob.Impl, ob.Ref) {
							still = true
						}
						detail += fmt.Sprintf("%s: impl=%s ref=%s ", ob.Name, ob.Impl, ob.Ref)
					}
					run.Res.Known = append(run.Res.Known, common.KnownReplay{ID: f.ID, Status: f.Status, What: f.What, StillFails: still, Detail: detail})
					continue
				}
				im, rf := implOf(c, outs[k]), refOf(c)
				run.Res.Known = append(run.Res.Known, common.KnownReplay{ID: f.ID, Status: f.Status, What: f.What, StillFails: !agrees(im, rf),
					Detail: fmt.Sprintf("impl=%s ref=%s", im, rf)})
			}
		}
		cases = staticCases(keys)
		cases = append(cases, staticOpts()...)
		nEnv, maxLen, nOpts := 3000, 12, 300
		if run.Thorough() {
			nEnv, maxLen, nOpts = 60000, 30, 6000
		}
		for i := 0; i < nOpts; i++ {
			cases = append(cases, genOpts(run.Rng))
		}
		for i := 0; i < nEnv; i++ {
			c := caseT{Kind: "env", Entries: genEntries(run.Rng), Ops: genOps(run.Rng, maxLen)}
			if run.Rng.Intn(25) == 0 {
				c.Cfg.Unrestricted = true
			}
			cases = append(cases, c)
		}
	}

	// model
	lines := make([]string, len(cases))
	for i, c := range cases {
		lines[i] = c.line()
	}
	answers, err := drv.AskAll(lines)
	if err != nil {
		run.Errorf("driver: %v", err)
		return
	}
	// implementation
	outs, usedModel, err := evalCasesWithDriver(cases, gopath, par, drv, keys)
	if err != nil {
		run.Errorf("children: %v", err)
	}
	for i, c := range cases {
		o := outs[i]
		if c.Kind == "env" {
			checkEnv(run, c, lines[i], answers[i], o)
			continue
		}
		if c.Kind == "opts" {
			checkOpts(run, c, lines[i], answers[i], o)
			continue
		}
		var y string
		if c.Kind == "used" {
			y = "error"
			if usedModel[c.Name] {
				y = "ok"
			}
		} else {
			y = common.Fields(answers[i])["y"]
		}
		if y == "" {
			run.Errorf("driver answered %q to %q", answers[i], lines[i])
			continue
		}
		im, rf := implOf(c, o), refOf(c)
		cls := c.class()
		key := lines[i]
		if c.Kind == "used" {
			key = "used " + c.Probe
		}
		// a plain import of an ordinary package of the table is the trivial case
		run.Count(key, !(c.Kind == "import" && c.Form == "plain" && len(c.Sets) == 0 && !c.GoPath && im == "ok"))
		run.Hit(c.Kind + ":impl=" + short(im))
		if cls != "" {
			run.Hit("class:" + cls)
		} else {
			run.Hit("class:in-domain")
		}
		if c.Kind != "import" || forbiddenNorm(c.Path) {
			run.Sample(map[string]interface{}{"case": c, "impl": im, "model": y, "ref": rf}, 6)
		}
		okModel := c.modelAgrees(im, y)
		if c.Kind == "used" {
			okModel = im == y || (y == "error" && im != "ok")
		}
		if !okModel {
			run.Disagree(common.Disagreement{Kind: "impl-vs-model", Input: c, Impl: im, Model: y, Ref: rf, Note: hostNote(o)})
		}
		if !agrees(im, rf) {
			d := common.Disagreement{Kind: "impl-vs-ref", Input: c, Impl: im, Model: y, Ref: rf, Finding: cls, Note: hostNote(o)}
			if !okModel {
				d.Finding, d.Note = "", "differs from what the property demands and from the model of the unchanged code (class "+cls+"); "+hostNote(o)
			}
			run.Disagree(d)
		}
	}
}

func short(s string) string {
	if i := strings.IndexByte(s, ':'); i > 0 {
		return s[:i]
	}
	return s
}

func hostNote(o *outcome) string {
	if o == nil {
		return ""
	}
	if o.Res == nil {
		return fmt.Sprintf("child process ended with status %d; host stderr: %.120q", o.ExitCode, o.HostErr)
	}
	return fmt.Sprintf("err=%.160q opt stdout=%.80q opt stderr=%.80q host stdout=%.80q host stderr=%.80q", o.Res.Err, o.Res.OptOut, o.Res.OptErr, o.HostOut, o.HostErr)
}

func implOf(c caseT, o *outcome) string { return c.impl(o) }

// gatedByUnrestricted: the behaviour the case exercises is one that fixStdlib installs `if !interp.unrestricted` only
// (the environment functions; since b69bc95 / 77e1d98 the flag.NewFlagSet override and the wrapper type of the default
// logger): with Options.Unrestricted the property demands nothing there.
func gatedByUnrestricted(c caseT) bool {
	switch c.Kind {
	case "envsrc", "env":
		return true
	case "exit":
		return (c.What == "flagset" && c.Name == "ExitOnError") || (c.What == "method" && c.Pkg == "log" && c.Name == "Default")
	}
	return false
}

func refOf(c caseT) string {
	if c.Cfg.Unrestricted && gatedByUnrestricted(c) {
		return "any" // the property is about restricted mode
	}
	return c.ref()
}

func diffList(a, b []string) string {
	in := map[string]bool{}
	for _, x := range b {
		in[x] = true
	}
	var out []string
	for _, x := range a {
		if !in[x] {
			out = append(out, x)
		}
	}
	return strings.Join(out, " ")
}

// evalCases runs the scripts of the cases in child processes.
func evalCases(cases []caseT, gopath string, par int) ([]*outcome, map[string]bool, error) {
	jobs := make([]job, len(cases))
	for i, c := range cases {
		jobs[i] = c.job(i, gopath)
	}
	res, err := runJobs(jobs, hostEnv, par)
	outs := make([]*outcome, len(cases))
	for i := range cases {
		outs[i] = res[i]
	}
	return outs, nil, err
}

// evalCasesWithDriver additionally asks the model which package names ImportUsed makes visible.
func evalCasesWithDriver(cases []caseT, gopath string, par int, drv *common.Driver, keys []string) ([]*outcome, map[string]bool, error) {
	used := map[string]bool{}
	if len(keys) > 0 {
		var items []string
		for _, k := range keys {
			items = append(items, common.L(common.Q(k), common.Q(path.Base(k)), common.Q(fixKey(k))))
		}
		ans, err := drv.Ask("C13 used " + strings.Join(items, " "))
		if err != nil {
			return nil, nil, err
		}
		xs, _ := parseSexps(ans)
		us, _ := field(xs, "used")
		for _, u := range us {
			if u.isList && len(u.list) == 2 {
				used[u.list[0].atom] = true
			}
		}
	}
	outs, _, err := evalCases(cases, gopath, par)
	return outs, used, err
}

// envImpl runs nothing: it renders what the child observed for an environment case.
func envImpl(o *outcome) (im []string, implHost, hostBefore string) {
	implHost, hostBefore = "?", "?"
	status := outcomeOf(o)
	if o != nil && o.Res != nil {
		var ok bool
		im, _, ok = implEnvOutputs(o.Res.OptOut)
		if !ok || status != "returns" {
			im = []string{"unparsable:" + status + ":" + o.Res.Err + ":" + o.Res.OptOut}
		}
		implHost, hostBefore = canonList(o.Res.HostAfter), canonList(o.Res.HostBefore)
	} else {
		im = []string{status}
	}
	return im, implHost, hostBefore
}

// envFails: does the real code differ from the map reference / touch the host environment on this case?
func envFails(c caseT, o *outcome) bool {
	im, implHost, hostBefore := envImpl(o)
	refOuts, _ := refEnv(c.Entries, c.Ops)
	return strings.Join(im, " | ") != strings.Join(refOuts, " | ") || implHost != hostBefore
}

// shrinkEnv removes operations and entries one at a time while the case keeps failing on the real code.
func shrinkEnv(c caseT, gopath string, par int) caseT {
	for round := 0; round < 40; round++ {
		var cands []caseT
		for i := range c.Ops {
			if i == len(c.Ops)-1 && len(c.Ops) > 1 {
				continue // keep the final Environ while something precedes it
			}
			d := c
			d.Ops = append(append([]opT(nil), c.Ops[:i]...), c.Ops[i+1:]...)
			if len(d.Ops) > 0 {
				cands = append(cands, d)
			}
		}
		for i := range c.Entries {
			d := c
			d.Entries = append(append([]string{}, c.Entries[:i]...), c.Entries[i+1:]...)
			cands = append(cands, d)
		}
		if len(cands) == 0 {
			return c
		}
		outs, _, err := evalCases(cands, gopath, par)
		if err != nil {
			return c
		}
		found := false
		for k, d := range cands {
			if envFails(d, outs[k]) {
				c, found = d, true
				break
			}
		}
		if !found {
			return c
		}
	}
	return c
}

var shrunkOnce bool
var shrinkGoPath string
var shrinkPar int

// checkEnv compares one environment sequence four ways.
func checkEnv(run *common.Run, c caseT, line, answer string, o *outcome) {
	xs, err := parseSexps(answer)
	if err != nil {
		run.Errorf("driver answered %q to %q", answer, line)
		return
	}
	ys, ok1 := field(xs, "y")
	yh, ok2 := field(xs, "yh")
	gs, ok3 := field(xs, "g")
	if !ok1 || !ok2 || !ok3 {
		run.Errorf("driver answered %q to %q", answer, line)
		return
	}
	y, g := modelOutputs(ys), modelOutputs(gs)
	modelHost := canonList(pairsOf(yh))
	refOuts, _ := refEnv(c.Entries, c.Ops)
	run.Count(line, nontrivialEnv(c.Ops))
	run.Hit(fmt.Sprintf("env:len=%02d", (len(c.Ops)+4)/5*5))
	for _, op := range c.Ops {
		run.Hit("env:op=" + op.Op)
	}
	if c.Cfg.Unrestricted {
		run.Hit("env:unrestricted")
	}
	im, implHost, hostBefore := envImpl(o)
	run.Sample(map[string]interface{}{"case": c, "impl": im, "model": y, "spec": g, "ref": refOuts}, 8)
	sim, sy, sg, sref := strings.Join(im, " | "), strings.Join(y, " | "), strings.Join(g, " | "), strings.Join(refOuts, " | ")
	okModel := sim == sy && implHost == modelHost
	if !okModel {
		run.Disagree(common.Disagreement{Kind: "impl-vs-model", Input: c, Impl: sim + " ; host " + implHost, Model: sy + " ; host " + modelHost})
	}
	if sg != sref {
		run.Disagree(common.Disagreement{Kind: "spec-vs-ref", Input: c, Spec: sg, Ref: sref})
	}
	if c.Cfg.Unrestricted {
		return
	}
	if sim != sref || implHost != hostBefore {
		d := common.Disagreement{Kind: "impl-vs-ref", Input: c, Impl: sim + " ; host " + implHost, Ref: sref + " ; host " + hostBefore, Model: sy}
		if !okModel {
			d.Note = "differs from the map reference / touches the host environment, and from the model of the unchanged code"
		}
		if !shrunkOnce {
			// the first failing sequence is minimised (re-run on the real code at every step)
			shrunkOnce = true
			sc := shrinkEnv(c, shrinkGoPath, shrinkPar)
			if len(sc.Ops) < len(c.Ops) || len(sc.Entries) < len(c.Entries) {
				outs, _, err := evalCases([]caseT{sc}, shrinkGoPath, 1)
				if err == nil && envFails(sc, outs[0]) {
					sim2, host2, before2 := envImpl(outs[0])
					ref2, _ := refEnv(sc.Entries, sc.Ops)
					d.Input = sc
					d.Impl = strings.Join(sim2, " | ") + " ; host " + host2
					d.Ref = strings.Join(ref2, " | ") + " ; host " + before2
					d.Model = ""
					d.Note = strings.TrimSpace(d.Note + fmt.Sprintf(" (minimised from %d operations / %d entries)", len(c.Ops), len(c.Entries)))
				}
			}
		}
		run.Disagree(d)
	}
}
