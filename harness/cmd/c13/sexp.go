package main

import (
	"fmt"
	"strconv"
)

// sx is a parsed S-expression of a driver answer: an atom (byte string) or a list.
type sx struct {
	atom   string
	list   []sx
	isList bool
}

// parseSexps parses a whole answer line as a sequence of S-expressions.
func parseSexps(s string) ([]sx, error) {
	p := &sparser{s: s}
	var out []sx
	for {
		p.skip()
		if p.i >= len(p.s) {
			return out, nil
		}
		x, err := p.one()
		if err != nil {
			return nil, err
		}
		out = append(out, x)
	}
}

type sparser struct {
	s string
	i int
}

func (p *sparser) skip() {
	for p.i < len(p.s) && (p.s[p.i] == ' ' || p.s[p.i] == '\t') {
		p.i++
	}
}

func (p *sparser) one() (sx, error) {
	p.skip()
	if p.i >= len(p.s) {
		return sx{}, fmt.Errorf("unexpected end")
	}
	switch c := p.s[p.i]; {
	case c == '(':
		p.i++
		x := sx{isList: true}
		for {
			p.skip()
			if p.i >= len(p.s) {
				return sx{}, fmt.Errorf("unclosed list")
			}
			if p.s[p.i] == ')' {
				p.i++
				return x, nil
			}
			y, err := p.one()
			if err != nil {
				return sx{}, err
			}
			x.list = append(x.list, y)
		}
	case c == ')':
		return sx{}, fmt.Errorf("unexpected )")
	case c == '"':
		p.i++
		var b []byte
		for p.i < len(p.s) {
			c := p.s[p.i]
			switch {
			case c == '"':
				p.i++
				return sx{atom: string(b)}, nil
			case c == '\\' && p.i+3 < len(p.s) && p.s[p.i+1] == 'x':
				v, err := strconv.ParseUint(p.s[p.i+2:p.i+4], 16, 8)
				if err != nil {
					return sx{}, err
				}
				b = append(b, byte(v))
				p.i += 4
			case c == '\\' && p.i+1 < len(p.s):
				b = append(b, p.s[p.i+1])
				p.i += 2
			default:
				b = append(b, c)
				p.i++
			}
		}
		return sx{}, fmt.Errorf("unclosed string")
	default:
		j := p.i
		for p.i < len(p.s) && p.s[p.i] != ' ' && p.s[p.i] != '(' && p.s[p.i] != ')' && p.s[p.i] != '"' {
			p.i++
		}
		return sx{atom: p.s[j:p.i]}, nil
	}
}

// field returns the list whose first element is the atom name, without that element.
func field(xs []sx, name string) ([]sx, bool) {
	for _, x := range xs {
		if x.isList && len(x.list) > 0 && !x.list[0].isList && x.list[0].atom == name {
			return x.list[1:], true
		}
	}
	return nil, false
}
