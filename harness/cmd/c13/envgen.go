package main

import (
	"fmt"
	"math/rand"
	"os"
	"sort"
	"strconv"
	"strings"

	"verif/harness/common"
)

// opT is one call of an os environment function.
type opT struct {
	Op string `json:"op"` // set unset clear get lookup environ expand
	K  string `json:"k,omitempty"`
	V  string `json:"v,omitempty"`
}

func (o opT) sexp() string {
	switch o.Op {
	case "set":
		return common.L("set", common.Q(o.K), common.Q(o.V))
	case "unset", "get", "lookup":
		return common.L(o.Op, common.Q(o.K))
	case "expand":
		return common.L("expand", common.Q(o.V))
	}
	return common.L(o.Op)
}

func (o opT) mutator() bool { return o.Op == "set" || o.Op == "unset" || o.Op == "clear" }

// hostEnv is the environment of the child processes ("the host environment").
var hostEnv []string

func hostPairsSexp() string {
	e := append([]string(nil), hostEnv...)
	sort.Strings(e)
	var items []string
	for _, kv := range e {
		i := strings.IndexByte(kv, '=')
		items = append(items, common.L(common.Q(kv[:i]), common.Q(kv[i+1:])))
	}
	return common.L(items...)
}

// envScript renders the operations as a Go program that prints one line per operation.
func envScript(ops []opT) string {
	var b strings.Builder
	b.WriteString("package main\n\nimport (\n\t\"fmt\"\n\t\"os\"\n\t\"sort\"\n)\n\nfunc main() {\n")
	for _, o := range ops {
		switch o.Op {
		case "set":
			fmt.Fprintf(&b, "\tfmt.Printf(\"err %%v\\n\", os.Setenv(%s, %s))\n", strconv.Quote(o.K), strconv.Quote(o.V))
		case "unset":
			fmt.Fprintf(&b, "\tfmt.Printf(\"err %%v\\n\", os.Unsetenv(%s))\n", strconv.Quote(o.K))
		case "clear":
			b.WriteString("\tos.Clearenv()\n\tfmt.Printf(\"unit\\n\")\n")
		case "get":
			fmt.Fprintf(&b, "\tfmt.Printf(\"str %%q\\n\", os.Getenv(%s))\n", strconv.Quote(o.K))
		case "lookup":
			fmt.Fprintf(&b, "\t{\n\t\ts, ok := os.LookupEnv(%s)\n\t\tfmt.Printf(\"strok %%q %%v\\n\", s, ok)\n\t}\n", strconv.Quote(o.K))
		case "environ":
			b.WriteString("\t{\n\t\te := os.Environ()\n\t\tsort.Strings(e)\n\t\tfmt.Printf(\"pairs %q\\n\", e)\n\t}\n")
		case "expand":
			fmt.Fprintf(&b, "\tfmt.Printf(\"str %%q\\n\", os.ExpandEnv(%s))\n", strconv.Quote(o.V))
		}
	}
	b.WriteString("}\n")
	return b.String()
}

// parseQuotedList parses `["a" "b"]` as printed by %q of a []string.
func parseQuotedList(s string) ([]string, bool) {
	s = strings.TrimSpace(s)
	if !strings.HasPrefix(s, "[") || !strings.HasSuffix(s, "]") {
		return nil, false
	}
	s = s[1 : len(s)-1]
	var out []string
	for {
		s = strings.TrimLeft(s, " ")
		if s == "" {
			return out, true
		}
		p, err := strconv.QuotedPrefix(s)
		if err != nil {
			return nil, false
		}
		u, err := strconv.Unquote(p)
		if err != nil {
			return nil, false
		}
		out = append(out, u)
		s = s[len(p):]
	}
}

func canonList(xs []string) string {
	ys := append([]string(nil), xs...)
	sort.Strings(ys)
	q := make([]string, len(ys))
	for i, y := range ys {
		q[i] = strconv.Quote(y)
	}
	return "[" + strings.Join(q, " ") + "]"
}

// implEnvOutputs turns the script's output into canonical answers: one per operation, then the final map.
func implEnvOutputs(out string) (outs []string, final string, ok bool) {
	lines := strings.Split(strings.TrimSuffix(out, "\n"), "\n")
	for _, l := range lines {
		switch {
		case l == "err <nil>":
			outs = append(outs, "err nil")
		case strings.HasPrefix(l, "err "):
			outs = append(outs, "err !")
		case l == "unit":
			outs = append(outs, "unit")
		case strings.HasPrefix(l, "str "):
			u, err := strconv.Unquote(l[4:])
			if err != nil {
				return nil, "", false
			}
			outs = append(outs, "str "+strconv.Quote(u))
		case strings.HasPrefix(l, "strok "):
			p, err := strconv.QuotedPrefix(l[6:])
			if err != nil {
				return nil, "", false
			}
			u, _ := strconv.Unquote(p)
			outs = append(outs, "strok "+strconv.Quote(u)+" "+strings.TrimSpace(l[6+len(p):]))
		case strings.HasPrefix(l, "pairs "):
			xs, ok := parseQuotedList(l[6:])
			if !ok {
				return nil, "", false
			}
			outs = append(outs, "pairs "+canonList(xs))
		case strings.HasPrefix(l, "final "):
			xs, ok := parseQuotedList(l[6:])
			if !ok {
				return nil, "", false
			}
			final = canonList(xs)
		default:
			return nil, "", false
		}
	}
	return outs, final, true
}

func pairsOf(xs []sx) []string {
	var out []string
	for _, p := range xs {
		if p.isList && len(p.list) == 2 {
			out = append(out, p.list[0].atom+"="+p.list[1].atom)
		}
	}
	return out
}

// modelOutputs turns the driver's (y …) / (g …) lists into the same canonical answers.
func modelOutputs(xs []sx) []string {
	var outs []string
	for _, x := range xs {
		if !x.isList || len(x.list) == 0 {
			outs = append(outs, "?")
			continue
		}
		switch x.list[0].atom {
		case "unit":
			outs = append(outs, "unit")
		case "err":
			if len(x.list) == 2 && x.list[1].atom == "nil" {
				outs = append(outs, "err nil")
			} else {
				outs = append(outs, "err !")
			}
		case "str":
			outs = append(outs, "str "+strconv.Quote(x.list[1].atom))
		case "strok":
			ok := "false"
			if x.list[2].atom == "1" {
				ok = "true"
			}
			outs = append(outs, "strok "+strconv.Quote(x.list[1].atom)+" "+ok)
		case "pairs":
			outs = append(outs, "pairs "+canonList(pairsOf(x.list[1:])))
		default:
			outs = append(outs, "?")
		}
	}
	return outs
}

// refEnv is the reference: a Go map and the host's os.Expand over it.
func refEnv(entries []string, ops []opT) (outs []string, final string) {
	m := map[string]string{}
	for _, e := range entries {
		if i := strings.IndexByte(e, '='); i >= 0 {
			m[e[:i]] = e[i+1:]
		} else {
			m[e] = ""
		}
	}
	list := func() []string {
		var xs []string
		for k, v := range m {
			xs = append(xs, k+"="+v)
		}
		return xs
	}
	for _, o := range ops {
		switch o.Op {
		case "set":
			m[o.K] = o.V
			outs = append(outs, "err nil")
		case "unset":
			delete(m, o.K)
			outs = append(outs, "err nil")
		case "clear":
			m = map[string]string{}
			outs = append(outs, "unit")
		case "get":
			outs = append(outs, "str "+strconv.Quote(m[o.K]))
		case "lookup":
			v, ok := m[o.K]
			outs = append(outs, "strok "+strconv.Quote(v)+" "+fmt.Sprint(ok))
		case "environ":
			outs = append(outs, "pairs "+canonList(list()))
		case "expand":
			outs = append(outs, "str "+strconv.Quote(os.Expand(o.V, func(k string) string { return m[k] })))
		}
	}
	return outs, canonList(list())
}

// ---- generator

var keyPool = []string{"A", "B", "HOME", "PATH", "X_1", "a", "Ab", "HOSTVAR", "LONG_NAME_9", "é", "k y"}
var oddKeys = []string{"", "A=B", "=", "1", "*", "$", "A B", "ÿ"}
var valPool = []string{"", "1", "v", "x=y", "a b", "$A", "${B}", "/usr/bin:/bin", "é", "=", "\"q\"", "line\nbreak", "þ"}
var expandPieces = []string{"$A", "${A}", "$B", "${B}", "$HOME", "${HOME}", "$X_1", "$Ab", "$a", "$", "$$", "${", "${}", "${A", "$1", "$*", "$#", "${*}", "${10}",
	"$A_", "$A-", "${A=B}", "$é", "${é}", "text", " ", "/", "}", "{", "$HOSTVAR", "${HOSTVAR}", "$PATH", "$-", "$?x", "${ A}", "$A$B", "%", "\\$A", "${k y}"}

func genKey(r *rand.Rand) string {
	if r.Intn(12) == 0 {
		return oddKeys[r.Intn(len(oddKeys))]
	}
	return keyPool[r.Intn(len(keyPool))]
}

func genVal(r *rand.Rand) string {
	if r.Intn(10) == 0 {
		return fmt.Sprintf("v%d", r.Intn(1000))
	}
	return valPool[r.Intn(len(valPool))]
}

func genExpand(r *rand.Rand) string {
	var b strings.Builder
	for n := 1 + r.Intn(5); n > 0; n-- {
		b.WriteString(expandPieces[r.Intn(len(expandPieces))])
	}
	return b.String()
}

func genEntries(r *rand.Rand) []string {
	var es []string
	for n := r.Intn(6); n > 0; n-- {
		k := genKey(r)
		switch r.Intn(6) {
		case 0:
			es = append(es, k) // no '='
		case 1:
			es = append(es, k+"="+genVal(r)+"="+genVal(r))
		default:
			es = append(es, k+"="+genVal(r))
		}
	}
	if es == nil {
		es = []string{}
	}
	return es
}

func genOps(r *rand.Rand, maxLen int) []opT {
	n := 1 + r.Intn(maxLen)
	ops := make([]opT, 0, n)
	for i := 0; i < n; i++ {
		switch x := r.Intn(20); {
		case x < 5:
			ops = append(ops, opT{Op: "set", K: genKey(r), V: genVal(r)})
		case x < 8:
			ops = append(ops, opT{Op: "unset", K: genKey(r)})
		case x < 9:
			ops = append(ops, opT{Op: "clear"})
		case x < 12:
			ops = append(ops, opT{Op: "get", K: genKey(r)})
		case x < 14:
			ops = append(ops, opT{Op: "lookup", K: genKey(r)})
		case x < 16:
			ops = append(ops, opT{Op: "environ"})
		default:
			ops = append(ops, opT{Op: "expand", V: genExpand(r)})
		}
	}
	if ops[len(ops)-1].Op != "environ" {
		ops = append(ops, opT{Op: "environ"})
	}
	return ops
}

// nontrivialEnv: at least one mutation that is later observed.
func nontrivialEnv(ops []opT) bool {
	mut := false
	for _, o := range ops {
		if o.mutator() {
			mut = true
		} else if mut {
			return true
		}
	}
	return false
}
