// C10 correspondence harness: a cancelled evaluation does not damage earlier definitions.
//
// A case is a history  (define | use | cancelled-eval)*  run on ONE interpreter:
//
//	impl  = the values the uses return on the real interpreter (a use is an Eval / EvalWithContext of a call
//	        expression, or a direct call by the host of a function value obtained when it was defined);
//	model = Lean `runHist` with the facts extracted from the source (y=): a definition whose frame id is stale
//	        returns the zero value and keeps its state;
//	spec  = Lean `runSpec` (g=): every definition keeps working;
//	ref   = a twin interpreter that receives the same definitions and uses but none of the cancelled evaluations.
//
// Checked on every case: impl = y (correspondence), ref = g (spec validation), impl = ref (the property).
package main

import (
	"bytes"
	"context"
	"encoding/json"
	"fmt"
	"math/rand"
	"os"
	"reflect"
	"regexp"
	"runtime"
	"strconv"
	"strings"
	"sync"
	"testing/fstest"
	"time"

	"github.com/traefik/yaegi/interp"
	"verif/harness/common"
)

// Ev is one event of a history.
type Ev struct {
	Op string `json:"op"` // def | use | cancel
	// def: named method closure mvtop mvfunc wrapper imported (the kinds of the model)
	// cancel: loop chan expired callloop (a busy loop that calls a closure defined earlier) spinclosure (the busy loop
	// is inside a closure defined earlier) hold (a busy loop whose goroutine is kept from returning until the next
	// event is over: the window of F10-1)
	Kind string `json:"kind,omitempty"`
	// def: how the function value is stored / what its body does; the model does not distinguish the variants
	//   closure: "" a variable | field (struct field) | map | maker (returned by a function) | nested (made by a closure)
	//   mvfunc:  "" a variable set by init | map (a map entry set by init)
	//   named, wrapper: "" | chan (the body starts a goroutine and receives its result over a channel)
	Var string `json:"var,omitempty"`
	A   int    `json:"a,omitempty"`
	B   int    `json:"b,omitempty"`
	D   int    `json:"d,omitempty"`   // use: index of the definition
	Via string `json:"via,omitempty"` // use: eval | evalctx (EvalWithContext with a context that is never cancelled) | evalset (Eval of `RS = call`, an evaluation that allocates no global slot, then Eval of `RS`) | host
	X   int    `json:"x,omitempty"`
}

type History struct {
	Evs []Ev `json:"evs"`
}

// ---- running a history on an interpreter ----------------------------------------------------------

type opSeen struct{ fid, rid uint64 }

type session struct {
	ip      *interp.Interpreter
	fsys    fstest.MapFS          // source packages imported by "imported" definitions
	handles map[int]reflect.Value // host-held function values, by definition index
	mu      sync.Mutex
	ops     []opSeen
	lastRID uint64
	// a held cancelled evaluation: its goroutine is parked in the hook until release is closed
	capture  bool
	opsBy    map[int64]int // while capture is on: operations seen per goroutine
	holdGID  int64
	release  chan struct{}
	holdBase int
	hung     bool // an evaluation of this session did not return
	probe    reflect.Value
}

func newSession() *session {
	fsys := fstest.MapFS{}
	s := &session{ip: interp.New(interp.Options{GoPath: "./", SourcecodeFilesystem: fsys}), fsys: fsys, handles: map[int]reflect.Value{}}
	// a stateless closure the cancelled evaluations of kind callloop call, and one that spins (spinclosure)
	if _, out := s.eval("var Z = func(x int) int { return x + 1 }\nvar SP = func() int { n := 0; for { n++ }; return n }\nfunc PR(x int) int { return x + 7 }\nvar RS, XA int"); out != "" {
		panic("session prelude: " + out)
	}
	// a stateless function held by the host: calling it tells whether the root frame is stale without changing anything
	if v, out := s.eval("PR"); out == "" {
		s.probe = v
	}
	return s
}

func curGID() int64 {
	var b [64]byte
	n := runtime.Stack(b[:], false)
	f := strings.Fields(string(b[:n]))
	if len(f) < 2 {
		return 0
	}
	id, _ := strconv.ParseInt(f[1], 10, 64)
	return id
}

func (s *session) hook(info interp.VerifStepInfo) {
	if info.Interp != s.ip {
		return
	}
	s.mu.Lock()
	s.ops = append(s.ops, opSeen{info.FrameID, info.RunID})
	var wait chan struct{}
	if s.capture || s.holdGID != 0 {
		g := curGID()
		if s.capture {
			s.opsBy[g]++
		}
		if s.holdGID != 0 && g == s.holdGID {
			wait = s.release
		}
	}
	s.mu.Unlock()
	if wait != nil {
		<-wait
	}
}

// releaseHold lets the goroutine of the held cancelled evaluation go on (it finds its frame stale and returns).
func (s *session) releaseHold() string {
	s.mu.Lock()
	rel := s.release
	s.holdGID, s.release = 0, nil
	s.mu.Unlock()
	if rel == nil {
		return ""
	}
	close(rel)
	for deadline := time.Now().Add(time.Second); time.Now().Before(deadline); time.Sleep(50 * time.Microsecond) {
		if len(evalGoroutines(&stackBuf)) <= s.holdBase {
			return ""
		}
	}
	return "held evaluation: goroutine still alive after its release"
}

func (s *session) eval(src string) (v reflect.Value, out string) {
	return s.evalWith(src, func(src string) (reflect.Value, error) { return s.ip.Eval(src) })
}

const evalTimeout = 3 * time.Second

// evalWith runs one evaluation with a bound on its duration: an evaluation that does not return is the outcome "hang"
// (its goroutine is lost; every later evaluation of the session reports "hang" at once).
func (s *session) evalWith(src string, f func(string) (reflect.Value, error)) (v reflect.Value, out string) {
	if s.hung {
		return v, "hang"
	}
	type res struct {
		v   reflect.Value
		out string
	}
	rc := make(chan res, 1)
	go func() {
		defer func() {
			if r := recover(); r != nil {
				rc <- res{out: "crash:" + strings.ReplaceAll(fmt.Sprint(r), " ", "_")}
			}
		}()
		v, err := f(src)
		if err != nil {
			rc <- res{v, "err:" + strings.ReplaceAll(common.FirstLine(err.Error()), " ", "_")}
			return
		}
		rc <- res{v, ""}
	}()
	select {
	case r := <-rc:
		return r.v, r.out
	case <-time.After(evalTimeout):
		s.hung = true
		return v, "hang"
	}
}

// evalCtx evaluates with a context that is never cancelled.
func (s *session) evalCtx(src string) (v reflect.Value, out string) {
	v, out = s.evalWith(src, func(src string) (reflect.Value, error) { return s.ip.EvalWithContext(context.Background(), src) })
	if out != "hang" && s.release == nil {
		settleEval() // its Execute has returned; the goroutine EvalWithContext started is on its way out
	}
	return v, out
}

// define evaluates the source of definition number i.
func (s *session) define(i int, e Ev) string {
	var srcs []string
	st := fmt.Sprintf("var S%d int\n", i)
	ret := fmt.Sprintf("x*%d + %d + S%d", e.A, e.B, i)
	body := fmt.Sprintf("{ S%d++; return %s }", i, ret)
	if e.Var == "chan" {
		// the value is computed by a goroutine and received over a channel: blocking channel operations of a plain
		// evaluation after a cancellation (ba001d8)
		body = fmt.Sprintf("{ S%d++; c := make(chan int); go func() { d := make(chan int); go func() { d <- %d }(); c <- x*%d + <-d }(); v := <-c; return v + S%d }", i, e.B, e.A, i)
	}
	handle := ""
	switch e.Kind {
	case "named":
		srcs = []string{st + fmt.Sprintf("func N%d(x int) int %s", i, body)}
	case "method":
		srcs = []string{st + fmt.Sprintf("type T%d struct{}\nfunc (T%d) M(x int) int %s", i, i, body)}
	case "closure":
		switch e.Var {
		case "field":
			srcs = []string{st + fmt.Sprintf("var H%d = struct{ f func(int) int }{f: func(x int) int %s}", i, body)}
		case "map":
			srcs = []string{st + fmt.Sprintf("var M%d = map[string]func(int) int{\"k\": func(x int) int %s}", i, body)}
		case "maker":
			srcs = []string{st + fmt.Sprintf("func mk%d(a int) func(int) int { return func(x int) int { S%d++; return x*a + %d + S%d } }\nvar C%d = mk%d(%d)", i, i, e.B, i, i, i, e.A)}
		case "nested":
			srcs = []string{st + fmt.Sprintf("var C%d = func() func(int) int { b := %d; return func(x int) int { S%d++; return x*%d + b + S%d } }()", i, e.B, i, e.A, i)}
		default:
			srcs = []string{st + fmt.Sprintf("var C%d = func(x int) int %s", i, body)}
		}
		handle = useFn(i, e.Kind, e.Var)
	case "mvtop":
		srcs = []string{st + fmt.Sprintf("type T%d struct{}\nfunc (T%d) M(x int) int %s", i, i, body), fmt.Sprintf("V%d := T%d{}.M", i, i)}
	case "mvfunc":
		if e.Var == "map" {
			srcs = []string{st + fmt.Sprintf("type T%d struct{}\nfunc (T%d) M(x int) int %s\nvar M%d = map[string]func(int) int{}\nfunc init() { M%d[\"k\"] = T%d{}.M }", i, i, body, i, i, i)}
		} else {
			srcs = []string{st + fmt.Sprintf("type T%d struct{}\nfunc (T%d) M(x int) int %s\nvar V%d func(int) int\nfunc init() { V%d = T%d{}.M }", i, i, body, i, i, i)}
		}
		handle = useFn(i, e.Kind, e.Var)
	case "wrapper":
		srcs = []string{st + fmt.Sprintf("func N%d(x int) int %s", i, body)}
		handle = fmt.Sprintf("N%d", i)
	case "imported":
		// a source package whose function reads a variable set by a global initialiser of the package
		s.fsys[fmt.Sprintf("src/p%d/p%d.go", i, i)] = &fstest.MapFile{Data: []byte(fmt.Sprintf(
			"package p%d\n\nvar S int\n\nfunc mkb() int { return %d }\n\nvar Bv = mkb()\n\nfunc N(x int) int { S++; return x*%d + Bv + S }\n", i, e.B, e.A))}
		srcs = []string{fmt.Sprintf("import \"p%d\"", i)}
	}
	// the host obtains the function value of every definition when it is made
	handle = useFn(i, e.Kind, e.Var)
	// a function without parameters and results that uses the definition (for evaluations that allocate no global slot)
	srcs = append(srcs, fmt.Sprintf("func W%d() { RS = %s(XA) }", i, handle))
	for _, src := range srcs {
		if _, out := s.eval(src); out != "" {
			return out
		}
	}
	if handle != "" {
		v, out := s.eval(handle)
		if out != "" {
			return out
		}
		s.handles[i] = v
	}
	return ""
}

// useFn: the expression that denotes the function value of definition i.
func useFn(i int, kind, variant string) string {
	switch kind {
	case "named", "wrapper":
		return fmt.Sprintf("N%d", i)
	case "method":
		return fmt.Sprintf("T%d{}.M", i)
	case "closure":
		switch variant {
		case "field":
			return fmt.Sprintf("H%d.f", i)
		case "map":
			return fmt.Sprintf("M%d[\"k\"]", i)
		}
		return fmt.Sprintf("C%d", i)
	case "mvfunc":
		if variant == "map" {
			return fmt.Sprintf("M%d[\"k\"]", i)
		}
	case "imported":
		return fmt.Sprintf("p%d.N", i)
	}
	return fmt.Sprintf("V%d", i)
}

func useExpr(i int, kind, variant string, x int) string {
	return fmt.Sprintf("%s(%d)", useFn(i, kind, variant), x)
}

func (s *session) use(i int, kind, variant, via string, x int) (out string) {
	if via == "host" {
		h, ok := s.handles[i]
		if !ok || h.Kind() != reflect.Func {
			return "nohandle"
		}
		defer func() {
			if r := recover(); r != nil {
				out = "crash:" + strings.ReplaceAll(fmt.Sprint(r), " ", "_")
			}
		}()
		res := h.Call([]reflect.Value{reflect.ValueOf(x)})
		if len(res) != 1 {
			return "badresult"
		}
		return fmt.Sprint(res[0].Interface())
	}
	var v reflect.Value
	var o string
	if via == "evalset" {
		// evaluations that allocate no new slot in the global frame: an assignment to an existing global, a call of a
		// function without results; a last evaluation reads the global back
		// (`XA = x`, then the call of a function without parameters and results that stores its value in RS)
		if _, o = s.eval(fmt.Sprintf("XA = %d", x)); o != "" {
			return o
		}
		if _, o = s.eval(fmt.Sprintf("W%d()", i)); o != "" {
			return o
		}
		v, o = s.eval("RS")
	} else if via == "evalctx" {
		v, o = s.evalCtx(useExpr(i, kind, variant, x))
	} else {
		v, o = s.eval(useExpr(i, kind, variant, x))
	}
	if o != "" {
		return o
	}
	if !v.IsValid() {
		return "novalue"
	}
	return fmt.Sprint(v.Interface())
}

var gidRe = regexp.MustCompile(`^goroutine (\d+) \[([^\],]+)`)

// evalGIDs returns the ids of the goroutines started by EvalWithContext that are alive.
func evalGIDs(buf *[]byte) map[int64]bool {
	for {
		n := runtime.Stack(*buf, true)
		if n == len(*buf) {
			*buf = make([]byte, 2*len(*buf))
			continue
		}
		out := map[int64]bool{}
		for _, blk := range bytes.Split((*buf)[:n], []byte("\n\n")) {
			if m := gidRe.FindSubmatch(blk); m != nil && bytes.Contains(blk, []byte("EvalWithContext.func1")) {
				id, _ := strconv.ParseInt(string(m[1]), 10, 64)
				out[id] = true
			}
		}
		return out
	}
}

// allGIDs returns the ids of all goroutines alive.
func allGIDs(buf *[]byte) map[int64]bool {
	for {
		n := runtime.Stack(*buf, true)
		if n == len(*buf) {
			*buf = make([]byte, 2*len(*buf))
			continue
		}
		out := map[int64]bool{}
		for _, blk := range bytes.Split((*buf)[:n], []byte("\n\n")) {
			if m := gidRe.FindSubmatch(blk); m != nil {
				id, _ := strconv.ParseInt(string(m[1]), 10, 64)
				out[id] = true
			}
		}
		return out
	}
}

// evalGoroutines returns the status of every goroutine started by EvalWithContext that is still alive.
func evalGoroutines(buf *[]byte) []string {
	for {
		n := runtime.Stack(*buf, true)
		if n == len(*buf) {
			*buf = make([]byte, 2*len(*buf))
			continue
		}
		var out []string
		for _, blk := range bytes.Split((*buf)[:n], []byte("\n\n")) {
			if m := gidRe.FindSubmatch(blk); m != nil && bytes.Contains(blk, []byte("EvalWithContext.func1")) {
				out = append(out, string(m[2]))
			}
		}
		return out
	}
}

var stackBuf = make([]byte, 1<<18)
var slowWaits int

// leakedEval: goroutines started by EvalWithContext that are known not to end (none on the unchanged tree)
var leakedEval int

// settleEval waits until no goroutine started by EvalWithContext is alive, the known leaked ones apart.
func settleEval() {
	for deadline := time.Now().Add(time.Second); time.Now().Before(deadline); time.Sleep(30 * time.Microsecond) {
		if len(evalGoroutines(&stackBuf)) <= leakedEval {
			return
		}
	}
	leakedEval = len(evalGoroutines(&stackBuf))
}

func blockedCount(st []string) int {
	n := 0
	for _, s := range st {
		if strings.HasPrefix(s, "select") || strings.HasPrefix(s, "chan receive") {
			n++
		}
	}
	return n
}

// cancelled runs one cancelled evaluation. It returns the kind as the model needs it (an expired context is
// reported as expb / expa according to the observed order of stop() and the root-id refresh) and a note.
// Every wait is bounded: under a mutated interpreter the evaluation may not start, not block or not end.
func (s *session) cancelled(kind string, n int) (string, string) {
	s.mu.Lock()
	s.ops = nil
	s.mu.Unlock()
	// the goroutines of earlier evaluations (an EvalWithContext that has returned its value may still be winding down)
	// must be gone before this evaluation starts, so that "the goroutine of THIS evaluation has ended" can be told
	// exactly: a host call made before the cancelled Execute has returned is a different event (F10-1)
	settleEval()
	base := evalGoroutines(&stackBuf) // goroutines leaked by earlier cancelled evaluations (none on the unchanged tree)
	baseIDs := evalGIDs(&stackBuf)
	preAll := allGIDs(&stackBuf)
	if kind == "expired" {
		// count the operations per goroutine: did the evaluation execute anything at all?
		s.mu.Lock()
		s.capture, s.opsBy = true, map[int64]int{}
		s.mu.Unlock()
	}
	ctx, cancel := context.WithCancel(context.Background())
	defer cancel()
	var src string
	switch kind {
	case "loop":
		src = fmt.Sprintf("for L%d := 0; ; L%d++ {}", n, n)
	case "hold":
		// the loop runs in a frame of its own (the closure SP): a loop in the root code would be revived by the root-id
		// refresh of the evaluation that follows while this one is held (one evaluation at a time is an assumption of
		// the property). Not `func() { for {} }()`: see litchan.
		src = "SP()"
	case "litchan":
		// replay of F10-2 only: the interrupted top-level statement is a call of a function literal; the next
		// evaluation executes it again
		src = fmt.Sprintf("func() { B%d := make(chan int); <-B%d }()", n, n)
	case "callloop":
		src = fmt.Sprintf("for L%d := 0; ; L%d++ { Z(L%d) }", n, n, n)
	case "spinclosure":
		src = "SP()"
	case "chan":
		src = fmt.Sprintf("B%d := make(chan int)\n<-B%d", n, n)
	default:
		// (long enough that the evaluation cannot normally finish before the watcher has looked at the context)
		src = fmt.Sprintf("E%d := 1\nfor X%d := 0; X%d < 2000; X%d++ { E%d++ }", n, n, n, n, n)
		cancel()
	}
	type ret struct {
		err error
	}
	rc := make(chan ret, 1)
	go func() {
		defer func() {
			if r := recover(); r != nil {
				rc <- ret{fmt.Errorf("crash: %v", r)}
			}
		}()
		_, err := s.ip.EvalWithContext(ctx, src)
		rc <- ret{err}
	}()
	// cancel once the evaluation is doing what the history says (or has returned by itself)
	note := ""
	var got *ret
	returned := func() bool {
		if got != nil {
			return true
		}
		select {
		case r := <-rc:
			got = &r
			return true
		default:
			return false
		}
	}
	deadline := time.Now().Add(2 * time.Second)
	switch kind {
	case "loop", "callloop", "spinclosure", "hold":
		// cancel once the goroutine of THIS evaluation is executing operations: operations of goroutines left behind by
		// earlier events (the tail of a `go` statement in a function body) do not count — a cancellation that arrives
		// while the source is still being compiled is not honoured, which is outside the histories of the property
		s.mu.Lock()
		s.capture, s.opsBy = true, map[int64]int{}
		s.mu.Unlock()
		var mine int64
		for time.Now().Before(deadline) && !returned() && mine == 0 {
			for id := range evalGIDs(&stackBuf) {
				if baseIDs[id] {
					continue
				}
				s.mu.Lock()
				if s.opsBy[id] >= 8 {
					mine = id
				}
				s.mu.Unlock()
			}
			if mine == 0 {
				time.Sleep(20 * time.Microsecond)
			}
		}
		s.mu.Lock()
		s.capture = false
		if kind == "hold" && mine != 0 {
			// park the goroutine of the evaluation at its next operation, then cancel: the call returns, its Execute does not
			s.holdGID, s.release, s.holdBase = mine, make(chan struct{}), len(base)
		}
		s.mu.Unlock()
		if kind == "hold" {
			time.Sleep(200 * time.Microsecond)
		}
		if mine == 0 {
			note = "the evaluation did not start executing"
		}
		cancel()
	case "chan", "litchan":
		for time.Now().Before(deadline) && !returned() {
			st := evalGoroutines(&stackBuf)
			if len(st) == len(base)+1 && blockedCount(st) == blockedCount(base)+1 {
				break
			}
			time.Sleep(50 * time.Microsecond)
		}
		cancel()
	}
	if got == nil {
		select {
		case r := <-rc:
			got = &r
		case <-time.After(2 * time.Second):
			note = "did not return"
		}
	}
	completed := false
	if got != nil && got.err == nil && kind == "expired" {
		// with an already expired context the evaluation and the watcher race: here the evaluation finished before the
		// watcher looked at ctx.Done() — nothing was cancelled, stop() did not run: an ordinary evaluation through
		// EvalWithContext that defines nothing
		completed = true
	} else if got != nil && got.err != context.Canceled {
		note = fmt.Sprintf("returned %v", got.err)
	}
	if kind == "hold" {
		return kind, note
	}
	if kind == "callloop" || kind == "spinclosure" {
		kind = "loop" // the same event for the model
	}
	if kind == "litchan" {
		kind = "chan"
	}
	// the goroutine EvalWithContext started must end (after ten that did not, the wait is cut short:
	// the interpreter under test is broken and every such case is reported anyway)
	gone := false
	wait := time.Second
	if slowWaits > 10 {
		wait = 20 * time.Millisecond
	}
	for deadline = time.Now().Add(wait); time.Now().Before(deadline); time.Sleep(50 * time.Microsecond) {
		if len(evalGoroutines(&stackBuf)) <= len(base) {
			gone = true
			break
		}
	}
	if !gone {
		slowWaits++
		leakedEval = len(evalGoroutines(&stackBuf))
		note += " goroutine still alive"
		if os.Getenv("C10_DEBUG") != "" {
			n := runtime.Stack(stackBuf, true)
			for _, blk := range bytes.Split(stackBuf[:n], []byte("\n\n")) {
				if bytes.Contains(blk, []byte("EvalWithContext.func1")) {
					fmt.Fprintf(os.Stderr, "STILL ALIVE (%s):\n%s\n\n", src, blk)
				}
			}
		}
	}
	if kind != "expired" {
		return kind, note
	}
	defer func() {
		s.mu.Lock()
		s.capture = false
		s.mu.Unlock()
	}()
	if completed {
		return "completed", note
	}
	// the third order: the evaluation finished — its Execute returned — just before the watcher ran stop(): nothing has
	// refreshed the root frame since, a direct host call finds it stale (the probe is stateless and refreshes nothing)
	if s.probe.IsValid() && s.probe.Kind() == reflect.Func {
		stale := func() (st bool) {
			defer func() { recover() }()
			r := s.probe.Call([]reflect.Value{reflect.ValueOf(1)})
			return len(r) == 1 && r[0].Kind() == reflect.Int && r[0].Int() == 0
		}()
		if stale {
			// did the evaluation run (and finish just before stop()), or did stop() run although nothing of the
			// evaluation was ever executed (it never reached Execute)? The second cannot happen with the unchanged source.
			s.mu.Lock()
			s.capture = false
			ran := 0
			for id, n := range s.opsBy {
				if !preAll[id] {
					ran += n
				}
			}
			s.mu.Unlock()
			if ran == 0 {
				return "expn", note
			}
			return "expl", note
		}
	}
	// stop() before Execute refreshed the root frame: the operations ran under the new id
	s.mu.Lock()
	defer s.mu.Unlock()
	for _, o := range s.ops {
		if o.rid > s.lastRID {
			return "expb", note
		}
	}
	return "expa", note
}

// runHistory runs the history; cancels = false gives the reference (twin) run.
func runHistory(h History, cancels bool) (results []string, line string, finalID uint64, notes []string, resolved map[int]string) {
	resolved = map[int]string{}
	s := newSession()
	interp.VerifSetStepHook(s.hook)
	defer interp.VerifSetStepHook(nil) // the hook is removed after every case
	kinds, variants := map[int]string{}, map[int]string{}
	ndef, ncancel := 0, 0
	var parts []string
	for ei, e := range h.Evs {
		held := s.release != nil // a held evaluation is released when the event after it is over
		switch e.Op {
		case "def":
			if out := s.define(ndef, e); out != "" {
				notes = append(notes, fmt.Sprintf("definition %d (%s %s): %s", ndef, e.Kind, e.Var, out))
			}
			kinds[ndef], variants[ndef] = e.Kind, e.Var
			ndef++
			parts = append(parts, fmt.Sprintf("(def %s %d %d %s)", e.Kind, e.A, e.B, map[bool]string{true: "1", false: "0"}[e.Var == "chan"]))
		case "use":
			results = append(results, s.use(e.D, kinds[e.D], variants[e.D], e.Via, e.X))
			via := e.Via
			if via == "evalset" {
				via = "eval" // the same event for the model
			}
			parts = append(parts, fmt.Sprintf("(use %d %s %d)", e.D, via, e.X))
		case "cancel":
			if !cancels {
				continue
			}
			s.mu.Lock()
			if n := len(s.ops); n > 0 {
				s.lastRID = s.ops[n-1].rid
			}
			s.mu.Unlock()
			k, note := s.cancelled(e.Kind, ncancel)
			resolved[ei] = k
			ncancel++
			if note != "" {
				notes = append(notes, "cancelled evaluation: "+note)
			}
			if k == "completed" {
				parts = append(parts, "(use 9999 evalctx 0)") // for the model: an evaluation that uses no definition
			} else {
				parts = append(parts, "(cancel "+k+")")
			}
		}
		if held {
			if note := s.releaseHold(); note != "" {
				notes = append(notes, note)
			}
		}
	}
	if note := s.releaseHold(); note != "" {
		notes = append(notes, note)
	}
	// the interpreter id as the last operation saw it
	if _, out := s.eval("0"); out != "" {
		notes = append(notes, "final probe: "+out)
	}
	s.mu.Lock()
	if n := len(s.ops); n > 0 {
		finalID = s.ops[n-1].rid
	}
	s.mu.Unlock()
	return results, "C10 hist " + strings.Join(parts, " "), finalID, notes, resolved
}

// ---- classes and generation -------------------------------------------------------------------------

// classOf: the decidable class of use number u (index into the events) of the history.
// F10-1: a direct call by the host made while the Execute of a cancelled evaluation has not returned yet (the event
// right after a cancelled evaluation of kind hold).
//
// F10-3: a direct call by the host of a function value whose body blocks on a channel, with a cancelled evaluation
// and no evaluation since (definitions and uses through Eval / EvalWithContext are evaluations; host calls are not).
//
// An evaluation under an already expired context resolves at run time (resolved[i]) to one of: stop() before Execute
// started (expb) or while it ran (expa) — both leave the root frame current —, stop() after Execute had returned (expl,
// the second form of F10-1), or stop() although nothing of the evaluation was ever executed (expn): the last cannot
// happen with the unchanged source and has a class of its own, which is not listed.
func classOf(h History, u int, resolved map[int]string) string {
	e := h.Evs[u]
	if e.Via != "host" {
		return ""
	}
	if u > 0 && h.Evs[u-1].Op == "cancel" && h.Evs[u-1].Kind == "hold" {
		return "host-call-before-cancelled-execute-returned"
	}
	// the other form of F10-1: the last evaluation before this call ran under an already expired context (its Execute
	// may have returned before the watcher ran stop(): the root frame then stays stale until the next evaluation)
	for i := u - 1; i >= 0; i-- {
		x := h.Evs[i]
		if x.Op == "cancel" {
			if x.Kind == "expired" {
				if resolved[i] == "expn" {
					return "host-call-after-stop-without-execute"
				}
				return "host-call-after-late-stop"
			}
			break
		}
		if x.Op == "def" || (x.Op == "use" && x.Via != "host") {
			break
		}
	}
	nd, blk := 0, false
	for _, x := range h.Evs[:u] {
		if x.Op == "def" {
			if nd == e.D {
				blk = x.Var == "chan"
			}
			nd++
		}
	}
	for i := u - 1; i >= 0 && blk; i-- {
		switch x := h.Evs[i]; {
		case x.Op == "cancel":
			return "host-call-chanop-after-cancel"
		case x.Op == "def" || (x.Op == "use" && x.Via != "host"):
			return ""
		}
	}
	return ""
}

var kinds = []string{"named", "method", "closure", "mvtop", "mvfunc", "wrapper", "imported"}
var cancelKinds = []string{"loop", "chan", "expired", "callloop", "spinclosure"}

func variantOf(r *rand.Rand, k string) string {
	switch k {
	case "closure":
		return []string{"", "field", "map", "maker", "nested"}[r.Intn(5)]
	case "mvfunc":
		return []string{"", "map"}[r.Intn(2)]
	case "named", "wrapper":
		if r.Intn(3) == 0 {
			return "chan"
		}
	}
	return ""
}

// every kind of definition yields a function value the host can hold (a declared function, a method value T{}.M and
// a function of an imported package are wrapped when the handle is evaluated)
func hostCallable(k string) bool { return true }

// genHistory: definitions may come at any point (also after cancelled evaluations: imports after a cancellation,
// closures made between two cancellations); holds = allow held cancelled evaluations (the F10-1 window).
func genHistory(r *rand.Rand, holds bool) History {
	var h History
	var ks []string
	def := func() {
		k := kinds[r.Intn(len(kinds))]
		ks = append(ks, k)
		h.Evs = append(h.Evs, Ev{Op: "def", Kind: k, Var: variantOf(r, k), A: 1 + r.Intn(9), B: 1 + r.Intn(9)})
	}
	for i, nd := 0, 1+r.Intn(4); i < nd; i++ {
		def()
	}
	n := 3 + r.Intn(10)
	for i := 0; i < n; i++ {
		c := r.Intn(12)
		switch {
		case c < 3:
			h.Evs = append(h.Evs, Ev{Op: "cancel", Kind: cancelKinds[r.Intn(len(cancelKinds))]})
			continue
		case c == 3 && len(ks) < 7:
			def()
			continue
		case c == 4 && holds && i+1 < n:
			// a held evaluation is followed by a use (the window closes when that use is over)
			h.Evs = append(h.Evs, Ev{Op: "cancel", Kind: "hold"})
		}
		d := r.Intn(len(ks))
		via := []string{"eval", "eval", "evalctx", "evalset"}[r.Intn(4)]
		if ks[d] == "wrapper" || ((ks[d] == "closure" || ks[d] == "mvfunc") && r.Intn(2) == 0) || (hostCallable(ks[d]) && r.Intn(4) == 0) {
			via = "host"
		}
		h.Evs = append(h.Evs, Ev{Op: "use", D: d, Via: via, X: 1 + r.Intn(9)})
	}
	return h
}

func nontrivial(h History) bool {
	seenCancel := false
	for _, e := range h.Evs {
		if e.Op == "cancel" {
			seenCancel = true
		}
		if e.Op == "use" && seenCancel {
			return true
		}
	}
	return false
}

// regressionHistories: the shapes of the repaired findings, run in every tier (ordinary cases: nothing is suppressed).
func regressionHistories() []History {
	d := func(k, v string, a, b int) Ev { return Ev{Op: "def", Kind: k, Var: v, A: a, B: b} }
	u := func(i int, via string, x int) Ev { return Ev{Op: "use", D: i, Via: via, X: x} }
	c := func(k string) Ev { return Ev{Op: "cancel", Kind: k} }
	return []History{
		// F10: every kind of function value, used from the script and from the host after one and after several cancellations
		{Evs: []Ev{d("closure", "", 5, 2), d("closure", "field", 3, 1), d("closure", "map", 2, 7), d("closure", "maker", 4, 4), d("closure", "nested", 6, 1),
			u(0, "eval", 4), u(1, "host", 2), c("loop"), u(0, "eval", 4), u(0, "host", 4), u(1, "eval", 2), u(1, "host", 2), u(2, "eval", 1), u(2, "host", 1),
			u(3, "evalctx", 3), u(3, "host", 3), u(4, "eval", 5), c("chan"), c("expired"), u(4, "host", 5), u(2, "evalctx", 1), u(0, "host", 9)}},
		{Evs: []Ev{d("mvfunc", "", 7, 1), d("mvfunc", "map", 2, 2), d("mvtop", "", 3, 3), d("wrapper", "", 3, 1), d("method", "", 1, 1),
			u(0, "eval", 1), u(3, "host", 4), c("callloop"), u(0, "eval", 1), u(0, "host", 1), u(1, "eval", 2), u(1, "host", 2), u(2, "eval", 3), u(3, "host", 4),
			c("spinclosure"), c("loop"), u(3, "host", 4), u(4, "eval", 6), u(1, "host", 2), u(0, "evalctx", 1)}},
		// 2667a11: a package imported right after a cancelled evaluation, and after several
		{Evs: []Ev{d("named", "", 1, 1), c("loop"), d("imported", "", 2, 9), u(1, "eval", 3), u(0, "eval", 1), c("chan"), c("expired"), d("imported", "", 3, 4),
			u(2, "evalctx", 2), u(1, "eval", 3)}},
		// ba001d8: goroutine + channel work in a plain Eval (and through the host) after cancellations
		{Evs: []Ev{d("named", "chan", 3, 2), d("wrapper", "chan", 2, 5), u(0, "eval", 4), u(1, "host", 1), c("loop"), u(0, "eval", 4), u(1, "host", 1), u(0, "evalctx", 2),
			c("chan"), u(0, "eval", 7), u(1, "host", 3)}},
		// an evaluation under an already expired context, then direct host calls of function values of every kind made
		// earlier — host-first (no evaluation in between) and Eval-first
		{Evs: []Ev{d("named", "", 2, 3), d("method", "", 3, 1), d("closure", "", 5, 2), d("closure", "field", 3, 1), d("closure", "map", 2, 7), d("mvtop", "", 4, 4),
			d("mvfunc", "", 7, 1), d("mvfunc", "map", 2, 2), d("wrapper", "", 3, 1), d("imported", "", 2, 9), u(8, "host", 4), c("expired"),
			u(0, "host", 1), u(1, "host", 2), u(2, "host", 3), u(3, "host", 4), u(4, "host", 5), u(5, "host", 6), u(6, "host", 7), u(7, "host", 8), u(8, "host", 9), u(9, "host", 1),
			u(2, "eval", 3), u(8, "host", 4), c("expired"), c("expired"), u(6, "host", 1), u(9, "host", 2)}},
		{Evs: []Ev{d("named", "", 2, 3), d("closure", "maker", 5, 2), d("closure", "nested", 3, 1), d("mvfunc", "", 7, 1), d("wrapper", "chan", 3, 1), d("method", "", 1, 5), c("expired"),
			u(0, "eval", 1), u(1, "host", 2), u(2, "host", 3), u(3, "host", 4), u(4, "host", 5), u(5, "host", 6), u(0, "host", 7), c("loop"), c("expired"), u(1, "evalctx", 1), u(4, "host", 2), u(3, "host", 3)}},
		// evaluations that allocate no slot of the global frame right after cancelled evaluations (seeded/C10)
		{Evs: []Ev{d("named", "", 2, 3), d("closure", "", 5, 2), u(0, "evalset", 1), c("loop"), u(0, "evalset", 2), u(1, "evalset", 3), c("chan"), c("expired"), u(1, "evalset", 4), u(0, "eval", 5)}},
		// definitions made between two cancellations
		{Evs: []Ev{d("named", "", 2, 2), c("loop"), d("closure", "map", 3, 3), d("wrapper", "", 1, 6), u(1, "host", 2), c("expired"), u(1, "eval", 2), u(2, "host", 5), u(1, "host", 2)}},
	}
}

// ---- main ---------------------------------------------------------------------------------------------

func main() {
	run := common.NewRun("C10")
	run.Res.Rule = "cases = histories (define | use | cancelled-eval)* on one interpreter: 1-4 definitions first and more later, of kinds {named function, method, closure (in a variable, a struct field, a map, returned by a maker, made by a closure), method value bound at top level, method value bound inside init (variable or map entry), function held by the host, function of a source package imported at that point}, bodies optionally doing goroutine + channel work, then 3-12 events, a use being an Eval / EvalWithContext of a call or a direct host call of a function value obtained when it was defined, a cancelled evaluation being a busy loop, a busy loop calling an earlier closure, a loop inside an earlier closure, a blocked channel receive, an already expired context, or (a third of the histories) a busy loop whose Execute is held back until the next event is over; non-trivial = at least one use after a cancelled evaluation; distinct = distinct protocol line + variants"
	defer run.Finish()
	drv, err := common.StartDriver("C10")
	if err != nil {
		run.Errorf("driver: %v", err)
		return
	}
	defer drv.Close()
	findings, err := common.LoadFindings("C10")
	if err != nil {
		run.Errorf("known findings: %v", err)
	}

	// check evaluates one history on all four sides and records the comparison.
	check := func(h History, count bool) (firstDiff string) {
		impl, line, id, notes, resolved := runHistory(h, true)
		ref, _, _, rnotes, _ := runHistory(h, false)
		for _, n := range append(notes, rnotes...) {
			run.Errorf("history %s: %s", line, n)
		}
		ans, err := drv.Ask(line)
		if err != nil {
			run.Errorf("driver: %v", err)
			return ""
		}
		f := common.Fields(ans)
		y, g := f["y"], f["g"]
		if y == "" || g == "" {
			run.Errorf("driver answered %q to %q", ans, line)
			return ""
		}
		join := func(xs []string) string {
			if len(xs) == 0 {
				return "-"
			}
			return strings.Join(xs, ",")
		}
		im := join(impl) + ";id=" + strconv.FormatUint(id, 10)
		rf := join(ref)
		if count {
			hb, _ := json.Marshal(h)
			run.Count(string(hb), nontrivial(h))
			run.Sample(map[string]interface{}{"history": line, "impl": im, "model": y, "spec": g, "ref": rf}, 8)
			seenCancel := false
			for _, e := range h.Evs {
				switch e.Op {
				case "def":
					run.Hit("def:" + e.Kind)
					if e.Var != "" {
						run.Hit("def:" + e.Kind + "/" + e.Var)
					}
					if seenCancel {
						run.Hit("def-after-cancel:" + e.Kind)
					}
				case "use":
					run.Hit("use:" + e.Via)
					if seenCancel {
						run.Hit("use-after-cancel:" + e.Via)
					}
				case "cancel":
					seenCancel = true
					if e.Kind != "expired" {
						run.Hit("cancel:" + e.Kind)
					}
				}
			}
			for _, p := range strings.Fields(line) {
				if strings.HasPrefix(p, "expb") || strings.HasPrefix(p, "expa") {
					run.Hit("cancel:" + strings.TrimSuffix(p, ")"))
				}
			}
		}
		if im != y {
			run.Disagree(common.Disagreement{Kind: "impl-vs-model", Input: h, Impl: im, Model: y, Ref: rf, Note: line})
		}
		if rf != g {
			run.Disagree(common.Disagreement{Kind: "spec-vs-ref", Input: h, Spec: g, Ref: rf, Note: line})
		}
		// the property: every use returns what it returns without the cancelled evaluations
		ui := 0
		for i, e := range h.Evs {
			if e.Op != "use" {
				continue
			}
			if ui < len(impl) && ui < len(ref) && impl[ui] != ref[ui] {
				cls := classOf(h, i, resolved)
				if count {
					run.Hit("use-differs:" + e.Via)
				}
				if firstDiff == "" {
					firstDiff = fmt.Sprintf("use %d (event %d): impl=%s ref=%s", ui, i, impl[ui], ref[ui])
					d := common.Disagreement{Kind: "impl-vs-ref", Input: h, Impl: join(impl), Model: y, Ref: rf, Finding: cls,
						Note: fmt.Sprintf("use %d (event %d) returns %s, without the cancelled evaluations %s; %s", ui, i, impl[ui], ref[ui], line)}
					if im != y {
						d.Finding, d.Note = "", "differs from the reference and from the model of the unchanged code; "+d.Note
					}
					run.Disagree(d)
				}
			}
			ui++
		}
		if count {
			if firstDiff == "" {
				run.Hit("history:all-uses-same")
			} else {
				run.Hit("history:some-use-differs")
			}
		}
		return firstDiff
	}

	if run.Replay != "" {
		b, err := os.ReadFile(run.Replay)
		if err != nil {
			run.Errorf("replay: %v", err)
			return
		}
		var rp struct {
			Input History `json:"input"`
		}
		if err := json.Unmarshal(b, &rp); err != nil {
			run.Errorf("replay: %v", err)
			return
		}
		check(rp.Input, true)
		return
	}
	for _, f := range findings {
		var h History
		if err := json.Unmarshal(f.Replay, &h); err != nil {
			run.Errorf("finding %s: bad replay: %v", f.ID, err)
			continue
		}
		// replay without recording disagreements of its own
		saved := run.Res.Disagreements
		savedDist := map[string]int{}
		for k, v := range run.Res.Distribution {
			savedDist[k] = v
		}
		savedErrs := append([]string(nil), run.Res.Errors...)
		diff := check(h, false)
		run.Res.Disagreements, run.Res.Distribution = saved, savedDist
		if f.Status == "finding" {
			// what a listed finding does to the session (an evaluation that hangs, …) is part of the finding
			run.Res.Errors = savedErrs
		}
		run.Res.Known = append(run.Res.Known, common.KnownReplay{ID: f.ID, Status: f.Status, What: f.What, StillFails: diff != "", Detail: diff})
	}
	n := 200
	if run.Thorough() {
		n = 5000
	}
	for _, h := range regressionHistories() {
		check(h, true)
	}
	for i := 0; i < n; i++ {
		check(genHistory(run.Rng, i%3 == 2), true)
	}
}
