// C10 correspondence harness: a cancelled evaluation does not damage earlier definitions.
//
// A case is a history  define* ; (use | cancelled-eval)*  run on ONE interpreter:
//
//	impl  = the values the uses return on the real interpreter (a use is an Eval of a call expression, or a
//	        direct call by the host of a function value obtained earlier);
//	model = Lean `runHist` with the facts extracted from the source (y=): a definition whose frame id is stale
//	        returns the zero value and keeps its state;
//	spec  = Lean `runSpec` (g=): every definition keeps working;
//	ref   = a twin interpreter that receives the same definitions and uses but none of the cancelled evaluations.
//
// Checked on every case: impl = y (correspondence), ref = g (spec validation), impl = ref (the property).
package main

import (
	"bytes"
	"context"
	"encoding/json"
	"fmt"
	"math/rand"
	"os"
	"reflect"
	"regexp"
	"runtime"
	"strconv"
	"strings"
	"sync"
	"time"

	"github.com/traefik/yaegi/interp"
	"verif/harness/common"
)

// Ev is one event of a history.
type Ev struct {
	Op   string `json:"op"`             // def | use | cancel
	Kind string `json:"kind,omitempty"` // def: named method closure mvtop mvfunc wrapper; cancel: loop chan expired
	A    int    `json:"a,omitempty"`
	B    int    `json:"b,omitempty"`
	D    int    `json:"d,omitempty"`   // use: index of the definition
	Via  string `json:"via,omitempty"` // use: eval | host
	X    int    `json:"x,omitempty"`
}

type History struct {
	Evs []Ev `json:"evs"`
}

// ---- running a history on an interpreter ----------------------------------------------------------

type opSeen struct{ fid, rid uint64 }

type session struct {
	ip      *interp.Interpreter
	handles map[int]reflect.Value // host-held function values, by definition index
	mu      sync.Mutex
	ops     []opSeen
	lastRID uint64
}

func newSession() *session {
	return &session{ip: interp.New(interp.Options{}), handles: map[int]reflect.Value{}}
}

func (s *session) hook(info interp.VerifStepInfo) {
	if info.Interp != s.ip {
		return
	}
	s.mu.Lock()
	s.ops = append(s.ops, opSeen{info.FrameID, info.RunID})
	s.mu.Unlock()
}

func (s *session) eval(src string) (v reflect.Value, out string) {
	defer func() {
		if r := recover(); r != nil {
			out = "crash:" + strings.ReplaceAll(fmt.Sprint(r), " ", "_")
		}
	}()
	v, err := s.ip.Eval(src)
	if err != nil {
		return v, "err:" + strings.ReplaceAll(common.FirstLine(err.Error()), " ", "_")
	}
	return v, ""
}

// define evaluates the source of definition number i.
func (s *session) define(i int, e Ev) string {
	var srcs []string
	st := fmt.Sprintf("var S%d int\n", i)
	body := fmt.Sprintf("{ S%d++; return x*%d + %d + S%d }", i, e.A, e.B, i)
	handle := ""
	switch e.Kind {
	case "named":
		srcs = []string{st + fmt.Sprintf("func N%d(x int) int %s", i, body)}
	case "method":
		srcs = []string{st + fmt.Sprintf("type T%d struct{}\nfunc (T%d) M(x int) int %s", i, i, body)}
	case "closure":
		srcs = []string{st + fmt.Sprintf("var C%d = func(x int) int %s", i, body)}
		handle = fmt.Sprintf("C%d", i)
	case "mvtop":
		srcs = []string{st + fmt.Sprintf("type T%d struct{}\nfunc (T%d) M(x int) int %s", i, i, body), fmt.Sprintf("V%d := T%d{}.M", i, i)}
	case "mvfunc":
		srcs = []string{st + fmt.Sprintf("type T%d struct{}\nfunc (T%d) M(x int) int %s\nvar V%d func(int) int\nfunc init() { V%d = T%d{}.M }", i, i, body, i, i, i)}
	case "wrapper":
		srcs = []string{st + fmt.Sprintf("func N%d(x int) int %s", i, body)}
		handle = fmt.Sprintf("N%d", i)
	}
	for _, src := range srcs {
		if _, out := s.eval(src); out != "" {
			return out
		}
	}
	if handle != "" {
		v, out := s.eval(handle)
		if out != "" {
			return out
		}
		s.handles[i] = v
	}
	return ""
}

func useExpr(i int, kind string, x int) string {
	switch kind {
	case "named", "wrapper":
		return fmt.Sprintf("N%d(%d)", i, x)
	case "method":
		return fmt.Sprintf("T%d{}.M(%d)", i, x)
	case "closure":
		return fmt.Sprintf("C%d(%d)", i, x)
	}
	return fmt.Sprintf("V%d(%d)", i, x)
}

func (s *session) use(i int, kind, via string, x int) (out string) {
	if via == "host" {
		h, ok := s.handles[i]
		if !ok || h.Kind() != reflect.Func {
			return "nohandle"
		}
		defer func() {
			if r := recover(); r != nil {
				out = "crash:" + strings.ReplaceAll(fmt.Sprint(r), " ", "_")
			}
		}()
		res := h.Call([]reflect.Value{reflect.ValueOf(x)})
		if len(res) != 1 {
			return "badresult"
		}
		return fmt.Sprint(res[0].Interface())
	}
	v, o := s.eval(useExpr(i, kind, x))
	if o != "" {
		return o
	}
	if !v.IsValid() {
		return "novalue"
	}
	return fmt.Sprint(v.Interface())
}

var gidRe = regexp.MustCompile(`^goroutine (\d+) \[([^\],]+)`)

// evalGoroutines returns the status of every goroutine started by EvalWithContext that is still alive.
func evalGoroutines(buf *[]byte) []string {
	for {
		n := runtime.Stack(*buf, true)
		if n == len(*buf) {
			*buf = make([]byte, 2*len(*buf))
			continue
		}
		var out []string
		for _, blk := range bytes.Split((*buf)[:n], []byte("\n\n")) {
			if m := gidRe.FindSubmatch(blk); m != nil && bytes.Contains(blk, []byte("EvalWithContext.func1")) {
				out = append(out, string(m[2]))
			}
		}
		return out
	}
}

var stackBuf = make([]byte, 1<<18)
var slowWaits int

func blockedCount(st []string) int {
	n := 0
	for _, s := range st {
		if strings.HasPrefix(s, "select") || strings.HasPrefix(s, "chan receive") {
			n++
		}
	}
	return n
}

// cancelled runs one cancelled evaluation. It returns the kind as the model needs it (an expired context is
// reported as expb / expa according to the observed order of stop() and the root-id refresh) and a note.
// Every wait is bounded: under a mutated interpreter the evaluation may not start, not block or not end.
func (s *session) cancelled(kind string, n int) (string, string) {
	s.mu.Lock()
	s.ops = nil
	s.mu.Unlock()
	base := evalGoroutines(&stackBuf) // goroutines leaked by earlier cancelled evaluations (none on the unchanged tree)
	ctx, cancel := context.WithCancel(context.Background())
	defer cancel()
	var src string
	switch kind {
	case "loop":
		src = fmt.Sprintf("for L%d := 0; ; L%d++ {}", n, n)
	case "chan":
		src = fmt.Sprintf("B%d := make(chan int)\n<-B%d", n, n)
	default:
		src = fmt.Sprintf("E%d := 1\n_ = E%d", n, n)
		cancel()
	}
	type ret struct {
		err error
	}
	rc := make(chan ret, 1)
	go func() {
		defer func() {
			if r := recover(); r != nil {
				rc <- ret{fmt.Errorf("crash: %v", r)}
			}
		}()
		_, err := s.ip.EvalWithContext(ctx, src)
		rc <- ret{err}
	}()
	// cancel once the evaluation is doing what the history says (or has returned by itself)
	var got *ret
	returned := func() bool {
		if got != nil {
			return true
		}
		select {
		case r := <-rc:
			got = &r
			return true
		default:
			return false
		}
	}
	deadline := time.Now().Add(2 * time.Second)
	switch kind {
	case "loop":
		for time.Now().Before(deadline) && !returned() {
			s.mu.Lock()
			n := len(s.ops)
			s.mu.Unlock()
			if n >= 5 {
				break
			}
			time.Sleep(20 * time.Microsecond)
		}
		cancel()
	case "chan":
		for time.Now().Before(deadline) && !returned() {
			st := evalGoroutines(&stackBuf)
			if len(st) == len(base)+1 && blockedCount(st) == blockedCount(base)+1 {
				break
			}
			time.Sleep(50 * time.Microsecond)
		}
		cancel()
	}
	note := ""
	if got == nil {
		select {
		case r := <-rc:
			got = &r
		case <-time.After(2 * time.Second):
			note = "did not return"
		}
	}
	if got != nil && got.err != context.Canceled {
		note = fmt.Sprintf("returned %v", got.err)
	}
	// the goroutine EvalWithContext started must end (after ten that did not, the wait is cut short:
	// the interpreter under test is broken and every such case is reported anyway)
	gone := false
	wait := time.Second
	if slowWaits > 10 {
		wait = 20 * time.Millisecond
	}
	for deadline = time.Now().Add(wait); time.Now().Before(deadline); time.Sleep(50 * time.Microsecond) {
		if len(evalGoroutines(&stackBuf)) <= len(base) {
			gone = true
			break
		}
	}
	if !gone {
		slowWaits++
		note += " goroutine still alive"
	}
	if kind != "expired" {
		return kind, note
	}
	// stop() before Execute refreshed the root frame: the operations ran under the new id
	s.mu.Lock()
	defer s.mu.Unlock()
	for _, o := range s.ops {
		if o.rid > s.lastRID {
			return "expb", note
		}
	}
	return "expa", note
}

// runHistory runs the history; cancels = false gives the reference (twin) run.
func runHistory(h History, cancels bool) (results []string, line string, finalID uint64, notes []string) {
	s := newSession()
	interp.VerifSetStepHook(s.hook)
	defer interp.VerifSetStepHook(nil) // the hook is removed after every case
	kinds := map[int]string{}
	ndef, ncancel := 0, 0
	var parts []string
	for _, e := range h.Evs {
		switch e.Op {
		case "def":
			if out := s.define(ndef, e); out != "" {
				notes = append(notes, fmt.Sprintf("definition %d (%s): %s", ndef, e.Kind, out))
			}
			kinds[ndef] = e.Kind
			ndef++
			parts = append(parts, fmt.Sprintf("(def %s %d %d)", e.Kind, e.A, e.B))
		case "use":
			results = append(results, s.use(e.D, kinds[e.D], e.Via, e.X))
			parts = append(parts, fmt.Sprintf("(use %d %s %d)", e.D, e.Via, e.X))
		case "cancel":
			if !cancels {
				continue
			}
			s.mu.Lock()
			if n := len(s.ops); n > 0 {
				s.lastRID = s.ops[n-1].rid
			}
			s.mu.Unlock()
			k, note := s.cancelled(e.Kind, ncancel)
			ncancel++
			if note != "" {
				notes = append(notes, "cancelled evaluation: "+note)
			}
			parts = append(parts, "(cancel "+k+")")
		}
	}
	// the interpreter id as the last operation saw it
	if _, out := s.eval("0"); out != "" {
		notes = append(notes, "final probe: "+out)
	}
	s.mu.Lock()
	if n := len(s.ops); n > 0 {
		finalID = s.ops[n-1].rid
	}
	s.mu.Unlock()
	return results, "C10 hist " + strings.Join(parts, " "), finalID, notes
}

// ---- classes and generation -------------------------------------------------------------------------

// classOf: the decidable class of use number u (index into the events) of the history.
// F10: the definition is a closure, a method value made inside a function, or is called directly by the host,
// and a cancelled evaluation lies between its definition and this use.
func classOf(h History, u int) string {
	e := h.Evs[u]
	defAt, nd := -1, 0
	kind := ""
	for i, x := range h.Evs {
		if x.Op == "def" {
			if nd == e.D {
				defAt, kind = i, x.Kind
			}
			nd++
		}
	}
	cancelBetween := false
	for i := defAt + 1; i < u; i++ {
		if h.Evs[i].Op == "cancel" {
			cancelBetween = true
		}
	}
	if cancelBetween && (kind == "closure" || kind == "mvfunc" || e.Via == "host") {
		return "closure-or-wrapper-after-cancel"
	}
	return ""
}

var kinds = []string{"named", "method", "closure", "mvtop", "mvfunc", "wrapper"}
var cancelKinds = []string{"loop", "chan", "expired"}

func genHistory(r *rand.Rand, domOnly bool) History {
	var h History
	nd := 1 + r.Intn(4)
	var ks []string
	for i := 0; i < nd; i++ {
		k := kinds[r.Intn(len(kinds))]
		if domOnly {
			k = []string{"named", "method", "mvtop"}[r.Intn(3)]
		}
		ks = append(ks, k)
		h.Evs = append(h.Evs, Ev{Op: "def", Kind: k, A: 1 + r.Intn(9), B: 1 + r.Intn(9)})
	}
	n := 3 + r.Intn(8)
	for i := 0; i < n; i++ {
		if r.Intn(3) == 0 {
			h.Evs = append(h.Evs, Ev{Op: "cancel", Kind: cancelKinds[r.Intn(len(cancelKinds))]})
			continue
		}
		d := r.Intn(nd)
		via := "eval"
		if ks[d] == "wrapper" || (ks[d] == "closure" && r.Intn(2) == 0) {
			via = "host"
		}
		h.Evs = append(h.Evs, Ev{Op: "use", D: d, Via: via, X: 1 + r.Intn(9)})
	}
	return h
}

func nontrivial(h History) bool {
	seenCancel := false
	for _, e := range h.Evs {
		if e.Op == "cancel" {
			seenCancel = true
		}
		if e.Op == "use" && seenCancel {
			return true
		}
	}
	return false
}

// ---- main ---------------------------------------------------------------------------------------------

func main() {
	run := common.NewRun("C10")
	run.Res.Rule = "cases = histories define* ; (use | cancelled-eval)* on one interpreter: 1-4 definitions of kinds {named function, method, closure in a variable, method value bound at top level, method value bound inside init, exported wrapper held by the host}, then 3-10 events, a use being an Eval of a call or a direct host call, a cancelled evaluation being a busy loop, a blocked channel receive or an already expired context; half of the histories use only the kinds of the proved domain; non-trivial = at least one use after a cancelled evaluation; distinct = distinct protocol line"
	defer run.Finish()
	drv, err := common.StartDriver("C10")
	if err != nil {
		run.Errorf("driver: %v", err)
		return
	}
	defer drv.Close()
	findings, err := common.LoadFindings("C10")
	if err != nil {
		run.Errorf("known findings: %v", err)
	}

	// check evaluates one history on all four sides and records the comparison.
	check := func(h History, count bool) (firstDiff string) {
		impl, line, id, notes := runHistory(h, true)
		ref, _, _, rnotes := runHistory(h, false)
		for _, n := range append(notes, rnotes...) {
			run.Errorf("history %s: %s", line, n)
		}
		ans, err := drv.Ask(line)
		if err != nil {
			run.Errorf("driver: %v", err)
			return ""
		}
		f := common.Fields(ans)
		y, g := f["y"], f["g"]
		if y == "" || g == "" {
			run.Errorf("driver answered %q to %q", ans, line)
			return ""
		}
		join := func(xs []string) string {
			if len(xs) == 0 {
				return "-"
			}
			return strings.Join(xs, ",")
		}
		im := join(impl) + ";id=" + strconv.FormatUint(id, 10)
		rf := join(ref)
		if count {
			run.Count(line, nontrivial(h))
			run.Sample(map[string]interface{}{"history": line, "impl": im, "model": y, "spec": g, "ref": rf}, 8)
			for _, e := range h.Evs {
				switch e.Op {
				case "def":
					run.Hit("def:" + e.Kind)
				case "use":
					run.Hit("use:" + e.Via)
				}
			}
			for _, p := range strings.Fields(line) {
				if strings.HasPrefix(p, "expb") || strings.HasPrefix(p, "expa") || strings.HasPrefix(p, "loop") || strings.HasPrefix(p, "chan") {
					run.Hit("cancel:" + strings.TrimSuffix(p, ")"))
				}
			}
		}
		if im != y {
			run.Disagree(common.Disagreement{Kind: "impl-vs-model", Input: h, Impl: im, Model: y, Ref: rf, Note: line})
		}
		if rf != g {
			run.Disagree(common.Disagreement{Kind: "spec-vs-ref", Input: h, Spec: g, Ref: rf, Note: line})
		}
		// the property: every use returns what it returns without the cancelled evaluations
		ui := 0
		for i, e := range h.Evs {
			if e.Op != "use" {
				continue
			}
			if ui < len(impl) && ui < len(ref) && impl[ui] != ref[ui] {
				cls := classOf(h, i)
				if count {
					run.Hit("use-differs:" + e.Via)
				}
				if firstDiff == "" {
					firstDiff = fmt.Sprintf("use %d (event %d): impl=%s ref=%s", ui, i, impl[ui], ref[ui])
					d := common.Disagreement{Kind: "impl-vs-ref", Input: h, Impl: join(impl), Model: y, Ref: rf, Finding: cls,
						Note: fmt.Sprintf("use %d (event %d) returns %s, without the cancelled evaluations %s; %s", ui, i, impl[ui], ref[ui], line)}
					if im != y {
						d.Finding, d.Note = "", "differs from the reference and from the model of the unchanged code; "+d.Note
					}
					run.Disagree(d)
				}
			}
			ui++
		}
		if count {
			if firstDiff == "" {
				run.Hit("history:all-uses-same")
			} else {
				run.Hit("history:some-use-differs")
			}
		}
		return firstDiff
	}

	if run.Replay != "" {
		b, err := os.ReadFile(run.Replay)
		if err != nil {
			run.Errorf("replay: %v", err)
			return
		}
		var rp struct {
			Input History `json:"input"`
		}
		if err := json.Unmarshal(b, &rp); err != nil {
			run.Errorf("replay: %v", err)
			return
		}
		check(rp.Input, true)
		return
	}
	for _, f := range findings {
		var h History
		if err := json.Unmarshal(f.Replay, &h); err != nil {
			run.Errorf("finding %s: bad replay: %v", f.ID, err)
			continue
		}
		// replay without recording disagreements of its own
		saved := run.Res.Disagreements
		savedDist := map[string]int{}
		for k, v := range run.Res.Distribution {
			savedDist[k] = v
		}
		diff := check(h, false)
		run.Res.Disagreements, run.Res.Distribution = saved, savedDist
		run.Res.Known = append(run.Res.Known, common.KnownReplay{ID: f.ID, Status: f.Status, What: f.What, StillFails: diff != "", Detail: diff})
	}
	n := 200
	if run.Thorough() {
		n = 5000
	}
	for i := 0; i < n; i++ {
		check(genHistory(run.Rng, i%2 == 0), true)
	}
}
