package main

import (
	"bytes"
	"context"
	"encoding/json"
	"fmt"
	"math/rand"
	"os"
	"os/exec"
	"path"
	"sort"
	"strings"
	"time"

	"github.com/traefik/yaegi/interp"
	"github.com/traefik/yaegi/stdlib"
	"verif/harness/common"
)

// Prog is a whole program on a tree. Every package prints "init <dir>" from an init function and
// exports M() returning "<dir>(<M() of its imports>)", <dir> being its own directory relative to the
// top of the tree; the main function prints "main " + M() for each of its imports.
type Prog struct {
	// Entry: how the program is handed to the interpreter
	//   eval : Eval(source of the main file)                          (main outside GOPATH)
	//   top  : EvalPath("main.go"), the file at the top of the tree    (main outside GOPATH, relative imports)
	//   file : EvalPath("<gopath>/src/<Main>/main.go")               (main package inside GOPATH)
	//   path : EvalPath("<Main>")  — the main package by import path   (main package inside GOPATH)
	//   dot  : chdir to <gopath>/src/<Main>; EvalPath("./")           (disk only)
	Entry   string     `json:"entry"`
	Main    string     `json:"main,omitempty"` // directory of the main package below GOPATH/src
	Imports []string   `json:"imports"`        // imports of the main file, in source order
	Pkgs    []*pkgInfo `json:"pkgs"`           // every other package directory with its imports
}

// outcome of a run, canonical.
type outcome struct {
	Status string   // ok | cycle | notfound | err:<…> | timeout | crash
	Inits  []string // directories in the order their init ran
	Main   string   // lines printed by main, joined with ";"
}

func (o outcome) String() string {
	if o.Status != "ok" {
		return o.Status
	}
	return "ok inits=" + strings.Join(o.Inits, ",") + " main=" + o.Main
}

// sameAs compares an interpreter outcome with a reference outcome: same status; on success the same
// set of packages, each initialised exactly once, and the same markers printed by main. The order of
// initialisation among independent packages is not part of this property.
func sameAs(a, b outcome) bool {
	if errClass(a.Status) != errClass(b.Status) {
		return false
	}
	if a.Status != "ok" {
		return true
	}
	x, y := append([]string{}, a.Inits...), append([]string{}, b.Inits...)
	sort.Strings(x)
	sort.Strings(y)
	return strings.Join(x, ",") == strings.Join(y, ",") && a.Main == b.Main
}

// errClass: which error is reported first when a program has several defects is not compared;
// a hang or a crash is never an error report.
func errClass(s string) string {
	switch s {
	case "ok", "timeout", "crash", "fuel":
		return s
	}
	return "error"
}

func pkgSource(name, dir string, imports []string) string {
	var b strings.Builder
	fmt.Fprintf(&b, "package %s\n\nimport \"fmt\"\n", name)
	for k, im := range imports {
		fmt.Fprintf(&b, "import p%d %q\n", k, im)
	}
	fmt.Fprintf(&b, "\nfunc init() { fmt.Println(\"init %s\") }\n\n", dir)
	b.WriteString("func M() string { return \"" + dir + "(\"")
	for k := range imports {
		if k > 0 {
			b.WriteString(" + \",\"")
		}
		fmt.Fprintf(&b, " + p%d.M()", k)
	}
	b.WriteString(" + \")\" }\n")
	return b.String()
}

func mainSource(imports []string) string {
	var b strings.Builder
	b.WriteString("package main\n\nimport \"fmt\"\n")
	for k, im := range imports {
		fmt.Fprintf(&b, "import p%d %q\n", k, im)
	}
	b.WriteString("\nfunc main() {\n")
	for k := range imports {
		fmt.Fprintf(&b, "\tfmt.Println(\"main \" + p%d.M())\n", k)
	}
	b.WriteString("\tfmt.Println(\"done\")\n}\n")
	return b.String()
}

func (p *Prog) mainDir(t *Tree) string {
	switch p.Entry {
	case "eval", "top":
		return "."
	}
	return t.GoPath + "/src/" + p.Main
}

// fill writes the sources of the program into the tree.
func (p *Prog) fill(t *Tree) {
	for _, k := range p.Pkgs {
		t.Files[k.Dir+"/"+k.Name+".go"] = pkgSource(k.Name, k.Dir, k.Imports)
	}
	md := p.mainDir(t)
	if md == "." {
		t.Files["main.go"] = mainSource(p.Imports)
	} else {
		t.Files[md+"/main.go"] = mainSource(p.Imports)
	}
}

func isRel(ip string) bool { return strings.HasPrefix(ip, "./") || strings.HasPrefix(ip, "../") }

// ---------------------------------------------------------------- reference

// refRun computes what the Go rule prescribes: packages keyed by directory, each initialised once,
// imports resolved from the importing directory; a cycle is an error.
func refRun(v *view, p *Prog) outcome {
	byDir := map[string]*pkgInfo{}
	for _, k := range p.Pkgs {
		byDir[k.Dir] = k
	}
	done := map[string]string{} // dir → marker
	inprog := map[string]bool{}
	var inits []string
	status := "ok"
	gsRel := v.t.GoPath + "/src"
	// resolve returns the directory (tree relative) an import denotes from the importing directory
	resolve := func(importerDir, ip string) string {
		if isRel(ip) {
			return path.Join(importerDir, ip)
		}
		if el := strings.Split(ip, "/"); in(el[:len(el)-1], "vendor") {
			status = "notallowed" // cmd/go: "must be imported as …" / "use of vendored package not allowed"
			return ""
		}
		if importerDir == gsRel || strings.HasPrefix(importerDir, gsRel+"/") {
			rel := strings.TrimPrefix(strings.TrimPrefix(importerDir, gsRel), "/")
			if rel != "" { // GOPATH/src itself is not inside a workspace directory
				r := v.refResolve(rel, ip)
				if r == "none" {
					return ""
				}
				return strings.TrimPrefix(strings.TrimPrefix(r, v.top), "/")
			}
		}
		// outside GOPATH: no vendor directories apply
		if d := v.gs() + "/" + ip; v.dirSet[d] {
			return gsRel + "/" + ip
		}
		return ""
	}
	var visit func(dir string) string
	visit = func(dir string) string {
		if m, ok := done[dir]; ok {
			return m
		}
		if inprog[dir] {
			status = "cycle"
			return ""
		}
		k := byDir[dir]
		if k == nil {
			status = "notfound"
			return ""
		}
		inprog[dir] = true
		var ms []string
		for _, im := range k.Imports {
			d := resolve(dir, im)
			if d == "" {
				if status == "ok" {
					status = "notfound"
				}
				return ""
			}
			ms = append(ms, visit(d))
			if status != "ok" {
				return ""
			}
		}
		inprog[dir] = false
		inits = append(inits, dir)
		m := dir + "(" + strings.Join(ms, ",") + ")"
		done[dir] = m
		return m
	}
	var lines []string
	md := p.mainDir(v.t)
	for _, im := range p.Imports {
		d := resolve(md, im)
		if d == "" {
			if status == "ok" {
				status = "notfound"
			}
			return outcome{Status: status}
		}
		m := visit(d)
		if status != "ok" {
			return outcome{Status: status}
		}
		lines = append(lines, "main "+m)
	}
	return outcome{Status: "ok", Inits: inits, Main: strings.Join(lines, ";")}
}

// goRun asks the toolchain itself (GOPATH mode) on the materialised tree.
func goRun(top string, t *Tree, p *Prog) (outcome, string) {
	dir := top
	args := []string{"run", "main.go"}
	if md := p.mainDir(t); md != "." {
		dir = top + "/" + md
		args = []string{"run", "."}
	}
	cmd := exec.Command("go", args...)
	cmd.Dir = dir
	env := []string{}
	for _, e := range os.Environ() {
		if strings.HasPrefix(e, "GOFLAGS=") || strings.HasPrefix(e, "GOPATH=") || strings.HasPrefix(e, "GO111MODULE=") || strings.HasPrefix(e, "PWD=") {
			continue
		}
		env = append(env, e)
	}
	cmd.Env = append(env, "GO111MODULE=off", "GOPATH="+top+"/"+t.GoPath, "GOFLAGS=", "PWD="+dir)
	var so, se bytes.Buffer
	cmd.Stdout, cmd.Stderr = &so, &se
	err := cmd.Run()
	if err != nil {
		msg := se.String()
		switch {
		case strings.Contains(msg, "import cycle not allowed"):
			return outcome{Status: "cycle"}, msg
		case strings.Contains(msg, "must be imported as") || strings.Contains(msg, "use of vendored package not allowed"):
			return outcome{Status: "notallowed"}, msg
		case strings.Contains(msg, "cannot find package") || strings.Contains(msg, "no Go files in"):
			return outcome{Status: "notfound"}, msg
		}
		return outcome{Status: "err:" + common.FirstLine(msg)}, msg
	}
	return parseOutput(so.String(), "ok"), ""
}

func parseOutput(stdout, status string) outcome {
	o := outcome{Status: status}
	var lines []string
	for _, l := range strings.Split(strings.TrimSpace(stdout), "\n") {
		switch {
		case strings.HasPrefix(l, "init "):
			o.Inits = append(o.Inits, strings.TrimPrefix(l, "init "))
		case strings.HasPrefix(l, "main "):
			lines = append(lines, l)
		}
	}
	o.Main = strings.Join(lines, ";")
	if status == "ok" && !strings.HasSuffix(strings.TrimSpace(stdout), "done") {
		o.Status = "err:main did not finish"
	}
	return o
}

// ---------------------------------------------------------------- implementation

// implRun runs the real interpreter. For disk views the tree is already materialised at v.top.
func implRun(v *view, p *Prog, timeout time.Duration) (res outcome) {
	var so, se bytes.Buffer
	opts := interp.Options{GoPath: v.goPath(), Stdout: &so, Stderr: &se}
	if !v.disk {
		opts.SourcecodeFilesystem = v.t.mapFS()
	}
	cwd, _ := os.Getwd()
	if v.disk {
		wd := v.top
		if p.Entry == "dot" {
			wd = v.top + "/" + p.mainDir(v.t)
		}
		if err := os.Chdir(wd); err != nil {
			return outcome{Status: "err:chdir"}
		}
		defer os.Chdir(cwd)
	}
	type ret struct {
		err   error
		crash string
	}
	ch := make(chan ret, 1)
	ctx, cancel := context.WithTimeout(context.Background(), timeout)
	defer cancel()
	go func() {
		var r ret
		defer func() {
			if x := recover(); x != nil {
				r.crash = fmt.Sprint(x)
			}
			ch <- r
		}()
		i := interp.New(opts)
		if err := i.Use(stdlib.Symbols); err != nil {
			r.err = err
			return
		}
		switch p.Entry {
		case "eval":
			_, r.err = i.EvalWithContext(ctx, mainSource(p.Imports))
		case "top":
			_, r.err = i.EvalPathWithContext(ctx, "main.go")
		case "file":
			_, r.err = i.EvalPathWithContext(ctx, v.t.GoPath+"/src/"+p.Main+"/main.go")
		case "path":
			_, r.err = i.EvalPathWithContext(ctx, p.Main)
		case "dot":
			_, r.err = i.EvalPathWithContext(ctx, "./")
		}
	}()
	var r ret
	select {
	case r = <-ch:
	case <-time.After(timeout + 2*time.Second):
		return outcome{Status: "timeout"}
	}
	if r.crash != "" {
		return outcome{Status: "crash"}
	}
	if r.err != nil {
		msg := r.err.Error()
		switch {
		case strings.Contains(msg, "import cycle not allowed"):
			return outcome{Status: "cycle"}
		case strings.Contains(msg, "unable to find source related to") || strings.Contains(msg, "no Go files in"):
			return outcome{Status: "notfound"}
		case strings.Contains(msg, "must be imported as"):
			return outcome{Status: "notallowed"}
		case strings.Contains(msg, "not in GOPATH"):
			return outcome{Status: "notingopath"}
		case ctx.Err() != nil:
			return outcome{Status: "timeout"}
		}
		return outcome{Status: "err:" + common.FirstLine(strip(msg, v.top))}
	}
	return parseOutput(so.String(), "ok")
}

// implRunIsolated runs implRun in a child process: a runaway recursion (stack overflow is fatal in Go)
// or a hang becomes an outcome instead of killing the harness.
func implRunIsolated(c caseT, timeout time.Duration) outcome {
	b, _ := json.Marshal(c)
	cmd := exec.Command(os.Args[0], "-child")
	cmd.Stdin = bytes.NewReader(b)
	var so bytes.Buffer
	cmd.Stdout = &so
	cmd.Env = append(os.Environ(), "GOMEMLIMIT=2GiB")
	if err := cmd.Start(); err != nil {
		return outcome{Status: "err:child " + err.Error()}
	}
	done := make(chan error, 1)
	go func() { done <- cmd.Wait() }()
	select {
	case err := <-done:
		if err != nil {
			return outcome{Status: "crash"}
		}
	case <-time.After(timeout + 10*time.Second):
		cmd.Process.Kill()
		<-done
		return outcome{Status: "timeout"}
	}
	var o outcome
	if err := json.Unmarshal(so.Bytes(), &o); err != nil {
		return outcome{Status: "crash"}
	}
	return o
}

// childMain: run one program read from stdin, print the outcome.
func childMain() {
	var c caseT
	if err := json.NewDecoder(os.Stdin).Decode(&c); err != nil {
		os.Exit(3)
	}
	top := ""
	if c.Disk {
		d, err := os.MkdirTemp("", "verif-c16-child-")
		if err != nil {
			os.Exit(3)
		}
		defer os.RemoveAll(d)
		top = d
		if err := c.Tree.materialise(top); err != nil {
			os.RemoveAll(d)
			os.Exit(3)
		}
	}
	v := newView(c.Tree, c.Disk, top)
	o := implRun(v, c.Prog, 8*time.Second)
	b, _ := json.Marshal(o)
	if top != "" {
		os.RemoveAll(top)
	}
	os.Stdout.Write(b)
	os.Exit(0)
}

// ---------------------------------------------------------------- model line

// progLine renders the program for the driver:
//   imports FS gopath wd name (PKG…) maindir gta|direct (imports…) (imports of the main file)
func progLine(v *view, p *Prog, wd string) string {
	var pk []string
	dirOf := func(d string) string { return v.abs(d) }
	for _, k := range p.Pkgs {
		key := dirOf(k.Dir)
		if isRel(k.IPath) {
			key = k.Dir // reached through the working directory, not through GOPATH
		}
		items := []string{common.Q(key)}
		for _, im := range k.Imports {
			items = append(items, common.Q(im))
		}
		pk = append(pk, common.L(items...))
	}
	// interp.name: Use(stdlib.Symbols) compiles the generic sources of the standard library with
	// Compile(src), which leaves DefaultSourceName behind; only EvalPath(file) replaces it
	name, specstart := "_.go", "-"
	imports := p.Imports
	switch p.Entry {
	case "eval":
		name = "_.go"
	case "top":
		name = "main.go"
	case "file":
		name = v.t.GoPath + "/src/" + p.Main + "/main.go"
		specstart = p.Main
	case "path":
		specstart = p.Main
	case "dot":
		specstart = p.Main
	}
	if p.Entry == "path" || p.Entry == "dot" {
		// the main package is itself imported: by its import path, or as "./"
		key := dirOf(p.mainDir(v.t))
		imp := p.Main
		if p.Entry == "dot" {
			key, imp = ".", "./"
		}
		items := []string{common.Q(key)}
		for _, im := range p.Imports {
			items = append(items, common.Q(im))
		}
		pk = append(pk, common.L(items...))
		imports = []string{imp}
	}
	_ = specstart
	via := "gta" // the imports of a main file pass through gta; the argument of EvalPath does not
	if p.Entry == "path" || p.Entry == "dot" {
		via = "direct"
	}
	maindir := v.abs(p.mainDir(v.t))
	if p.mainDir(v.t) == "." {
		maindir = "." // the working directory
	}
	return "C16 imports " + v.fsTerm + " " + common.Q(v.goPath()) + " " + common.Q(wd) + " " + common.Q(name) + " " +
		common.L(pk...) + " " + common.Q(maindir) + " " + via + " " + common.QL(imports) + " " + common.QL(p.Imports)
}

// modelOutcome parses the y= / g= field of the driver: ok:<dirs> | cycle:<p> | notfound:<p> | err | fuel
func modelOutcome(v *view, p *Prog, s string) outcome {
	switch {
	case strings.HasPrefix(s, "ok:"):
		body := strings.Trim(strings.TrimPrefix(s, "ok:"), "\"")
		var inits []string
		if body != "" {
			for _, d := range strings.Split(body, ",") {
				d = strings.TrimPrefix(strings.TrimPrefix(d, v.top), "/")
				if d == "." || d == "" {
					d = p.mainDir(v.t)
				}
				inits = append(inits, d)
			}
		}
		// the main package is not one of the marker packages
		if (p.Entry == "path" || p.Entry == "dot" || p.Entry == "file") && len(inits) > 0 && inits[len(inits)-1] == p.mainDir(v.t) {
			inits = inits[:len(inits)-1]
		}
		return outcome{Status: "ok", Inits: inits}
	case strings.HasPrefix(s, "cycle"):
		return outcome{Status: "cycle"}
	case strings.HasPrefix(s, "notfound"):
		return outcome{Status: "notfound"}
	case strings.HasPrefix(s, "notallowed"):
		return outcome{Status: "notallowed"}
	case strings.HasPrefix(s, "notingopath"):
		return outcome{Status: "notingopath"}
	}
	return outcome{Status: s}
}

// ---------------------------------------------------------------- generator

// genProg draws a program: a layout (genLayout), an import graph over its package directories that is
// acyclic and resolvable by the reference rule (diamonds arise freely since the universe of import
// paths is small), then — by feature — a cycle, relative imports, an entry mode.
func genProg(r *rand.Rand, ft features, disk bool) (*Tree, *Prog) {
	gp, pkgs := genLayout(r, ft)
	t := &Tree{GoPath: gp, Files: map[string]string{}}
	for _, k := range pkgs {
		t.Files[k.Dir+"/"+k.Name+".go"] = "package " + k.Name + "\n"
	}
	v := newView(t, false, "")
	universe := map[string]bool{}
	for _, k := range pkgs {
		universe[k.IPath] = true
	}
	var ips []string
	for ip := range universe {
		ips = append(ips, ip)
	}
	sort.Strings(ips)
	// rank directories; a directory may import a path only if it resolves to a lower rank
	perm := r.Perm(len(pkgs))
	rank := map[string]int{}
	for i, k := range pkgs {
		rank[k.Dir] = perm[i]
	}
	resolveDir := func(importerRel, ip string) string {
		d := v.refResolve(importerRel, ip)
		if d == "none" {
			return ""
		}
		return d
	}
	for _, k := range pkgs {
		n := r.Intn(3)
		for tries := 0; tries < 6 && len(k.Imports) < n; tries++ {
			ip := pick(r, ips)
			d := resolveDir(k.Rel, ip)
			if d == "" || rank[d] >= rank[k.Dir] || in(k.Imports, ip) || ip == k.IPath {
				continue
			}
			k.Imports = append(k.Imports, ip)
		}
	}
	p := &Prog{Pkgs: pkgs}
	// entry
	entries := []string{"eval", "eval", "path", "path", "top", "file", "file"}
	if disk {
		entries = append(entries, "dot")
	}
	p.Entry = pick(r, entries)
	if p.Entry == "path" || p.Entry == "file" || p.Entry == "dot" {
		// the main package lives in a fresh directory below GOPATH/src, next to or below a package
		host := pkgs[r.Intn(len(pkgs))].Rel
		if i := strings.Index(host, "/vendor/"); i >= 0 {
			host = host[:i]
		}
		if strings.HasPrefix(host, "vendor/") || host == "vendor" {
			host = "cmdhost"
		}
		switch r.Intn(3) {
		case 0:
			p.Main = host + "/cmd"
		case 1:
			p.Main = path.Dir(host) + "/cmdtool"
			if strings.HasPrefix(p.Main, "./") {
				p.Main = p.Main[2:]
			}
		default:
			p.Main = "zmain"
		}
		for n := r.Intn(3); n > 0; n-- {
			// main's own vendor directory
			ip := pick(r, ips)
			rel := p.Main + "/vendor/" + ip
			k := &pkgInfo{Dir: gp + "/src/" + rel, Rel: rel, IPath: ip, Name: pkgName(ip)}
			if !hasPkg(p.Pkgs, k.Dir) {
				p.Pkgs = append(p.Pkgs, k)
				t.Files[k.Dir+"/"+k.Name+".go"] = "package " + k.Name + "\n"
				v = newView(t, false, "")
			}
		}
	}
	// imports of main
	n := 1 + r.Intn(3)
	importer := p.Main
	for tries := 0; tries < 8 && len(p.Imports) < n; tries++ {
		ip := pick(r, ips)
		if in(p.Imports, ip) {
			continue
		}
		ok := false
		if p.Main != "" {
			ok = resolveDir(importer, ip) != ""
		} else {
			ok = v.goDirs[v.gs()+"/"+ip]
		}
		if ok {
			p.Imports = append(p.Imports, ip)
		}
	}
	// relative imports (main outside GOPATH)
	if p.Entry == "top" {
		nrel := 1 + r.Intn(2)
		for j := 0; j < nrel; j++ {
			d := fmt.Sprintf("rel%d", j+1)
			k := &pkgInfo{Dir: d, Rel: "", IPath: "./" + d, Name: d}
			if len(ips) > 0 && r.Intn(2) == 0 {
				ip := pick(r, ips)
				if v.goDirs[v.gs()+"/"+ip] {
					k.Imports = append(k.Imports, ip)
				}
			}
			if j > 0 && r.Intn(2) == 0 {
				k.Imports = append(k.Imports, "../rel1") // the directory main imports as ./rel1 (F16-10)
			}
			if r.Intn(3) == 0 {
				// a package below a relatively imported one, reached as ./sub from it and as ./relN/sub from main
				sub := &pkgInfo{Dir: d + "/sub", Rel: "", IPath: "./" + d + "/sub", Name: "sub" + fmt.Sprint(j+1)}
				p.Pkgs = append(p.Pkgs, sub)
				k.Imports = append(k.Imports, "./sub")
				if r.Intn(2) == 0 {
					p.Imports = append(p.Imports, "./"+d+"/sub")
				}
			}
			p.Pkgs = append(p.Pkgs, k)
			p.Imports = append(p.Imports, "./"+d)
		}
	}
	if len(p.Imports) == 0 {
		p.Imports = []string{pkgs[0].IPath}
		if p.Main != "" && resolveDir(p.Main, pkgs[0].IPath) == "" {
			p.Imports = nil
		}
	}
	// a cycle: a back edge from a dependency to one of its dependents
	if r.Intn(6) == 0 {
		for tries := 0; tries < 10; tries++ {
			k := pkgs[r.Intn(len(pkgs))]
			if len(k.Imports) == 0 {
				continue
			}
			dep := resolveDir(k.Rel, k.Imports[0])
			for _, q := range pkgs {
				if q.Dir == dep && resolveDir(q.Rel, k.IPath) == k.Dir && !in(q.Imports, k.IPath) {
					q.Imports = append(q.Imports, k.IPath)
					tries = 10
					break
				}
			}
		}
	}
	// an import path with a vendor element (F16-3): rejected by the toolchain and by importSrc alike
	if r.Intn(12) == 0 {
		k := pkgs[r.Intn(len(pkgs))]
		if i := strings.Index(k.Rel, "vendor/"); i >= 0 && (i == 0 || k.Rel[i-1] == '/') {
			ip := k.Rel[i:]
			if r.Intn(2) == 0 {
				ip = k.Rel
			}
			if q := pkgs[r.Intn(len(pkgs))]; r.Intn(2) == 0 && q != k {
				q.Imports = append(q.Imports, ip)
			} else {
				p.Imports = append(p.Imports, ip)
			}
		}
	}
	// an import that the Go rule does not resolve from the importing package: unknown everywhere, or known only
	// to the vendor directory of the main package, or of another package
	if r.Intn(10) == 0 {
		k := pkgs[r.Intn(len(pkgs))]
		var cands []string
		for _, q := range p.Pkgs {
			if q.IPath != k.IPath && !isRel(q.IPath) && resolveDir(k.Rel, q.IPath) == "" {
				cands = append(cands, q.IPath)
			}
		}
		cands = append(cands, "nowhere/"+pick(r, elemNames))
		k.Imports = append(k.Imports, pick(r, cands))
	}
	// F16-11 (repaired by 657b966, kept in the default stream): a package outside the main package imports what
	// only the main package's vendor directory holds
	if (p.Entry == "file" || p.Entry == "path" || p.Entry == "dot") && r.Intn(4) == 0 {
		ip := "onlymain/" + pick(r, elemNames)
		rel := p.Main + "/vendor/" + ip
		q := &pkgInfo{Dir: gp + "/src/" + rel, Rel: rel, IPath: ip, Name: pkgName(ip)}
		p.Pkgs = append(p.Pkgs, q)
		t.Files[q.Dir+"/"+q.Name+".go"] = "package " + q.Name + "\n"
		v = newView(t, false, "")
		p.Imports = append(p.Imports, ip)
		k := pkgs[r.Intn(len(pkgs))]
		if resolveDir(k.Rel, ip) == "" || r.Intn(3) == 0 {
			k.Imports = append(k.Imports, ip)
		}
	}
	if md := p.mainDir(t); md != "." {
		t.Files[md+"/main.go"] = "package main\n"
	}
	addOddities(r, t, p.Pkgs)
	p.fill(t)
	return t, p
}

func hasPkg(pkgs []*pkgInfo, dir string) bool {
	for _, k := range pkgs {
		if k.Dir == dir {
			return true
		}
	}
	return false
}
