package main

import (
	"math/rand"
	"path"
	"sort"
	"strings"
)

var elemNames = []string{"a", "b", "c", "lib", "app", "x", "y", "util", "k8s.io", "foo"}

func pick(r *rand.Rand, xs []string) string { return xs[r.Intn(len(xs))] }

// features gate the constructs that known divergences depend on (DESIGN 2.6): the default stream
// draws from the domain of the proved theorems, the out-of-domain stream switches them on.
type features struct {
	// Wild: `vendor`/`main`/`src` as ordinary element names, roots and paths that importSrc never produces
	// (unclean, not directories of the tree). Everything else — repeated elements between roots and paths,
	// GOPATH/src/vendor, files named vendor, directories without Go files, a main package with its own
	// vendor directory, every entry mode — belongs to the default stream since the repairs of round 3.
	Wild bool
}

// genImportPath: depth 1..4.
func genImportPath(r *rand.Rand, pool []string) string {
	n := 1 + r.Intn(4)
	if r.Intn(3) == 0 {
		n = 1
	}
	var el []string
	for i := 0; i < n; i++ {
		el = append(el, pick(r, pool))
	}
	return strings.Join(el, "/")
}

// pkgInfo describes one package directory of a generated tree.
type pkgInfo struct {
	Dir     string   `json:"dir"`               // relative to the top of the tree
	Rel     string   `json:"rel"`               // relative to GOPATH/src
	IPath   string   `json:"ipath"`             // the import path it answers to (below its nearest vendor, or Rel)
	Name    string   `json:"name"`              // package name
	Imports []string `json:"imports,omitempty"` // import paths, in source order
}

// genLayout draws the directories of a tree: packages below GOPATH/src at depth 1..4, vendor
// directories at several levels (below packages, below their ancestors, nested below vendored
// packages), the same import path in several places.
func genLayout(r *rand.Rand, ft features) (goPath string, pkgs []*pkgInfo) {
	goPath = "gp"
	pool := elemNames[:4+r.Intn(len(elemNames)-3)]
	if ft.Wild && r.Intn(2) == 0 {
		pool = append(append([]string{}, pool...), "vendor", "main", "src")
	}
	seen := map[string]bool{}
	addPkg := func(rel, ipath string) *pkgInfo {
		if seen[rel] || ipath == "main" || ipath == "main/main" || path.Base(ipath) == "vendor" {
			// the import path "main" cannot be imported at all; a package directory that is itself named
			// vendor is treated specially by cmd/go ("vendor" alone cannot be imported)
			return nil
		}
		// a package directory must not be an ancestor `vendor` itself
		seen[rel] = true
		p := &pkgInfo{Dir: goPath + "/src/" + rel, Rel: rel, IPath: ipath, Name: pkgName(ipath)}
		pkgs = append(pkgs, p)
		return p
	}
	var universe []string
	nTop := 2 + r.Intn(4)
	for i := 0; i < nTop; i++ {
		ip := genImportPath(r, pool)
		if !ft.Wild && r.Intn(2) == 0 && overlapsAny(ip, universe) {
			continue // half of the trees keep distinct import paths free of shared elements
		}
		if addPkg(ip, ip) != nil {
			universe = append(universe, ip)
		}
	}
	for len(pkgs) == 0 {
		ip := pick(r, pool)
		if addPkg(ip, ip) != nil {
			universe = append(universe, ip)
		}
	}
	// import paths that exist only vendored
	for n := r.Intn(3); n > 0; n-- {
		ip := genImportPath(r, pool)
		if !ft.Wild && r.Intn(2) == 0 && overlapsAny(ip, universe) {
			continue
		}
		universe = append(universe, ip)
	}
	// sub-packages of existing ones (import path extends another)
	// a doubled path "e/e" next to "e" (F16-7), a path below the directory of the importing package (F16-1)
	if r.Intn(6) == 0 {
		e := pick(r, pool)
		for _, ip := range []string{e, e + "/" + e} {
			if addPkg(ip, ip) != nil {
				universe = append(universe, ip)
			}
		}
	}
	if r.Intn(4) == 0 {
		host := pkgs[r.Intn(len(pkgs))]
		ip := pick(r, universe)
		addPkg(host.Rel+"/"+ip, host.Rel+"/"+ip) // GOPATH/src/<host>/<ip> next to GOPATH/src/<ip>
	}
	if ft.Wild || r.Intn(2) == 0 {
		base := pick(r, universe)
		ip := base + "/" + pick(r, pool)
		if addPkg(ip, ip) != nil {
			universe = append(universe, ip)
		}
	}
	nVend := r.Intn(6)
	for i := 0; i < nVend; i++ {
		// host: a package directory, one of its ancestors, or GOPATH/src itself
		host := pkgs[r.Intn(len(pkgs))].Rel
		for up := r.Intn(3); up > 0 && host != ""; up-- {
			host = path.Dir(host)
			if host == "." {
				host = ""
			}
		}
		ip := pick(r, universe)
		rel := strings.TrimPrefix(host+"/vendor/"+ip, "/")
		addPkg(rel, ip)
	}
	sort.Slice(pkgs, func(i, j int) bool { return pkgs[i].Rel < pkgs[j].Rel })
	return goPath, pkgs
}

// overlapsAny: in the default stream distinct import paths share no element (the overlap removal of
// effectivePkg is then the identity); shared elements are an out-of-domain feature.
func overlapsAny(ip string, others []string) bool {
	el := map[string]bool{}
	for _, o := range others {
		for _, e := range strings.Split(o, "/") {
			el[e] = true
		}
	}
	seen := map[string]bool{}
	for _, e := range strings.Split(ip, "/") {
		if el[e] || seen[e] {
			return true
		}
		seen[e] = true
	}
	return false
}

func pkgName(ipath string) string {
	b := path.Base(ipath)
	b = strings.NewReplacer(".", "_", "-", "_").Replace(b)
	if b == "main" || b == "vendor" || b == "src" {
		b = "p" + b
	}
	return b
}

// structTree builds a tree whose files are only there to make directories packages.
func structTree(r *rand.Rand, ft features) (*Tree, []*pkgInfo) {
	gp, pkgs := genLayout(r, ft)
	t := &Tree{GoPath: gp, Files: map[string]string{}}
	for _, p := range pkgs {
		t.Files[p.Dir+"/"+p.Name+".go"] = "package " + p.Name + "\n"
	}
	addOddities(r, t, pkgs)
	return t, pkgs
}

// addOddities: directories without Go files where a package is looked for (F16-2), regular files where a
// vendor directory or a package directory is looked for (F16-9).
func addOddities(r *rand.Rand, t *Tree, pkgs []*pkgInfo) {
	var ips []string
	for _, p := range pkgs {
		ips = append(ips, p.IPath)
	}
	hostOf := func() string { // the directory of a package or one of its ancestors, down to GOPATH/src
		d := pkgs[r.Intn(len(pkgs))].Dir
		for up := r.Intn(3); up > 0 && d != t.GoPath+"/src"; up-- {
			d = path.Dir(d)
		}
		return d
	}
	isFile := func(x string) bool { _, ok := t.Files[x]; return ok }
	underFile := func(x string) bool {
		for d := x; d != "." && d != "/"; d = path.Dir(d) {
			if isFile(d) {
				return true
			}
		}
		return false
	}
	for n := r.Intn(3); n > 0; n-- {
		// an empty directory at a vendored position of an import path of the tree (or of a fresh name)
		ip := pick(r, ips)
		if r.Intn(4) == 0 {
			ip = pick(r, elemNames)
		}
		d := path.Join(hostOf(), "vendor", ip)
		if !underFile(d) {
			t.Empty = append(t.Empty, d)
		}
	}
	if r.Intn(3) == 0 {
		// a regular file named vendor
		d := path.Join(hostOf(), "vendor")
		if !isFile(d) && !hasDir(t, d) && !underFile(d) {
			t.Files[d] = "not a directory\n"
		}
	}
	if r.Intn(4) == 0 {
		// a regular file at a candidate path: <host>/vendor/<ip> or GOPATH/src/<ip>
		ip := pick(r, elemNames) + "/" + pick(r, elemNames)
		d := path.Join(hostOf(), "vendor", ip)
		if r.Intn(3) == 0 {
			d = t.GoPath + "/src/" + ip
		}
		if !isFile(d) && !hasDir(t, d) && !underFile(path.Dir(d)) {
			t.Files[d] = "not a directory\n"
		}
	}
}

func hasDir(t *Tree, d string) bool {
	for _, x := range t.dirs() {
		if x == d {
			return true
		}
	}
	return false
}

// structCases derives (root, path) pairs from a tree: every package directory as importing root
// against every import path of the tree, plus the empty root, unknown paths and — in the
// out-of-domain stream — roots and paths that are not produced by the interpreter itself.
func structCases(r *rand.Rand, t *Tree, pkgs []*pkgInfo, ft features) []caseT {
	var out []caseT
	ipaths := map[string]bool{}
	for _, p := range pkgs {
		ipaths[p.IPath] = true
	}
	var ips []string
	for ip := range ipaths {
		ips = append(ips, ip)
	}
	sort.Strings(ips)
	// every prefix of an import path of the tree is a directory, seldom a package; the candidate files and
	// the empty directories of addOddities answer to import paths too
	for _, ip := range append([]string{}, ips...) {
		for d := path.Dir(ip); d != "."; d = path.Dir(d) {
			if !ipaths[d] {
				ipaths[d] = true
				ips = append(ips, d)
			}
		}
	}
	for _, x := range append(t.files(), t.Empty...) {
		if i := strings.LastIndex(x, "/vendor/"); i >= 0 && !strings.HasSuffix(x, ".go") && !ipaths[x[i+8:]] {
			ipaths[x[i+8:]] = true
			ips = append(ips, x[i+8:])
		} else if pre := t.GoPath + "/src/"; i < 0 && strings.HasPrefix(x, pre) && !strings.HasSuffix(x, ".go") && path.Base(x) != "vendor" && !ipaths[x[len(pre):]] {
			ipaths[x[len(pre):]] = true
			ips = append(ips, x[len(pre):])
		}
	}
	ips = append(ips, "nowhere/"+pick(r, elemNames))
	roots := []string{"", ".."}
	for _, p := range pkgs {
		roots = append(roots, p.Rel)
	}
	if ft.Wild {
		roots = append(roots, "main", ".", pkgs[0].Rel+"/", "no/such/root", pkgs[r.Intn(len(pkgs))].Rel+"/vendor")
		ips = append(ips, "vendor/"+pick(r, elemNames), pkgs[0].IPath+"/")
	}
	for _, root := range roots {
		for _, ip := range ips {
			out = append(out, caseT{Kind: "gopkgdir", Root: root, Path: ip})
			if r.Intn(2) == 0 {
				out = append(out, caseT{Kind: "pkgdir", Root: root, Path: ip})
			}
			if r.Intn(4) == 0 {
				out = append(out, caseT{Kind: "eff", Root: root, Path: ip})
			}
		}
		if root != "" {
			out = append(out, caseT{Kind: "prev", Root: root, RootPath: t.GoPath + "/src/" + root})
		}
	}
	// mainRoot: the root the imports of the main package, or of a package given by a relative path, are
	// resolved from — for input files inside and outside GOPATH/src, and no input file at all
	names := []string{"", "_.go", "main.go", "cmd/main.go", t.GoPath + "/main.go", t.GoPath + "/src/main.go"}
	for _, p := range pkgs {
		names = append(names, p.Dir+"/main.go")
	}
	rps := []string{"main", "./", "./.", "./sub", "../", "../" + pick(r, elemNames), pkgs[r.Intn(len(pkgs))].Rel}
	for _, p := range pkgs {
		if el := strings.Split(p.Rel, "/"); len(el) > 1 {
			rps = append(rps, "./"+el[len(el)-1], "../"+el[len(el)-1], "./"+strings.Join(el[1:], "/"))
		}
	}
	for _, n := range names {
		for _, rp := range rps {
			if r.Intn(12) == 0 || (rp == "main" && r.Intn(3) == 0) {
				out = append(out, caseT{Kind: "mainroot", Name: n, Root: rp})
			}
		}
	}
	// relativePath: the key and the root of a relatively imported package
	for _, b := range []string{".", "./.", "./a", "./a/b", "../a", "../../a", "main"} {
		for _, p := range []string{"./", "./x", "../x", "./x/y", "../../x", "./x/../y", "../a", "./.."} {
			if r.Intn(4) == 0 {
				out = append(out, caseT{Kind: "relpath", Root: b, Path: p})
			}
		}
	}
	return out
}

// effCases: effectivePkg on string pairs without any file system.
func effCases(r *rand.Rand, n int, ft features) []caseT {
	var out []caseT
	pool := elemNames[:5]
	for i := 0; i < n; i++ {
		root := genImportPath(r, pool)
		if r.Intn(3) == 0 {
			root += "/vendor/" + genImportPath(r, pool)
		}
		p := genImportPath(r, pool)
		if ft.Wild {
			switch r.Intn(8) {
			case 0:
				root = ""
			case 1:
				root = "."
			case 2:
				p = "./" + p
			case 3:
				p = "../" + p
			case 4:
				root += "/"
			case 5:
				p = "vendor/" + p
			}
		}
		out = append(out, caseT{Kind: "eff", Root: root, Path: p})
	}
	return out
}
