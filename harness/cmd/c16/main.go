// C16 correspondence harness: resolution of source imports.
//
//   impl  = the real effectivePkg / previousRoot / pkgDir / goPkgDir / mainRoot / relativePath of /repo (hooks of
//           interp/verif_c16.go and verif_c16b.go, -tags verif)
//           and whole programs run through EvalPath / Eval on generated trees (MapFS and disk)
//   model = Lean transcription of the three functions and of importSrc's bookkeeping (y=),
//           Lean Go-spec model: nearest enclosing vendor directory, else GOPATH/src (g=)
//   ref   = an independent Go implementation of the Go rule (tree.go refResolve, prog.go), cross-checked
//           against go/build.Context.Import and `go run` in GOPATH mode
//
// Checked on every case: impl = y (correspondence), ref = g (spec validation), impl = ref (the property).
package main

import (
	"encoding/json"
	"fmt"
	"os"
	"runtime/debug"
	"strings"
	"sync"
	"time"

	"github.com/traefik/yaegi/interp"
	"verif/harness/common"
)

// caseT is one input.
type caseT struct {
	Kind     string `json:"kind"` // eff | prev | pkgdir | gopkgdir | mainroot | relpath | prog
	Name     string `json:"name,omitempty"` // mainroot: the interpreter's input file, relative to the top of the tree
	Disk     bool   `json:"disk,omitempty"`
	Tree     *Tree  `json:"tree,omitempty"`
	Root     string `json:"root,omitempty"`
	RootPath string `json:"root_path,omitempty"` // prev: relative to the top of the tree
	Path     string `json:"path,omitempty"`
	Prog     *Prog  `json:"prog,omitempty"`
}

type tcResult struct {
	c      caseT
	tc, rf outcome
	msg    string
}

type harness struct {
	tc       []tcResult
	cwd      string
	wg       sync.WaitGroup
	mu       sync.Mutex
	sem      chan struct{}
	run      *common.Run
	drv      *common.Driver
	scratch  string // directory for disk trees
	nTrees   int
	hung     int // structural calls of the real code that did not return
	findings []common.Finding
}

func (h *harness) mktop() string {
	h.nTrees++
	return fmt.Sprintf("%s/t%d", h.scratch, h.nTrees)
}

// structLine renders a structural case for the driver; implStruct runs the real code on it.
func structLine(v *view, c caseT, wd string) string {
	switch c.Kind {
	case "eff":
		return "C16 eff " + common.Q(c.Root) + " " + common.Q(c.Path)
	case "prev":
		return "C16 prev " + v.fsTerm + " " + common.Q(v.abs(c.RootPath)) + " " + common.Q(c.Root)
	case "gopkgdir":
		return "C16 gopkgdir " + v.fsTerm + " " + common.Q(v.goPath()) + " " + common.Q(c.Root) + " " + common.Q(c.Path)
	case "mainroot":
		return "C16 mainroot " + common.Q(wd) + " " + common.Q(v.nameOf(c.Name)) + " " + common.Q(v.goPath()) + " " + common.Q(c.Root)
	case "relpath":
		return "C16 relpath " + common.Q(c.Root) + " " + common.Q(c.Path)
	default:
		return "C16 pkgdir " + v.fsTerm + " " + common.Q(v.goPath()) + " " + common.Q(c.Root) + " " + common.Q(c.Path)
	}
}

// nameOf: the input file name of a mainroot case; "" and the default name are kept, anything else is a
// file of the tree (absolute on disk, so that the process's working directory does not matter).
func (v *view) nameOf(name string) string {
	if name == "" || name == "_.go" {
		return name
	}
	return v.abs(name)
}

func implStruct(v *view, i *interp.Interpreter, c caseT) (out string) {
	defer func() {
		if r := recover(); r != nil {
			out = "panic"
		}
	}()
	switch c.Kind {
	case "eff":
		return common.Q(interp.VerifEffectivePkg(c.Root, c.Path))
	case "prev":
		fsys := interp.VerifRealFS()
		if !v.disk {
			fsys = v.t.mapFS()
		}
		p, err := interp.VerifPreviousRoot(fsys, v.abs(c.RootPath), c.Root)
		if err != nil {
			return "err"
		}
		return "ok:" + common.Q(p)
	case "mainroot":
		return common.Q(i.VerifMainRoot(v.nameOf(c.Name), c.Root))
	case "relpath":
		return common.Q(interp.VerifRelativePath(c.Root, c.Path))
	default:
		var dir, rp string
		var err error
		if c.Kind == "gopkgdir" {
			dir, rp, err = i.VerifGoPkgDir(v.goPath(), c.Root, c.Path)
		} else {
			dir, rp, err = i.VerifPkgDir(v.goPath(), c.Root, c.Path)
		}
		if err != nil {
			if strings.HasPrefix(err.Error(), "unable to find source related to") {
				return "notfound"
			}
			return "err"
		}
		return "found:" + common.Q(dir) + ":" + common.Q(rp)
	}
}

// implStructTimed: a hang of the real code (a walk that never reaches its end) is an outcome, not the end of
// the run; the goroutine is abandoned.
func (h *harness) implStructTimed(v *view, i *interp.Interpreter, c caseT) string {
	if h.hung >= 3 {
		return "timeout" // the run is lost anyway: report quickly
	}
	ch := make(chan string, 1)
	go func() { ch <- implStruct(v, i, c) }()
	select {
	case s := <-ch:
		return s
	case <-time.After(10 * time.Second):
		h.hung++
		return "timeout"
	}
}

// structGroup evaluates the structural cases of one tree on one of the two file systems.
func (h *harness) structGroup(t *Tree, pkgs []*pkgInfo, cases []caseT, disk bool) {
	run := h.run
	top := ""
	if disk {
		top = h.mktop()
		if err := t.materialise(top); err != nil {
			run.Errorf("materialise: %v", err)
			return
		}
		defer os.RemoveAll(top)
	}
	v := newView(t, disk, top)
	opts := interp.Options{GoPath: v.goPath()}
	if !disk {
		opts.SourcecodeFilesystem = t.mapFS()
	}
	i := interp.New(opts)
	importer := map[string]bool{"": true}
	for _, p := range pkgs {
		importer[p.Rel] = true
	}
	lines := make([]string, len(cases))
	for k, c := range cases {
		lines[k] = structLine(v, c, h.cwd)
	}
	answers, err := h.drv.AskAll(lines)
	if err != nil {
		run.Errorf("driver: %v", err)
		return
	}
	for k, c := range cases {
		c.Disk = disk
		ans := common.Fields(answers[k])
		y, g := ans["y"], ans["g"]
		if y == "" || (c.Kind == "gopkgdir" && g == "") {
			run.Errorf("driver answered %q to %q", answers[k], lines[k])
			continue
		}
		im := h.implStructTimed(v, i, c)
		key := lines[k]
		if disk {
			key = strings.ReplaceAll(key, top, "$T")
		}
		run.Count(key, c.Kind != "eff" || strings.Contains(c.Path, "/") || strings.Contains(c.Root, "/"))
		run.Hit("kind:" + c.Kind + fsName(disk))
		withTree := func() caseT { cc := c; cc.Tree = t; return cc }
		if len(run.Res.Samples) < 4 && c.Kind == "gopkgdir" && strings.HasPrefix(im, "found") && strings.Contains(im, "vendor") {
			run.Sample(map[string]interface{}{"case": withTree(), "impl": strip(im, top), "model": strip(y, top), "spec": strip(g, top)}, 8)
		}
		if im != y {
			run.Disagree(common.Disagreement{Kind: "impl-vs-model", Input: withTree(), Impl: strip(im, top), Model: strip(y, top)})
		}
		if c.Kind != "gopkgdir" {
			continue
		}
		// the property: what importSrc's resolution finds is what the Go rule prescribes. noRoot stands for an
		// importer that is not below GOPATH/src: no vendor directory applies to it.
		rf := v.refResolve(c.Root, c.Path)
		if c.Root == interp.VerifNoRoot {
			rf = "none"
			if d := v.gs() + "/" + c.Path; v.dirSet[d] {
				rf = d
			}
		} else if !importer[c.Root] {
			run.Hit("gopkgdir:not-an-importer")
			continue // the Go rule says nothing about roots that are not importing directories
		}
		if !normalPath(c.Path) || vendorElem(c.Path) {
			run.Hit("gopkgdir:not-an-import-path")
			continue // importSrc never passes such a path on (unclean, or rejected for its vendor element)
		}
		run.Hit("gopkgdir:ref=" + outcomeClass(rf))
		if common.Q(rf) != g && !(rf == "none" && g == "none") {
			run.Disagree(common.Disagreement{Kind: "spec-vs-ref", Input: withTree(), Spec: strip(g, top), Ref: strip(rf, top)})
		}
		implDir := "none"
		if strings.HasPrefix(im, "found:") {
			implDir, _, _ = i.VerifGoPkgDir(v.goPath(), c.Root, c.Path)
		} else if im != "notfound" {
			implDir = im
		}
		if implDir != rf {
			// no divergence class is left for the resolution of one import: every difference is a violation
			run.Hit("gopkgdir:differs")
			run.Disagree(common.Disagreement{Kind: "impl-vs-ref", Input: withTree(), Impl: strip(implDir, top), Model: strip(y, top), Ref: strip(rf, top),
				Note: "the directory found by goPkgDir is not the one of the Go rule (pkgDir_eq_spec has no excluded class)"})
		} else {
			run.Hit("gopkgdir:agree")
		}
	}
}

func fsName(disk bool) string {
	if disk {
		return ":disk"
	}
	return ":mapfs"
}

func strip(s, top string) string {
	if top == "" {
		return s
	}
	return strings.ReplaceAll(s, top, "$T")
}

func outcomeClass(rf string) string {
	switch {
	case rf == "none":
		return "none"
	case strings.Contains(rf, "/vendor/"):
		return "vendor"
	}
	return "gopath"
}

// vendorElem: an element before the last one is `vendor` (cmd/go: "must be imported as …").
func vendorElem(p string) bool {
	el := strings.Split(p, "/")
	return in(el[:len(el)-1], "vendor")
}

func normalPath(p string) bool {
	if p == "" {
		return false
	}
	for _, e := range strings.Split(p, "/") {
		if e == "" || e == "." || e == ".." {
			return false
		}
	}
	return true
}

func main() {
	if len(os.Args) > 1 && os.Args[1] == "-child" {
		childMain()
		return
	}
	debug.SetMaxStack(256 << 20)
	run := common.NewRun("C16")
	run.Res.Rule = "cases = (file system, GOPATH, root, import path) for goPkgDir (what importSrc resolves with; compared with the Go rule) and pkgDir, (file system, rootPath, root) for previousRoot, (root, path) for effectivePkg, (input file, root) for mainRoot, (base, path) for relativePath, derived from seeded random trees (packages at depth 1..4 below GOPATH/src, vendor directories below packages, their ancestors, GOPATH/src itself and vendored packages, the same import path in several places, shared elements, directories without Go files, regular files named vendor or sitting at candidate paths), each tree both as fstest.MapFS and on disk; plus whole programs (diamonds, cycles, relative imports reached by several paths, vendor elements, unresolvable imports, a main package with its own vendor directory, markers naming the directory) through Eval/EvalPath under five entry modes; non-trivial = structural case other than a single-element effectivePkg case, or program with at least two source packages; distinct = distinct protocol line (temporary directory normalised)"
	defer run.Finish()
	drv, err := common.StartDriver("C16")
	if err != nil {
		run.Errorf("driver: %v", err)
		return
	}
	defer drv.Close()
	scratch, err := os.MkdirTemp("", "verif-c16-")
	if err != nil {
		run.Errorf("scratch: %v", err)
		return
	}
	defer os.RemoveAll(scratch)
	h := &harness{run: run, drv: drv, scratch: scratch, sem: make(chan struct{}, 8)}
	h.cwd, _ = os.Getwd()
	h.findings, err = common.LoadFindings("C16")
	if err != nil {
		run.Errorf("known findings: %v", err)
	}

	if run.Replay != "" {
		b, err := os.ReadFile(run.Replay)
		if err != nil {
			run.Errorf("replay: %v", err)
			return
		}
		var rp struct {
			Input caseT `json:"input"`
		}
		if err := json.Unmarshal(b, &rp); err != nil {
			run.Errorf("replay: %v", err)
			return
		}
		h.replay(rp.Input)
		return
	}
	h.known()

	nTrees, nEff, nProg := 150, 1000, 240
	if run.Thorough() {
		nTrees, nEff, nProg = 1500, 10000, 2400
	}
	// effectivePkg alone
	h.effGroup(effCases(run.Rng, nEff, features{}))
	h.effGroup(effCases(run.Rng, nEff/2, features{Wild: true}))
	// trees: three in-domain for one out-of-domain
	for n := 0; n < nTrees; n++ {
		ft := features{Wild: n%4 == 3}
		t, pkgs := structTree(run.Rng, ft)
		cases := structCases(run.Rng, t, pkgs, ft)
		h.structGroup(t, pkgs, cases, false)
		h.structGroup(t, pkgs, cases, true)
	}
	// whole programs: three in-domain for one out-of-domain, alternately MapFS and disk
	for n := 0; n < nProg; n++ {
		ft := features{Wild: n%4 == 3}
		var t *Tree
		var p *Prog
		for tries := 0; ; tries++ {
			t, p = genProg(run.Rng, ft, true)
			if ft.Wild || tries > 20 || (classProg(newView(t, false, ""), p) == "" && classProg(newView(t, true, "/x"), p) == "") {
				break
			}
		}
		// the same program through both file systems
		if p.Entry != "dot" {
			h.progCase(caseT{Kind: "prog", Disk: false, Tree: t, Prog: p}, false)
		}
		h.progCase(caseT{Kind: "prog", Disk: true, Tree: t, Prog: p}, n%goRunEvery(run) == 1)
	}
	h.drainToolchain()
}

func goRunEvery(run *common.Run) int {
	if run.Thorough() {
		return 4
	}
	return 2
}

// drainToolchain waits for the `go run` references and compares them with the reference resolver.
func (h *harness) drainToolchain() {
	h.wg.Wait()
	for _, r := range h.tc {
		h.run.Hit("prog:toolchain=" + statusClass(r.tc.Status))
		if !sameAs(r.tc, r.rf) {
			h.run.Disagree(common.Disagreement{Kind: "spec-vs-ref", Input: r.c, Spec: "go run: " + r.tc.String(), Ref: r.rf.String(), Note: r.msg})
		}
	}
	h.tc = nil
}

// progCase runs one whole program on the real interpreter, the Lean models and the reference.
func (h *harness) progCase(c caseT, toolchain bool) {
	run := h.run
	t, p := c.Tree, c.Prog
	top := ""
	if c.Disk {
		top = h.mktop()
		if err := t.materialise(top); err != nil {
			run.Errorf("materialise: %v", err)
			return
		}
	}
	v := newView(t, c.Disk, top)
	rf := refRun(v, p)
	wd := h.cwd
	if c.Disk {
		wd = top
		if p.Entry == "dot" {
			wd = top + "/" + p.mainDir(t)
		}
	}
	line := progLine(v, p, wd)
	ansLine, err := h.drv.Ask(line)
	if err != nil {
		run.Errorf("driver: %v", err)
		return
	}
	ans := common.Fields(ansLine)
	if ans["y"] == "" || ans["g"] == "" {
		run.Errorf("driver answered %q to %q", ansLine, line)
		return
	}
	my, mg := modelOutcome(v, p, ans["y"]), modelOutcome(v, p, ans["g"])
	var im outcome
	if rf.Status == "cycle" || my.Status == "fuel" {
		im = implRunIsolated(c, 8*time.Second)
	} else {
		im = implRun(v, p, 8*time.Second)
	}
	key := strip(line, top)
	run.Count(key, len(p.Pkgs) >= 2)
	run.Hit("kind:prog" + fsName(c.Disk))
	run.Hit("prog:entry=" + p.Entry)
	run.Hit("prog:ref=" + rf.Status)
	run.Hit("prog:impl=" + statusClass(im.Status))
	if len(rf.Inits) > len(uniq(rf.Inits)) {
		run.Errorf("reference initialised a package twice: %v", rf.Inits)
	}
	if rf.Status == "ok" && hasDiamond(v, p) {
		run.Hit("prog:diamond")
	}
	if len(run.Res.Samples) < 8 {
		run.Sample(map[string]interface{}{"case": c, "impl": im.String(), "model": strip(ans["y"], top), "ref": rf.String()}, 8)
	}
	// correspondence: same status; on success the same packages initialised in the same order
	if im.Status != my.Status || (im.Status == "ok" && strings.Join(im.Inits, ",") != strings.Join(my.Inits, ",")) {
		run.Disagree(common.Disagreement{Kind: "impl-vs-model", Input: c, Impl: im.String(), Model: my.String()})
	}
	// spec validation: Lean Go-spec model = reference resolver (status and set of packages)
	if !sameAs(outcome{Status: mg.Status, Inits: mg.Inits, Main: rf.Main}, rf) {
		run.Disagree(common.Disagreement{Kind: "spec-vs-ref", Input: c, Spec: mg.String(), Ref: rf.String()})
	}
	sig := classProg(v, p)
	if sig == "" {
		run.Hit("class:in-domain")
	} else {
		run.Hit("class:" + sig)
	}
	if !sameAs(im, rf) {
		d := common.Disagreement{Kind: "impl-vs-ref", Input: c, Impl: im.String(), Model: my.String(), Ref: rf.String(), Finding: sig}
		if im.Status != my.Status || sig == "" {
			d.Finding = ""
			d.Note = "differs from the reference inside the proved domain, or differs from the model of the unchanged code (class " + sig + ")"
		}
		run.Disagree(d)
	}
	// the toolchain itself on the same tree (disk only; in parallel, the tree is removed afterwards)
	if c.Disk && toolchain {
		h.wg.Add(1)
		h.sem <- struct{}{}
		go func() {
			defer func() { <-h.sem; os.RemoveAll(top); h.wg.Done() }()
			tc, msg := goRun(top, t, p)
			h.mu.Lock()
			defer h.mu.Unlock()
			h.tc = append(h.tc, tcResult{c: c, tc: tc, rf: rf, msg: strip(common.FirstLine(msg), top)})
		}()
	} else if c.Disk {
		os.RemoveAll(top)
	}
}

func statusClass(s string) string {
	if strings.HasPrefix(s, "err:") {
		return "err"
	}
	return s
}

func uniq(xs []string) []string {
	m := map[string]bool{}
	var out []string
	for _, x := range xs {
		if !m[x] {
			m[x] = true
			out = append(out, x)
		}
	}
	return out
}

// hasDiamond: some package directory is imported by two different importers.
func hasDiamond(v *view, p *Prog) bool {
	from := map[string]string{}
	for _, e := range refEdges(v, p) {
		if e.dir == "" {
			continue
		}
		imp := e.importerRel
		if f, ok := from[e.dir]; ok && f != imp {
			return true
		}
		from[e.dir] = imp
	}
	return false
}

func (h *harness) effGroup(cases []caseT) {
	t := &Tree{GoPath: "gp", Files: map[string]string{}}
	h.structGroup(t, nil, cases, false)
}

// replay runs one recorded input.
func (h *harness) replay(c caseT) {
	if c.Tree == nil {
		c.Tree = &Tree{GoPath: "gp", Files: map[string]string{}}
	}
	if c.Kind == "prog" {
		c.Prog.fill(c.Tree)
		h.progCase(c, true)
		h.drainToolchain()
		return
	}
	h.structGroup(c.Tree, pkgsOfTree(c.Tree), []caseT{c}, c.Disk)
}

// known replays the listed findings.
func (h *harness) known() {
	for _, f := range h.findings {
		var c caseT
		if err := json.Unmarshal(f.Replay, &c); err != nil {
			h.run.Errorf("finding %s: bad replay: %v", f.ID, err)
			continue
		}
		still, detail := h.replayKnown(c)
		h.run.Res.Known = append(h.run.Res.Known, common.KnownReplay{ID: f.ID, Status: f.Status, What: f.What, StillFails: still, Detail: detail})
	}
}

// replayKnown: does the real code still differ from the reference on this input?
func (h *harness) replayKnown(c caseT) (bool, string) {
	if c.Tree == nil {
		return false, "replay without a tree"
	}
	if c.Kind == "prog" {
		c.Prog.fill(c.Tree)
		top := ""
		if c.Disk {
			top = h.mktop()
			if err := c.Tree.materialise(top); err != nil {
				return false, err.Error()
			}
			defer os.RemoveAll(top)
		}
		v := newView(c.Tree, c.Disk, top)
		rf := refRun(v, c.Prog)
		im := implRunIsolated(c, 8*time.Second)
		return !sameAs(im, rf), "impl=" + im.String() + " ref=" + rf.String()
	}
	if c.Kind != "pkgdir" && c.Kind != "gopkgdir" {
		return false, "unsupported replay kind " + c.Kind
	}
	top := ""
	if c.Disk {
		top = h.mktop()
		if err := c.Tree.materialise(top); err != nil {
			return false, err.Error()
		}
		defer os.RemoveAll(top)
	}
	v := newView(c.Tree, c.Disk, top)
	opts := interp.Options{GoPath: v.goPath()}
	if !c.Disk {
		opts.SourcecodeFilesystem = c.Tree.mapFS()
	}
	i := interp.New(opts)
	d, _, err := i.VerifGoPkgDir(v.goPath(), c.Root, c.Path)
	if err != nil {
		d = "none"
	}
	rf := v.refResolve(c.Root, c.Path)
	return d != rf, fmt.Sprintf("impl=%s ref=%s", strip(d, top), strip(rf, top))
}

// pkgsOfTree recovers the importing directories of a recorded tree: every directory below GOPATH/src
// holding a Go file.
func pkgsOfTree(t *Tree) []*pkgInfo {
	var out []*pkgInfo
	pre := t.GoPath + "/src/"
	seen := map[string]bool{}
	for _, f := range t.files() {
		if !strings.HasSuffix(f, ".go") || !strings.HasPrefix(f, pre) {
			continue
		}
		d := f[:strings.LastIndex(f, "/")]
		if seen[d] || len(d) < len(pre) {
			continue
		}
		seen[d] = true
		out = append(out, &pkgInfo{Dir: d, Rel: d[len(pre):]})
	}
	return out
}
