package main

import (
	"io/fs"
	"os"
	"path"
	"path/filepath"
	"sort"
	"strings"
	"testing/fstest"

	"verif/harness/common"
)

// Tree is a generated source tree. All paths are slash separated and relative to the top of the
// tree; GoPath is the directory (relative to the top) that plays GOPATH.
type Tree struct {
	GoPath string            `json:"gopath"`
	Files  map[string]string `json:"files"`          // regular files: path → content
	Empty  []string          `json:"dirs,omitempty"` // directories without files of their own
}

// dirs returns every directory of the tree (ancestors of files and of Empty), sorted, without ".".
func (t *Tree) dirs() []string {
	set := map[string]bool{}
	add := func(d string) {
		for d != "." && d != "/" && d != "" {
			set[d] = true
			d = path.Dir(d)
		}
	}
	for f := range t.Files {
		add(path.Dir(f))
	}
	for _, d := range t.Empty {
		add(d)
	}
	add(t.GoPath + "/src")
	out := make([]string, 0, len(set))
	for d := range set {
		out = append(out, d)
	}
	sort.Strings(out)
	return out
}

func (t *Tree) files() []string {
	out := make([]string, 0, len(t.Files))
	for f := range t.Files {
		out = append(out, f)
	}
	sort.Strings(out)
	return out
}

// mapFS builds the in-memory file system.
func (t *Tree) mapFS() fstest.MapFS {
	m := fstest.MapFS{}
	for f, c := range t.Files {
		m[f] = &fstest.MapFile{Data: []byte(c)}
	}
	for _, d := range t.dirs() {
		m[d] = &fstest.MapFile{Mode: fs.ModeDir | 0o755}
	}
	return m
}

// materialise writes the tree below top.
func (t *Tree) materialise(top string) error {
	for _, d := range t.dirs() {
		if err := os.MkdirAll(filepath.Join(top, filepath.FromSlash(d)), 0o755); err != nil {
			return err
		}
	}
	for f, c := range t.Files {
		if err := os.WriteFile(filepath.Join(top, filepath.FromSlash(f)), []byte(c), 0o644); err != nil {
			return err
		}
	}
	return nil
}

// view is a tree as one of the two file systems sees it: with prefix "" (MapFS) or the absolute
// directory it was written to (disk).
type view struct {
	t      *Tree
	disk   bool
	top    string // absolute directory for disk, "" for MapFS
	dirSet map[string]bool
	goDirs map[string]bool // directories holding at least one .go file
	fsTerm string          // protocol term of the file system
}

func (v *view) abs(p string) string {
	if !v.disk {
		return p
	}
	if p == "" || p == "." {
		return v.top
	}
	return v.top + "/" + p
}

func newView(t *Tree, disk bool, top string) *view {
	v := &view{t: t, disk: disk, top: top, dirSet: map[string]bool{}, goDirs: map[string]bool{}}
	var ds, fl []string
	for _, d := range t.dirs() {
		ds = append(ds, v.abs(d))
	}
	if disk {
		// ancestors of the top directory exist too
		for d := top; d != "/" && d != "."; d = path.Dir(d) {
			ds = append(ds, d)
		}
		ds = append(ds, "/")
	} else {
		ds = append(ds, ".")
	}
	for _, f := range t.files() {
		fl = append(fl, v.abs(f))
		if strings.HasSuffix(f, ".go") {
			v.goDirs[v.abs(path.Dir(f))] = true
		}
	}
	for _, d := range ds {
		v.dirSet[d] = true
	}
	kind := "mapfs"
	if disk {
		kind = "disk"
	}
	v.fsTerm = common.L(kind, common.QL(ds), common.QL(fl))
	return v
}

func (v *view) goPath() string { return v.abs(v.t.GoPath) }
func (v *view) gs() string     { return v.goPath() + "/src" }

// refResolve is the reference: the Go rule for GOPATH mode, written independently of the code under
// test: nearest enclosing vendor directory holding the package (with Go files), else GOPATH/src.
// importer is the importing directory relative to GOPATH/src ("" for GOPATH/src itself).
func (v *view) refResolve(importer, ipath string) string {
	var elems []string
	if importer != "" {
		elems = strings.Split(importer, "/")
	}
	for k := len(elems); k >= 0; k-- {
		vd := v.gs()
		if k > 0 {
			vd += "/" + strings.Join(elems[:k], "/")
		}
		vd += "/vendor"
		if v.dirSet[vd] && v.dirSet[vd+"/"+ipath] && v.goDirs[vd+"/"+ipath] {
			return vd + "/" + ipath
		}
	}
	if d := v.gs() + "/" + ipath; v.dirSet[d] {
		return d
	}
	return "none"
}
