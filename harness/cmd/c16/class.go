package main

import (
	"path"
	"strings"
)

// effRef is the closed form of effectivePkg on clean arguments (theorem effectivePkg_closed_form):
// root followed by the part of path after the last occurrence — not counting path's final element —
// of root's final element, when root has at least two elements; root followed by path otherwise.
func effRef(root, p []string) []string {
	cut := 0
	if len(root) >= 2 {
		last := root[len(root)-1]
		for j := len(p) - 2; j >= 0; j-- {
			if p[j] == last {
				cut = j + 1
				break
			}
		}
	}
	return append(append([]string{}, root...), p[cut:]...)
}

// classPkgDir names the divergence class of a pkgDir input: "" inside the domain of
// pkgDir_eq_spec_partial (Props/C16.lean `domPkgDir`), else the first failing clause.
// It is a predicate of the input (tree, root, path) only.
func classPkgDir(v *view, root, p string) string {
	if root != "" && !normalPath(root) {
		return "root-not-clean"
	}
	if !normalPath(p) {
		return "path-not-clean"
	}
	pe := strings.Split(p, "/")
	for _, e := range pe {
		if e == "vendor" {
			return "vendor-in-path"
		}
	}
	var re []string
	if root != "" {
		re = strings.Split(root, "/")
	}
	gs := v.gs()
	isFile := func(x string) bool { _, ok := v.t.Files[strings.TrimPrefix(strings.TrimPrefix(x, v.top), "/")]; return ok }
	// in the order of the search: the importing directory first, then its ancestors
	for k := len(re); k >= 0; k-- {
		base := gs
		if k > 0 {
			base += "/" + strings.Join(re[:k], "/")
		}
		vd := base + "/vendor"
		cand := vd + "/" + p
		if isFile(cand) {
			return "candidate-is-a-file"
		}
		if v.dirSet[cand] && !v.goDirs[cand] {
			return "vendor-dir-without-go-files"
		}
		if k >= 1 {
			e := gs + "/" + strings.Join(effRef(re[:k], pe), "/")
			if v.dirSet[e] || isFile(e) {
				return "found-under-root"
			}
		}
		if k >= 1 && k < len(re) && isFile(vd) {
			return "vendor-is-a-file"
		}
	}
	if isFile(gs + "/" + p) {
		return "candidate-is-a-file"
	}
	return ""
}

func in(xs []string, s string) bool {
	for _, x := range xs {
		if x == s {
			return true
		}
	}
	return false
}

// edge is one import seen by the reference traversal.
type edge struct {
	importerRel string // directory below GOPATH/src, "-" when outside GOPATH
	ipath       string
	dir         string // resolved directory relative to the top of the tree, "" if none
}

// refEdges lists the imports reachable from main under the Go rule.
func refEdges(v *view, p *Prog) []edge {
	byDir := map[string]*pkgInfo{}
	for _, k := range p.Pkgs {
		byDir[k.Dir] = k
	}
	gsRel := v.t.GoPath + "/src"
	var out []edge
	seen := map[string]bool{}
	var walk func(dir string, imports []string)
	walk = func(dir string, imports []string) {
		for _, im := range imports {
			e := edge{importerRel: "-", ipath: im}
			switch {
			case isRel(im):
				e.dir = path.Join(dir, im)
			case strings.HasPrefix(dir, gsRel+"/"):
				e.importerRel = strings.TrimPrefix(dir, gsRel+"/")
				if r := v.refResolve(e.importerRel, im); r != "none" {
					e.dir = strings.TrimPrefix(strings.TrimPrefix(r, v.top), "/")
				}
			default:
				if v.dirSet[v.gs()+"/"+im] {
					e.dir = gsRel + "/" + im
				}
			}
			out = append(out, e)
			if e.dir != "" && !seen[e.dir] {
				seen[e.dir] = true
				if k := byDir[e.dir]; k != nil {
					walk(e.dir, k.Imports)
				}
			}
		}
	}
	walk(p.mainDir(v.t), p.Imports)
	return out
}

// classProg names the divergence class of a whole program: "" when every feature of the input is inside
// the proved domain, else the first trigger present. A predicate of the input only.
func classProg(v *view, p *Prog) string {
	edges := refEdges(v, p)
	mainVendored := false
	md := p.mainDir(v.t)
	for _, e := range edges {
		if e.importerRel == p.Main && p.Main != "" && strings.HasPrefix(e.dir, md+"/vendor/") {
			mainVendored = true
		}
	}
	mainUsesVendor := false
	for _, e := range edges {
		if p.Main != "" && e.importerRel == p.Main && strings.Contains(e.dir, "/vendor/") {
			mainUsesVendor = true
		}
	}
	_ = mainVendored
	// eval, top and file entries all resolve the imports of the main file from the literal root "main"
	if p.Entry == "eval" || p.Entry == "top" || p.Entry == "file" {
		for _, im := range p.Imports {
			if !isRel(im) && (v.dirSet[v.gs()+"/vendor/"+im] || v.dirSet[v.gs()+"/main/vendor/"+im] || v.dirSet[v.gs()+"/main/"+im]) {
				return "outside-main-sees-gopath-vendor"
			}
		}
	}
	// so does every package imported relatively from there (its root is its directory name)
	for _, e := range edges {
		if e.importerRel == "-" && !isRel(e.ipath) && v.dirSet[v.gs()+"/vendor/"+e.ipath] {
			return "outside-main-sees-gopath-vendor"
		}
	}
	switch p.Entry {
	case "dot":
		if mainUsesVendor {
			return "main-given-as-dot"
		}
	case "file":
		if mainUsesVendor {
			if !v.disk {
				return "main-file-vendor-mapfs"
			}
			return "main-file-vendor"
		}
	}
	for _, e := range edges {
		if isRel(e.ipath) {
			continue
		}
		el := strings.Split(e.ipath, "/")
		if len(el) >= 2 && path.Dir(e.ipath) == path.Base(e.ipath) {
			return "doubled-import-path"
		}
	}
	for _, e := range edges {
		if e.importerRel != "-" && !isRel(e.ipath) {
			if c := classPkgDir(v, e.importerRel, e.ipath); c != "" {
				return c
			}
		}
		if e.importerRel == "-" && !isRel(e.ipath) {
			// seen from outside GOPATH the interpreter still walks main / "" roots
			if c := classPkgDir(v, "", e.ipath); c != "" {
				return c
			}
		}
	}
	dirOf := map[string]string{}
	for _, e := range edges {
		if e.dir == "" {
			continue
		}
		if d, ok := dirOf[e.ipath]; ok && d != e.dir {
			return "same-path-two-dirs"
		}
		dirOf[e.ipath] = e.dir
	}
	// one directory reached through two different relative import path strings
	relOf := map[string]string{}
	for _, e := range edges {
		if !isRel(e.ipath) || e.dir == "" {
			continue
		}
		if s, ok := relOf[e.dir]; ok && s != e.ipath {
			return "same-dir-two-relative-paths"
		}
		relOf[e.dir] = e.ipath
	}
	return ""
}
