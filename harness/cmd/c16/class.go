package main

import (
	"path"
	"strings"
)

func in(xs []string, s string) bool {
	for _, x := range xs {
		if x == s {
			return true
		}
	}
	return false
}

// edge is one import seen by the reference traversal.
type edge struct {
	importerRel string // directory below GOPATH/src, "-" when outside GOPATH
	ipath       string
	dir         string // resolved directory relative to the top of the tree, "" if none
}

// refEdges lists the imports reachable from main under the Go rule.
func refEdges(v *view, p *Prog) []edge {
	byDir := map[string]*pkgInfo{}
	for _, k := range p.Pkgs {
		byDir[k.Dir] = k
	}
	gsRel := v.t.GoPath + "/src"
	var out []edge
	seen := map[string]bool{}
	var walk func(dir string, imports []string)
	walk = func(dir string, imports []string) {
		for _, im := range imports {
			e := edge{importerRel: "-", ipath: im}
			switch {
			case isRel(im):
				e.dir = path.Join(dir, im)
			case strings.HasPrefix(dir, gsRel+"/"):
				e.importerRel = strings.TrimPrefix(dir, gsRel+"/")
				if r := v.refResolve(e.importerRel, im); r != "none" {
					e.dir = strings.TrimPrefix(strings.TrimPrefix(r, v.top), "/")
				}
			default:
				if v.dirSet[v.gs()+"/"+im] {
					e.dir = gsRel + "/" + im
				}
			}
			out = append(out, e)
			if e.dir != "" && !seen[e.dir] {
				seen[e.dir] = true
				if k := byDir[e.dir]; k != nil {
					walk(e.dir, k.Imports)
				}
			}
		}
	}
	walk(p.mainDir(v.t), p.Imports)
	return out
}

// classProg names the divergence class of a whole program: "" when no listed finding applies to the
// input, else the first trigger present. A predicate of the input only. After the repairs of F16,
// F16-1..F16-7, F16-9, F16-10 and F16-11 one class is left.
func classProg(v *view, p *Prog) string {
	edges := refEdges(v, p)
	// F16-8: srcPkg is keyed by import path — the same import path denotes two directories for two importers
	dirOf := map[string]string{}
	for _, e := range edges {
		if e.dir == "" || isRel(e.ipath) {
			continue
		}
		if d, ok := dirOf[e.ipath]; ok && d != e.dir {
			return "same-path-two-dirs"
		}
		dirOf[e.ipath] = e.dir
	}
	return ""
}
