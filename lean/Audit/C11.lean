import YaegiVerif.Common.Audit
import YaegiVerif.Props.C11
#audit_namespace YaegiVerif.Props.C11
