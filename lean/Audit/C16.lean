import YaegiVerif.Common.Audit
import YaegiVerif.Props.C16
#audit_namespace YaegiVerif.Props.C16
