import YaegiVerif.Common.Audit
import YaegiVerif.Props.C04
#audit_namespace YaegiVerif.Props.C04
