import YaegiVerif.Common.Audit
import YaegiVerif.Props.C08
#audit_namespace YaegiVerif.Props.C08
