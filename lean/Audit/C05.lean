import YaegiVerif.Common.Audit
import YaegiVerif.Props.C05
#audit_namespace YaegiVerif.Props.C05
