import YaegiVerif.Common.Audit
import YaegiVerif.Props.C03
#audit_namespace YaegiVerif.Props.C03
