import YaegiVerif.Common.Audit
import YaegiVerif.Props.C02
#audit_namespace YaegiVerif.Props.C02
