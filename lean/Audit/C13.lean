import YaegiVerif.Common.Audit
import YaegiVerif.Props.C13
#audit_namespace YaegiVerif.Props.C13
