import YaegiVerif.Common.Audit
import YaegiVerif.Props.C01
#audit_namespace YaegiVerif.Props.C01
