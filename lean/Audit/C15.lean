import YaegiVerif.Common.Audit
import YaegiVerif.Props.C15
#audit_namespace YaegiVerif.Props.C15
