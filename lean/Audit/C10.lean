import YaegiVerif.Common.Audit
import YaegiVerif.Props.C10
#audit_namespace YaegiVerif.Props.C10
