import YaegiVerif.Common.Audit
import YaegiVerif.Props.C06
#audit_namespace YaegiVerif.Props.C06
