import YaegiVerif.Common.Audit
import YaegiVerif.Props.C12
#audit_namespace YaegiVerif.Props.C12
