import YaegiVerif.Common.Audit
import YaegiVerif.Props.C18
#audit_namespace YaegiVerif.Props.C18
