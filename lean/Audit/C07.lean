import YaegiVerif.Common.Audit
import YaegiVerif.Props.C07
#audit_namespace YaegiVerif.Props.C07
