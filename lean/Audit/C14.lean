import YaegiVerif.Common.Audit
import YaegiVerif.Props.C14
#audit_namespace YaegiVerif.Props.C14
