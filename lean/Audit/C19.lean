import YaegiVerif.Common.Audit
import YaegiVerif.Props.C19
#audit_namespace YaegiVerif.Props.C19
