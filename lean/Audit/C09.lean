import YaegiVerif.Common.Audit
import YaegiVerif.Props.C09
#audit_namespace YaegiVerif.Props.C09
