import YaegiVerif.Common.Audit
import YaegiVerif.Props.C17
#audit_namespace YaegiVerif.Props.C17
