import YaegiVerif.Driver.C01
import YaegiVerif.Driver.C02
import YaegiVerif.Driver.C03
import YaegiVerif.Driver.C04
import YaegiVerif.Driver.C05
import YaegiVerif.Driver.C06
import YaegiVerif.Driver.C07
import YaegiVerif.Driver.C08
import YaegiVerif.Driver.C09
import YaegiVerif.Driver.C10
import YaegiVerif.Driver.C11
import YaegiVerif.Driver.C12
import YaegiVerif.Driver.C13
import YaegiVerif.Driver.C14
import YaegiVerif.Driver.C15
import YaegiVerif.Driver.C16
import YaegiVerif.Driver.C17
import YaegiVerif.Driver.C18
import YaegiVerif.Driver.C19
/- Line-protocol driver: `<Cxx> <op> args…` per line, one answer line per input line.
   Core-only imports, so it is also built as the `driver` executable. -/
open YaegiVerif

def dispatch (line : String) : String :=
  match Sexp.parseLine line with
  | some (.atom p :: rest) =>
    match p with
    | "C01" => Driver.C01.handle rest
    | "C02" => Driver.C02.handle rest
    | "C03" => Driver.C03.handle rest
    | "C04" => Driver.C04.handle rest
    | "C05" => Driver.C05.handle rest
    | "C06" => Driver.C06.handle rest
    | "C07" => Driver.C07.handle rest
    | "C08" => Driver.C08.handle rest
    | "C09" => Driver.C09.handle rest
    | "C10" => Driver.C10.handle rest
    | "C11" => Driver.C11.handle rest
    | "C12" => Driver.C12.handle rest
    | "C13" => Driver.C13.handle rest
    | "C14" => Driver.C14.handle rest
    | "C15" => Driver.C15.handle rest
    | "C16" => Driver.C16.handle rest
    | "C17" => Driver.C17.handle rest
    | "C18" => Driver.C18.handle rest
    | "C19" => Driver.C19.handle rest
    | _ => "bad-property"
  | _ => "bad-line"

partial def loop (hin hout : IO.FS.Stream) : IO Unit := do
  let line ← hin.getLine
  if line.isEmpty then return ()
  let out := dispatch line
  hout.putStrLn out
  hout.flush
  loop hin hout

def main : IO Unit := do
  loop (← IO.getStdin) (← IO.getStdout)
