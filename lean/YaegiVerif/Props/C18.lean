import YaegiVerif.Model.Extract
import YaegiVerif.Spec.GoExtract
import YaegiVerif.Expected.C18
import YaegiVerif.Generated.C18
import YaegiVerif.Proofs.C18Gen
import YaegiVerif.Proofs.C18Names
import YaegiVerif.Proofs.C18Float
/-
  C18 — property theorems: `extract` emits complete, faithful wrappers.
  Every theorem is about `genE p = genY K p` for an arbitrary abstract package `p`, where `K` are the
  switches genContent has in today's source (`knobs_generated` ties them to the regenerated facts).
  "The wrapper compiles" is not a theorem: it is decided by go/types in the correspondence run.
-/
namespace YaegiVerif.Props.C18
open YaegiVerif YaegiVerif.Extract YaegiVerif.Proofs.C18

/-! ### ties to the source -/

/-- the choices read from extract/extract.go are the ones the model was written against -/
theorem facts_tie : Generated.C18.facts = Expected.C18.facts := rfl

/-- the functions transcribed in Model/Extract.lean (and the template text) are unchanged -/
theorem source_tie : Generated.C18.sourceHashes = Expected.C18.sourceHashes := by decide

/-- the switches derived from the regenerated facts are the ones every theorem below is about -/
theorem knobs_generated : knobsOf Generated.C18.facts = K := by
  rw [facts_tie]; exact knobs_expected

/-- the wrapper file today's genContent produces for `p` -/
abbrev genE (p : Pkg) : File := genY K p

theorem genY_generated (p : Pkg) : genY (knobsOf Generated.C18.facts) p = genE p := by
  rw [knobs_generated]

/-- keys of the bindings (values and types) -/
def boundKeys (f : File) : List String := (f.vals ++ f.typs).map (·.key)

/-! ### 1. exactly the exported non-generic objects are bound -/

private theorem bindable_iff (p : Pkg) (o : Obj) :
    Spec.bindable o = true ↔ ((valForm K p o).isSome = true ∨ typKept K o = true) := by
  rw [valForm_K, typKept_K]
  unfold Spec.bindable
  cases o.exported <;> cases o.kind <;> simp
  all_goals (rename_i u; cases u <;> simp)

/-- **the bound names are exactly those of the exported, non-generic objects that can be bound at
    all** (a constraint interface cannot) — every package, every interface shape (since 87ef90c the
    constraint test is `IsMethodSet`, the notion the property uses) -/
theorem binds_exactly_exported_nongeneric (p : Pkg) (name : String) :
    name ∈ boundKeys (genE p) ↔ ∃ o ∈ p.objs, o.name = name ∧ Spec.bindable o = true := by
  simp only [boundKeys, genE, genY, List.map_append, List.mem_append, List.mem_map]
  constructor
  · rintro (⟨e, he, rfl⟩ | ⟨e, he, rfl⟩)
    · obtain ⟨o, ho, f, hf, rfl⟩ := (mem_valEntries p e p.objs).1 he
      exact ⟨o, ho, rfl, (bindable_iff p o).2 (Or.inl (by simp [hf]))⟩
    · obtain ⟨o, ho, hk, rfl⟩ := (mem_typEntries p e p.objs).1 he
      exact ⟨o, ho, rfl, (bindable_iff p o).2 (Or.inr hk)⟩
  · rintro ⟨o, ho, rfl, hb⟩
    rcases (bindable_iff p o).1 hb with hv | ht
    · left
      cases hf : valForm K p o with
      | none => simp [hf] at hv
      | some f => exact ⟨⟨o.name, f⟩, (mem_valEntries p _ p.objs).2 ⟨o, ho, f, hf, rfl⟩, rfl⟩
    · right
      exact ⟨_, (mem_typEntries p _ p.objs).2 ⟨o, ho, ht, rfl⟩, rfl⟩

/-- **the constraint test is `IsMethodSet`**: an interface is kept as a type iff it is exported, not
    generic and a method set — whatever it embeds and whatever methods it has -/
theorem constraint_classification_exact (name : String) (x g methodSet : Bool) (emb : Nat) (ms : List Method) :
    typKept K ⟨name, x, .iface g emb methodSet ms⟩ = (x && !g && methodSet) := by
  rw [typKept_K]; cases x <;> simp

/-- an ordinary interface whose only content is an embedded empty interface (`interface{ any }`) -/
def pkgEmbedsEmpty : Pkg :=
  { importPath := "x.y/p", path := "x.y/p", name := "p", dest := "lib", minor := 23, tags := [],
    objs := [⟨"E", true, .iface false 1 true []⟩] }

/-- a constraint interface that also has a method (`interface{ ~int; String() string }`) -/
def pkgConstraintMethod : Pkg :=
  { importPath := "x.y/p", path := "x.y/p", name := "p", dest := "lib", minor := 23, tags := [],
    objs := [⟨"C", true, .iface false 1 false [⟨"String", true, false, [], [⟨"", "string".toList, none, [], true⟩]⟩]⟩] }

/-- regression (F18-4, fixed by 87ef90c): `interface{ any }` is bound and wrapped -/
theorem iface_embeds_only_empty_fixed :
    boundKeys (genE pkgEmbedsEmpty) = ["E"] ∧ (genE pkgEmbedsEmpty).wtypes = [⟨"_x_y_p_E", "E", []⟩] := by decide

/-- regression (F18-5, fixed by 87ef90c): a constraint interface with a method is not bound -/
theorem constraint_iface_with_methods_fixed :
    boundKeys (genE pkgConstraintMethod) = [] ∧ (genE pkgConstraintMethod).wtypes = [] := by decide

/-- with the facts of the tree before 87ef90c the model reproduces both findings: the theorems above
    depend on the regenerated `skips` -/
example :
    boundKeys (genY { K with skipNonMethodSet := false, skipConstraintIface := true } pkgEmbedsEmpty) = [] ∧
    boundKeys (genY { K with skipNonMethodSet := false, skipConstraintIface := true } pkgConstraintMethod) = ["C"] := by decide

/-- non-vacuity: a package with a typed and an untyped constant, a generic and a plain function, a
    variable, a generic type and a one-method interface is in the domain, and binds five names -/
def pkgMixed : Pkg :=
  { importPath := "x.y/p", path := "x.y/p", name := "p", dest := "lib", minor := 23, tags := ["foo"],
    objs := [⟨"A", true, .const none⟩, ⟨"B", true, .const (some (.int 5))⟩, ⟨"F", true, .func false⟩,
             ⟨"G", true, .func true⟩, ⟨"I", true, .iface false 0 true
               [⟨"M", true, true, [⟨"", "int".toList, none, [], false⟩, ⟨"xs", "[]io.Reader".toList, some "io.Reader".toList, ["io"], false⟩],
                 [⟨"", "error".toList, none, [], false⟩]⟩, ⟨"u", false, false, [], []⟩]⟩,
             ⟨"T", true, .typ true⟩, ⟨"V", true, .var⟩, ⟨"w", false, .var⟩] }

example : boundKeys (genE pkgMixed) = ["A", "B", "F", "V", "I"] := by decide

/-! ### 2. every object is bound under its own name -/

/-- the identifier a binding form refers to -/
def boundIdent : Form → Option Ident
  | .value id => some id
  | .addr id => some id
  | .typ id => some id
  | _ => none

private theorem pname_eq_ident (p : Pkg) (name : String) : pname K p name = Spec.ident K.restricted p name := by
  unfold pname Spec.ident
  simp only [K_restrictedStdOnly, Bool.not_true, Bool.false_or]
  cases (K.restricted.contains (p.name ++ name)) <;> cases (p.importPath == p.name) <;> rfl

private theorem boundIdent_fixConst (id id' : Ident) (v : CVal) (h : boundIdent (fixConst K id v) = some id') : id' = id := by
  rw [fixConst_K] at h
  cases v <;> simp [boundIdent] at h <;> exact h.symm

/-- **every object is bound under its own name**: the identifier bound under key `k` is the package's
    own `k`, except in the wrapper of the standard library's os / log (import path = package name),
    where the sandboxed replacement is bound — every package (since 246eb1c a third-party package
    that happens to be called os or log is no exception) -/
theorem own_name_spec (p : Pkg) :
    ∀ e ∈ (genE p).vals ++ (genE p).typs, ∀ id, boundIdent e.form = some id → id = Spec.ident K.restricted p e.key := by
  intro e he id hid
  simp only [genE, genY, List.mem_append] at he
  rcases he with he | he
  · obtain ⟨o, ho, f, hf, rfl⟩ := (mem_valEntries p e p.objs).1 he
    rw [valForm_K] at hf
    simp only at hid ⊢
    rw [← pname_eq_ident]
    cases hx : o.exported <;> simp [hx] at hf
    cases hk : o.kind <;> simp [hk] at hf
    · rename_i u
      cases u <;> simp at hf
      · subst hf; simpa [boundIdent] using hid.symm
      · subst hf; exact boundIdent_fixConst _ _ _ hid
    · obtain ⟨_, rfl⟩ := hf; simpa [boundIdent] using hid.symm
    · subst hf; simpa [boundIdent] using hid.symm
  · obtain ⟨o, ho, _, rfl⟩ := (mem_typEntries p e p.objs).1 he
    simp only [boundIdent, Option.some.injEq] at hid
    rw [← pname_eq_ident]; exact hid.symm

/-- corollary in plain words: outside the standard library's os and log every bound identifier is
    `pkg.Key` -/
theorem own_name (p : Pkg) (h : p.importPath ≠ p.name ∨ ∀ o ∈ p.objs, K.restricted.contains (p.name ++ o.name) = false) :
    ∀ e ∈ (genE p).vals ++ (genE p).typs, ∀ id, boundIdent e.form = some id → id = ⟨p.name, e.key⟩ := by
  intro e he id hid
  have := own_name_spec p e he id hid
  rw [this]; unfold Spec.ident
  rcases h with h | h
  · have : (p.importPath == p.name) = false := by simpa using h
    simp [this]
  · have hkey : K.restricted.contains (p.name ++ e.key) = false := by
      simp only [genE, genY, List.mem_append] at he
      rcases he with he | he
      · obtain ⟨o, ho, f, _, rfl⟩ := (mem_valEntries p e p.objs).1 he; exact h o ho
      · obtain ⟨o, ho, _, rfl⟩ := (mem_typEntries p e p.objs).1 he; exact h o ho
    have h' : ¬ (p.name ++ e.key ∈ K.restricted) := by simpa using hkey
    simp [h']

/-- a third-party package that happens to be called `log` and exports `Fatal` -/
def pkgForeignLog : Pkg :=
  { importPath := "x.y/log", path := "x.y/log", name := "log", dest := "lib", minor := 23, tags := [],
    objs := [⟨"Fatal", true, .func false⟩] }

/-- regression (F18-3, fixed by 246eb1c): the foreign `log.Fatal` is bound to itself; the standard
    library's is still bound to the sandboxed replacement -/
theorem restricted_foreign_fixed :
    (genE pkgForeignLog).vals = [⟨"Fatal", .value ⟨"log", "Fatal"⟩⟩] ∧
    (genE { pkgForeignLog with importPath := "log", path := "log" }).vals = [⟨"Fatal", .value ⟨"", "logFatal"⟩⟩] := by decide

/-- with the condition of the tree before 246eb1c the model reproduces the finding -/
example : (genY { K with restrictedStdOnly := false } pkgForeignLog).vals = [⟨"Fatal", .value ⟨"", "logFatal"⟩⟩] := by decide

example : (genE pkgMixed).typs = [⟨"I", .typ ⟨"p", "I"⟩⟩] := by decide

/-! ### 3. variables are bound by address (and nothing else is) -/

theorem vars_by_address (p : Pkg) :
    (∀ o ∈ p.objs, o.exported = true → o.kind = .var →
        (⟨o.name, .addr (pname K p o.name)⟩ : Entry) ∈ (genE p).vals) ∧
    (∀ e ∈ (genE p).vals ++ (genE p).typs, ∀ id, e.form = .addr id →
        ∃ o ∈ p.objs, o.name = e.key ∧ o.kind = .var) := by
  constructor
  · intro o ho hx hk
    refine (mem_valEntries p _ p.objs).2 ⟨o, ho, _, ?_, rfl⟩
    rw [valForm_K]; simp [hx, hk]
  · intro e he id hf
    simp only [genE, genY, List.mem_append] at he
    rcases he with he | he
    · obtain ⟨o, ho, f, hvf, rfl⟩ := (mem_valEntries p e p.objs).1 he
      refine ⟨o, ho, rfl, ?_⟩
      rw [valForm_K] at hvf
      simp only at hf
      cases hx : o.exported <;> simp [hx] at hvf
      cases hk : o.kind <;> simp [hk] at hvf
      · rename_i u
        cases u <;> simp at hvf
        · subst hvf; cases hf
        · subst hvf; rw [fixConst_K] at hf; rename_i v; cases v <;> cases hf
      · obtain ⟨_, rfl⟩ := hvf; cases hf
      · rfl
    · obtain ⟨o, _, _, rfl⟩ := (mem_typEntries p e p.objs).1 he
      cases hf

/-! ### 4. untyped constants are bound as literals denoting exactly their value -/

/-- the rational `n/d` is `num/den` -/
def sameValue (n : Int) (d : Nat) (num : Int) (den : Nat) : Prop := n * (den : Int) = num * (d : Int)

instance (n : Int) (d : Nat) (num : Int) (den : Nat) : Decidable (sameValue n d num den) := by
  unfold sameValue; infer_instance

/-- integer, string and boolean constants: exact, for every package -/
theorem untyped_const_literal (p : Pkg) (o : Obj) (ho : o ∈ p.objs) (hx : o.exported = true) :
    (∀ n, o.kind = .const (some (.int n)) → (⟨o.name, .lit .INT (.int n)⟩ : Entry) ∈ (genE p).vals) ∧
    (∀ s, o.kind = .const (some (.str s)) → (⟨o.name, .lit .STRING (.str s)⟩ : Entry) ∈ (genE p).vals) ∧
    (∀ b, o.kind = .const (some (.bool b)) → (⟨o.name, .value (pname K p o.name)⟩ : Entry) ∈ (genE p).vals) ∧
    (∀ n d prec, o.kind = .const (some (.flt n d prec)) →
        (⟨o.name, .lit .FLOAT (.rat (floatText n d prec).1 (floatText n d prec).2)⟩ : Entry) ∈ (genE p).vals) ∧
    (∀ re im, o.kind = .const (some (.cplx re im)) →
        (⟨o.name, .lit .COMPLEX (.cplx (fixPart re) (fixPart im))⟩ : Entry) ∈ (genE p).vals) := by
  refine ⟨?_, ?_, ?_, ?_, ?_⟩ <;> intros <;> rename_i hk <;>
    refine (mem_valEntries p _ p.objs).2 ⟨o, ho, _, ?_, rfl⟩ <;>
    rw [valForm_K] <;> simp [hx, hk, fixConst_K]

/-- typed constants keep their type: they are bound by name -/
theorem typed_const_by_name (p : Pkg) (o : Obj) (ho : o ∈ p.objs) (hx : o.exported = true)
    (hk : o.kind = .const none) : (⟨o.name, .value (pname K p o.name)⟩ : Entry) ∈ (genE p).vals := by
  refine (mem_valEntries p _ p.objs).2 ⟨o, ho, _, ?_, rfl⟩
  rw [valForm_K]; simp [hx, hk]

/-- the full statement for floating-point constants: the literal denotes the constant's value -/
def float_const_exact_statement : Prop :=
  ∀ (num : Int) (den : Nat), 0 < den → sameValue (floatText num den 0).1 (floatText num den 0).2 num den

/-- **dyadic constants are exact**: for every numerator and every power-of-two denominator the
    literal fixConst prints denotes the constant (this is why math.MaxFloat64, 0.5, 1<<70 are right) -/
theorem float_const_exact_of_dyadic (num : Int) (k : Nat) :
    sameValue (floatText num (2 ^ k) 0).1 (floatText num (2 ^ k) 0).2 num (2 ^ k) :=
  floatText_dyadic num k

/-- the converse at the first stage: when big.Float.SetRat returns the value unchanged, the value is
    dyadic (its denominator divides numerator times a power of two) — every other constant is already
    altered before it is printed -/
theorem setRat_exact_only_dyadic (P a b : Nat)
    (h : (binRound P a b).1 * 2 ^ (binRound P a b).2.2 * b = a * 2 ^ (binRound P a b).2.1) :
    b ∣ a * 2 ^ (binRound P a b).2.1 :=
  ⟨(binRound P a b).1 * 2 ^ (binRound P a b).2.2, by rw [← h, Nat.mul_comm]⟩

/-- F13: 1/10 (any non-dyadic value) is bound to
    0.1000000000000000000013552527156068805425093160010874271392822266 -/
theorem float_const_witness :
    sameValue (floatText 1 10 0).1 (floatText 1 10 0).2
      1000000000000000000013552527156068805425093160010874271392822266 (10 ^ 64) ∧
    ¬ sameValue (floatText 1 10 0).1 (floatText 1 10 0).2 1 10 := by
  decide

theorem float_const_exact_witness : ¬ float_const_exact_statement := by
  intro h; exact float_const_witness.2 (h 1 10 (by decide))

/-- the nested literal `n` denotes the part `c` of a complex constant -/
def denotes : Num → CNum → Prop
  | .int v, .int n => v = n
  | .rat a b, .flt n d _ => sameValue a b n d
  | _, _ => False

/-- the part is an integer, or a rational go/constant holds exactly with a power-of-two denominator -/
def dyadicPart : CNum → Prop
  | .int _ => True
  | .flt _ d prec => prec = 0 ∧ ∃ k, d = 2 ^ k

theorem fixPart_exact_of_dyadic (c : CNum) (h : dyadicPart c) : denotes (fixPart c) c := by
  cases c with
  | int n => rfl
  | flt n d prec =>
    obtain ⟨rfl, k, rfl⟩ := h
    exact floatText_dyadic n k

/-- **untyped complex constants are bound as exact go/constant values** (since eb1f965):
    `constant.BinaryOp(re, token.ADD, constant.MakeImag(im))` with both parts literals, each denoting
    its part exactly when that part is an integer or dyadic — for every package and every such constant,
    however large (`1e400i` no longer goes through complex128) -/
theorem complex_const_exact_of_dyadic (p : Pkg) (o : Obj) (ho : o ∈ p.objs) (hx : o.exported = true)
    (re im : CNum) (hk : o.kind = .const (some (.cplx re im))) (hre : dyadicPart re) (him : dyadicPart im) :
    ∃ a b, (⟨o.name, .lit .COMPLEX (.cplx a b)⟩ : Entry) ∈ (genE p).vals ∧ denotes a re ∧ denotes b im :=
  ⟨fixPart re, fixPart im, (untyped_const_literal p o ho hx).2.2.2.2 re im hk,
    fixPart_exact_of_dyadic re hre, fixPart_exact_of_dyadic im him⟩

/-- regression (F18-2, fixed by eb1f965): `const C = 3 + 0.5i` and `const Big = 1e400i` (a value no
    complex128 holds) are bound as exact literals -/
theorem complex_const_fixed :
    (genE { pkgForeignLog with objs := [⟨"Big", true, .const (some (.cplx (.int 0) (.int 10000000000000000000000000000000000000000000000000000000000000000000000000000000000000000000000000000000000000000000000000000000000000000000000000000000000000000000000000000000000000000000000000000000000000000000000000000000000000000000000000000000000000000000000000000000000000000000000000000000000000000000000000000000000000000000000000000000000000000000000000000000000000000000000000000000000000000)))⟩,
                                        ⟨"C", true, .const (some (.cplx (.int 3) (.flt 1 2 0)))⟩] }).vals =
      [⟨"Big", .lit .COMPLEX (.cplx (.int 0) (.int 10000000000000000000000000000000000000000000000000000000000000000000000000000000000000000000000000000000000000000000000000000000000000000000000000000000000000000000000000000000000000000000000000000000000000000000000000000000000000000000000000000000000000000000000000000000000000000000000000000000000000000000000000000000000000000000000000000000000000000000000000000000000000000000000000000000000000000))⟩, ⟨"C", .lit .COMPLEX (.cplx (.int 3) (.rat (5 * 10 ^ 63) (10 ^ 64)))⟩] ∧
    Spec.constForm ⟨"log", "C"⟩ (some (.cplx (.int 3) (.flt 1 2 0))) = .lit .COMPLEX (.cplx (.int 3) (.rat 1 2)) := by decide

/-- with the Complex case of the tree before eb1f965 the model binds the constant by name -/
example : (genY { K with litComplex := false } { pkgForeignLog with objs := [⟨"C", true, .const (some (.cplx (.int 3) (.flt 1 2 0)))⟩] }).vals =
    [⟨"C", .value ⟨"log", "C"⟩⟩] := by decide

/-- still open (F18-1 inside a complex constant): the parts go through the same float printing, so
    `0.1i` is bound to 0.1000000000000000000013552527156068805425093160010874271392822266 i -/
theorem complex_part_rounded_witness :
    fixPart (.flt 1 10 0) = .rat (floatText 1 10 0).1 (floatText 1 10 0).2 ∧ ¬ denotes (fixPart (.flt 1 10 0)) (.flt 1 10 0) := by
  refine ⟨rfl, ?_⟩
  show ¬ sameValue (floatText 1 10 0).1 (floatText 1 10 0).2 1 10
  exact float_const_witness.2

/-! ### 5. interface wrappers: exactly the exported methods, forwarded faithfully -/

/-- what go/types guarantees about a variadic signature: the last parameter is a slice `[]E`
    (decidable; the correspondence run checks it on every method) -/
def wfParams (variadic : Bool) (n : Nat) : Nat → List Param → Bool
  | _, [] => true
  | i, q :: qs =>
    (!(variadic && (i + 1 == n)) || (match q.elem with
      | some e => q.typ == '[' :: ']' :: e
      | none => false)) && wfParams variadic n (i + 1) qs

def methodWf (m : Method) : Bool := wfParams m.variadic m.params.length 0 m.params

private theorem freshFrom_eq : ∀ (f : Nat) (used : List String) (s : String),
    freshFrom f used s = Spec.distinctFrom f used s
  | 0, _, _ => rfl
  | f + 1, used, s => by unfold freshFrom Spec.distinctFrom; rw [freshFrom_eq f used (s ++ "_")]

private theorem fresh_eq (used : List String) (pre : String) (j : Nat) : fresh used pre j = Spec.invent used pre j := by
  unfold fresh Spec.invent; exact freshFrom_eq _ _ _

private theorem paramNames_eq : ∀ (ps : List Param) (used : List String) (i : Nat),
    paramNames K used i ps = Spec.paramNames used i ps
  | [], _, _ => rfl
  | q :: qs, used, i => by
    unfold Spec.paramNames
    cases hf : needsFresh q.name
    · rw [paramNames_keep used i q qs hf, paramNames_eq qs used (i + 1)]
      simp [usable_eq, hf]
    · rw [paramNames_fresh used i q qs hf, fresh_eq, paramNames_eq qs _ (i + 1)]
      simp [usable_eq, hf]

private theorem resultNames_eq : ∀ (rs : List Param) (used : List String) (i : Nat),
    resultNames K used i rs = Spec.resultNames used i rs
  | [], _, _ => rfl
  | r :: rs, used, i => by
    unfold Spec.resultNames
    by_cases hw : r.name = "W"
    · rw [resultNames_fresh used i r rs hw, fresh_eq, resultNames_eq rs _ (i + 1)]; simp [hw]
    · rw [resultNames_keep used i r rs hw, resultNames_eq rs used (i + 1)]; simp [hw]

private theorem wparams_eq (variadic : Bool) (n : Nat) : ∀ (qs : List Param) (ns : List String) (i : Nat),
    wfParams variadic n i qs = true → wparams K variadic n i (rename qs ns) = Spec.wparams variadic n i qs ns
  | [], _, _, _ => by simp [rename, wparams, Spec.wparams]
  | _ :: _, [], _, _ => by simp [rename, wparams, Spec.wparams]
  | q :: qs, nm :: ns, i, h => by
    unfold wfParams at h
    simp only [Bool.and_eq_true] at h
    simp only [rename, wparams, Spec.wparams]
    rw [wparams_eq variadic n qs ns (i + 1) h.2]
    congr 1
    unfold Spec.wparam
    cases hl : (variadic && (i + 1 == n))
    · simp
    · have h1 := h.1
      rw [hl] at h1
      cases he : q.elem with
      | none => simp [he] at h1
      | some e =>
        simp only [he, Bool.not_true, Bool.false_or, beq_iff_eq] at h1
        simp [h1]

private theorem wargs_eq (variadic : Bool) (n : Nat) : ∀ (qs : List Param) (ns : List String) (i : Nat),
    ns.length = qs.length → wargs K variadic n i (rename qs ns) = Spec.wargs variadic n i ns
  | [], [], _, _ => rfl
  | [], _ :: _, _, h => by simp at h
  | _ :: _, [], _, h => by simp at h
  | q :: qs, nm :: ns, i, h => by
    simp only [rename, wargs, Spec.wargs]
    rw [wargs_eq variadic n qs ns (i + 1) (by simpa using h)]; simp

private theorem wresults_eq : ∀ (rs : List Param) (ns : List String), wresults (rename rs ns) = Spec.wresults rs ns
  | [], _ => by simp [rename, wresults, Spec.wresults]
  | _ :: _, [] => by simp [rename, wresults, Spec.wresults]
  | r :: rs, nm :: ns => by
    have := wresults_eq rs ns
    simp only [wresults] at this
    simp [rename, wresults, Spec.wresults, this]

private theorem paramNames_length : ∀ (ps : List Param) (used : List String) (i : Nat),
    (paramNames K used i ps).1.length = ps.length
  | [], _, _ => rfl
  | q :: qs, used, i => by
    cases hf : needsFresh q.name
    · rw [paramNames_keep used i q qs hf]; simp [paramNames_length qs used (i + 1)]
    · rw [paramNames_fresh used i q qs hf]; simp [paramNames_length qs _ (i + 1)]

/-- **a wrapper method is what the property asks for**, whatever the interface calls its parameters
    and results: usable names kept, the others replaced by `a<i>` / `r<i>` made distinct, the last
    parameter `...E` and forwarded with `...` iff the method is variadic, results preserved, the nil
    guard on `String() string` only -/
theorem wmethod_eq_spec (m : Method) (h : methodWf m = true) : wmethod K m = Spec.wmethod m := by
  unfold wmethod Spec.wmethod declared
  simp only [K_guardByName, K_guardStringer, Bool.false_and, Bool.false_or, Bool.true_and]
  rw [paramNames_eq, resultNames_eq, wparams_eq m.variadic m.params.length m.params _ 0 h, wresults_eq,
    wargs_eq m.variadic m.params.length m.params _ 0 (by rw [← paramNames_eq]; exact paramNames_length _ _ _)]
  rfl

/-- Go's rule for a signature: the names of parameters and results that declare something are
    pairwise distinct -/
def sigNamesOk (m : Method) : Prop := (((m.params ++ m.results).map (·.name)).filter nonBlank).Nodup

instance (m : Method) : Decidable (sigNamesOk m) := by unfold sigNamesOk; infer_instance

/-- **the names a wrapper method declares compile, for every list of parameter and result names**
    (since 7677ad0): every parameter has a name that is neither empty nor blank and is forwarded under
    that name, in order; the receiver `W`, the parameters and the named results are pairwise distinct;
    a name that can be kept is kept. (`blank`, `W` and clashing `a<i>` names were F18-7 / F18-8.) -/
theorem wrapper_method_names_compile (m : Method) (h : sigNamesOk m) :
    (∀ q ∈ (wmethod K m).params, q.name ≠ "" ∧ q.name ≠ "_") ∧
    (wmethod K m).args.map (·.name) = (wmethod K m).params.map (·.name) ∧
    (wmethod K m).params.length = m.params.length ∧ (wmethod K m).results.length = m.results.length ∧
    ("W" :: (wmethod K m).params.map (·.name) ++ ((wmethod K m).results.map (·.name)).filter nonBlank).Nodup ∧
    (∀ x ∈ m.params.zip ((wmethod K m).params.map (·.name)), Spec.usable x.1.name = true → x.2 = x.1.name) := by
  -- the two loops
  have hsplit : (((m.params.map (·.name)).filter nonBlank) ++ ((m.results.map (·.name)).filter nonBlank)).Nodup := by
    unfold sigNamesOk at h; simpa [List.filter_append] using h
  have hndP : ((m.params.map (·.name)).filter Spec.usable).Nodup := by
    refine List.Nodup.sublist ?_ (List.nodup_append.1 hsplit).1
    have : (m.params.map (·.name)).filter Spec.usable = ((m.params.map (·.name)).filter nonBlank).filter Spec.usable := by
      rw [List.filter_filter]; congr 1; funext n
      cases hu : Spec.usable n
      · simp
      · simp [usable_nonBlank n hu]
    rw [this]; exact List.filter_sublist
  have hinP : ∀ q ∈ m.params, q.name ∈ declared m := by
    intro q hq; unfold declared
    exact List.mem_cons_of_mem _ (List.mem_map.2 ⟨q, List.mem_append_left _ hq, rfl⟩)
  obtain ⟨p1, p2, p3, p4, p5, p6⟩ := paramNames_inv m.params (declared m) 0 hinP hndP
  have hinR : ∀ r ∈ m.results, r.name ∈ (paramNames K (declared m) 0 m.params).2 := by
    intro r hr; apply p3; unfold declared
    exact List.mem_cons_of_mem _ (List.mem_map.2 ⟨r, List.mem_append_right _ hr, rfl⟩)
  obtain ⟨r1, r2, r3, r4⟩ := resultNames_inv m.results _ 0 hinR (List.nodup_append.1 hsplit).2.1
  -- the names the wrapper method prints are the names the loops computed
  have hpn : (wmethod K m).params.map (·.name) = (paramNames K (declared m) 0 m.params).1 := by
    simp only [wmethod]; rw [wparams_names, rename_names _ _ p6]
  have han : (wmethod K m).args.map (·.name) = (paramNames K (declared m) 0 m.params).1 := by
    simp only [wmethod]; rw [wargs_names, rename_names _ _ p6]
  have hrn : (wmethod K m).results.map (·.name) =
      resultNames K (paramNames K (declared m) 0 m.params).2 0 m.results := by
    simp only [wmethod]; rw [wresults_names, rename_names _ _ r4]
  refine ⟨?_, by rw [han, hpn], ?_, ?_, ?_, ?_⟩
  · intro q hq
    have : needsFresh q.name = false := p2 _ (hpn ▸ List.mem_map.2 ⟨q, hq, rfl⟩)
    unfold needsFresh at this
    simp only [Bool.or_eq_false_iff, beq_eq_false_iff_ne] at this
    exact ⟨this.1.1, this.1.2⟩
  · have := congrArg List.length hpn; simpa [p6] using this
  · have := congrArg List.length hrn; simpa [r4] using this
  · rw [hpn, hrn]
    refine List.nodup_cons.2 ⟨?_, List.nodup_append.2 ⟨p1, r1, ?_⟩⟩
    · intro hm
      rcases List.mem_append.1 hm with hm | hm
      · have := p2 _ hm; simp [needsFresh] at this
      · exact r2 _ (List.mem_filter.1 hm).1 rfl
    · intro a ha b hb hab
      subst hab
      obtain ⟨hb1, hb2⟩ := List.mem_filter.1 hb
      rcases r3 a hb1 with hr | hr
      · exact hr (p4 a ha)
      · rcases p5 a ha with hp | hp
        · apply hp; unfold declared
          obtain ⟨r, hr', hrn'⟩ := List.mem_map.1 hr
          exact List.mem_cons_of_mem _ (List.mem_map.2 ⟨r, List.mem_append_right _ hr', hrn'⟩)
        · -- a name of a parameter and of a result: excluded by Go's rule
          have hp' : a ∈ (m.params.map (·.name)).filter nonBlank :=
            List.mem_filter.2 ⟨(List.mem_filter.1 hp).1, usable_nonBlank a (List.mem_filter.1 hp).2⟩
          exact (List.nodup_append.1 hsplit).2.2 a hp' a (List.mem_filter.2 ⟨hr, hb2⟩) rfl
  · rw [hpn]; exact paramNames_kept m.params (declared m) 0

/-- regression (F18-7 / F18-8, fixed by 7677ad0): `M(_ int, W int)` and `N(int) (a0 int)` -/
theorem blank_param_fixed :
    (wmethod K ⟨"M", true, false, [⟨"_", "int".toList, none, [], false⟩, ⟨"W", "int".toList, none, [], false⟩], []⟩).args =
      [⟨"a0", false⟩, ⟨"a1", false⟩] ∧
    ((wmethod K ⟨"N", true, false, [⟨"", "int".toList, none, [], false⟩], [⟨"a0", "int".toList, none, [], false⟩]⟩).params.map (·.name),
     (wmethod K ⟨"N", true, false, [⟨"", "int".toList, none, [], false⟩], [⟨"a0", "int".toList, none, [], false⟩]⟩).results.map (·.name)) =
      (["a0_"], ["a0"]) ∧
    (wmethod K ⟨"R", true, false, [], [⟨"W", "int".toList, none, [], false⟩, ⟨"r0", "int".toList, none, [], false⟩]⟩).results.map (·.name) =
      ["r0_", "r0"] := by decide

/-- with the method loop of the tree before 7677ad0 the model reproduces the finding -/
example :
    (wmethod { K with freshNames := false, defaultNames := true }
      ⟨"M", true, false, [⟨"_", "int".toList, none, [], false⟩, ⟨"W", "int".toList, none, [], false⟩], []⟩).args =
      [⟨"_", false⟩, ⟨"W", false⟩] := by decide

/-- **the nil guard `return ""` is attached to `String() string` and to nothing else** (since
    2873e96) — every method -/
theorem string_guard_exact (m : Method) :
    (wmethod K m).guard = true ↔
      m.name = "String" ∧ m.params = [] ∧ ∃ r, m.results = [r] ∧ r.isString = true := by
  simp only [wmethod, K_guardByName, K_guardStringer, Bool.false_and, Bool.false_or, Bool.true_and, isStringer]
  constructor
  · intro h
    simp only [Bool.and_eq_true, beq_iff_eq, List.isEmpty_iff] at h
    obtain ⟨⟨h1, h2⟩, h3⟩ := h
    refine ⟨h1, h2, ?_⟩
    match hm : m.results, h3 with
    | [r], h3 => exact ⟨r, rfl, h3⟩
  · rintro ⟨h1, h2, r, h3, h4⟩
    simp [h1, h2, h3, h4]

/-- regression (F18-12, fixed by 2873e96): `String() (string, error)` gets no guard, `String() string` does -/
theorem string_guard_fixed :
    (wmethod K ⟨"String", true, false, [], [⟨"", "string".toList, none, [], true⟩, ⟨"", "error".toList, none, [], false⟩]⟩).guard = false ∧
    (wmethod K ⟨"String", true, false, [], [⟨"", "string".toList, none, [], true⟩]⟩).guard = true ∧
    (wmethod { K with guardStringer := false, guardByName := true }
      ⟨"String", true, false, [], [⟨"", "string".toList, none, [], true⟩, ⟨"", "error".toList, none, [], false⟩]⟩).guard = true := by
  decide

private theorem keptMethods_eq (ms : List Method) : keptMethods K ms = ms.filter (·.exported) := by
  unfold keptMethods
  congr 1; funext m; cases m.exported <;> simp

private theorem mangle_eq (s : String) : mangle K s = Spec.prefixOf s := by
  unfold mangle Spec.prefixOf
  simp [keptInPrefix]

/-- **the wrapper type prefix is an identifier for every import path** (since 169d4db): go/format never
    rejects the file because of it -/
theorem prefix_is_identifier (importPath : String) : (mangle K importPath).toList.all identChar = true := by
  unfold mangle
  simp only [K_prefixAll, if_true, String.toList_ofList, List.all_map, List.all_eq_true]
  intro c _
  simp only [Function.comp]
  by_cases h : keptInPrefix c = true
  · rw [if_pos h]
    simp only [keptInPrefix, identChar, Bool.or_eq_true] at h ⊢
    rcases h with h | h
    · exact Or.inl (Or.inl h)
    · exact Or.inr h
  · rw [if_neg h]; decide

theorem format_never_fails (p : Pkg) : formatFails K p = false := by
  unfold formatFails; simp [prefix_is_identifier]

/-- regression (F18-14, fixed by 169d4db): `+` in an import path -/
theorem import_path_plus_fixed :
    mangle K "x.y/c++/lib" = "_x_y_c___lib_" ∧
    formatFails { K with prefixAll := false, replaced := ['/', '-', '.', '~'] }
      { pkgForeignLog with importPath := "x.y/c++/lib", objs := [⟨"I", true, .iface false 0 true []⟩] } = true := by decide

/-- still open: the prefix is not injective — `x/a+b`, `x/a-b` and `x/a.b` share one, so the wrappers of
    two such packages declare the same type names when they are generated into one package -/
theorem prefix_collision_witness : mangle K "x/a+b" = mangle K "x/a-b" ∧ mangle K "x/a-b" = mangle K "x/a.b" := by decide

/-- **every emitted interface has a wrapper with exactly its exported methods, each forwarded as the
    property demands** — and every wrapper type comes from such an interface -/
theorem iface_wrapper_methods (p : Pkg) :
    (∀ o ∈ p.objs, wrapKept K o = true → (∀ m ∈ methodsOf o.kind, methodWf m = true) →
      ∃ w ∈ (genE p).wtypes, w.iface = o.name ∧ w.name = Spec.prefixOf p.importPath ++ o.name ∧
        w.methods = ((methodsOf o.kind).filter (·.exported)).map Spec.wmethod ∧
        (⟨"_" ++ o.name, .wrap w.name⟩ : Entry) ∈ (genE p).wraps) ∧
    (∀ w ∈ (genE p).wtypes, ∃ o ∈ p.objs, wrapKept K o = true ∧ w.iface = o.name ∧
        w.methods.map (·.name) = ((methodsOf o.kind).filter (·.exported)).map (·.name)) := by
  constructor
  · intro o ho hk hwf
    refine ⟨wtypeOf K p o, (mem_wtypes p _ p.objs).2 ⟨o, ho, hk, rfl⟩, rfl, ?_, ?_, ?_⟩
    · simp [wtypeOf, mangle_eq]
    · simp only [wtypeOf, keptMethods_eq]
      apply List.map_congr_left
      intro m hm
      exact wmethod_eq_spec m (hwf m (List.mem_filter.1 hm).1)
    · exact (mem_wrapEntries p _ p.objs).2 ⟨o, ho, hk, by simp [wtypeOf]⟩
  · intro w hw
    obtain ⟨o, ho, hk, rfl⟩ := (mem_wtypes p w p.objs).1 hw
    refine ⟨o, ho, hk, rfl, ?_⟩
    simp [wtypeOf, keptMethods_eq, wmethod, Function.comp_def]

/-- the interfaces that get a wrapper are the exported, non-generic method sets -/
theorem wrapped_iff (o : Obj) :
    wrapKept K o = true ↔ (o.exported = true ∧ match o.kind with
      | .iface g _ methodSet _ => g = false ∧ methodSet = true
      | _ => False) := by
  rw [wrapKept_K]
  cases o.exported <;> cases o.kind <;> simp

/-- non-vacuity and a concrete reading: the wrapper of `pkgMixed.I` -/
example :
    (genE pkgMixed).wtypes =
      [⟨"_x_y_p_I", "I",
        [⟨"M", [⟨"a0", "int".toList, false⟩, ⟨"xs", "io.Reader".toList, true⟩], [⟨"", "error".toList, false⟩],
          [⟨"a0", false⟩, ⟨"xs", true⟩], true, false⟩]⟩] ∧
    (genE pkgMixed).imports = ["io", "go/constant", "go/token", "x.y/p", "reflect"] ∧
    (genE pkgMixed).tags = "foo" := by decide

/-! ### 6. no key is emitted twice -/

private theorem valKey_mem (p : Pkg) : ∀ os k, k ∈ (valEntries K p os).map (·.key) → k ∈ os.map (·.name) := by
  intro os k h
  obtain ⟨e, he, rfl⟩ := List.mem_map.1 h
  obtain ⟨o, ho, f, _, rfl⟩ := (mem_valEntries p e os).1 he
  exact List.mem_map.2 ⟨o, ho, rfl⟩

private theorem typKey_mem (p : Pkg) : ∀ os k, k ∈ (typEntries K p os).map (·.key) → k ∈ os.map (·.name) := by
  intro os k h
  obtain ⟨e, he, rfl⟩ := List.mem_map.1 h
  obtain ⟨o, ho, _, rfl⟩ := (mem_typEntries p e os).1 he
  exact List.mem_map.2 ⟨o, ho, rfl⟩

private theorem not_both (p : Pkg) (o : Obj) (f : Form) (h : valForm K p o = some f) : typKept K o = false := by
  rw [valForm_K] at h; rw [typKept_K]
  cases o.exported <;> cases hk : o.kind <;> simp_all

private theorem keys_nodup (p : Pkg) : ∀ os : List Obj, (os.map (·.name)).Nodup →
    ((valEntries K p os).map (·.key) ++ (typEntries K p os).map (·.key)).Nodup
  | [], _ => by simp [valEntries, typEntries]
  | o :: os, h => by
    simp only [List.map_cons, List.nodup_cons] at h
    have ih := keys_nodup p os h.2
    have hv : o.name ∉ (valEntries K p os).map (·.key) := fun hm => h.1 (valKey_mem p os _ hm)
    have ht : o.name ∉ (typEntries K p os).map (·.key) := fun hm => h.1 (typKey_mem p os _ hm)
    unfold valEntries typEntries
    cases hf : valForm K p o with
    | some f =>
      rw [not_both p o f hf]
      simp only [K_tmplOk, if_true, List.map_cons, List.cons_append, List.nodup_cons, List.mem_append, Bool.false_eq_true, if_false]
      exact ⟨fun hm => hm.elim hv ht, ih⟩
    | none =>
      cases hk : typKept K o
      · simpa using ih
      · simp only [K_tmplOk, if_true, List.map_cons]
        rw [List.nodup_append] at ih ⊢
        refine ⟨ih.1, List.nodup_cons.2 ⟨ht, ih.2.1⟩, ?_⟩
        intro a ha b hb
        rcases List.mem_cons.1 hb with rfl | hb
        · intro hab; subst hab; exact hv ha
        · exact ih.2.2 a ha b hb

private theorem wrapKeys_nodup (p : Pkg) : ∀ os : List Obj, (os.map (·.name)).Nodup →
    ((wrapEntries K p os).map (·.key)).Nodup ∧ ((wtypes K p os).map (·.iface)).Nodup
  | [], _ => by simp [wrapEntries, wtypes]
  | o :: os, h => by
    simp only [List.map_cons, List.nodup_cons] at h
    have ih := wrapKeys_nodup p os h.2
    unfold wrapEntries wtypes
    cases hk : wrapKept K o
    · simpa using ih
    · simp only [K_tmplOk, if_true, List.map_cons, List.nodup_cons]
      refine ⟨⟨?_, ih.1⟩, ?_, ih.2⟩
      · intro hm
        obtain ⟨e, he, hkey⟩ := List.mem_map.1 hm
        obtain ⟨o', ho', _, rfl⟩ := (mem_wrapEntries p e os).1 he
        have : o'.name = o.name := (String.append_right_inj "_").1 hkey
        exact h.1 (List.mem_map.2 ⟨o', ho', this⟩)
      · intro hm
        obtain ⟨w, hw, hkey⟩ := List.mem_map.1 hm
        obtain ⟨o', ho', _, rfl⟩ := (mem_wtypes p w os).1 hw
        exact h.1 (List.mem_map.2 ⟨o', ho', hkey⟩)

/-- **no duplicates**: with distinct object names (a Go scope), no key of the value/type sections,
    no key of the wrapper section and no wrapper type is emitted twice -/
theorem no_duplicates (p : Pkg) (h : (p.objs.map (·.name)).Nodup) :
    (boundKeys (genE p)).Nodup ∧ ((genE p).wraps.map (·.key)).Nodup ∧ ((genE p).wtypes.map (·.iface)).Nodup := by
  refine ⟨?_, (wrapKeys_nodup p p.objs h).1, (wrapKeys_nodup p p.objs h).2⟩
  simp only [boundKeys, genE, genY, List.map_append]
  exact keys_nodup p p.objs h

/-! ### 7. the extracted package is imported iff a binding names it -/

/-- no *type* of the package is replaced by a sandboxed one: every package but the standard library's
    own os / log (import path = name), and those too unless the type is in the `restricted` table -/
def DomImport (p : Pkg) : Prop :=
  p.importPath ≠ p.name ∨ ∀ o ∈ p.objs, typKept K o = true → K.restricted.contains (p.name ++ o.name) = false

instance (p : Pkg) : Decidable (DomImport p) := by unfold DomImport; infer_instance

private theorem pname_cases (p : Pkg) (name : String) :
    pname K p name = ⟨p.name, name⟩ ∨ pname K p name = ⟨"", p.name ++ name⟩ := by
  unfold pname; split <;> simp

private theorem ident_names (p : Pkg) (hn : p.name ≠ "") (name : String) :
    (pname K p name == (⟨p.name, name⟩ : Ident)) = ((pname K p name).pkg != "") := by
  rcases pname_cases p name with h | h <;> rw [h]
  · simp [hn]
  · have : ¬ ((⟨"", p.name ++ name⟩ : Ident) = ⟨p.name, name⟩) := by
      intro h'; exact hn (Ident.mk.inj h').1.symm
    simp [this]

private theorem form_names (p : Pkg) (hn : p.name ≠ "") (o : Obj) (f : Form) (hf : valForm K p o = some f) :
    namesPkg p ⟨o.name, f⟩ = Spec.refersPkg ⟨o.name, f⟩ := by
  rw [valForm_K] at hf
  cases hx : o.exported <;> simp [hx] at hf
  cases hk : o.kind <;> simp [hk] at hf
  · rename_i u
    cases u <;> simp at hf
    · subst hf; simp [namesPkg, Spec.refersPkg, ident_names p hn]
    · subst hf; rw [fixConst_K]; rename_i v
      cases v <;> simp [namesPkg, Spec.refersPkg, ident_names p hn]
  · obtain ⟨_, rfl⟩ := hf; simp [namesPkg, Spec.refersPkg, ident_names p hn]
  · subst hf; simp [namesPkg, Spec.refersPkg, ident_names p hn]

private theorem vals_any_eq (p : Pkg) (hn : p.name ≠ "") : ∀ os : List Obj,
    (valEntries K p os).any (namesPkg p) = (valEntries K p os).any Spec.refersPkg
  | [] => rfl
  | o :: os => by
    unfold valEntries
    cases hf : valForm K p o with
    | none => simpa using vals_any_eq p hn os
    | some f => simp only [K_tmplOk, if_true, List.any_cons, vals_any_eq p hn os, form_names p hn o f hf]

private theorem typs_any_eq (p : Pkg) (hn : p.name ≠ "") : ∀ os : List Obj,
    (p.importPath ≠ p.name ∨ ∀ o ∈ os, typKept K o = true → K.restricted.contains (p.name ++ o.name) = false) →
    (typEntries K p os).any Spec.refersPkg = !(typEntries K p os).isEmpty
  | [], _ => rfl
  | o :: os, h => by
    have h' : p.importPath ≠ p.name ∨ ∀ o ∈ os, typKept K o = true → K.restricted.contains (p.name ++ o.name) = false := by
      rcases h with h | h
      · exact Or.inl h
      · exact Or.inr fun q hq => h q (List.mem_cons_of_mem _ hq)
    unfold typEntries
    cases hk : typKept K o
    · simpa using typs_any_eq p hn os h'
    · have hp : pname K p o.name = ⟨p.name, o.name⟩ := by
        unfold pname
        rcases h with h | h
        · have : (p.importPath == p.name) = false := by simpa using h
          simp [this]
        · have := h o (List.mem_cons_self ..) hk
          have h'' : ¬ (p.name ++ o.name ∈ K.restricted) := by simpa using this
          simp [h'']
      simp [Spec.refersPkg, hp, hn]

/-- **the extracted package is imported iff some binding names it** (since a2117ce; an unused import
    does not compile): the import block is the packages the wrapper methods mention, go/constant and
    go/token when a literal is bound, the package itself exactly when a binding refers to it, and reflect
    — every package in `DomImport`, in particular every package that is not the standard library's os or log -/
theorem pkg_import_iff_used_partial (p : Pkg) (hn : p.name ≠ "") (h : DomImport p) :
    (genE p).imports = typeImports K p p.objs ++ (if litUsed K p p.objs then ["go/constant", "go/token"] else []) ++
      (if ((genE p).vals ++ (genE p).typs).any Spec.refersPkg then [p.importPath] else []) ++ ["reflect"] := by
  have huse : usePkg K p (genE p).vals (genE p).typs = ((genE p).vals ++ (genE p).typs).any Spec.refersPkg := by
    simp only [genE, genY, usePkg, K_importIfUsed, if_true, List.any_append]
    rw [vals_any_eq p hn, typs_any_eq p hn p.objs h, Bool.or_comm]
  rw [← huse]; rfl

/-- F18-13 (still open): extracted through a relative directory, the package's own types are taken for
    foreign ones: the wrapper imports `./relp` next to the real import path -/
def pkgRelative : Pkg :=
  { importPath := "x.y/relp", path := "./relp", name := "relp", dest := "lib", minor := 23, tags := [],
    objs := [⟨"I", true, .iface false 0 true [⟨"M", true, false, [⟨"x", "relp.T".toList, none, ["./relp"], false⟩], []⟩]⟩,
             ⟨"T", true, .typ false⟩] }

/-- the same package as the importer names it when it is extracted by import path -/
def pkgAbsolute : Pkg :=
  { pkgRelative with
    path := "x.y/relp"
    objs := [⟨"I", true, .iface false 0 true [⟨"M", true, false, [⟨"x", "relp.T".toList, none, ["x.y/relp"], false⟩], []⟩]⟩,
             ⟨"T", true, .typ false⟩] }

theorem relative_path_witness :
    "./relp" ∈ (genE pkgRelative).imports ∧ "./relp" ∉ (Spec.wrapper K.restricted 22 pkgRelative).imports ∧
    (genE pkgAbsolute).imports = ["x.y/relp", "reflect"] := by decide

/-- a package that exports nothing but untyped numeric / string constants: every binding is a literal -/
def pkgOnlyLiterals : Pkg :=
  { pkgRelative with path := "x.y/relp", objs := [⟨"Max", true, .const (some (.int 1099511627776))⟩] }

/-- regression (F18-15, fixed by a2117ce): the package is not imported; with the template of the tree
    before a2117ce the model reproduces the unused import -/
theorem only_literals_fixed :
    (genE pkgOnlyLiterals).imports = ["go/constant", "go/token", "reflect"] ∧
    (Spec.wrapper K.restricted 22 pkgOnlyLiterals).imports = ["go/constant", "go/token", "reflect"] ∧
    (genY { K with importIfUsed := false } pkgOnlyLiterals).imports = ["go/constant", "go/token", "x.y/relp", "reflect"] := by decide

/-- outside `DomImport` (still open, standard-library shaped packages only): `usePkg` starts from
    `len(typ) > 0`, so a package `log` whose only binding that could name it is the sandboxed type
    `Logger` (bound to the bare `logLogger`) is imported and never named -/
theorem restricted_type_only_witness :
    (genE { pkgForeignLog with importPath := "log", path := "log", objs := [⟨"Logger", true, .typ false⟩] }).typs =
      [⟨"Logger", .typ ⟨"", "logLogger"⟩⟩] ∧
    (genE { pkgForeignLog with importPath := "log", path := "log", objs := [⟨"Logger", true, .typ false⟩] }).imports = ["log", "reflect"] ∧
    (Spec.wrapper K.restricted 22 { pkgForeignLog with importPath := "log", path := "log", objs := [⟨"Logger", true, .typ false⟩] }).imports =
      ["reflect"] := by decide

/-- still open: a package that is itself called `constant` (or `token`, `reflect`) is imported next
    to go/constant: two imports with one name, the file does not compile -/
theorem package_named_constant_witness :
    (genE { importPath := "x.y/constant", path := "x.y/constant", name := "constant", dest := "lib", minor := 23, tags := [],
            objs := [⟨"F", true, .func false⟩, ⟨"Max", true, .const (some (.int 7))⟩] }).imports =
      ["go/constant", "go/token", "x.y/constant", "reflect"] := by decide

/-! ### the model agrees with the specification on the domain -/

def isFlt : CNum → Bool
  | .flt _ _ _ => true
  | .int _ => false

/-- exported untyped floating-point constants, and complex constants with a floating-point part (their
    literal is not syntactically the specified one; see `float_const_exact_of_dyadic`,
    `complex_const_exact_of_dyadic` and the witnesses) -/
def inexactConst (o : Obj) : Bool :=
  o.exported && match o.kind with
  | .const (some (.flt _ _ _)) => true
  | .const (some (.cplx re im)) => isFlt re || isFlt im
  | _ => false

/-- decidable domain on which genContent's output *is* the specified wrapper: the package is named by
    its import path (F18-13), no sandboxed type (`DomImport`), no exported untyped constant with a
    floating-point part (F18-1: those are covered by `float_const_exact_of_dyadic` /
    `complex_const_exact_of_dyadic` and the witnesses), variadic signatures well formed (go/types
    guarantees it). Nothing is asked of interfaces, names, parameter names, import paths any more. -/
def DomAll (p : Pkg) : Prop :=
  p.path = p.importPath ∧ p.name ≠ "" ∧ DomImport p ∧
  (∀ o ∈ p.objs, inexactConst o = false) ∧
  (∀ o ∈ p.objs, ∀ m ∈ methodsOf o.kind, methodWf m = true)

private theorem filterMap_congr' {α β : Type} (f g : α → Option β) : ∀ l : List α, (∀ a ∈ l, f a = g a) →
    l.filterMap f = l.filterMap g
  | [], _ => rfl
  | a :: l, h => by
    simp only [List.filterMap_cons]
    rw [h a (by simp), filterMap_congr' f g l fun b hb => h b (by simp [hb])]

private theorem valEntries_eq (p : Pkg) : ∀ os : List Obj,
    valEntries K p os = os.filterMap fun o => (valForm K p o).map fun f => (⟨o.name, f⟩ : Entry)
  | [] => rfl
  | o :: os => by
    unfold valEntries
    rw [valEntries_eq p os]
    cases h : valForm K p o <;> simp [h]

private theorem typEntries_eq (p : Pkg) : ∀ os : List Obj,
    typEntries K p os = (os.filter (typKept K)).map fun o => (⟨o.name, .typ (pname K p o.name)⟩ : Entry)
  | [] => rfl
  | o :: os => by
    unfold typEntries
    rw [typEntries_eq p os]
    cases h : typKept K o <;> simp [h]

private theorem wrapEntries_eq (p : Pkg) : ∀ os : List Obj,
    wrapEntries K p os = (os.filter (wrapKept K)).map fun o =>
      (⟨"_" ++ o.name, .wrap (mangle K p.importPath ++ o.name)⟩ : Entry)
  | [] => rfl
  | o :: os => by
    unfold wrapEntries
    rw [wrapEntries_eq p os]
    cases h : wrapKept K o <;> simp [h]

private theorem wtypes_eq (p : Pkg) : ∀ os : List Obj,
    wtypes K p os = (os.filter (wrapKept K)).map (wtypeOf K p)
  | [] => rfl
  | o :: os => by
    unfold wtypes
    rw [wtypes_eq p os]
    cases h : wrapKept K o <;> simp [h]

private theorem methodDeps_eq (p : Pkg) (hp : p.path = p.importPath) (m : Method) :
    methodDeps K p m = Spec.methodDeps p m := by
  unfold methodDeps Spec.methodDeps
  congr 1; funext d; simp [hp]

private theorem typeImports_eq (p : Pkg) (hp : p.path = p.importPath) : ∀ os : List Obj,
    typeImports K p os = (os.filter (wrapKept K)).flatMap fun o =>
      ((methodsOf o.kind).filter (·.exported)).flatMap (Spec.methodDeps p)
  | [] => rfl
  | o :: os => by
    unfold typeImports
    rw [typeImports_eq p hp os]
    have hm : methodDeps K p = Spec.methodDeps p := funext (methodDeps_eq p hp)
    cases h : wrapKept K o <;> simp [h, keptMethods_eq, List.flatMap_cons, hm]

private theorem typKept_eq_spec (o : Obj) : typKept K o = Spec.isType o := by
  rw [typKept_K]
  unfold Spec.isType Spec.bindable
  cases o.exported <;> cases hk : o.kind <;> simp_all

private theorem wrapKept_eq_spec (o : Obj) : wrapKept K o = Spec.isIface o := by
  rw [wrapKept_K]
  unfold Spec.isIface Spec.bindable
  cases o.exported <;> cases hk : o.kind <;> simp_all

private theorem fixPart_int (c : CNum) (h : isFlt c = false) : fixPart c = Spec.exact c := by
  cases c <;> simp_all [isFlt, fixPart, Spec.exact]

private theorem valForm_eq_spec (p : Pkg) (o : Obj) (hc : inexactConst o = false) :
    valForm K p o = Spec.valForm K.restricted p o := by
  rw [valForm_K]
  unfold Spec.valForm Spec.bindable
  rw [← pname_eq_ident]
  unfold inexactConst at hc
  cases hx : o.exported <;> simp
  cases hk : o.kind <;> simp [hx, hk] at hc ⊢
  rename_i u
  cases u with
  | none => simp [Spec.constForm]
  | some v =>
    cases v <;> simp_all [fixConst_K, Spec.constForm]
    exact ⟨fixPart_int _ hc.1, fixPart_int _ hc.2⟩

/-- **on the domain, the data genContent hands to the template is the specified wrapper**
    (every field but the build-tag line, which is compared in the correspondence run only) -/
theorem genY_eq_spec_partial (p : Pkg) (h : DomAll p) :
    let s := Spec.wrapper K.restricted K.defaultMinor p
    (genE p).vals = s.vals ∧ (genE p).typs = s.typs ∧ (genE p).wraps = s.wraps ∧
    (genE p).wtypes = s.wtypes ∧ (genE p).imports = s.imports ∧
    (genE p).symKey = s.symKey ∧ (genE p).dest = s.dest := by
  obtain ⟨hp, hn, himp, hc, hw⟩ := h
  have hvals : valEntries K p p.objs =
      p.objs.filterMap fun o => (Spec.valForm K.restricted p o).map fun f => (⟨o.name, f⟩ : Entry) := by
    rw [valEntries_eq]
    apply filterMap_congr'
    intro o ho
    rw [valForm_eq_spec p o (hc o ho)]
  have hfilt : p.objs.filter (typKept K) = p.objs.filter Spec.isType :=
    List.filter_congr fun o _ => typKept_eq_spec o
  have hfilw : p.objs.filter (wrapKept K) = p.objs.filter Spec.isIface :=
    List.filter_congr fun o _ => wrapKept_eq_spec o
  have htyps : typEntries K p p.objs =
      (p.objs.filter Spec.isType).map fun o => (⟨o.name, .typ (Spec.ident K.restricted p o.name)⟩ : Entry) := by
    rw [typEntries_eq, hfilt]
    apply List.map_congr_left
    intro o _
    rw [pname_eq_ident]
  have hlit : litUsed K p p.objs = (valEntries K p p.objs).any (fun e => isLit e.form) := by
    rw [valEntries_eq]
    unfold litUsed
    induction p.objs with
    | nil => rfl
    | cons o os ih =>
      simp only [List.any_cons, List.filterMap_cons, ih]
      cases hf : valForm K p o <;> simp
  refine ⟨hvals, htyps, ?_, ?_, ?_, rfl, rfl⟩
  · simp only [genE, genY, Spec.wrapper]
    rw [wrapEntries_eq, hfilw]
    apply List.map_congr_left
    intro o _
    rw [mangle_eq]
  · simp only [genE, genY, Spec.wrapper]
    rw [wtypes_eq, hfilw]
    apply List.map_congr_left
    intro o ho
    have ho' := (List.mem_filter.1 ho).1
    simp only [wtypeOf, Spec.wtypeOf, mangle_eq, keptMethods_eq]
    congr 1
    apply List.map_congr_left
    intro m hm
    exact wmethod_eq_spec m (hw o ho' m (List.mem_filter.1 hm).1)
  · have hv : (genE p).vals = p.objs.filterMap fun o => (Spec.valForm K.restricted p o).map fun f => (⟨o.name, f⟩ : Entry) := hvals
    have ht : (genE p).typs =
        (p.objs.filter Spec.isType).map fun o => (⟨o.name, .typ (Spec.ident K.restricted p o.name)⟩ : Entry) := htyps
    rw [pkg_import_iff_used_partial p hn himp, hv, ht, typeImports_eq p hp, hfilw, hlit, hvals]
    rfl

/-! ### 8. the import block is exactly what the emitted text names -/

/-- the packages whose names occur in the text of the wrapper methods (the qualifiers go/types prints
    for the parameter and result types of every emitted method — also of methods inherited from an
    embedded interface of another package, whose types may come from packages the extracted package
    does not import itself), the extracted package by either of its names left out -/
def methodQualifiers (p : Pkg) : List String :=
  (p.objs.filter (wrapKept K)).flatMap fun o => ((methodsOf o.kind).filter (·.exported)).flatMap (Spec.methodDeps p)

/-- every package the emitted text names: those of the wrapper methods, go/constant and go/token when a
    literal is bound, the extracted package when a binding refers to it, reflect -/
def usedPkgs (p : Pkg) : List String :=
  methodQualifiers p ++ (if (genE p).vals.any (fun e => isLit e.form) then ["go/constant", "go/token"] else []) ++
    (if ((genE p).vals ++ (genE p).typs).any Spec.refersPkg then [p.importPath] else []) ++ ["reflect"]

private theorem litUsed_eq (p : Pkg) : ∀ os : List Obj,
    litUsed K p os = (valEntries K p os).any (fun e => isLit e.form)
  | [] => rfl
  | o :: os => by
    have ih := litUsed_eq p os
    unfold litUsed at ih ⊢
    unfold valEntries
    cases hf : valForm K p o <;> simp [hf, ih]

private theorem mem_typeImports (p : Pkg) (d : String) : ∀ os : List Obj,
    d ∈ typeImports K p os ↔ ∃ o ∈ os, wrapKept K o = true ∧ ∃ m ∈ (methodsOf o.kind).filter (·.exported), d ∈ methodDeps K p m
  | [] => by simp [typeImports]
  | o :: os => by
    unfold typeImports
    rw [List.mem_append, mem_typeImports p d os]
    cases hk : wrapKept K o <;> simp [hk, keptMethods_eq]

/-- **every qualifier the emitted text uses has its import** — every package: a package named in the
    signature of an emitted wrapper method (inherited methods included, whether or not the extracted
    package imports it itself), go/constant and go/token for a literal, the package itself for a binding
    that names it, reflect -/
theorem imports_cover_used (p : Pkg) (hn : p.name ≠ "") : ∀ d ∈ usedPkgs p, d ∈ (genE p).imports := by
  intro d hd
  simp only [usedPkgs, methodQualifiers, List.mem_append, List.mem_flatMap, List.mem_filter] at hd
  simp only [genE, genY, List.mem_append]
  rcases hd with ((hd | hd) | hd) | hd
  · obtain ⟨o, ⟨ho, hk⟩, m, hm, hdm⟩ := hd
    left; left; left
    refine (mem_typeImports p d p.objs).2 ⟨o, ho, hk, m, List.mem_filter.2 hm, ?_⟩
    unfold Spec.methodDeps at hdm; unfold methodDeps
    obtain ⟨h1, h2⟩ := List.mem_filter.1 hdm
    refine List.mem_filter.2 ⟨h1, ?_⟩
    simp only [K_qualifyForeign, if_true]
    simp only [Bool.and_eq_true] at h2; exact h2.1
  · left; left; right
    rw [litUsed_eq]; exact hd
  · left; right
    have huse : usePkg K p (valEntries K p p.objs) (typEntries K p p.objs) = true := by
      simp only [usePkg, K_importIfUsed, if_true]
      split at hd
      · rename_i hany
        simp only [genE, genY, List.any_append, Bool.or_eq_true] at hany
        rcases hany with hv | ht
        · rw [vals_any_eq p hn, hv]; simp
        · cases hty : typEntries K p p.objs with
          | nil => rw [hty] at ht; simp at ht
          | cons e es => simp
      · simp at hd
    rw [huse]
    split at hd
    · simpa using hd
    · simp at hd
  · right; exact hd

/-- **the import block is exactly the set of packages the emitted text names** (every import is used
    and everything used is imported) — on the domain: the package is named by its import path
    (F18-13) and has no sandboxed type as its only reference (`DomImport`) -/
theorem imports_exactly_used_partial (p : Pkg) (hp : p.path = p.importPath) (hn : p.name ≠ "") (h : DomImport p) :
    ∀ d, d ∈ (genE p).imports ↔ d ∈ usedPkgs p := by
  intro d
  refine ⟨?_, imports_cover_used p hn d⟩
  intro hd
  rw [pkg_import_iff_used_partial p hn h] at hd
  simp only [List.mem_append] at hd
  simp only [usedPkgs, methodQualifiers, List.mem_append]
  rcases hd with ((hd | hd) | hd) | hd
  · left; left; left
    rw [typeImports_eq p hp] at hd; exact hd
  · left; left; right
    rw [litUsed_eq] at hd; exact hd
  · left; right; exact hd
  · right; exact hd

/-- a package that imports only `x.y/mid`, whose interface `S` embeds `mid.Taker`: the inherited method
    `Take() (far.Conn, *far.Buf)` mentions the package `x.y/far`, which `p` does not import -/
def pkgInherited : Pkg :=
  { importPath := "x.y/p", path := "x.y/p", name := "p", dest := "lib", minor := 23, tags := [],
    directImports := ["x.y/mid"],
    objs := [⟨"S", true, .iface false 1 true
      [⟨"ID", true, false, [], [⟨"", "int".toList, none, [], false⟩]⟩,
       ⟨"Take", true, false, [⟨"m", "mid.Mode".toList, none, ["x.y/mid"], false⟩],
          [⟨"", "far.Conn".toList, none, ["x.y/far"], false⟩, ⟨"", "*far.Buf".toList, none, ["x.y/far"], false⟩]⟩]⟩] }

/-- non-vacuity: the package of an inherited method's types is imported although the extracted package
    does not import it; with the `qualify` rule "only what `imports` already has" (seed C18-3) the model
    drops it while the text still names `far.` -/
theorem inherited_method_imports :
    (genE pkgInherited).imports = ["x.y/mid", "x.y/far", "x.y/far", "x.y/p", "reflect"] ∧
    usedPkgs pkgInherited = ["x.y/mid", "x.y/far", "x.y/far", "x.y/p", "reflect"] ∧
    (genY { K with qualifyForeign := false, qualifyDirectOnly := true } pkgInherited).imports = ["x.y/mid", "x.y/p", "reflect"] := by
  decide

/-- non-vacuity of the domain: blank / `W` / clashing parameter names, a `String() (string, error)`
    method, `interface{ any }`, a constraint interface with a method, a third-party package called log
    that exports Fatal, an import path with `+` and an exact complex constant are all inside -/
def pkgPlain : Pkg :=
  { pkgMixed with
    importPath := "x.y/c++/log"
    path := "x.y/c++/log"
    name := "log"
    objs := pkgMixed.objs ++ [⟨"X", true, .const (some (.str "6869"))⟩, ⟨"Y", true, .const (some (.bool true))⟩,
      ⟨"Z", true, .const (some (.cplx (.int 1) (.int 2)))⟩, ⟨"Fatal", true, .func false⟩,
      ⟨"E", true, .iface false 1 true []⟩,
      ⟨"C", true, .iface false 1 false [⟨"String", true, false, [], [⟨"", "string".toList, none, [], true⟩]⟩]⟩,
      ⟨"N", true, .iface false 0 true
        [⟨"M", true, false, [⟨"_", "int".toList, none, [], false⟩, ⟨"W", "int".toList, none, [], false⟩, ⟨"", "int".toList, none, [], false⟩],
           [⟨"a2", "int".toList, none, [], false⟩]⟩,
         ⟨"String", true, false, [], [⟨"", "string".toList, none, [], true⟩, ⟨"", "error".toList, none, [], false⟩]⟩]⟩] }

example : DomAll pkgPlain ∧ (genE pkgPlain).vals.length = 8 ∧ boundKeys (genE pkgPlain) =
    ["A", "B", "F", "V", "X", "Y", "Z", "Fatal", "I", "E", "N"] := by
  refine ⟨⟨by decide, by decide, by decide, by decide, by decide⟩, by decide, by decide⟩

end YaegiVerif.Props.C18
