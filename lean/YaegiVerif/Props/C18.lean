import YaegiVerif.Model.Extract
import YaegiVerif.Spec.GoExtract
import YaegiVerif.Expected.C18
import YaegiVerif.Generated.C18
import YaegiVerif.Proofs.C18Gen
import YaegiVerif.Proofs.C18Float
/-
  C18 — property theorems: `extract` emits complete, faithful wrappers.
  Every theorem is about `genE p = genY K p` for an arbitrary abstract package `p`, where `K` are the
  switches genContent has in today's source (`knobs_generated` ties them to the regenerated facts).
  "The wrapper compiles" is not a theorem: it is decided by go/types in the correspondence run.
-/
namespace YaegiVerif.Props.C18
open YaegiVerif YaegiVerif.Extract YaegiVerif.Proofs.C18

/-! ### ties to the source -/

/-- the choices read from extract/extract.go are the ones the model was written against -/
theorem facts_tie : Generated.C18.facts = Expected.C18.facts := by decide

/-- the functions transcribed in Model/Extract.lean (and the template text) are unchanged -/
theorem source_tie : Generated.C18.sourceHashes = Expected.C18.sourceHashes := by decide

/-- the switches derived from the regenerated facts are the ones every theorem below is about -/
theorem knobs_generated : knobsOf Generated.C18.facts = K := by
  rw [facts_tie]; exact knobs_expected

/-- the wrapper file today's genContent produces for `p` -/
abbrev genE (p : Pkg) : File := genY K p

theorem genY_generated (p : Pkg) : genY (knobsOf Generated.C18.facts) p = genE p := by
  rw [knobs_generated]

/-- keys of the bindings (values and types) -/
def boundKeys (f : File) : List String := (f.vals ++ f.typs).map (·.key)

/-! ### 1. exactly the exported non-generic objects are bound -/

/-- what genContent binds -/
def boundY (o : Obj) : Bool :=
  o.exported && match o.kind with
  | .const _ => true
  | .func g => !g
  | .var => true
  | .typ g => !g
  | .iface g emb _ ms => !g && !(ms.isEmpty && emb != 0)
  | .other => false

private theorem boundY_iff (p : Pkg) (o : Obj) :
    boundY o = true ↔ ((valForm K p o).isSome = true ∨ typKept K o = true) := by
  rw [valForm_K, typKept_K]
  unfold boundY
  cases o.exported <;> cases o.kind <;> simp
  all_goals (rename_i u; cases u <;> simp)

/-- **the model binds exactly the objects `boundY` describes** (every package) -/
theorem binds_exactly_model (p : Pkg) (name : String) :
    name ∈ boundKeys (genE p) ↔ ∃ o ∈ p.objs, o.name = name ∧ boundY o = true := by
  simp only [boundKeys, genE, genY, List.map_append, List.mem_append, List.mem_map]
  constructor
  · rintro (⟨e, he, rfl⟩ | ⟨e, he, rfl⟩)
    · obtain ⟨o, ho, f, hf, rfl⟩ := (mem_valEntries p e p.objs).1 he
      exact ⟨o, ho, rfl, (boundY_iff p o).2 (Or.inl (by simp [hf]))⟩
    · obtain ⟨o, ho, hk, rfl⟩ := (mem_typEntries p e p.objs).1 he
      exact ⟨o, ho, rfl, (boundY_iff p o).2 (Or.inr hk)⟩
  · rintro ⟨o, ho, rfl, hb⟩
    rcases (boundY_iff p o).1 hb with hv | ht
    · left
      cases hf : valForm K p o with
      | none => simp [hf] at hv
      | some f => exact ⟨⟨o.name, f⟩, (mem_valEntries p _ p.objs).2 ⟨o, ho, f, hf, rfl⟩, rfl⟩
    · right
      exact ⟨_, (mem_typEntries p _ p.objs).2 ⟨o, ho, ht, rfl⟩, rfl⟩

/-- the property at full strength: the bound names are exactly those of the exported, non-generic
    objects that can be bound at all (a constraint interface cannot) -/
def binds_exactly_exported_nongeneric_statement : Prop :=
  ∀ (p : Pkg) (name : String),
    name ∈ boundKeys (genE p) ↔ ∃ o ∈ p.objs, o.name = name ∧ Spec.bindable o = true

/-- genContent's test for "constraint interface" (`NumMethods() == 0 && NumEmbeddeds() != 0`)
    agrees with `IsMethodSet` on this object -/
def ifaceRuleExact (o : Obj) : Bool :=
  match o.kind with
  | .iface g emb methodSet ms => g || ((ms.isEmpty && emb != 0) == !methodSet)
  | _ => true

/-- decidable domain of `binds_exactly_exported_nongeneric_partial` -/
def DomBind (p : Pkg) : Prop := ∀ o ∈ p.objs, ifaceRuleExact o = true

instance (p : Pkg) : Decidable (DomBind p) := by unfold DomBind; infer_instance

private theorem boundY_eq_bindable (o : Obj) (h : ifaceRuleExact o = true) : boundY o = Spec.bindable o := by
  unfold boundY Spec.bindable
  unfold ifaceRuleExact at h
  cases o.exported <;> cases hk : o.kind <;> simp_all
  rename_i g emb ms methods
  cases g <;> cases ms <;> cases methods <;> simp_all

theorem binds_exactly_exported_nongeneric_partial (p : Pkg) (h : DomBind p) (name : String) :
    name ∈ boundKeys (genE p) ↔ ∃ o ∈ p.objs, o.name = name ∧ Spec.bindable o = true := by
  rw [binds_exactly_model]
  constructor
  · rintro ⟨o, ho, hn, hb⟩; exact ⟨o, ho, hn, by rw [← boundY_eq_bindable o (h o ho)]; exact hb⟩
  · rintro ⟨o, ho, hn, hb⟩; exact ⟨o, ho, hn, by rw [boundY_eq_bindable o (h o ho)]; exact hb⟩

/-- an ordinary interface whose only content is an embedded empty interface (`interface{ any }`):
    usable as a type, yet skipped -/
def pkgEmbedsEmpty : Pkg :=
  { importPath := "x.y/p", path := "x.y/p", name := "p", dest := "lib", minor := 23, tags := [],
    objs := [⟨"E", true, .iface false 1 true []⟩] }

/-- a constraint interface that also has a method (`interface{ ~int; String() string }`): bound
    although it cannot be used as a type -/
def pkgConstraintMethod : Pkg :=
  { importPath := "x.y/p", path := "x.y/p", name := "p", dest := "lib", minor := 23, tags := [],
    objs := [⟨"C", true, .iface false 1 false [⟨"String", true, false, [], [⟨"", "string".toList, none, []⟩]⟩]⟩] }

theorem iface_embeds_only_empty_witness :
    "E" ∉ boundKeys (genE pkgEmbedsEmpty) ∧ ∃ o ∈ pkgEmbedsEmpty.objs, o.name = "E" ∧ Spec.bindable o = true := by
  decide

theorem constraint_iface_with_methods_witness :
    "C" ∈ boundKeys (genE pkgConstraintMethod) ∧ ¬ ∃ o ∈ pkgConstraintMethod.objs, o.name = "C" ∧ Spec.bindable o = true := by
  decide

theorem binds_exactly_witness : ¬ binds_exactly_exported_nongeneric_statement := by
  intro h
  have := (h pkgEmbedsEmpty "E").2 iface_embeds_only_empty_witness.2
  exact iface_embeds_only_empty_witness.1 this

/-- non-vacuity: a package with a typed and an untyped constant, a generic and a plain function, a
    variable, a generic type and a one-method interface is in the domain, and binds five names -/
def pkgMixed : Pkg :=
  { importPath := "x.y/p", path := "x.y/p", name := "p", dest := "lib", minor := 23, tags := ["foo"],
    objs := [⟨"A", true, .const none⟩, ⟨"B", true, .const (some (.int 5))⟩, ⟨"F", true, .func false⟩,
             ⟨"G", true, .func true⟩, ⟨"I", true, .iface false 0 true
               [⟨"M", true, true, [⟨"", "int".toList, none, []⟩, ⟨"xs", "[]io.Reader".toList, some "io.Reader".toList, ["io"]⟩],
                 [⟨"", "error".toList, none, []⟩]⟩, ⟨"u", false, false, [], []⟩]⟩,
             ⟨"T", true, .typ true⟩, ⟨"V", true, .var⟩, ⟨"w", false, .var⟩] }

example : DomBind pkgMixed ∧ boundKeys (genE pkgMixed) = ["A", "B", "F", "V", "I"] := by decide

/-! ### 2. every object is bound under its own name -/

/-- the identifier a binding form refers to -/
def boundIdent : Form → Option Ident
  | .value id => some id
  | .addr id => some id
  | .typ id => some id
  | _ => none

/-- the full statement: the identifier bound under key `k` is the package's own `k`, except in the
    wrapper of the standard library's os / log, where the sandboxed replacement is bound -/
def own_name_statement : Prop :=
  ∀ (p : Pkg), ∀ e ∈ (genE p).vals ++ (genE p).typs, ∀ id,
    boundIdent e.form = some id → id = Spec.ident K.restricted p e.key

/-- domain: the package is the standard library's own (import path = name), or none of its object
    names collides with the `restricted` table -/
def DomName (p : Pkg) : Prop :=
  p.importPath = p.name ∨ ∀ o ∈ p.objs, K.restricted.contains (p.name ++ o.name) = false

instance (p : Pkg) : Decidable (DomName p) := by unfold DomName; infer_instance

private theorem pname_eq_ident (p : Pkg) (name : String)
    (h : p.importPath = p.name ∨ K.restricted.contains (p.name ++ name) = false) :
    pname K p name = Spec.ident K.restricted p name := by
  unfold pname Spec.ident
  rcases h with h | h
  · simp [h]
  · have h' : ¬ (p.name ++ name ∈ K.restricted) := by simpa using h
    simp [h']

private theorem boundIdent_fixConst (id id' : Ident) (v : CVal) (h : boundIdent (fixConst K id v) = some id') : id' = id := by
  rw [fixConst_K] at h
  cases v <;> simp [boundIdent] at h <;> exact h.symm

theorem own_name_partial (p : Pkg) (h : DomName p) :
    ∀ e ∈ (genE p).vals ++ (genE p).typs, ∀ id, boundIdent e.form = some id → id = Spec.ident K.restricted p e.key := by
  intro e he id hid
  have hdom : ∀ o ∈ p.objs, pname K p o.name = Spec.ident K.restricted p o.name := by
    intro o ho
    apply pname_eq_ident
    rcases h with h | h
    · exact Or.inl h
    · exact Or.inr (h o ho)
  simp only [genE, genY, List.mem_append] at he
  rcases he with he | he
  · obtain ⟨o, ho, f, hf, rfl⟩ := (mem_valEntries p e p.objs).1 he
    rw [valForm_K] at hf
    simp only at hid ⊢
    rw [← hdom o ho]
    cases hx : o.exported <;> simp [hx] at hf
    cases hk : o.kind <;> simp [hk] at hf
    · rename_i u
      cases u <;> simp at hf
      · subst hf; simpa [boundIdent] using hid.symm
      · subst hf; exact boundIdent_fixConst _ _ _ hid
    · obtain ⟨_, rfl⟩ := hf; simpa [boundIdent] using hid.symm
    · subst hf; simpa [boundIdent] using hid.symm
  · obtain ⟨o, ho, _, rfl⟩ := (mem_typEntries p e p.objs).1 he
    simp only [boundIdent, Option.some.injEq] at hid
    rw [← hdom o ho]; exact hid.symm

/-- corollary in plain words: outside os/log collisions every bound identifier is `pkg.Key` -/
theorem own_name (p : Pkg) (h : ∀ o ∈ p.objs, K.restricted.contains (p.name ++ o.name) = false) :
    ∀ e ∈ (genE p).vals ++ (genE p).typs, ∀ id, boundIdent e.form = some id → id = ⟨p.name, e.key⟩ := by
  intro e he id hid
  have hkey : K.restricted.contains (p.name ++ e.key) = false := by
    simp only [genE, genY, List.mem_append] at he
    rcases he with he | he
    · obtain ⟨o, ho, f, _, rfl⟩ := (mem_valEntries p e p.objs).1 he; exact h o ho
    · obtain ⟨o, ho, _, rfl⟩ := (mem_typEntries p e p.objs).1 he; exact h o ho
  have := own_name_partial p (Or.inr h) e he id hid
  have h' : ¬ (p.name ++ e.key ∈ K.restricted) := by simpa using hkey
  rw [this]; unfold Spec.ident; simp [h']

/-- a third-party package that happens to be called `log` and exports `Fatal` -/
def pkgForeignLog : Pkg :=
  { importPath := "x.y/log", path := "x.y/log", name := "log", dest := "lib", minor := 23, tags := [],
    objs := [⟨"Fatal", true, .func false⟩] }

theorem restricted_foreign_witness :
    (genE pkgForeignLog).vals = [⟨"Fatal", .value ⟨"", "logFatal"⟩⟩] ∧
    Spec.ident K.restricted pkgForeignLog "Fatal" = ⟨"log", "Fatal"⟩ := by decide

theorem own_name_witness : ¬ own_name_statement := by
  intro h
  have := h pkgForeignLog ⟨"Fatal", .value ⟨"", "logFatal"⟩⟩ (by decide) ⟨"", "logFatal"⟩ rfl
  revert this; decide

example : DomName pkgMixed ∧ (genE pkgMixed).typs = [⟨"I", .typ ⟨"p", "I"⟩⟩] := by decide

/-! ### 3. variables are bound by address (and nothing else is) -/

theorem vars_by_address (p : Pkg) :
    (∀ o ∈ p.objs, o.exported = true → o.kind = .var →
        (⟨o.name, .addr (pname K p o.name)⟩ : Entry) ∈ (genE p).vals) ∧
    (∀ e ∈ (genE p).vals ++ (genE p).typs, ∀ id, e.form = .addr id →
        ∃ o ∈ p.objs, o.name = e.key ∧ o.kind = .var) := by
  constructor
  · intro o ho hx hk
    refine (mem_valEntries p _ p.objs).2 ⟨o, ho, _, ?_, rfl⟩
    rw [valForm_K]; simp [hx, hk]
  · intro e he id hf
    simp only [genE, genY, List.mem_append] at he
    rcases he with he | he
    · obtain ⟨o, ho, f, hvf, rfl⟩ := (mem_valEntries p e p.objs).1 he
      refine ⟨o, ho, rfl, ?_⟩
      rw [valForm_K] at hvf
      simp only at hf
      cases hx : o.exported <;> simp [hx] at hvf
      cases hk : o.kind <;> simp [hk] at hvf
      · rename_i u
        cases u <;> simp at hvf
        · subst hvf; cases hf
        · subst hvf; rw [fixConst_K] at hf; rename_i v; cases v <;> cases hf
      · obtain ⟨_, rfl⟩ := hvf; cases hf
      · rfl
    · obtain ⟨o, _, _, rfl⟩ := (mem_typEntries p e p.objs).1 he
      cases hf

/-! ### 4. untyped constants are bound as literals denoting exactly their value -/

/-- the rational `n/d` is `num/den` -/
def sameValue (n : Int) (d : Nat) (num : Int) (den : Nat) : Prop := n * (den : Int) = num * (d : Int)

instance (n : Int) (d : Nat) (num : Int) (den : Nat) : Decidable (sameValue n d num den) := by
  unfold sameValue; infer_instance

/-- integer, string and boolean constants: exact, for every package -/
theorem untyped_const_literal (p : Pkg) (o : Obj) (ho : o ∈ p.objs) (hx : o.exported = true) :
    (∀ n, o.kind = .const (some (.int n)) → (⟨o.name, .lit .INT (.int n)⟩ : Entry) ∈ (genE p).vals) ∧
    (∀ s, o.kind = .const (some (.str s)) → (⟨o.name, .lit .STRING (.str s)⟩ : Entry) ∈ (genE p).vals) ∧
    (∀ b, o.kind = .const (some (.bool b)) → (⟨o.name, .value (pname K p o.name)⟩ : Entry) ∈ (genE p).vals) ∧
    (∀ n d prec, o.kind = .const (some (.flt n d prec)) →
        (⟨o.name, .lit .FLOAT (.rat (floatText n d prec).1 (floatText n d prec).2)⟩ : Entry) ∈ (genE p).vals) := by
  refine ⟨?_, ?_, ?_, ?_⟩ <;> intros <;> rename_i hk <;>
    refine (mem_valEntries p _ p.objs).2 ⟨o, ho, _, ?_, rfl⟩ <;>
    rw [valForm_K] <;> simp [hx, hk, fixConst_K]

/-- typed constants keep their type: they are bound by name -/
theorem typed_const_by_name (p : Pkg) (o : Obj) (ho : o ∈ p.objs) (hx : o.exported = true)
    (hk : o.kind = .const none) : (⟨o.name, .value (pname K p o.name)⟩ : Entry) ∈ (genE p).vals := by
  refine (mem_valEntries p _ p.objs).2 ⟨o, ho, _, ?_, rfl⟩
  rw [valForm_K]; simp [hx, hk]

/-- the full statement for floating-point constants: the literal denotes the constant's value -/
def float_const_exact_statement : Prop :=
  ∀ (num : Int) (den : Nat), 0 < den → sameValue (floatText num den 0).1 (floatText num den 0).2 num den

/-- **dyadic constants are exact**: for every numerator and every power-of-two denominator the
    literal fixConst prints denotes the constant (this is why math.MaxFloat64, 0.5, 1<<70 are right) -/
theorem float_const_exact_of_dyadic (num : Int) (k : Nat) :
    sameValue (floatText num (2 ^ k) 0).1 (floatText num (2 ^ k) 0).2 num (2 ^ k) :=
  floatText_dyadic num k

/-- the converse at the first stage: when big.Float.SetRat returns the value unchanged, the value is
    dyadic (its denominator divides numerator times a power of two) — every other constant is already
    altered before it is printed -/
theorem setRat_exact_only_dyadic (P a b : Nat)
    (h : (binRound P a b).1 * 2 ^ (binRound P a b).2.2 * b = a * 2 ^ (binRound P a b).2.1) :
    b ∣ a * 2 ^ (binRound P a b).2.1 :=
  ⟨(binRound P a b).1 * 2 ^ (binRound P a b).2.2, by rw [← h, Nat.mul_comm]⟩

/-- F13: 1/10 (any non-dyadic value) is bound to
    0.1000000000000000000013552527156068805425093160010874271392822266 -/
theorem float_const_witness :
    sameValue (floatText 1 10 0).1 (floatText 1 10 0).2
      1000000000000000000013552527156068805425093160010874271392822266 (10 ^ 64) ∧
    ¬ sameValue (floatText 1 10 0).1 (floatText 1 10 0).2 1 10 := by
  decide

theorem float_const_exact_witness : ¬ float_const_exact_statement := by
  intro h; exact float_const_witness.2 (h 1 10 (by decide))

/-- untyped complex constants are bound by name (converted to complex128), not by a literal -/
theorem complex_const_witness :
    (genE { pkgForeignLog with objs := [⟨"C", true, .const (some .cplx)⟩] }).vals = [⟨"C", .value ⟨"log", "C"⟩⟩] ∧
    Spec.constForm ⟨"log", "C"⟩ (some .cplx) = .lit .COMPLEX .cplx := by decide

/-! ### 5. interface wrappers: exactly the exported methods, forwarded faithfully -/

/-- what go/types guarantees about a variadic signature: the last parameter is a slice `[]E`
    (decidable; the correspondence run checks it on every method) -/
def wfParams (variadic : Bool) (n : Nat) : Nat → List Param → Bool
  | _, [] => true
  | i, q :: qs =>
    (!(variadic && (i + 1 == n)) || (match q.elem with
      | some e => q.typ == '[' :: ']' :: e
      | none => false)) && wfParams variadic n (i + 1) qs

def methodWf (m : Method) : Bool := wfParams m.variadic m.params.length 0 m.params

private theorem argName_eq (i : Nat) (q : Param) : argName K i q = Spec.paramName i q := by
  unfold argName Spec.paramName; simp

private theorem wparams_eq (variadic : Bool) (n : Nat) : ∀ (qs : List Param) (i : Nat),
    wfParams variadic n i qs = true → wparams K variadic n i qs = Spec.wparams variadic n i qs
  | [], _, _ => rfl
  | q :: qs, i, h => by
    unfold wfParams at h
    simp only [Bool.and_eq_true] at h
    unfold wparams Spec.wparams
    rw [wparams_eq variadic n qs (i + 1) h.2, argName_eq]
    congr 1
    unfold Spec.wparam
    cases hl : (variadic && (i + 1 == n))
    · simp
    · have h1 := h.1
      rw [hl] at h1
      cases he : q.elem with
      | none => simp [he] at h1
      | some e =>
        simp only [he, Bool.not_true, Bool.false_or, beq_iff_eq] at h1
        simp [h1]

private theorem wargs_eq (variadic : Bool) (n : Nat) : ∀ (qs : List Param) (i : Nat),
    wargs K variadic n i qs = Spec.wargs variadic n i qs
  | [], _ => rfl
  | q :: qs, i => by
    unfold wargs Spec.wargs
    rw [wargs_eq variadic n qs (i + 1), argName_eq]; simp

/-- a wrapper method is what the property asks for: names kept or defaulted to `a<i>`, the last
    parameter `...E` and forwarded with `...` iff the method is variadic, results preserved -/
theorem wmethod_eq_spec (m : Method) (h : methodWf m = true) : wmethod K m = Spec.wmethod m := by
  unfold wmethod Spec.wmethod
  rw [wparams_eq m.variadic m.params.length m.params 0 h, wargs_eq]
  rfl

private theorem keptMethods_eq (ms : List Method) : keptMethods K ms = ms.filter (·.exported) := by
  unfold keptMethods
  congr 1; funext m; cases m.exported <;> simp

private theorem mangle_eq (s : String) : mangle K s = Spec.prefixOf s := by
  unfold mangle Spec.prefixOf
  congr 2; funext c
  simp [K, Bool.or_assoc]

/-- **every emitted interface has a wrapper with exactly its exported methods, each forwarded as the
    property demands** — and every wrapper type comes from such an interface -/
theorem iface_wrapper_methods (p : Pkg) :
    (∀ o ∈ p.objs, wrapKept K o = true → (∀ m ∈ methodsOf o.kind, methodWf m = true) →
      ∃ w ∈ (genE p).wtypes, w.iface = o.name ∧ w.name = Spec.prefixOf p.importPath ++ o.name ∧
        w.methods = ((methodsOf o.kind).filter (·.exported)).map Spec.wmethod ∧
        (⟨"_" ++ o.name, .wrap w.name⟩ : Entry) ∈ (genE p).wraps) ∧
    (∀ w ∈ (genE p).wtypes, ∃ o ∈ p.objs, wrapKept K o = true ∧ w.iface = o.name ∧
        w.methods.map (·.name) = ((methodsOf o.kind).filter (·.exported)).map (·.name)) := by
  constructor
  · intro o ho hk hwf
    refine ⟨wtypeOf K p o, (mem_wtypes p _ p.objs).2 ⟨o, ho, hk, rfl⟩, rfl, ?_, ?_, ?_⟩
    · simp [wtypeOf, mangle_eq]
    · simp only [wtypeOf, keptMethods_eq]
      apply List.map_congr_left
      intro m hm
      exact wmethod_eq_spec m (hwf m (List.mem_filter.1 hm).1)
    · exact (mem_wrapEntries p _ p.objs).2 ⟨o, ho, hk, by simp [wtypeOf]⟩
  · intro w hw
    obtain ⟨o, ho, hk, rfl⟩ := (mem_wtypes p w p.objs).1 hw
    refine ⟨o, ho, hk, rfl, ?_⟩
    simp [wtypeOf, keptMethods_eq, wmethod, Function.comp_def]

/-- the interfaces that get a wrapper are the exported, non-generic ones genContent keeps as types -/
theorem wrapped_iff (o : Obj) :
    wrapKept K o = true ↔ (o.exported = true ∧ match o.kind with
      | .iface g emb _ methods => g = false ∧ ¬ (methods = [] ∧ emb ≠ 0)
      | _ => False) := by
  rw [wrapKept_K]
  cases o.exported <;> cases o.kind <;> simp
  rename_i g emb ms methods
  cases g <;> cases methods <;> simp

/-- non-vacuity and a concrete reading: the wrapper of `pkgMixed.I` -/
example :
    (genE pkgMixed).wtypes =
      [⟨"_x_y_p_I", "I",
        [⟨"M", [⟨"a0", "int".toList, false⟩, ⟨"xs", "io.Reader".toList, true⟩], [⟨"", "error".toList, false⟩],
          [⟨"a0", false⟩, ⟨"xs", true⟩], true, false⟩]⟩] ∧
    (genE pkgMixed).imports = ["io", "go/constant", "go/token", "x.y/p", "reflect"] ∧
    (genE pkgMixed).tags = "foo" := by decide

/-! ### 6. no key is emitted twice -/

private theorem valKey_mem (p : Pkg) : ∀ os k, k ∈ (valEntries K p os).map (·.key) → k ∈ os.map (·.name) := by
  intro os k h
  obtain ⟨e, he, rfl⟩ := List.mem_map.1 h
  obtain ⟨o, ho, f, _, rfl⟩ := (mem_valEntries p e os).1 he
  exact List.mem_map.2 ⟨o, ho, rfl⟩

private theorem typKey_mem (p : Pkg) : ∀ os k, k ∈ (typEntries K p os).map (·.key) → k ∈ os.map (·.name) := by
  intro os k h
  obtain ⟨e, he, rfl⟩ := List.mem_map.1 h
  obtain ⟨o, ho, _, rfl⟩ := (mem_typEntries p e os).1 he
  exact List.mem_map.2 ⟨o, ho, rfl⟩

private theorem not_both (p : Pkg) (o : Obj) (f : Form) (h : valForm K p o = some f) : typKept K o = false := by
  rw [valForm_K] at h; rw [typKept_K]
  cases o.exported <;> cases hk : o.kind <;> simp_all

private theorem keys_nodup (p : Pkg) : ∀ os : List Obj, (os.map (·.name)).Nodup →
    ((valEntries K p os).map (·.key) ++ (typEntries K p os).map (·.key)).Nodup
  | [], _ => by simp [valEntries, typEntries]
  | o :: os, h => by
    simp only [List.map_cons, List.nodup_cons] at h
    have ih := keys_nodup p os h.2
    have hv : o.name ∉ (valEntries K p os).map (·.key) := fun hm => h.1 (valKey_mem p os _ hm)
    have ht : o.name ∉ (typEntries K p os).map (·.key) := fun hm => h.1 (typKey_mem p os _ hm)
    unfold valEntries typEntries
    cases hf : valForm K p o with
    | some f =>
      rw [not_both p o f hf]
      simp only [K_tmplOk, if_true, List.map_cons, List.cons_append, List.nodup_cons, List.mem_append, Bool.false_eq_true, if_false]
      exact ⟨fun hm => hm.elim hv ht, ih⟩
    | none =>
      cases hk : typKept K o
      · simpa using ih
      · simp only [K_tmplOk, if_true, List.map_cons]
        rw [List.nodup_append] at ih ⊢
        refine ⟨ih.1, List.nodup_cons.2 ⟨ht, ih.2.1⟩, ?_⟩
        intro a ha b hb
        rcases List.mem_cons.1 hb with rfl | hb
        · intro hab; subst hab; exact hv ha
        · exact ih.2.2 a ha b hb

private theorem wrapKeys_nodup (p : Pkg) : ∀ os : List Obj, (os.map (·.name)).Nodup →
    ((wrapEntries K p os).map (·.key)).Nodup ∧ ((wtypes K p os).map (·.iface)).Nodup
  | [], _ => by simp [wrapEntries, wtypes]
  | o :: os, h => by
    simp only [List.map_cons, List.nodup_cons] at h
    have ih := wrapKeys_nodup p os h.2
    unfold wrapEntries wtypes
    cases hk : wrapKept K o
    · simpa using ih
    · simp only [K_tmplOk, if_true, List.map_cons, List.nodup_cons]
      refine ⟨⟨?_, ih.1⟩, ?_, ih.2⟩
      · intro hm
        obtain ⟨e, he, hkey⟩ := List.mem_map.1 hm
        obtain ⟨o', ho', _, rfl⟩ := (mem_wrapEntries p e os).1 he
        have : o'.name = o.name := (String.append_right_inj "_").1 hkey
        exact h.1 (List.mem_map.2 ⟨o', ho', this⟩)
      · intro hm
        obtain ⟨w, hw, hkey⟩ := List.mem_map.1 hm
        obtain ⟨o', ho', _, rfl⟩ := (mem_wtypes p w os).1 hw
        exact h.1 (List.mem_map.2 ⟨o', ho', hkey⟩)

/-- **no duplicates**: with distinct object names (a Go scope), no key of the value/type sections,
    no key of the wrapper section and no wrapper type is emitted twice -/
theorem no_duplicates (p : Pkg) (h : (p.objs.map (·.name)).Nodup) :
    (boundKeys (genE p)).Nodup ∧ ((genE p).wraps.map (·.key)).Nodup ∧ ((genE p).wtypes.map (·.iface)).Nodup := by
  refine ⟨?_, (wrapKeys_nodup p p.objs h).1, (wrapKeys_nodup p p.objs h).2⟩
  simp only [boundKeys, genE, genY, List.map_append]
  exact keys_nodup p p.objs h

/-! ### witnesses for the compile-level findings the model can express -/

/-- F18-13: extracted through a relative directory, the package's own types are taken for foreign
    ones: the wrapper imports `./relp` next to the real import path -/
def pkgRelative : Pkg :=
  { importPath := "x.y/relp", path := "./relp", name := "relp", dest := "lib", minor := 23, tags := [],
    objs := [⟨"I", true, .iface false 0 true [⟨"M", true, false, [⟨"x", "relp.T".toList, none, ["./relp"]⟩], []⟩]⟩,
             ⟨"T", true, .typ false⟩] }

/-- the same package as the importer names it when it is extracted by import path -/
def pkgAbsolute : Pkg :=
  { pkgRelative with
    path := "x.y/relp"
    objs := [⟨"I", true, .iface false 0 true [⟨"M", true, false, [⟨"x", "relp.T".toList, none, ["x.y/relp"]⟩], []⟩]⟩,
             ⟨"T", true, .typ false⟩] }

theorem relative_path_witness :
    "./relp" ∈ (genE pkgRelative).imports ∧ "./relp" ∉ (Spec.wrapper K.restricted 22 pkgRelative).imports ∧
    (genE pkgAbsolute).imports = ["x.y/relp", "reflect"] := by decide

/-- F18-15: a package that exports nothing but untyped numeric / string constants: every binding is
    a literal, yet the package is imported — an unused import, the file does not compile -/
def pkgOnlyLiterals : Pkg :=
  { pkgRelative with path := "x.y/relp", objs := [⟨"Max", true, .const (some (.int 1099511627776))⟩] }

theorem only_literals_witness :
    (genE pkgOnlyLiterals).imports = ["go/constant", "go/token", "x.y/relp", "reflect"] ∧
    ((genE pkgOnlyLiterals).vals ++ (genE pkgOnlyLiterals).typs).any Spec.refersPkg = false ∧
    (Spec.wrapper K.restricted 22 pkgOnlyLiterals).imports = ["go/constant", "go/token", "reflect"] := by decide

/-- F18-14: `+` is legal in an import path and is not replaced: the wrapper type name is not an
    identifier and go/format rejects the file -/
theorem import_path_plus_witness :
    formatFails K { pkgRelative with importPath := "x.y/c++/lib", path := "x.y/c++/lib" } = true ∧
    formatFails K pkgMixed = false := by decide

/-- F18-7 / F18-8: a blank parameter is forwarded as the value `_`; a parameter called `W` collides
    with the receiver of the forwarding method -/
theorem blank_param_witness :
    (wmethod K ⟨"M", true, false, [⟨"_", "int".toList, none, []⟩, ⟨"W", "int".toList, none, []⟩], []⟩).args =
      [⟨"_", false⟩, ⟨"W", false⟩] := by decide

/-- F18-12: the nil guard `return ""` is attached to any method named String, whatever it returns -/
theorem string_guard_witness :
    (wmethod K ⟨"String", true, false, [], [⟨"", "string".toList, none, []⟩, ⟨"", "error".toList, none, []⟩]⟩).guard = true := by
  decide

/-! ### the model agrees with the specification on the domain -/

/-- exported untyped floating-point and complex constants (their literal is not syntactically the
    specified one; see `float_const_exact_of_dyadic` and the witnesses) -/
def inexactConst (o : Obj) : Bool :=
  o.exported && match o.kind with
  | .const (some (.flt _ _ _)) => true
  | .const (some .cplx) => true
  | _ => false

/-- decidable domain on which genContent's output *is* the specified wrapper: the constraint-interface
    test is exact, no os/log collision, no exported untyped floating-point or complex constant (those
    are covered by `float_const_exact_of_dyadic` / the witnesses), variadic signatures well formed, the
    package is named by its import path, and some binding names the package unless nothing is bound -/
def DomAll (p : Pkg) : Prop :=
  p.path = p.importPath ∧
  (((Spec.wrapper K.restricted K.defaultMinor p).vals ++ (Spec.wrapper K.restricted K.defaultMinor p).typs).any Spec.refersPkg =
    !((Spec.wrapper K.restricted K.defaultMinor p).vals.isEmpty && (Spec.wrapper K.restricted K.defaultMinor p).typs.isEmpty)) ∧
  DomBind p ∧ DomName p ∧
  (∀ o ∈ p.objs, inexactConst o = false) ∧
  (∀ o ∈ p.objs, ∀ m ∈ methodsOf o.kind, methodWf m = true)

private theorem filterMap_congr' {α β : Type} (f g : α → Option β) : ∀ l : List α, (∀ a ∈ l, f a = g a) →
    l.filterMap f = l.filterMap g
  | [], _ => rfl
  | a :: l, h => by
    simp only [List.filterMap_cons]
    rw [h a (by simp), filterMap_congr' f g l fun b hb => h b (by simp [hb])]

private theorem valEntries_eq (p : Pkg) : ∀ os : List Obj,
    valEntries K p os = os.filterMap fun o => (valForm K p o).map fun f => (⟨o.name, f⟩ : Entry)
  | [] => rfl
  | o :: os => by
    unfold valEntries
    rw [valEntries_eq p os]
    cases h : valForm K p o <;> simp [h]

private theorem typEntries_eq (p : Pkg) : ∀ os : List Obj,
    typEntries K p os = (os.filter (typKept K)).map fun o => (⟨o.name, .typ (pname K p o.name)⟩ : Entry)
  | [] => rfl
  | o :: os => by
    unfold typEntries
    rw [typEntries_eq p os]
    cases h : typKept K o <;> simp [h]

private theorem wrapEntries_eq (p : Pkg) : ∀ os : List Obj,
    wrapEntries K p os = (os.filter (wrapKept K)).map fun o =>
      (⟨"_" ++ o.name, .wrap (mangle K p.importPath ++ o.name)⟩ : Entry)
  | [] => rfl
  | o :: os => by
    unfold wrapEntries
    rw [wrapEntries_eq p os]
    cases h : wrapKept K o <;> simp [h]

private theorem wtypes_eq (p : Pkg) : ∀ os : List Obj,
    wtypes K p os = (os.filter (wrapKept K)).map (wtypeOf K p)
  | [] => rfl
  | o :: os => by
    unfold wtypes
    rw [wtypes_eq p os]
    cases h : wrapKept K o <;> simp [h]

private theorem methodDeps_eq (p : Pkg) (hp : p.path = p.importPath) (m : Method) :
    methodDeps p m = Spec.methodDeps p m := by
  unfold methodDeps Spec.methodDeps
  congr 1; funext d; simp [hp]

private theorem typeImports_eq (p : Pkg) (hp : p.path = p.importPath) : ∀ os : List Obj,
    typeImports K p os = (os.filter (wrapKept K)).flatMap fun o =>
      ((methodsOf o.kind).filter (·.exported)).flatMap (Spec.methodDeps p)
  | [] => rfl
  | o :: os => by
    unfold typeImports
    rw [typeImports_eq p hp os]
    have hm : methodDeps p = Spec.methodDeps p := funext (methodDeps_eq p hp)
    cases h : wrapKept K o <;> simp [h, keptMethods_eq, List.flatMap_cons, hm]

private theorem typKept_eq_spec (o : Obj) (h : ifaceRuleExact o = true) : typKept K o = Spec.isType o := by
  rw [typKept_K]
  unfold Spec.isType Spec.bindable
  unfold ifaceRuleExact at h
  cases o.exported <;> cases hk : o.kind <;> simp_all
  rename_i g emb ms methods
  cases g <;> cases ms <;> cases methods <;> simp_all

private theorem wrapKept_eq_spec (o : Obj) (h : ifaceRuleExact o = true) : wrapKept K o = Spec.isIface o := by
  rw [wrapKept_K]
  unfold Spec.isIface Spec.bindable
  unfold ifaceRuleExact at h
  cases o.exported <;> cases hk : o.kind <;> simp_all
  rename_i g emb ms methods
  cases g <;> cases ms <;> cases methods <;> simp_all

private theorem valForm_eq_spec (p : Pkg) (o : Obj)
    (hn : pname K p o.name = Spec.ident K.restricted p o.name)
    (hc : inexactConst o = false) :
    valForm K p o = Spec.valForm K.restricted p o := by
  rw [valForm_K]
  unfold Spec.valForm Spec.bindable
  rw [← hn]
  unfold inexactConst at hc
  cases hx : o.exported <;> simp
  cases hk : o.kind <;> simp [hx, hk] at hc ⊢
  rename_i u
  cases u with
  | none => simp [Spec.constForm]
  | some v => cases v <;> simp_all [fixConst_K, Spec.constForm]

/-- **on the domain, the data genContent hands to the template is the specified wrapper**
    (every field but the build-tag line, which is compared in the correspondence run only) -/
theorem genY_eq_spec_partial (p : Pkg) (h : DomAll p) :
    let s := Spec.wrapper K.restricted K.defaultMinor p
    (genE p).vals = s.vals ∧ (genE p).typs = s.typs ∧ (genE p).wraps = s.wraps ∧
    (genE p).wtypes = s.wtypes ∧ (genE p).imports = s.imports ∧
    (genE p).symKey = s.symKey ∧ (genE p).dest = s.dest := by
  obtain ⟨hp, hself, hb, hn, hc, hw⟩ := h
  have hname : ∀ o ∈ p.objs, pname K p o.name = Spec.ident K.restricted p o.name := by
    intro o ho
    apply pname_eq_ident
    rcases hn with hn | hn
    · exact Or.inl hn
    · exact Or.inr (hn o ho)
  have hvals : valEntries K p p.objs =
      p.objs.filterMap fun o => (Spec.valForm K.restricted p o).map fun f => (⟨o.name, f⟩ : Entry) := by
    rw [valEntries_eq]
    apply filterMap_congr'
    intro o ho
    rw [valForm_eq_spec p o (hname o ho) (hc o ho)]
  have hfilt : p.objs.filter (typKept K) = p.objs.filter Spec.isType :=
    List.filter_congr fun o ho => typKept_eq_spec o (hb o ho)
  have hfilw : p.objs.filter (wrapKept K) = p.objs.filter Spec.isIface :=
    List.filter_congr fun o ho => wrapKept_eq_spec o (hb o ho)
  have htyps : typEntries K p p.objs =
      (p.objs.filter Spec.isType).map fun o => (⟨o.name, .typ (Spec.ident K.restricted p o.name)⟩ : Entry) := by
    rw [typEntries_eq, hfilt]
    apply List.map_congr_left
    intro o ho
    rw [hname o (List.mem_filter.1 ho).1]
  have hlit : litUsed K p p.objs = (valEntries K p p.objs).any (fun e => isLit e.form) := by
    rw [valEntries_eq]
    unfold litUsed
    induction p.objs with
    | nil => rfl
    | cons o os ih =>
      simp only [List.any_cons, List.filterMap_cons, ih]
      cases hf : valForm K p o <;> simp
  refine ⟨hvals, htyps, ?_, ?_, ?_, rfl, rfl⟩
  · simp only [genE, genY, Spec.wrapper]
    rw [wrapEntries_eq, hfilw]
    apply List.map_congr_left
    intro o _
    rw [mangle_eq]
  · simp only [genE, genY, Spec.wrapper]
    rw [wtypes_eq, hfilw]
    apply List.map_congr_left
    intro o ho
    have ho' := (List.mem_filter.1 ho).1
    simp only [wtypeOf, Spec.wtypeOf, mangle_eq, keptMethods_eq]
    congr 1
    apply List.map_congr_left
    intro m hm
    exact wmethod_eq_spec m (hw o ho' m (List.mem_filter.1 hm).1)
  · simp only [genE, genY, Spec.wrapper]
    simp only [Spec.wrapper] at hself
    rw [typeImports_eq p hp, hfilw, hlit, hvals, htyps, hself]
    cases ((p.objs.filterMap fun o => (Spec.valForm K.restricted p o).map fun f => (⟨o.name, f⟩ : Entry)).isEmpty &&
      ((p.objs.filter Spec.isType).map fun o => (⟨o.name, .typ (Spec.ident K.restricted p o.name)⟩ : Entry)).isEmpty) <;> rfl

/-- non-vacuity of the domain -/
def pkgPlain : Pkg :=
  { pkgMixed with objs := pkgMixed.objs ++ [⟨"X", true, .const (some (.str "6869"))⟩, ⟨"Y", true, .const (some (.bool true))⟩] }

example : DomAll pkgPlain ∧ (genE pkgPlain).vals.length = 6 := by
  refine ⟨⟨by decide, by decide, by decide, by decide, by decide, by decide⟩, by decide⟩

end YaegiVerif.Props.C18
