import YaegiVerif.Model.Const
import YaegiVerif.Model.ConstEval
import YaegiVerif.Model.ConstDecl
import YaegiVerif.Spec.GoConst
import YaegiVerif.Expected.C03
import YaegiVerif.Generated.C03
import YaegiVerif.Proofs.C03Repr
import YaegiVerif.Proofs.C03Decl
import YaegiVerif.Proofs.C03Block
import YaegiVerif.Proofs.C03Const
import YaegiVerif.Proofs.C03Exact
import YaegiVerif.Proofs.C03Walk
import YaegiVerif.Model.ConstClass
/-
  C03 — property theorems: constant expressions follow Go's exact constant semantics.
-/
namespace YaegiVerif.Props.C03
open YaegiVerif YaegiVerif.Const YaegiVerif.Proofs.C03

/-! ### ties -/

/-- tie: the `bitlen` table, the arms of the inner switch of `representableConst` (guard and, for the signed kinds,
    the range test with its two comparison operators) and its final comparison, as extracted from
    /repo/interp/typecheck.go, are the ones the proofs use -/
theorem reprfacts_tie : Generated.C03.reprFacts = Expected.C03.reprFacts := by decide

/-- tie: the `constOp` map of cfg.go (comparisons included, b3f92e0), for each folding function the go/constant entry
    point and token it uses, whether it wraps its operands in `constant.ToInt`, the Go operator of each typed arm, the
    integer-quotient switch of `quoConst`, the `constToken` table of typecheck.go, and the twenty-seven `CheckFacts` about
    the checks that the repairs of the third round put around the folds (constExpr / constOverflow framing of both
    fold sites, the 512-bit and 1074 limits, the shift clamp, the exact integer quotient, no early return for
    quotients, the form of zeroConst, untyped-stays-untyped, floating-point shift counts, checked conversions of
    typed constants, representable through constValue, bool ↔ non-bool conversions, folding of && and ||, no type
    pushed from a boolean parent, len of a constant string, rune literals keeping their type) -/
theorem evalfacts_tie : Generated.C03.evalFacts = Expected.C03.evalFacts := by decide

/-- tie: the iota bookkeeping of gta.go / cfg.go and the implicit-repetition block of ast.go -/
theorem declfacts_tie : Generated.C03.declFacts = Expected.C03.declFacts := by decide

/-- tie: the functions transcribed by hand in Model/Const*.lean are textually (modulo comments and layout) the ones
    the model was written from; if this breaks the model must be re-validated (the check then relies on the
    correspondence run and the search for a failing input) -/
theorem source_tie : Generated.C03.sourceHashes = Expected.C03.sourceHashes := by decide

/-! ### representability of integer constants (typecheck.go `representableConst`) -/

/-- **Unsigned kinds: yaegi's representability test is exactly `0 ≤ v ≤ max`**, for every unsigned kind
    and every integer `v` of any magnitude. -/
theorem representable_unsigned_correct (k : IKind) (hk : k.signed = false) (v : Int) :
    reprY Expected.C03.reprFacts k v = Spec.reprGo k v := by
  rw [Bool.eq_iff_iff, reprY_iff, reprGo_iff]
  cases k <;> first
    | (exfalso; revert hk; decide)
    | (simp only [IKind.minVal, IKind.maxVal, IKind.signed, IKind.bits, Nat.reducePow, Bool.false_eq_true, if_false]
       omega)

/-- **Signed kinds: yaegi's representability test is exactly `min ≤ v ≤ max`**, for every signed kind (int, int8,
    int16, int32, int64) and every integer `v` of any magnitude — the `Int64Val` guard followed by the range test
    `-1<<(s-1) <= v && v <= 1<<(s-1)-1` evaluated with Go's int64 wrap-around, `s` read from the `bitlen` table.
    (Since the repair of F03; before it the statement failed inside `inSignedGap`, see
    `representable_bitlen_form_gap`.) -/
theorem representable_signed_correct (k : IKind) (hk : k.signed = true) (v : Int) :
    reprY Expected.C03.reprFacts k v = Spec.reprGo k v := by
  rw [Bool.eq_iff_iff, reprY_iff, reprGo_iff]
  cases k <;> first
    | (exfalso; revert hk; decide)
    | (simp only [IKind.minVal, IKind.maxVal, IKind.signed, IKind.bits, Nat.reducePow, if_true]
       omega)

/-- **Representability of integer constants, full strength**: for every integer kind and every integer `v`,
    `representableConst` answers `min(T) ≤ v ≤ max(T)` — the Go specification's "representable by a value of type T". -/
theorem representable_correct (k : IKind) (v : Int) :
    reprY Expected.C03.reprFacts k v = Spec.reprGo k v := by
  cases hs : k.signed
  · exact representable_unsigned_correct k hs v
  · exact representable_signed_correct k hs v

/-- the same statement about the facts regenerated from the current source -/
theorem representable_generated (k : IKind) (v : Int) :
    reprY Generated.C03.reprFacts k v = Spec.reprGo k v := by
  rw [reprfacts_tie]; exact representable_correct k v

/-- non-vacuity / boundary behaviour: both ends of every signed width, the 64-bit wrap-around of the bound
    computation, values far outside the int64 range, and the former F03 inputs -/
example : reprY Expected.C03.reprFacts .int8 127 = true ∧ reprY Expected.C03.reprFacts .int8 128 = false ∧
          reprY Expected.C03.reprFacts .int8 (-128) = true ∧ reprY Expected.C03.reprFacts .int8 (-129) = false ∧
          reprY Expected.C03.reprFacts .int8 200 = false ∧ reprY Expected.C03.reprFacts .int16 40000 = false ∧
          reprY Expected.C03.reprFacts .int8 (-200) = false ∧
          reprY Expected.C03.reprFacts .int64 (2 ^ 63 - 1) = true ∧ reprY Expected.C03.reprFacts .int64 (2 ^ 63) = false ∧
          reprY Expected.C03.reprFacts .int (-(2 ^ 63)) = true ∧ reprY Expected.C03.reprFacts .int (-(2 ^ 63) - 1) = false ∧
          reprY Expected.C03.reprFacts .int32 (-2147483649) = false ∧ reprY Expected.C03.reprFacts .int16 (2 ^ 200) = false := by
  decide

/-- **What the repair removed** (F03, fixed): with the signed arm as it was — `Int64Val` guard, then the final
    `BitLen` test, which ignores the sign — every value of `inSignedGap` (`max < v < 2^bits` or `-2^bits < v < min`)
    was accepted although Go rejects it, and outside of it the old test was right. This is what the model computes
    for a source in which the repair is reverted (the extractor then emits `reprFactsBefore`). -/
theorem representable_bitlen_form_gap (k : IKind) (v : Int) :
    (inSignedGap k v = true → reprY Expected.C03.reprFactsBefore k v = true ∧ Spec.reprGo k v = false) ∧
    (inSignedGap k v = false → reprY Expected.C03.reprFactsBefore k v = Spec.reprGo k v) := by
  constructor
  · intro h
    rw [inSignedGap_iff] at h
    rw [reprYBefore_iff, ← Bool.not_eq_true, reprGo_iff]
    cases k <;>
      simp only [IKind.minVal, IKind.maxVal, IKind.signed, IKind.bits, Nat.reducePow, Bool.false_eq_true, if_false,
        if_true, true_and, false_and] at h ⊢ <;> omega
  · intro h
    have h' : ¬ (inSignedGap k v = true) := by simp [h]
    rw [inSignedGap_iff] at h'
    rw [Bool.eq_iff_iff, reprYBefore_iff, reprGo_iff]
    cases k <;>
      simp only [IKind.minVal, IKind.maxVal, IKind.signed, IKind.bits, Nat.reducePow, Bool.false_eq_true, if_false,
        if_true, true_and, false_and, not_false_eq_true] at h' ⊢ <;> omega

/-- the former F03 inputs under the reverted form: `var x int8 = 200`, `const y int16 = 40000`, `int8(-200)` -/
example : reprY Expected.C03.reprFactsBefore .int8 200 = true ∧ reprY Expected.C03.reprFactsBefore .int16 40000 = true ∧
          reprY Expected.C03.reprFactsBefore .int8 (-200) = true ∧ inSignedGap .int8 200 = true := by decide

/-! ### evaluation of constant expressions: one walk of the interpreter (`var c = e`, operands, first walk) -/

/-- the full statement for one walk over the integer fragment: the interpreter's folding gives the value and type of
    the specification, and rejects exactly what the specification rejects -/
def evalY_full_statement : Prop :=
  ∀ (env : Env) (e : CExpr), env.pass2 = false → intShape e = true →
    Class.compare (evalY Expected.C03.facts env none e) (Spec.evalGo env.iota e) = .same

/-- **Integer constant expressions, both directions, no side condition** — for every expression tree over integer
    literals of any magnitude, rune literals, `iota`, unary `+ - ^`, the operators `+ - * / % & | ^ &^ << >>`,
    conversions to the eleven integer types and parentheses, every value of `iota`, in every first walk
    (`env.pass2 = false`: inside or outside a constant declaration, whether or not the package scope already has
    variables): one walk of the interpreter has **exactly the outcome of the Go specification** — the same value with
    the same type (an untyped kind or a basic type; held as a go/constant value while untyped, as a reflect value of
    the kind once typed), or a compile error on both sides: mismatched operand types, an operand or a result that is
    not representable in the operand type (typed arithmetic is recomputed exactly by `check.constExpr`), a constant
    zero divisor (typed ones included), a conversion of a typed or untyped constant that does not fit, an untyped
    result of more than 512 bits, a shift count above 1074, and — since 638fc07 — an integer literal of more than 512
    bits: the last side condition of the previous version (`litBound`, F03-21) is gone, `evalY_full_statement` holds.
    Proved by structural induction (Proofs/C03Main.lean `evalY_int_rel`, node lemmas `binNode_rel`, `shiftNode_rel`,
    `unNode_rel`, `convNode_rel`). -/
theorem evalY_eq_spec (env : Env) (hp2 : env.pass2 = false) (e : CExpr) (hshape : intShape e = true) :
    Class.compare (evalY Expected.C03.facts env none e) (Spec.evalGo env.iota e) = .same :=
  compare_of_rel (evalY_int_rel env hp2 e hshape)

/-- the full statement holds -/
theorem evalY_full_statement_holds : evalY_full_statement :=
  fun env e hp2 hs => evalY_eq_spec env hp2 e hs

/-- the accepting half in the form the declaration theorems use: whenever the specification accepts the expression
    the walk folds it to the same value with the same type -/
theorem evalY_eq_spec_accepts (env : Env) (hp2 : env.pass2 = false) (e : CExpr) (hshape : intShape e = true)
    (gv : Spec.GV) (hgo : Spec.evalGo env.iota e = .ok gv) :
    ∃ n, evalY Expected.C03.facts env none e = .ok n ∧ n.ty = gv.ty ∧ Class.absRV n.rv = gv.v := by
  obtain ⟨n, hn, hinv⟩ := evalY_int_correct env hp2 e hshape gv hgo
  refine ⟨n, hn, hinv.1, ?_⟩
  rcases hinv.shape with ⟨_, _, _, rfl, _, hrv⟩ | ⟨_, _, rfl, _, hrv, _⟩ <;> simp [Class.absRV, hrv]

/-- the rejecting half: what the specification rejects is a compile error of the walk — not a Go panic, not a
    wrapped value -/
theorem evalY_eq_spec_rejects (env : Env) (hp2 : env.pass2 = false) (e : CExpr) (hshape : intShape e = true)
    (hgo : Spec.evalGo env.iota e = .reject) :
    evalY Expected.C03.facts env none e = .reject :=
  evalY_int_reject env hp2 e hshape hgo

/-- the same about the facts regenerated from the current source -/
theorem evalY_eq_spec_generated (env : Env) (hp2 : env.pass2 = false) (e : CExpr) (hshape : intShape e = true) :
    Class.compare (evalY { repr := Generated.C03.reprFacts, eval := Generated.C03.evalFacts } env none e)
      (Spec.evalGo env.iota e) = .same := by
  rw [reprfacts_tie, evalfacts_tie]; exact evalY_eq_spec env hp2 e hshape

/-- **every walk computes the same node** on the integer fragment: neither the (numeric) type pushed down by a
    declaration or left on a node by an earlier walk, nor the walk itself (first or later, with literal operands that
    kept their first conversion, inside or outside a constant declaration, empty frame or not) changes what the
    interpreter computes — an operation on untyped constants stays untyped (3f5ccd5, 4bed514), an operation on a typed
    operand takes the type of that operand (2988c87). This is the statement behind the repairs of F03-2, F03-14 and
    F03-18. -/
theorem walk_independent (e : CExpr) (hshape : intShape e = true) (env : Env) (forced : Option Ty)
    (hf : ∀ f, forced = some f → f.isNumber = true) :
    evalY Expected.C03.facts env forced e = evalY Expected.C03.facts { iota := env.iota } none e :=
  evalY_int_indep e hshape env forced hf

/-- the literal limit (F03-21, fixed by 638fc07): `(2^600 + 12345) >> 599` is rejected by both sides; with the facts
    before the fifth round the interpreter accepted the literal (2) -/
example :
    evalY Expected.C03.facts { iota := 0 } none (.bin .shr (.int (2 ^ 600 + 12345)) (.int 599)) = .reject ∧
    Spec.evalGo 0 (.bin .shr (.int (2 ^ 600 + 12345)) (.int 599)) = .reject ∧
    (evalY { Expected.C03.facts with eval := Expected.C03.evalFactsBeforeR5 } { iota := 0 } none
        (.bin .shr (.int (2 ^ 600 + 12345)) (.int 599))).bind (fun n => .ok n.rv) = .ok (.c (.int 2)) := by
  refine ⟨?_, ?_, ?_⟩ <;> (set_option exponentiation.threshold 1024 in decide +kernel)

/-- non-vacuity: a depth-5 tree with a 2^200 literal, typed and untyped operands, a shift, a conversion and `iota`
    is in the domain; it evaluates to `-35` of type int8 -/
def exTree : CExpr :=
  .bin .sub (.conv (.i .int8) (.bin .shr (.bin .shl (.int 1) (.int 200)) (.int 198)))
    (.bin .mul (.par (.bin .add (.iota) (.rune 10))) (.un .neg (.un .bitNot (.int 2))))
example : intShape exTree = true ∧
    Spec.evalGo 3 exTree = .ok ⟨.int (-35), .t (.i .int8)⟩ ∧
    (evalY Expected.C03.facts { iota := 3 } none exTree).bind (fun n => .ok (n.rv, n.ty)) =
      .ok (.r (.i .int8) (.int (-35)), .t (.i .int8)) := by decide

/-- non-vacuity of the rejecting half: expressions of the domain that both sides reject — the former findings
    F03-1 (`int8(100) + int8(100)`, `-uint8(1)`, `int64(1) << 63`), F03-4 (`int(1) / int(0)`), F03-7
    (`int8(7) / int16(2)`), F03-8 (`int8(int16(300))`) — and the typing of `'a' / 2` (F03-6) -/
example :
    evalY Expected.C03.facts { iota := 0 } none (.bin .add (.conv (.i .int8) (.int 100)) (.conv (.i .int8) (.int 100))) = .reject ∧
    Spec.evalGo 0 (.bin .add (.conv (.i .int8) (.int 100)) (.conv (.i .int8) (.int 100))) = .reject ∧
    evalY Expected.C03.facts { iota := 0 } none (.un .neg (.conv (.i .uint8) (.int 1))) = .reject ∧
    Spec.evalGo 0 (.un .neg (.conv (.i .uint8) (.int 1))) = .reject ∧
    evalY Expected.C03.facts { iota := 0 } none (.bin .shl (.conv (.i .int64) (.int 1)) (.int 63)) = .reject ∧
    Spec.evalGo 0 (.bin .shl (.conv (.i .int64) (.int 1)) (.int 63)) = .reject ∧
    evalY Expected.C03.facts { iota := 0 } none (.bin .quo (.conv (.i .int) (.int 1)) (.conv (.i .int) (.int 0))) = .reject ∧
    Spec.evalGo 0 (.bin .quo (.conv (.i .int) (.int 1)) (.conv (.i .int) (.int 0))) = .reject ∧
    evalY Expected.C03.facts { iota := 0 } none (.bin .quo (.conv (.i .int8) (.int 7)) (.conv (.i .int16) (.int 2))) = .reject ∧
    Spec.evalGo 0 (.bin .quo (.conv (.i .int8) (.int 7)) (.conv (.i .int16) (.int 2))) = .reject ∧
    evalY Expected.C03.facts { iota := 0 } none (.conv (.i .int8) (.conv (.i .int16) (.int 300))) = .reject ∧
    Spec.evalGo 0 (.conv (.i .int8) (.conv (.i .int16) (.int 300))) = .reject ∧
    (evalY Expected.C03.facts { iota := 0 } none (.bin .quo (.rune 97) (.int 2))).bind (fun n => .ok (n.rv, n.ty)) =
      .ok (.c (.int 48), .u .rune) ∧
    Spec.evalGo 0 (.bin .quo (.rune 97) (.int 2)) = .ok ⟨.int 48, .u .rune⟩ := by decide

/-- **what the repairs removed** (old facts: `evalFactsBeforeR3` is what the extractor emits for a tree in which the
    repairs of the third round are reverted; the model then computes what the code did): typed arithmetic wrapped
    (`int8(100) + int8(100)` was −56, F03-1), a typed zero divisor was a Go panic (F03-4), `'a' / 2` was typed int
    (F03-6), `int8(7) / int16(2)` was 3 (F03-7), `int8(int16(300))` was 44 (F03-8) -/
theorem before_round3_witness :
    let FB : Facts := { Expected.C03.facts with eval := Expected.C03.evalFactsBeforeR3 }
    (evalY FB { iota := 0 } none (.bin .add (.conv (.i .int8) (.int 100)) (.conv (.i .int8) (.int 100)))).bind (fun n => .ok n.rv) =
      .ok (.r (.i .int8) (.int (-56))) ∧
    evalY FB { iota := 0 } none (.bin .quo (.conv (.i .int) (.int 1)) (.conv (.i .int) (.int 0))) = .crash ∧
    (evalY FB { iota := 0 } none (.bin .quo (.rune 97) (.int 2))).bind (fun n => .ok (n.rv, n.ty)) = .ok (.c (.int 48), .u .int) ∧
    (evalY FB { iota := 0 } none (.bin .quo (.conv (.i .int8) (.int 7)) (.conv (.i .int16) (.int 2)))).bind (fun n => .ok n.rv) =
      .ok (.r (.i .int8) (.int 3)) ∧
    (evalY FB { iota := 0 } none (.conv (.i .int8) (.conv (.i .int16) (.int 300)))).bind (fun n => .ok n.rv) =
      .ok (.r (.i .int8) (.int 44)) := by decide

set_option exponentiation.threshold 1024 in
set_option maxRecDepth 8000 in
/-- the limits of the toolchain (F03-9, fixed by eeab028): `1 << 600 >> 599` is rejected by both sides (it was 2);
    a shift count above 1074 is rejected however small the result -/
example :
    evalY Expected.C03.facts { iota := 0 } none (.bin .shr (.bin .shl (.int 1) (.int 600)) (.int 599)) = .reject ∧
    Spec.evalGo 0 (.bin .shr (.bin .shl (.int 1) (.int 600)) (.int 599)) = .reject ∧
    evalY Expected.C03.facts { iota := 0 } none (.bin .shr (.int 1) (.int 1075)) = .reject ∧
    Spec.evalGo 0 (.bin .shr (.int 1) (.int 1075)) = .reject ∧
    (evalY { Expected.C03.facts with eval := Expected.C03.evalFactsBeforeR3 } { iota := 0 } none
        (.bin .shr (.bin .shl (.int 1) (.int 600)) (.int 599))).bind (fun n => .ok n.rv) = .ok (.c (.int 2)) := by
  decide +kernel

/-- **The quotient of two integer constants is the integer quotient whatever the context** (repair of F48): for every
    type `nty` the pre-order pass may have copied onto the node and all integers `p`, `q ≠ 0`, `quoConst` folds `p / q`
    to the truncated integer quotient, as the specification requires of two untyped integer constants; and likewise
    every other arithmetic operator on two Int-kinded constants. -/
theorem quo_const_int_any_type (a : Act) (ha : isArith a = true) (nty : Ty) (p q : Int)
    (hz : ¬ (needsNZ a = true ∧ q = 0)) :
    foldBinY Expected.C03.facts a nty (.c (.int p)) (.c (.int q)) = .ok (.c (.int (iop a p q))) :=
  foldBinY_const a ha nty p q hz

/-- **What the repair of F48 removed**: with the switch of `quoConst` on the node type (the code before), the same
    fold under a pushed-down floating-point or typed integer type was the exact rational quotient. This is what the
    model computes for a source in which that repair is reverted (the extractor then emits `rule := .nodeType`). -/
theorem quo_before_F48_witness :
    foldBinY { Expected.C03.facts with eval := Expected.C03.evalFactsBeforeF48 } .quo (.t .f64) (.c (.int 3)) (.c (.int 2)) =
      .ok (.c (.flt ⟨3, 2⟩)) ∧
    foldBinY { Expected.C03.facts with eval := Expected.C03.evalFactsBeforeF48 } .quo (.t (.i .int)) (.c (.int 7)) (.c (.int 2)) =
      .ok (.c (.flt ⟨7, 2⟩)) ∧
    foldBinY { Expected.C03.facts with eval := Expected.C03.evalFactsBeforeF48 } .quo (.u .int) (.c (.int 7)) (.c (.int 2)) =
      .ok (.c (.int 3)) ∧
    foldBinY Expected.C03.facts .quo (.t .f64) (.c (.int 3)) (.c (.int 2)) = .ok (.c (.int 1)) := by decide

/-- the regression programs of the earlier repairs, model = specification: `var f float64 = 3/2` is 1,
    `var v int = (7/2)*2` is 6, `var c = (2/3)-(16|17)` is −17, `const c = 7/2 + 0.5` is 3.5 (all three walks),
    `const c = int8(1) + 7/2` is 4, a floating-point operand still gives the real quotient (`7/2.0` is 3.5),
    `const c int = 3 * (1)` is 3 (F03-16), `const c = float64(0.5 + 0.25)` is 0.75 (the former replay of F03-14: the
    operand of the conversion is an untyped constant again in the later walks, 3f5ccd5) -/
example :
    varDeclY Expected.C03.facts (some .f64) (.bin .quo (.int 3) (.int 2)) = .ok (.flt ⟨1, 1⟩, .f64) ∧
    Spec.declGo 0 (some .f64) (.bin .quo (.int 3) (.int 2)) = .ok (.flt ⟨1, 1⟩, .f64) ∧
    varDeclY Expected.C03.facts (some (.i .int)) (.bin .mul (.par (.bin .quo (.int 7) (.int 2))) (.int 2)) = .ok (.int 6, .i .int) ∧
    Spec.declGo 0 (some (.i .int)) (.bin .mul (.par (.bin .quo (.int 7) (.int 2))) (.int 2)) = .ok (.int 6, .i .int) ∧
    varDeclY Expected.C03.facts none (.bin .sub (.par (.bin .quo (.int 2) (.int 3))) (.par (.bin .or (.int 16) (.int 17)))) =
      .ok (.int (-17), .i .int) ∧
    constDeclY Expected.C03.facts none (.bin .add (.bin .quo (.int 7) (.int 2)) (.flt ⟨1, 2⟩)) = .ok [(.flt ⟨7, 2⟩, .f64)] ∧
    Spec.declGo 0 none (.bin .add (.bin .quo (.int 7) (.int 2)) (.flt ⟨1, 2⟩)) = .ok (.flt ⟨7, 2⟩, .f64) ∧
    constDeclY Expected.C03.facts none (.bin .add (.conv (.i .int8) (.int 1)) (.bin .quo (.int 7) (.int 2))) = .ok [(.int 4, .i .int8)] ∧
    constDeclY Expected.C03.facts none (.bin .quo (.int 7) (.flt ⟨2, 1⟩)) = .ok [(.flt ⟨7, 2⟩, .f64)] ∧
    constDeclY Expected.C03.facts (some (.i .int)) (.bin .mul (.int 3) (.par (.int 1))) = .ok [(.int 3, .i .int)] ∧
    Spec.declGo 0 (some (.i .int)) (.bin .mul (.int 3) (.par (.int 1))) = .ok (.int 3, .i .int) ∧
    constDeclY Expected.C03.facts none (.conv .f64 (.bin .add (.flt ⟨1, 2⟩) (.flt ⟨1, 4⟩))) = .ok [(.flt ⟨3, 4⟩, .f64)] ∧
    Spec.declGo 0 none (.conv .f64 (.bin .add (.flt ⟨1, 2⟩) (.flt ⟨1, 4⟩))) = .ok (.flt ⟨3, 4⟩, .f64) := by decide

/-- the regression programs of the repairs of the third round outside the integer fragment, model = specification:
    `const c = 1 < 2` is true (F03-10, b3f92e0: before, the comparison was not folded and outside the model),
    `const c = 8 >> float32(2)` is 2 (F03-13, ce5712d: before, rejected), `var c = uint64(-1 << len("ab"))` is rejected
    (F03-15, a2a892e: before, `len` was a run-time call), `const c = float32(3e38) * 10` is rejected (F03-12: before,
    +Inf — outside the model) -/
example :
    constDeclY Expected.C03.facts none (.bin .lt (.int 1) (.int 2)) = .ok [(.bool true, .bool)] ∧
    Spec.declGo 0 none (.bin .lt (.int 1) (.int 2)) = .ok (.bool true, .bool) ∧
    constDeclY { Expected.C03.facts with eval := Expected.C03.evalFactsBeforeR3 } none (.bin .lt (.int 1) (.int 2)) = .unm "bool-ops" ∧
    constDeclY Expected.C03.facts none (.bin .shr (.int 8) (.conv .f32 (.int 2))) = .ok [(.int 2, .i .int)] ∧
    Spec.declGo 0 none (.bin .shr (.int 8) (.conv .f32 (.int 2))) = .ok (.int 2, .i .int) ∧
    constDeclY { Expected.C03.facts with eval := Expected.C03.evalFactsBeforeR3 } none (.bin .shr (.int 8) (.conv .f32 (.int 2))) =
      .rejectOrCrash ∧
    varDeclY Expected.C03.facts none (.conv (.i .uint64) (.bin .shl (.un .neg (.int 1)) (.len (.str [97, 98])))) = .reject ∧
    Spec.declGo 0 none (.conv (.i .uint64) (.bin .shl (.un .neg (.int 1)) (.len (.str [97, 98])))) = .reject ∧
    varDeclY { Expected.C03.facts with eval := Expected.C03.evalFactsBeforeR3 } none
      (.conv (.i .uint64) (.bin .shl (.un .neg (.int 1)) (.len (.str [97, 98])))) = .unm "len-at-run-time" ∧
    constDeclY Expected.C03.facts none (.bin .mul (.conv .f32 (.flt ⟨3 * 10 ^ 38, 1⟩)) (.int 10)) = .rejectOrCrash ∧
    Spec.declGo 0 none (.bin .mul (.conv .f32 (.flt ⟨3 * 10 ^ 38, 1⟩)) (.int 10)) = .reject := by decide +kernel

/-! ### declarations without a declared type -/

/-- **`var c = e` at package level, both directions**, for every expression of the integer fragment: the model of the
    declaration *equals* the specification — the value with Go's default type (`int32` for a rune constant:
    `var c0 = 'a'`, F03-5 fixed by b080dc4; the former restriction `noRune` is gone), a compile error when the constant
    does not fit its default type or when the specification rejects `e`. -/
theorem var_decl_exact (e : CExpr) (hshape : intShape e = true) :
    varDeclY Expected.C03.facts none e = Spec.declGo 0 none e :=
  Proofs.C03.var_decl_exact e hshape

/-- non-vacuity: `var c0 = 'a'` is 97 of type int32 on both sides (int with the code before b080dc4) -/
example :
    varDeclY Expected.C03.facts none (.rune 97) = .ok (.int 97, .i .int32) ∧
    Spec.declGo 0 none (.rune 97) = .ok (.int 97, .i .int32) ∧
    varDeclY { Expected.C03.facts with eval := Expected.C03.evalFactsBeforeR3 } none (.rune 97) = .ok (.int 97, .i .int) := by
  decide

/-- **default types**: for a node holding an integer constant the interpreter's `defaultType` is Go's
    (int for untyped int, int32 for untyped rune, the type itself when typed) -/
theorem default_type_correct (n : NS) (gv : Spec.GV) (h : Inv n gv) : defaultTypeY n = Spec.defaultGo gv.ty :=
  defaultTypeY_int n gv h

/-! ### const blocks: iota and implicit repetition -/

/-- **iota sequencing and implicit repetition** — for every block length and every pattern of explicit and
    implicit specs: if each resolved spec, evaluated on its own with `iota` = its index, is accepted by the
    interpreter model and yields Go's value (`SpecOk`, the property of single declarations), then the walk of the
    whole block — running `sc.iota` counter, duplication of the previous spec's type and expression — produces
    exactly the list of values the specification assigns to the block. -/
theorem iota_block_correct (F : Facts) (specs : List Spec)
    (h : ∀ j r, (Spec.resolveGo none specs)[j]? = some r → ∃ t e, r = some (t, e) ∧ SpecOk F j t e) :
    ∃ vs, blockY F Expected.C03.declFacts specs = .ok vs ∧ Spec.blockGo specs = vs.map Res.ok := by
  obtain ⟨vs, hgood, hgo⟩ := walk_good F specs 0 true none (by simpa using h)
  exact ⟨vs, combine_good _ vs hgood, hgo⟩

/-- the same with the declaration facts regenerated from the current source -/
theorem iota_block_generated (F : Facts) (specs : List Spec)
    (h : ∀ j r, (Spec.resolveGo none specs)[j]? = some r → ∃ t e, r = some (t, e) ∧ SpecOk F j t e) :
    ∃ vs, blockY F Generated.C03.declFacts specs = .ok vs ∧ Spec.blockGo specs = vs.map Res.ok := by
  rw [declfacts_tie]; exact iota_block_correct F specs h

/-- **`const c = e` at package level, any expression of the integer fragment** (typed and untyped operands,
    conversions included): the three walks of the declaration (gta on the block, gta on the spec, cfg — the later
    ones with the type of the first pushed down every operator, literal operands keeping the conversion of the first
    walk, conversion operands the type the conversion left on them: none of it changes the node, `walk_independent`)
    and the use of the constant yield exactly the value and (default) type of the specification, for every `iota`,
    whether or not `sc.types` is still empty. (Before the fifth round: untyped expressions without conversions only.) -/
theorem const_decl_correct (i : Nat) (e : CExpr) (hs : intShape e = true)
    (v : CV × BT) (hgo : Spec.declGo i none e = .ok v) : SpecOk Expected.C03.facts i none e := by
  intro first
  obtain ⟨n, m, h1, h2, h3⟩ := const_decl_stages i e hs v hgo first
  exact ⟨n, m, v, h1, h2, h3, hgo⟩

/-- **Blocks of integer constants without declared types, end to end**: for every block length and every pattern of
    implicit repetition, if each resolved spec is an expression of the integer fragment without declared type that Go
    accepts with `iota` = its index, the interpreter model gives the block exactly the values and types of the
    specification. -/
theorem block_untyped_correct (specs : List Spec)
    (h : ∀ j r, (Spec.resolveGo none specs)[j]? = some r →
      ∃ e v, r = some (none, e) ∧ intShape e = true ∧ Spec.declGo j none e = .ok v) :
    ∃ vs, blockY Expected.C03.facts Expected.C03.declFacts specs = .ok vs ∧ Spec.blockGo specs = vs.map Res.ok := by
  apply iota_block_correct
  intro j r hr
  obtain ⟨e, v, hre, hs, hgo⟩ := h j r hr
  exact ⟨none, e, hre, const_decl_correct j e hs v hgo⟩

/-- non-vacuity of the hypothesis of `block_untyped_correct`: `const ( a = 1 << iota; b; c )` -/
example : ∃ vs, blockY Expected.C03.facts Expected.C03.declFacts
      [.explicit none (.bin .shl (.int 1) .iota), .implicit, .implicit] = .ok vs ∧
    Spec.blockGo [.explicit none (.bin .shl (.int 1) .iota), .implicit, .implicit] = vs.map Res.ok := by
  apply block_untyped_correct
  intro j r hr
  match j, hr with
  | 0, hr =>
    simp [Spec.resolveGo] at hr; subst hr
    exact ⟨_, (.int 1, .i .int), rfl, by decide, by decide⟩
  | 1, hr =>
    simp [Spec.resolveGo] at hr; subst hr
    exact ⟨_, (.int 2, .i .int), rfl, by decide, by decide⟩
  | 2, hr =>
    simp [Spec.resolveGo] at hr; subst hr
    exact ⟨_, (.int 4, .i .int), rfl, by decide, by decide⟩
  | n + 3, hr => simp [Spec.resolveGo] at hr

/-- non-vacuity: `const ( a = iota; b; c uint8 = 1 << iota; d; e = iota * 10 )` -/
def exBlock : List Spec :=
  [.explicit none .iota, .implicit, .explicit (some (.i .uint8)) (.bin .shl (.int 1) .iota), .implicit,
   .explicit none (.bin .mul .iota (.int 10))]
example : blockY Expected.C03.facts Expected.C03.declFacts exBlock =
      .ok [(.int 0, .i .int), (.int 1, .i .int), (.int 4, .i .uint8), (.int 8, .i .uint8), (.int 40, .i .int)] ∧
    Spec.blockGo exBlock =
      [.ok (.int 0, .i .int), .ok (.int 1, .i .int), .ok (.int 4, .i .uint8), .ok (.int 8, .i .uint8), .ok (.int 40, .i .int)] := by
  decide +kernel

/-! ### conversions and declarations with a declared type, both directions -/

/-- **`T(e)`, both directions**, for every expression `e` of the integer fragment — typed or untyped — and every
    integer type `T`: the instance of `evalY_eq_spec` for a conversion at the top. `int8(200)`, `uint8(-1)`,
    `int64(1 << 63)` are rejected (untyped operand, `representableConst`), and so are `int8(int16(300))`,
    `uint8(int8(-1))` (typed operand: a constant conversion since e6c1f4a). -/
theorem conv_exact (i : Nat) (e : CExpr) (hshape : intShape e = true) (k : IKind) :
    Class.compare (evalY Expected.C03.facts { iota := i } none (.conv (.i k) e)) (Spec.evalGo i (.conv (.i k) e)) = .same :=
  evalY_eq_spec { iota := i } rfl (.conv (.i k) e) (by simpa [intShape] using hshape)

/-- non-vacuity: `int8(1 << 200 >> 193)` (128), `int8(-(1 << 7) - 1)` and `uint8(int8(-1))` are in the domain and
    rejected by both sides, `int8(-(1 << 7))` is accepted by both with value −128 -/
example :
    intShape (.bin .shr (.bin .shl (.int 1) (.int 200)) (.int 193)) = true ∧
    Spec.evalGo 0 (.bin .shr (.bin .shl (.int 1) (.int 200)) (.int 193)) = .ok ⟨.int 128, .u .int⟩ ∧
    evalY Expected.C03.facts { iota := 0 } none (.conv (.i .int8) (.bin .shr (.bin .shl (.int 1) (.int 200)) (.int 193))) = .reject ∧
    Spec.evalGo 0 (.conv (.i .int8) (.bin .shr (.bin .shl (.int 1) (.int 200)) (.int 193))) = .reject ∧
    evalY Expected.C03.facts { iota := 0 } none (.conv (.i .int8) (.bin .sub (.un .neg (.bin .shl (.int 1) (.int 7))) (.int 1))) = .reject ∧
    evalY Expected.C03.facts { iota := 0 } none (.conv (.i .uint8) (.conv (.i .int8) (.un .neg (.int 1)))) = .reject ∧
    Spec.evalGo 0 (.conv (.i .uint8) (.conv (.i .int8) (.un .neg (.int 1)))) = .reject ∧
    (evalY Expected.C03.facts { iota := 0 } none (.conv (.i .int8) (.un .neg (.bin .shl (.int 1) (.int 7))))).bind (fun n => .ok n.rv) =
      .ok (.r (.i .int8) (.int (-128))) := by decide

/-- **`var c T = e` at package level, both directions**, `T` any integer type, `e` **any** expression of the integer
    fragment: the model of the declaration *equals* the specification — Go's value when the constant is representable
    in `T` (or already has type `T`), a compile error otherwise, and when the specification rejects `e`. Untyped operator
    expressions stay untyped under the declared type and are checked by the assignment (`var c0 uint8 = 100 - 101`,
    F03-2); an operator on typed operands takes the type of its operand, so a typed constant of another type is a
    mismatch as in Go (`var c0 int8 = int16(1) + 2`, F03-18 fixed by 2988c87 — the former restriction to initialisers
    without such an operator is gone). -/
theorem typed_var_decl_exact (k : IKind) (e : CExpr) (hshape : intShape e = true) :
    varDeclY Expected.C03.facts (some (.i k)) e = Spec.declGo 0 (some (.i k)) e :=
  Proofs.C03.typed_var_decl_exact k e hshape

/-- non-vacuity: the former replays of F03 (`var c0 int8 = 200`) and F03-2 (`var c0 uint8 = 100 - 101`) are rejected
    by both sides (with the facts before the third round the second one was 255), and so is the former replay of F03-18
    `var c0 int8 = int16(1) + 2` (3 with the facts before the fifth round) -/
example :
    varDeclY Expected.C03.facts (some (.i .int8)) (.int 200) = .reject ∧ Spec.declGo 0 (some (.i .int8)) (.int 200) = .reject ∧
    varDeclY Expected.C03.facts (some (.i .uint8)) (.bin .sub (.int 100) (.int 101)) = .reject ∧
    Spec.declGo 0 (some (.i .uint8)) (.bin .sub (.int 100) (.int 101)) = .reject ∧
    varDeclY Expected.C03.facts (some (.i .int8)) (.bin .add (.conv (.i .int16) (.int 1)) (.int 2)) = .reject ∧
    Spec.declGo 0 (some (.i .int8)) (.bin .add (.conv (.i .int16) (.int 1)) (.int 2)) = .reject ∧
    varDeclY { Expected.C03.facts with eval := Expected.C03.evalFactsBeforeR5 } (some (.i .int8))
      (.bin .add (.conv (.i .int16) (.int 1)) (.int 2)) = .ok (.int 3, .i .int8) ∧
    varDeclY { Expected.C03.facts with eval := Expected.C03.evalFactsBeforeR3 } (some (.i .uint8)) (.bin .sub (.int 100) (.int 101)) =
      .ok (.int 255, .i .uint8) ∧
    varDeclY Expected.C03.facts (some (.i .int8)) (.un .neg (.par (.int 128))) = .ok (.int (-128), .i .int8) ∧
    varDeclY Expected.C03.facts (some (.i .int16)) (.conv (.i .int16) (.bin .mul (.int 200) (.int 100))) = .ok (.int 20000, .i .int16) := by
  decide

/-- **`const c T = e`, both directions**, `T` any integer type, `e` any expression of the integer fragment, for every
    `iota` and wherever the spec stands in a block: when Go accepts the declaration all three walks and the use yield
    Go's value (`SpecOk`, so the spec can take part in `iota_block_correct`); when Go rejects it
    (`const y int16 = 40000`, `const c int8 = 100 + 900`, `const c int8 = int16(1) + 2`) the first walk of the
    interpreter rejects it. -/
theorem typed_const_decl_exact (i : Nat) (k : IKind) (e : CExpr) (hshape : intShape e = true) :
    (∀ v, Spec.declGo i (some (.i k)) e = .ok v → SpecOk Expected.C03.facts i (some (.i k)) e) ∧
    (Spec.declGo i (some (.i k)) e = .reject → ∀ first, constGtaY Expected.C03.facts i first (some (.i k)) e = .reject) :=
  Proofs.C03.typed_const_decl_exact i k e hshape

/-- **Blocks of integer constants with or without declared types, end to end**: every resolved spec is an expression
    of the integer fragment, without declared type or with a declared integer type
    (`const ( a int8 = 1 << iota; b; c )`), accepted by Go with `iota` = its index: the interpreter model gives the
    block exactly the values and types of the specification. -/
theorem block_int_correct (specs : List Spec)
    (h : ∀ j r, (Spec.resolveGo none specs)[j]? = some r →
      (∃ e v, r = some (none, e) ∧ intShape e = true ∧ Spec.declGo j none e = .ok v) ∨
      (∃ k e v, r = some (some (.i k), e) ∧ intShape e = true ∧ Spec.declGo j (some (.i k)) e = .ok v)) :
    ∃ vs, blockY Expected.C03.facts Expected.C03.declFacts specs = .ok vs ∧ Spec.blockGo specs = vs.map Res.ok := by
  apply iota_block_correct
  intro j r hr
  rcases h j r hr with ⟨e, v, hre, hs, hgo⟩ | ⟨k, e, v, hre, hs, hgo⟩
  · exact ⟨none, e, hre, const_decl_correct j e hs v hgo⟩
  · exact ⟨some (.i k), e, hre, (typed_const_decl_exact j k e hs).1 v hgo⟩

/-- non-vacuity: `const ( a int8 = 1 << iota; b; c )` is 1, 2, 4 of type int8 on both sides, and the former inputs
    `const y int16 = 40000`, `const c int8 = 100 + 900` are rejected -/
example :
    blockY Expected.C03.facts Expected.C03.declFacts [.explicit (some (.i .int8)) (.bin .shl (.int 1) .iota), .implicit, .implicit] =
      .ok [(.int 1, .i .int8), (.int 2, .i .int8), (.int 4, .i .int8)] ∧
    Spec.blockGo [.explicit (some (.i .int8)) (.bin .shl (.int 1) .iota), .implicit, .implicit] =
      [.ok (.int 1, .i .int8), .ok (.int 2, .i .int8), .ok (.int 4, .i .int8)] ∧
    constDeclY Expected.C03.facts (some (.i .int16)) (.int 40000) = .rejectOrCrash ∧
    Spec.declGo 0 (some (.i .int16)) (.int 40000) = .reject ∧
    constDeclY Expected.C03.facts (some (.i .int8)) (.bin .add (.int 100) (.int 900)) = .rejectOrCrash ∧
    Spec.declGo 0 (some (.i .int8)) (.bin .add (.int 100) (.int 900)) = .reject := by decide +kernel

/-! ### the findings repaired in the fifth round: model = specification, and what the code did before -/

/-- F03-14 (4bed514), F03-19 (1122c63), F03-20 (a35d2a5), F03-22 (a1f1717): `const c0 = string('a' + 1)` is "b" in all
    three walks (the later walks rejected it), `true << 1` is a compile error (a Go panic before),
    `var c0 = uint64(-1 << len(string("ab")))` is rejected as a constant overflow (`len` was a run-time call: outside
    the model), `string(4294967296)` is "\uFFFD" ("\x00" before) -/
theorem round5_regressions :
    let FB : Facts := { Expected.C03.facts with eval := Expected.C03.evalFactsBeforeR5 }
    constDeclY Expected.C03.facts none (.conv .str (.bin .add (.rune 97) (.int 1))) = .ok [(.str [98], .str)] ∧
    Spec.declGo 0 none (.conv .str (.bin .add (.rune 97) (.int 1))) = .ok (.str [98], .str) ∧
    constDeclY FB none (.conv .str (.bin .add (.rune 97) (.int 1))) = .reject ∧
    evalY Expected.C03.facts { iota := 0 } none (.bin .shl (.bool true) (.int 1)) = .reject ∧
    Spec.evalGo 0 (.bin .shl (.bool true) (.int 1)) = .reject ∧
    evalY FB { iota := 0 } none (.bin .shl (.bool true) (.int 1)) = .crash ∧
    varDeclY Expected.C03.facts none (.conv (.i .uint64) (.bin .shl (.un .neg (.int 1)) (.len (.conv .str (.str [97, 98]))))) = .reject ∧
    Spec.declGo 0 none (.conv (.i .uint64) (.bin .shl (.un .neg (.int 1)) (.len (.conv .str (.str [97, 98]))))) = .reject ∧
    varDeclY FB none (.conv (.i .uint64) (.bin .shl (.un .neg (.int 1)) (.len (.conv .str (.str [97, 98]))))) = .unm "len-at-run-time" ∧
    (evalY Expected.C03.facts { iota := 0 } none (.conv .str (.int 4294967296))).bind (fun n => .ok n.rv) =
      .ok (.r .str (.str [0xEF, 0xBF, 0xBD])) ∧
    Spec.evalGo 0 (.conv .str (.int 4294967296)) = .ok ⟨.str [0xEF, 0xBF, 0xBD], .t .str⟩ ∧
    (evalY FB { iota := 0 } none (.conv .str (.int 4294967296))).bind (fun n => .ok n.rv) = .ok (.r .str (.str [0])) := by
  decide +kernel

/-- typed floating-point constants are folded exactly and rounded once (149d328): `float32(16777216) + float32(1) +
    float32(1)` … is computed on exact values; the witness: `float32(0.1) * float32(3)` is the float32 nearest to the
    exact product of the two float32 values on both sides -/
example :
    constDeclY Expected.C03.facts none (.bin .mul (.conv .f32 (.flt ⟨1, 10⟩)) (.conv .f32 (.int 3))) =
      .ok [(.flt ⟨5033165, 16777216⟩, .f32)] ∧
    Spec.declGo 0 none (.bin .mul (.conv .f32 (.flt ⟨1, 10⟩)) (.conv .f32 (.int 3))) = .ok (.flt ⟨5033165, 16777216⟩, .f32) := by
  decide +kernel

/-! ### the type of a constant shift of a floating-point constant (F03-23, fixed by 287aa9d) -/

/-- F03-23: "if the left operand of a constant shift expression is an untyped constant, the result is an integer
    constant": `117.0 << 1` is 234 of type untyped int on both sides, `^(117.0 << 1)` is −235, `var c0 = 1.0 << 3` is 8
    of type int; with the facts before 287aa9d the node kept the untyped floating-point type of its left operand and
    `^(117.0 << 1)` was rejected -/
theorem float_shift_type_regression :
    let FB : Facts := { Expected.C03.facts with eval := Expected.C03.evalFactsBeforeR6 }
    (evalY Expected.C03.facts { iota := 0 } none (.bin .shl (.flt ⟨117, 1⟩) (.int 1))).bind (fun n => .ok (n.rv, n.ty)) =
      .ok (.c (.int 234), .u .int) ∧
    Spec.evalGo 0 (.bin .shl (.flt ⟨117, 1⟩) (.int 1)) = .ok ⟨.int 234, .u .int⟩ ∧
    (evalY Expected.C03.facts { iota := 0 } none (.un .bitNot (.par (.bin .shl (.flt ⟨117, 1⟩) (.int 1))))).bind
      (fun n => .ok (n.rv, n.ty)) = .ok (.c (.int (-235)), .u .int) ∧
    Spec.evalGo 0 (.un .bitNot (.par (.bin .shl (.flt ⟨117, 1⟩) (.int 1)))) = .ok ⟨.int (-235), .u .int⟩ ∧
    varDeclY Expected.C03.facts none (.bin .shl (.flt ⟨1, 1⟩) (.int 3)) = .ok (.int 8, .i .int) ∧
    Spec.declGo 0 none (.bin .shl (.flt ⟨1, 1⟩) (.int 3)) = .ok (.int 8, .i .int) ∧
    (evalY FB { iota := 0 } none (.bin .shl (.flt ⟨117, 1⟩) (.int 1))).bind (fun n => .ok (n.rv, n.ty)) =
      .ok (.c (.int 234), .u .float) ∧
    evalY FB { iota := 0 } none (.un .bitNot (.par (.bin .shl (.flt ⟨117, 1⟩) (.int 1)))) = .reject := by decide

/-! ### conversion of a constant to float32: one rounding (seed C03-3) -/

/-- **the model's conversion of a constant to float32 is the direct one**: `convertConst` yields the float32 nearest to
    the exact rational value (`round32`: round to nearest, ties to even, from the exact value — `constant.Float32Val`),
    for every rational `q`; the float64 value plays no part. (`round32` itself is the modelled IEEE rounding of
    Model/ConstVal.lean, exercised against go/constant by the correspondence: floating-point constant arithmetic stays
    correspondence-only.) -/
theorem float32_conversion_direct (q : Q) :
    convertConstY Expected.C03.facts (.flt q) .f32 =
      (match round32 q with | some r => .ok (.r .f32 (.flt r)) | none => .unm "float-inf") := by
  simp only [convertConstY, CV.toFloat, Expected.C03.facts, Expected.C03.evalFacts, Expected.C03.checkFacts, if_true]
  cases round32 q <;> rfl

/-- **direct rounding ≠ rounding through float64**: `1 + 2^-24 + 2^-60` lies just above the midpoint of the float32
    neighbours 1 and 1 + 2^-23, by less than half a float64 ulp. Rounded directly it is 1 + 2^-23 (bits 0x3f800001);
    rounded to float64 first it becomes the midpoint itself, and the tie then goes to the even neighbour 1
    (0x3f800000). The model with `f32Direct := false` (what the extractor emits when `convertConst` shares the float64
    arm) computes the second, with the expected facts the first; Go requires the first. -/
theorem double_rounding_witness :
    let q : Q := Q.norm (2 ^ 60 + 2 ^ 36 + 1) (2 ^ 60)
    let FB : Facts := { Expected.C03.facts with
      eval := { Expected.C03.evalFacts with chk := { Expected.C03.checkFacts with f32Direct := false } } }
    round32 q = some (Q.norm (2 ^ 23 + 1) (2 ^ 23)) ∧
    (round64 q).bind round32 = some ⟨1, 1⟩ ∧
    convertConstY Expected.C03.facts (.flt q) .f32 = .ok (.r .f32 (.flt (Q.norm (2 ^ 23 + 1) (2 ^ 23)))) ∧
    convertConstY FB (.flt q) .f32 = .ok (.r .f32 (.flt ⟨1, 1⟩)) ∧
    Spec.convGo .f32 ⟨.flt q, .u .float⟩ = .ok ⟨.flt (Q.norm (2 ^ 23 + 1) (2 ^ 23)), .t .f32⟩ := by
  decide +kernel

end YaegiVerif.Props.C03
