import YaegiVerif.Model.Const
import YaegiVerif.Model.ConstEval
import YaegiVerif.Model.ConstDecl
import YaegiVerif.Spec.GoConst
import YaegiVerif.Expected.C03
import YaegiVerif.Generated.C03
import YaegiVerif.Proofs.C03Repr
import YaegiVerif.Proofs.C03Decl
import YaegiVerif.Proofs.C03Block
import YaegiVerif.Proofs.C03Const
import YaegiVerif.Model.ConstClass
/-
  C03 — property theorems: constant expressions follow Go's exact constant semantics.
-/
namespace YaegiVerif.Props.C03
open YaegiVerif YaegiVerif.Const YaegiVerif.Proofs.C03

/-! ### ties -/

/-- tie: the `bitlen` table, the guards of `representableConst` and its final comparison, as extracted
    from /repo/interp/typecheck.go, are the ones the proofs use -/
theorem reprfacts_tie : Generated.C03.reprFacts = Expected.C03.reprFacts := by decide

/-- tie: the `constOp` map of cfg.go, and for each folding function of op.go the go/constant entry point and token it
    uses, whether it wraps its operands in `constant.ToInt`, the Go operator of each typed arm, and the
    integer-quotient switch of `quoConst` -/
theorem evalfacts_tie : Generated.C03.evalFacts = Expected.C03.evalFacts := by decide

/-- tie: the iota bookkeeping of gta.go / cfg.go and the implicit-repetition block of ast.go -/
theorem declfacts_tie : Generated.C03.declFacts = Expected.C03.declFacts := by decide

/-- tie: the functions transcribed by hand in Model/Const*.lean are textually (modulo comments and layout) the ones
    the model was written from; if this breaks the model must be re-validated (the check then relies on the
    correspondence run and the search for a failing input) -/
theorem source_tie : Generated.C03.sourceHashes = Expected.C03.sourceHashes := by decide

/-! ### representability of integer constants (typecheck.go `representableConst`) -/

/-- full statement (false today for the signed kinds narrower than 64 bits, see the witness) -/
def representable_full_statement : Prop :=
  ∀ (k : IKind) (v : Int), reprY Expected.C03.reprFacts k v = Spec.reprGo k v

/-- **Unsigned kinds: yaegi's representability test is exactly `0 ≤ v ≤ max`**, for every unsigned kind
    and every integer `v` of any magnitude. -/
theorem representable_unsigned_correct (k : IKind) (hk : k.signed = false) (v : Int) :
    reprY Expected.C03.reprFacts k v = Spec.reprGo k v := by
  rw [Bool.eq_iff_iff, reprY_iff, reprGo_iff]
  cases k <;> first
    | (exfalso; revert hk; decide)
    | (simp only [IKind.minVal, IKind.maxVal, IKind.signed, IKind.bits, Nat.reducePow, Bool.false_eq_true, if_false]
       omega)

/-- **Signed kinds, outside the gap**: for every kind and every `v` that is not in
    `(max, 2^bits) ∪ (−2^bits, min)` (within the int64 range) of a signed kind, yaegi's test agrees with `min ≤ v ≤ max`. (The side
    condition is the decidable predicate `inSignedGap`; for unsigned kinds it is vacuous.) -/
theorem representable_signed_partial (k : IKind) (v : Int) (h : inSignedGap k v = false) :
    reprY Expected.C03.reprFacts k v = Spec.reprGo k v := by
  have h' : ¬ (inSignedGap k v = true) := by simp [h]
  rw [inSignedGap_iff] at h'
  rw [Bool.eq_iff_iff, reprY_iff, reprGo_iff]
  cases k <;>
    simp only [IKind.minVal, IKind.maxVal, IKind.signed, IKind.bits, Nat.reducePow, Bool.false_eq_true, if_false,
      if_true, true_and, false_and, not_false_eq_true] at h' ⊢ <;> omega

/-- **Exactly what goes wrong inside the gap** (F03): every value of the gap is accepted by yaegi and
    rejected by Go — so `inSignedGap` is the precise divergence class, not an over-approximation. -/
theorem representable_signed_gap (k : IKind) (v : Int) (h : inSignedGap k v = true) :
    reprY Expected.C03.reprFacts k v = true ∧ Spec.reprGo k v = false := by
  rw [inSignedGap_iff] at h
  rw [reprY_iff, ← Bool.not_eq_true, reprGo_iff]
  cases k <;>
    simp only [IKind.minVal, IKind.maxVal, IKind.signed, IKind.bits, Nat.reducePow, Bool.false_eq_true, if_false,
      if_true, true_and, false_and] at h ⊢ <;> omega

/-- the 64-bit signed kinds have an empty gap: the `Int64Val` guard makes the test exact -/
theorem representable_word64_correct (k : IKind) (hk : k = .int ∨ k = .int64) (v : Int) :
    inSignedGap k v = false ∧ reprY Expected.C03.reprFacts k v = Spec.reprGo k v := by
  have hg : inSignedGap k v = false := by
    rw [← Bool.not_eq_true, inSignedGap_iff]
    rcases hk with rfl | rfl <;>
      simp only [IKind.minVal, IKind.maxVal, IKind.signed, IKind.bits, Nat.reducePow, if_true] <;> omega
  exact ⟨hg, representable_signed_partial k v hg⟩

/-- F03: `var x int8 = 200` — accepted by yaegi, rejected by Go; likewise `const y int16 = 40000` and the
    negative side `int8(-200)` -/
theorem representable_signed_witness :
    reprY Expected.C03.reprFacts .int8 200 = true ∧ Spec.reprGo .int8 200 = false ∧
    reprY Expected.C03.reprFacts .int16 40000 = true ∧ Spec.reprGo .int16 40000 = false ∧
    reprY Expected.C03.reprFacts .int8 (-200) = true ∧ Spec.reprGo .int8 (-200) = false := by decide

theorem representable_full_statement_false : ¬ representable_full_statement := by
  intro h
  have := h .int8 200
  revert this; decide

/-- non-vacuity of the partial theorem: boundary values of every signed width are outside the gap and
    decided both ways -/
example : inSignedGap .int8 127 = false ∧ inSignedGap .int8 (-128) = false ∧ inSignedGap .int8 256 = false ∧
          inSignedGap .int32 (-2147483649) = true ∧ inSignedGap .int16 (2 ^ 200) = false ∧
          reprY Expected.C03.reprFacts .int8 (-128) = true ∧ reprY Expected.C03.reprFacts .int8 256 = false := by decide

/-- **The repair candidate for F03 is exact for every kind and every integer**: comparing the guarded value
    with `-(1<<(s-1))` and `1<<(s-1)-1` (`s` from the same `bitlen` table) for signed kinds, keeping the
    `BitLen` test for unsigned kinds. -/
theorem representable_fixed_correct (k : IKind) (v : Int) :
    reprFixed Expected.C03.reprFacts k v = Spec.reprGo k v := by
  rw [Bool.eq_iff_iff, reprFixed_iff, reprGo_iff]
  cases k <;>
    simp only [IKind.minVal, IKind.maxVal, IKind.signed, IKind.bits, Nat.reducePow, Bool.false_eq_true, if_false,
      if_true] <;> omega

/-- the same statements about the facts regenerated from the current source -/
theorem representable_generated (k : IKind) (v : Int) (h : inSignedGap k v = false) :
    reprY Generated.C03.reprFacts k v = Spec.reprGo k v := by
  rw [reprfacts_tie]; exact representable_signed_partial k v h

/-! ### evaluation of constant expressions: one walk of the interpreter (`var c = e`, operands, first walk) -/

/-- full statement for one walk (false today, see the witnesses below): the interpreter's folding of an
    expression tree gives the value and type of the specification, and rejects what the specification rejects -/
def evalY_full_statement : Prop :=
  ∀ (i : Nat) (e : CExpr), unmodelled e = none →
    Class.compare (evalY Expected.C03.facts { iota := i } none e) (Spec.evalGo i e) = .same

/-- **Integer constant expressions** — for every expression tree over integer and rune literals of any magnitude,
    `iota`, unary `+ - ^`, the operators `+ - * / % & | ^ &^ << >>`, conversions to the eleven integer types and
    parentheses, and every value of `iota`: whenever the Go specification accepts the expression, one walk of the
    interpreter folds it to the same value with the same type (an untyped kind or a basic type), the value being
    held as a go/constant value while untyped and as a reflect value of the kind once typed. The only side
    condition besides acceptance by Go is the decidable `noRuneQuo` (no quotient of an untyped rune constant by an
    untyped integer constant, which the interpreter types `int`). Proved by structural induction
    (Proofs/C03Main.lean). The converse — what Go rejects is rejected — fails (witnesses below). -/
theorem evalY_eq_spec_partial (i : Nat) (e : CExpr) (hshape : intShape e = true) (hq : noRuneQuo i e = true)
    (gv : Spec.GV) (hgo : Spec.evalGo i e = .ok gv) :
    ∃ n, evalY Expected.C03.facts { iota := i } none e = .ok n ∧ n.ty = gv.ty ∧ Class.absRV n.rv = gv.v := by
  obtain ⟨n, hn, hinv⟩ := evalY_int_correct { iota := i } rfl rfl e hshape hq gv hgo
  refine ⟨n, hn, hinv.1, ?_⟩
  rcases hinv.shape with ⟨_, _, _, rfl, _, hrv⟩ | ⟨_, _, rfl, _, hrv, _⟩ <;> simp [Class.absRV, hrv]

/-- the same about the facts regenerated from the current source -/
theorem evalY_eq_spec_generated (i : Nat) (e : CExpr) (hshape : intShape e = true) (hq : noRuneQuo i e = true)
    (gv : Spec.GV) (hgo : Spec.evalGo i e = .ok gv) :
    ∃ n, evalY { repr := Generated.C03.reprFacts, eval := Generated.C03.evalFacts } { iota := i } none e = .ok n ∧
      n.ty = gv.ty ∧ Class.absRV n.rv = gv.v := by
  rw [reprfacts_tie, evalfacts_tie]; exact evalY_eq_spec_partial i e hshape hq gv hgo

/-- non-vacuity: a depth-5 tree with a 2^200 literal, typed and untyped operands, a shift, a conversion and `iota`
    is in the domain; it evaluates to `-35` of type int8 -/
def exTree : CExpr :=
  .bin .sub (.conv (.i .int8) (.bin .shr (.bin .shl (.int 1) (.int 200)) (.int 198)))
    (.bin .mul (.par (.bin .add (.iota) (.rune 10))) (.un .neg (.un .bitNot (.int 2))))
example : intShape exTree = true ∧ noRuneQuo 3 exTree = true ∧
    Spec.evalGo 3 exTree = .ok ⟨.int (-35), .t (.i .int8)⟩ ∧
    (evalY Expected.C03.facts { iota := 3 } none exTree).bind (fun n => .ok (n.rv, n.ty)) =
      .ok (.r (.i .int8) (.int (-35)), .t (.i .int8)) := by decide

/-- **`var c = e` at package level** (integer fragment without character literals): the declared variable gets
    the value and the default type Go gives it -/
theorem var_decl_correct (e : CExpr) (hshape : intShape e = true) (hq : noRuneQuo 0 e = true) (hr : noRune e = true)
    (v : CV) (t : BT) (hgo : Spec.declGo 0 none e = .ok (v, t)) :
    varDeclY Expected.C03.facts none e = .ok (v, t) := by
  simp only [Spec.declGo] at hgo
  obtain ⟨gv, hgv, hasg⟩ := bind_eq_ok hgo
  obtain ⟨n, hn, hinv⟩ := evalY_int_correct { iota := 0 } rfl rfl e hshape hq gv hgv
  have ht : t = Spec.defaultGo gv.ty := by
    obtain ⟨k, hk⟩ := defaultGo_int gv n hinv
    simp only [Spec.assignGo] at hasg
    split at hasg
    · split at hasg
      · injection hasg with h; injection h with _ h2; exact h2.symm
      · cases hasg
    · split at hasg
      · split at hasg
        · injection hasg with h; injection h with _ h2; exact h2.symm
        · cases hasg
      · cases hasg
  subst ht
  simp only [varDeclY, unmodelled, unmodelledU_int false e hshape, gtaNodeType_noRune e hr]
  show (evalY F0 { iota := 0 } none e).bind _ = _
  rw [hn]
  simp only [bind_ok, defaultTypeY_int n gv hinv]
  exact assign_materialise n gv hinv _ v hasg (defaultGo_int gv n hinv)

/-- **default types**: for a node holding an integer constant the interpreter's `defaultType` is Go's
    (int for untyped int, int32 for untyped rune, the type itself when typed) -/
theorem default_type_correct (n : NS) (gv : Spec.GV) (h : Inv n gv) : defaultTypeY n = Spec.defaultGo gv.ty :=
  defaultTypeY_int n gv h

/-! ### const blocks: iota and implicit repetition -/

/-- **iota sequencing and implicit repetition** — for every block length and every pattern of explicit and
    implicit specs: if each resolved spec, evaluated on its own with `iota` = its index, is accepted by the
    interpreter model and yields Go's value (`SpecOk`, the property of single declarations), then the walk of the
    whole block — running `sc.iota` counter, duplication of the previous spec's type and expression — produces
    exactly the list of values the specification assigns to the block. -/
theorem iota_block_correct (F : Facts) (specs : List Spec)
    (h : ∀ j r, (Spec.resolveGo none specs)[j]? = some r → ∃ t e, r = some (t, e) ∧ SpecOk F j t e) :
    ∃ vs, blockY F Expected.C03.declFacts specs = .ok vs ∧ Spec.blockGo specs = vs.map Res.ok := by
  obtain ⟨vs, hgood, hgo⟩ := walk_good F specs 0 true none (by simpa using h)
  exact ⟨vs, combine_good _ vs hgood, hgo⟩

/-- the same with the declaration facts regenerated from the current source -/
theorem iota_block_generated (F : Facts) (specs : List Spec)
    (h : ∀ j r, (Spec.resolveGo none specs)[j]? = some r → ∃ t e, r = some (t, e) ∧ SpecOk F j t e) :
    ∃ vs, blockY F Generated.C03.declFacts specs = .ok vs ∧ Spec.blockGo specs = vs.map Res.ok := by
  rw [declfacts_tie]; exact iota_block_correct F specs h

/-- **`const c = e` at package level, untyped integer expressions** (integer and rune literals, iota, unary and
    binary integer operators including shifts, parentheses; no conversions): the three walks of the declaration
    (gta on the block, gta on the spec, cfg — the later ones with the type of the first pushed down every
    operator) and the use of the constant yield exactly the value and default type of the specification, for every
    `iota`, whether or not `sc.types` is still empty. (Proofs/C03Const.lean, structural induction with the pushed
    type generalised.) -/
theorem const_decl_correct (i : Nat) (e : CExpr) (hs : ufrag e = true) (hq : noRuneQuo i e = true)
    (v : CV × BT) (hgo : Spec.declGo i none e = .ok v) : SpecOk Expected.C03.facts i none e := by
  intro first
  obtain ⟨n, m, h1, h2, h3⟩ := const_decl_stages i e hs hq v hgo first
  exact ⟨n, m, v, h1, h2, h3, hgo⟩

/-- **Blocks of untyped integer constants, end to end**: for every block length and every pattern of implicit
    repetition, if each resolved spec is an untyped-integer expression without declared type that Go accepts with
    `iota` = its index, the interpreter model gives the block exactly the values and default types of the
    specification. -/
theorem block_untyped_correct (specs : List Spec)
    (h : ∀ j r, (Spec.resolveGo none specs)[j]? = some r →
      ∃ e v, r = some (none, e) ∧ ufrag e = true ∧ noRuneQuo j e = true ∧ Spec.declGo j none e = .ok v) :
    ∃ vs, blockY Expected.C03.facts Expected.C03.declFacts specs = .ok vs ∧ Spec.blockGo specs = vs.map Res.ok := by
  apply iota_block_correct
  intro j r hr
  obtain ⟨e, v, hre, hs, hq, hgo⟩ := h j r hr
  exact ⟨none, e, hre, const_decl_correct j e hs hq v hgo⟩

/-- non-vacuity of the hypothesis of `block_untyped_correct`: `const ( a = 1 << iota; b; c )` -/
example : ∃ vs, blockY Expected.C03.facts Expected.C03.declFacts
      [.explicit none (.bin .shl (.int 1) .iota), .implicit, .implicit] = .ok vs ∧
    Spec.blockGo [.explicit none (.bin .shl (.int 1) .iota), .implicit, .implicit] = vs.map Res.ok := by
  apply block_untyped_correct
  intro j r hr
  match j, hr with
  | 0, hr =>
    simp [Spec.resolveGo] at hr; subst hr
    exact ⟨_, (.int 1, .i .int), rfl, by decide, by decide, by decide⟩
  | 1, hr =>
    simp [Spec.resolveGo] at hr; subst hr
    exact ⟨_, (.int 2, .i .int), rfl, by decide, by decide, by decide⟩
  | 2, hr =>
    simp [Spec.resolveGo] at hr; subst hr
    exact ⟨_, (.int 4, .i .int), rfl, by decide, by decide, by decide⟩
  | n + 3, hr => simp [Spec.resolveGo] at hr

/-- non-vacuity: `const ( a = iota; b; c uint8 = 1 << iota; d; e = iota * 10 )` -/
def exBlock : List Spec :=
  [.explicit none .iota, .implicit, .explicit (some (.i .uint8)) (.bin .shl (.int 1) .iota), .implicit,
   .explicit none (.bin .mul .iota (.int 10))]
example : blockY Expected.C03.facts Expected.C03.declFacts exBlock =
      .ok [(.int 0, .i .int), (.int 1, .i .int), (.int 4, .i .uint8), (.int 8, .i .uint8), (.int 40, .i .int)] ∧
    Spec.blockGo exBlock =
      [.ok (.int 0, .i .int), .ok (.int 1, .i .int), .ok (.int 4, .i .uint8), .ok (.int 8, .i .uint8), .ok (.int 40, .i .int)] := by
  decide +kernel

/-! ### witnesses: what the side conditions exclude are real differences (each is a listed finding) -/

/-- typed constant arithmetic wraps instead of being rejected: `int8(100) + int8(100)` is −56 -/
theorem typed_arith_wraps_witness :
    (evalY Expected.C03.facts { iota := 0 } none (.bin .add (.conv (.i .int8) (.int 100)) (.conv (.i .int8) (.int 100)))).bind
        (fun n => .ok n.rv) = .ok (.r (.i .int8) (.int (-56))) ∧
    Spec.evalGo 0 (.bin .add (.conv (.i .int8) (.int 100)) (.conv (.i .int8) (.int 100))) = .reject := by decide

/-- the signed gap inside an expression: `int8(200)` is −56 -/
theorem conv_signed_gap_witness :
    (evalY Expected.C03.facts { iota := 0 } none (.conv (.i .int8) (.int 200))).bind (fun n => .ok n.rv) =
      .ok (.r (.i .int8) (.int (-56))) ∧ Spec.evalGo 0 (.conv (.i .int8) (.int 200)) = .reject := by decide

/-- a typed constant division by zero is a Go run-time panic inside the compiler: `int(1) / int(0)` -/
theorem typed_div_zero_witness :
    evalY Expected.C03.facts { iota := 0 } none (.bin .quo (.conv (.i .int) (.int 1)) (.conv (.i .int) (.int 0))) = .crash ∧
    Spec.evalGo 0 (.bin .quo (.conv (.i .int) (.int 1)) (.conv (.i .int) (.int 0))) = .reject := by decide

/-- `'a' / 2` has type untyped int for the interpreter, untyped rune for Go -/
theorem rune_quo_type_witness :
    (evalY Expected.C03.facts { iota := 0 } none (.bin .quo (.rune 97) (.int 2))).bind (fun n => .ok (n.rv, n.ty)) =
      .ok (.c (.int 48), .u .int) ∧
    Spec.evalGo 0 (.bin .quo (.rune 97) (.int 2)) = .ok ⟨.int 48, .u .rune⟩ := by decide

/-- a quotient skips the operand checks: `int8(7) / int16(2)` is accepted -/
theorem quo_unchecked_witness :
    (evalY Expected.C03.facts { iota := 0 } none (.bin .quo (.conv (.i .int8) (.int 7)) (.conv (.i .int16) (.int 2)))).bind
        (fun n => .ok n.rv) = .ok (.r (.i .int8) (.int 3)) ∧
    Spec.evalGo 0 (.bin .quo (.conv (.i .int8) (.int 7)) (.conv (.i .int16) (.int 2))) = .reject := by decide

set_option exponentiation.threshold 1024 in
set_option maxRecDepth 8000 in
/-- no limit on untyped integer constants: `1 << 600 >> 599` is accepted (the toolchain: constant overflow) -/
theorem untyped_limit_witness :
    (evalY Expected.C03.facts { iota := 0 } none (.bin .shr (.bin .shl (.int 1) (.int 600)) (.int 599))).bind
        (fun n => .ok n.rv) = .ok (.c (.int 2)) ∧
    Spec.evalGo 0 (.bin .shr (.bin .shl (.int 1) (.int 600)) (.int 599)) = .reject := by decide +kernel

theorem evalY_full_statement_false : ¬ evalY_full_statement := by
  intro h
  have := h 0 (.conv (.i .int8) (.int 200)) rfl
  revert this; decide

/-- a typed declaration whose initialiser is an operator expression is not checked: `var c uint8 = 100 - 101` is 255 -/
theorem typed_decl_unchecked_witness :
    varDeclY Expected.C03.facts (some (.i .uint8)) (.bin .sub (.int 100) (.int 101)) = .ok (.int 255, .i .uint8) ∧
    Spec.declGo 0 (some (.i .uint8)) (.bin .sub (.int 100) (.int 101)) = .reject := by decide

/-- the second walk of a constant declaration re-evaluates the integer quotient as a real quotient:
    `const c = 7/2 + 0.5` is 4 (Go: 3.5) -/
theorem const_second_walk_witness :
    constDeclY Expected.C03.facts none (.bin .add (.bin .quo (.int 7) (.int 2)) (.flt ⟨1, 2⟩)) = .ok [(.flt ⟨4, 1⟩, .f64)] ∧
    Spec.declGo 0 none (.bin .add (.bin .quo (.int 7) (.int 2)) (.flt ⟨1, 2⟩)) = .ok (.flt ⟨7, 2⟩, .f64) := by decide

/-- `const c = float64(0.5 + 0.25)` is 0: in the second walk the operand of the conversion is a go/constant value
    with a typed `typ`, and the conversion case takes `Int64Val(ToInt(…))` -/
theorem const_conv_float_zero_witness :
    constDeclY Expected.C03.facts none (.conv .f64 (.bin .add (.flt ⟨1, 2⟩) (.flt ⟨1, 4⟩))) = .ok [(.flt ⟨0, 1⟩, .f64)] ∧
    Spec.declGo 0 none (.conv .f64 (.bin .add (.flt ⟨1, 2⟩) (.flt ⟨1, 4⟩))) = .ok (.flt ⟨3, 4⟩, .f64) := by decide

/-- `const c int = 3 * (1)` — `fixUntyped` indexes the empty `sc.types`: a Go panic escapes `Eval` -/
theorem const_paren_crash_witness :
    constDeclY Expected.C03.facts (some (.i .int)) (.bin .mul (.int 3) (.par (.int 1))) = .crash ∧
    Spec.declGo 0 (some (.i .int)) (.bin .mul (.int 3) (.par (.int 1))) = .ok (.int 3, .i .int) := by decide

/-- `var c = 'a'` at package level has type int (Go: int32): gta's `nodeType` turns the literal into an Int constant -/
theorem global_var_rune_witness :
    varDeclY Expected.C03.facts none (.rune 97) = .ok (.int 97, .i .int) ∧
    Spec.declGo 0 none (.rune 97) = .ok (.int 97, .i .int32) := by decide

end YaegiVerif.Props.C03
