import YaegiVerif.Model.Const
import YaegiVerif.Model.ConstEval
import YaegiVerif.Model.ConstDecl
import YaegiVerif.Spec.GoConst
import YaegiVerif.Expected.C03
import YaegiVerif.Generated.C03
import YaegiVerif.Proofs.C03Repr
import YaegiVerif.Proofs.C03Decl
import YaegiVerif.Proofs.C03Block
import YaegiVerif.Proofs.C03Const
import YaegiVerif.Proofs.C03Exact
import YaegiVerif.Model.ConstClass
/-
  C03 — property theorems: constant expressions follow Go's exact constant semantics.
-/
namespace YaegiVerif.Props.C03
open YaegiVerif YaegiVerif.Const YaegiVerif.Proofs.C03

/-! ### ties -/

/-- tie: the `bitlen` table, the arms of the inner switch of `representableConst` (guard and, for the signed kinds,
    the range test with its two comparison operators) and its final comparison, as extracted from
    /repo/interp/typecheck.go, are the ones the proofs use -/
theorem reprfacts_tie : Generated.C03.reprFacts = Expected.C03.reprFacts := by decide

/-- tie: the `constOp` map of cfg.go, and for each folding function of op.go the go/constant entry point and token it
    uses, whether it wraps its operands in `constant.ToInt`, the Go operator of each typed arm, and the
    integer-quotient switch of `quoConst` -/
theorem evalfacts_tie : Generated.C03.evalFacts = Expected.C03.evalFacts := by decide

/-- tie: the iota bookkeeping of gta.go / cfg.go and the implicit-repetition block of ast.go -/
theorem declfacts_tie : Generated.C03.declFacts = Expected.C03.declFacts := by decide

/-- tie: the functions transcribed by hand in Model/Const*.lean are textually (modulo comments and layout) the ones
    the model was written from; if this breaks the model must be re-validated (the check then relies on the
    correspondence run and the search for a failing input) -/
theorem source_tie : Generated.C03.sourceHashes = Expected.C03.sourceHashes := by decide

/-! ### representability of integer constants (typecheck.go `representableConst`) -/

/-- **Unsigned kinds: yaegi's representability test is exactly `0 ≤ v ≤ max`**, for every unsigned kind
    and every integer `v` of any magnitude. -/
theorem representable_unsigned_correct (k : IKind) (hk : k.signed = false) (v : Int) :
    reprY Expected.C03.reprFacts k v = Spec.reprGo k v := by
  rw [Bool.eq_iff_iff, reprY_iff, reprGo_iff]
  cases k <;> first
    | (exfalso; revert hk; decide)
    | (simp only [IKind.minVal, IKind.maxVal, IKind.signed, IKind.bits, Nat.reducePow, Bool.false_eq_true, if_false]
       omega)

/-- **Signed kinds: yaegi's representability test is exactly `min ≤ v ≤ max`**, for every signed kind (int, int8,
    int16, int32, int64) and every integer `v` of any magnitude — the `Int64Val` guard followed by the range test
    `-1<<(s-1) <= v && v <= 1<<(s-1)-1` evaluated with Go's int64 wrap-around, `s` read from the `bitlen` table.
    (Since the repair of F03; before it the statement failed inside `inSignedGap`, see
    `representable_bitlen_form_gap`.) -/
theorem representable_signed_correct (k : IKind) (hk : k.signed = true) (v : Int) :
    reprY Expected.C03.reprFacts k v = Spec.reprGo k v := by
  rw [Bool.eq_iff_iff, reprY_iff, reprGo_iff]
  cases k <;> first
    | (exfalso; revert hk; decide)
    | (simp only [IKind.minVal, IKind.maxVal, IKind.signed, IKind.bits, Nat.reducePow, if_true]
       omega)

/-- **Representability of integer constants, full strength**: for every integer kind and every integer `v`,
    `representableConst` answers `min(T) ≤ v ≤ max(T)` — the Go specification's "representable by a value of type T". -/
theorem representable_correct (k : IKind) (v : Int) :
    reprY Expected.C03.reprFacts k v = Spec.reprGo k v := by
  cases hs : k.signed
  · exact representable_unsigned_correct k hs v
  · exact representable_signed_correct k hs v

/-- the same statement about the facts regenerated from the current source -/
theorem representable_generated (k : IKind) (v : Int) :
    reprY Generated.C03.reprFacts k v = Spec.reprGo k v := by
  rw [reprfacts_tie]; exact representable_correct k v

/-- non-vacuity / boundary behaviour: both ends of every signed width, the 64-bit wrap-around of the bound
    computation, values far outside the int64 range, and the former F03 inputs -/
example : reprY Expected.C03.reprFacts .int8 127 = true ∧ reprY Expected.C03.reprFacts .int8 128 = false ∧
          reprY Expected.C03.reprFacts .int8 (-128) = true ∧ reprY Expected.C03.reprFacts .int8 (-129) = false ∧
          reprY Expected.C03.reprFacts .int8 200 = false ∧ reprY Expected.C03.reprFacts .int16 40000 = false ∧
          reprY Expected.C03.reprFacts .int8 (-200) = false ∧
          reprY Expected.C03.reprFacts .int64 (2 ^ 63 - 1) = true ∧ reprY Expected.C03.reprFacts .int64 (2 ^ 63) = false ∧
          reprY Expected.C03.reprFacts .int (-(2 ^ 63)) = true ∧ reprY Expected.C03.reprFacts .int (-(2 ^ 63) - 1) = false ∧
          reprY Expected.C03.reprFacts .int32 (-2147483649) = false ∧ reprY Expected.C03.reprFacts .int16 (2 ^ 200) = false := by
  decide

/-- **What the repair removed** (F03, fixed): with the signed arm as it was — `Int64Val` guard, then the final
    `BitLen` test, which ignores the sign — every value of `inSignedGap` (`max < v < 2^bits` or `-2^bits < v < min`)
    was accepted although Go rejects it, and outside of it the old test was right. This is what the model computes
    for a source in which the repair is reverted (the extractor then emits `reprFactsBefore`). -/
theorem representable_bitlen_form_gap (k : IKind) (v : Int) :
    (inSignedGap k v = true → reprY Expected.C03.reprFactsBefore k v = true ∧ Spec.reprGo k v = false) ∧
    (inSignedGap k v = false → reprY Expected.C03.reprFactsBefore k v = Spec.reprGo k v) := by
  constructor
  · intro h
    rw [inSignedGap_iff] at h
    rw [reprYBefore_iff, ← Bool.not_eq_true, reprGo_iff]
    cases k <;>
      simp only [IKind.minVal, IKind.maxVal, IKind.signed, IKind.bits, Nat.reducePow, Bool.false_eq_true, if_false,
        if_true, true_and, false_and] at h ⊢ <;> omega
  · intro h
    have h' : ¬ (inSignedGap k v = true) := by simp [h]
    rw [inSignedGap_iff] at h'
    rw [Bool.eq_iff_iff, reprYBefore_iff, reprGo_iff]
    cases k <;>
      simp only [IKind.minVal, IKind.maxVal, IKind.signed, IKind.bits, Nat.reducePow, Bool.false_eq_true, if_false,
        if_true, true_and, false_and, not_false_eq_true] at h' ⊢ <;> omega

/-- the former F03 inputs under the reverted form: `var x int8 = 200`, `const y int16 = 40000`, `int8(-200)` -/
example : reprY Expected.C03.reprFactsBefore .int8 200 = true ∧ reprY Expected.C03.reprFactsBefore .int16 40000 = true ∧
          reprY Expected.C03.reprFactsBefore .int8 (-200) = true ∧ inSignedGap .int8 200 = true := by decide

/-! ### evaluation of constant expressions: one walk of the interpreter (`var c = e`, operands, first walk) -/

/-- full statement for one walk (false today, see the witnesses below): the interpreter's folding of an
    expression tree gives the value and type of the specification, and rejects what the specification rejects -/
def evalY_full_statement : Prop :=
  ∀ (i : Nat) (e : CExpr), unmodelled e = none →
    Class.compare (evalY Expected.C03.facts { iota := i } none e) (Spec.evalGo i e) = .same

/-- **Integer constant expressions** — for every expression tree over integer and rune literals of any magnitude,
    `iota`, unary `+ - ^`, the operators `+ - * / % & | ^ &^ << >>`, conversions to the eleven integer types and
    parentheses, every value of `iota`, **in every first walk** (`env.pass2 = false`: inside or outside a constant
    declaration, whether or not the package scope already has variables — since 08f21a9 `fixUntyped` no longer
    indexes `sc.types` for a parenthesised constant, so the former restriction to a non-empty frame is gone): whenever
    the Go specification accepts the expression, the walk folds it to the same value with the same type (an untyped
    kind or a basic type), the value being held as a go/constant value while untyped and as a reflect value of the
    kind once typed. The only side condition besides acceptance by Go is the decidable `noRuneQuo` (no quotient of an
    untyped rune constant by an untyped integer constant, which the interpreter types `int`, F03-6). Proved by
    structural induction (Proofs/C03Main.lean). The converse — what Go rejects is rejected — fails in general
    (witnesses below; it holds where `representableConst` is the only check, see `conv_untyped_exact`). -/
theorem evalY_eq_spec_env (env : Env) (hp2 : env.pass2 = false) (e : CExpr) (hshape : intShape e = true)
    (hq : noRuneQuo env.iota e = true) (gv : Spec.GV) (hgo : Spec.evalGo env.iota e = .ok gv) :
    ∃ n, evalY Expected.C03.facts env none e = .ok n ∧ n.ty = gv.ty ∧ Class.absRV n.rv = gv.v := by
  obtain ⟨n, hn, hinv⟩ := evalY_int_correct env hp2 e hshape hq gv hgo
  refine ⟨n, hn, hinv.1, ?_⟩
  rcases hinv.shape with ⟨_, _, _, rfl, _, hrv⟩ | ⟨_, _, rfl, _, hrv, _⟩ <;> simp [Class.absRV, hrv]

/-- the instance used by the declaration theorems and by `evalY_full_statement`: `var c = e`, operands, `iota = i` -/
theorem evalY_eq_spec_partial (i : Nat) (e : CExpr) (hshape : intShape e = true) (hq : noRuneQuo i e = true)
    (gv : Spec.GV) (hgo : Spec.evalGo i e = .ok gv) :
    ∃ n, evalY Expected.C03.facts { iota := i } none e = .ok n ∧ n.ty = gv.ty ∧ Class.absRV n.rv = gv.v :=
  evalY_eq_spec_env { iota := i } rfl e hshape hq gv hgo

/-- non-vacuity of the generalisation: `3 * (1) + int8(2)` in the first walk of the first constant declaration of a
    package (empty `sc.types`) — a Go panic before 08f21a9 -/
example : (evalY Expected.C03.facts { iota := 0, inConst := true, noFrame := true } none
      (.bin .add (.bin .mul (.int 3) (.par (.int 1))) (.conv (.i .int8) (.int 2)))).bind (fun n => .ok (n.rv, n.ty)) =
    .ok (.r (.i .int8) (.int 5), .t (.i .int8)) := by decide

/-- **The quotient of two integer constants is the integer quotient whatever the context** (repair of F48): for every
    type `nty` the pre-order pass may have copied onto the node — untyped integer, untyped float (the second walk of
    `const c = 7/2 + 0.5`), the declared type of `var f float64 = 3/2` or `var v int = (7/2)*2` — and all integers
    `p`, `q ≠ 0`, `quoConst` folds `p / q` to the truncated integer quotient, as the specification requires of two
    untyped integer constants; and likewise every other arithmetic operator on two Int-kinded constants. -/
theorem quo_const_int_any_type (a : Act) (ha : isArith a = true) (nty : Ty) (p q : Int)
    (hz : ¬ (needsNZ a = true ∧ q = 0)) :
    foldBinY Expected.C03.facts a nty (.c (.int p)) (.c (.int q)) = .ok (.c (.int (iop a p q))) :=
  foldBinY_const a ha nty p q hz

/-- **What the repair of F48 removed**: with the switch of `quoConst` on the node type (the code before), the same
    fold under a pushed-down floating-point or typed integer type was the exact rational quotient — `7/2` was 7/2, then
    `(7/2)*2` = 7 truncated through the declared type, `var f float64 = 3/2` was 1.5. This is what the model computes
    for a source in which the repair is reverted (the extractor then emits `rule := .nodeType`). -/
theorem quo_before_F48_witness :
    foldBinY { Expected.C03.facts with eval := Expected.C03.evalFactsBeforeF48 } .quo (.t .f64) (.c (.int 3)) (.c (.int 2)) =
      .ok (.c (.flt ⟨3, 2⟩)) ∧
    foldBinY { Expected.C03.facts with eval := Expected.C03.evalFactsBeforeF48 } .quo (.t (.i .int)) (.c (.int 7)) (.c (.int 2)) =
      .ok (.c (.flt ⟨7, 2⟩)) ∧
    foldBinY { Expected.C03.facts with eval := Expected.C03.evalFactsBeforeF48 } .quo (.u .int) (.c (.int 7)) (.c (.int 2)) =
      .ok (.c (.int 3)) ∧
    foldBinY Expected.C03.facts .quo (.t .f64) (.c (.int 3)) (.c (.int 2)) = .ok (.c (.int 1)) := by decide

/-- the regression programs of the repair, model = specification: `var f float64 = 3/2` is 1, `var v int = (7/2)*2`
    is 6, `var c = (2/3)-(16|17)` is −17, `const c = 7/2 + 0.5` is 3.5 (all three walks), `const c = int8(1) + 7/2`
    is 4, and a floating-point operand still gives the real quotient (`7/2.0` is 3.5) -/
example :
    varDeclY Expected.C03.facts (some .f64) (.bin .quo (.int 3) (.int 2)) = .ok (.flt ⟨1, 1⟩, .f64) ∧
    Spec.declGo 0 (some .f64) (.bin .quo (.int 3) (.int 2)) = .ok (.flt ⟨1, 1⟩, .f64) ∧
    varDeclY Expected.C03.facts (some (.i .int)) (.bin .mul (.par (.bin .quo (.int 7) (.int 2))) (.int 2)) = .ok (.int 6, .i .int) ∧
    Spec.declGo 0 (some (.i .int)) (.bin .mul (.par (.bin .quo (.int 7) (.int 2))) (.int 2)) = .ok (.int 6, .i .int) ∧
    varDeclY Expected.C03.facts none (.bin .sub (.par (.bin .quo (.int 2) (.int 3))) (.par (.bin .or (.int 16) (.int 17)))) =
      .ok (.int (-17), .i .int) ∧
    constDeclY Expected.C03.facts none (.bin .add (.bin .quo (.int 7) (.int 2)) (.flt ⟨1, 2⟩)) = .ok [(.flt ⟨7, 2⟩, .f64)] ∧
    Spec.declGo 0 none (.bin .add (.bin .quo (.int 7) (.int 2)) (.flt ⟨1, 2⟩)) = .ok (.flt ⟨7, 2⟩, .f64) ∧
    constDeclY Expected.C03.facts none (.bin .add (.conv (.i .int8) (.int 1)) (.bin .quo (.int 7) (.int 2))) = .ok [(.int 4, .i .int8)] ∧
    constDeclY Expected.C03.facts none (.bin .quo (.int 7) (.flt ⟨2, 1⟩)) = .ok [(.flt ⟨7, 2⟩, .f64)] := by decide

/-- the same about the facts regenerated from the current source -/
theorem evalY_eq_spec_generated (i : Nat) (e : CExpr) (hshape : intShape e = true) (hq : noRuneQuo i e = true)
    (gv : Spec.GV) (hgo : Spec.evalGo i e = .ok gv) :
    ∃ n, evalY { repr := Generated.C03.reprFacts, eval := Generated.C03.evalFacts } { iota := i } none e = .ok n ∧
      n.ty = gv.ty ∧ Class.absRV n.rv = gv.v := by
  rw [reprfacts_tie, evalfacts_tie]; exact evalY_eq_spec_partial i e hshape hq gv hgo

/-- non-vacuity: a depth-5 tree with a 2^200 literal, typed and untyped operands, a shift, a conversion and `iota`
    is in the domain; it evaluates to `-35` of type int8 -/
def exTree : CExpr :=
  .bin .sub (.conv (.i .int8) (.bin .shr (.bin .shl (.int 1) (.int 200)) (.int 198)))
    (.bin .mul (.par (.bin .add (.iota) (.rune 10))) (.un .neg (.un .bitNot (.int 2))))
example : intShape exTree = true ∧ noRuneQuo 3 exTree = true ∧
    Spec.evalGo 3 exTree = .ok ⟨.int (-35), .t (.i .int8)⟩ ∧
    (evalY Expected.C03.facts { iota := 3 } none exTree).bind (fun n => .ok (n.rv, n.ty)) =
      .ok (.r (.i .int8) (.int (-35)), .t (.i .int8)) := by decide

/-- **`var c = e` at package level** (integer fragment without character literals): the declared variable gets
    the value and the default type Go gives it -/
theorem var_decl_correct (e : CExpr) (hshape : intShape e = true) (hq : noRuneQuo 0 e = true) (hr : noRune e = true)
    (v : CV) (t : BT) (hgo : Spec.declGo 0 none e = .ok (v, t)) :
    varDeclY Expected.C03.facts none e = .ok (v, t) := by
  simp only [Spec.declGo] at hgo
  obtain ⟨gv, hgv, hasg⟩ := bind_eq_ok hgo
  obtain ⟨n, hn, hinv⟩ := evalY_int_correct { iota := 0 } rfl e hshape hq gv hgv
  have ht : t = Spec.defaultGo gv.ty := by
    obtain ⟨k, hk⟩ := defaultGo_int gv n hinv
    simp only [Spec.assignGo] at hasg
    split at hasg
    · split at hasg
      · injection hasg with h; injection h with _ h2; exact h2.symm
      · cases hasg
    · split at hasg
      · split at hasg
        · injection hasg with h; injection h with _ h2; exact h2.symm
        · cases hasg
      · cases hasg
  subst ht
  simp only [varDeclY, unmodelled, unmodelledU_int false e hshape, gtaNodeType_noRune e hr]
  show (evalY F0 { iota := 0 } none e).bind _ = _
  rw [hn]
  simp only [bind_ok, defaultTypeY_int n gv hinv]
  exact assign_materialise n gv hinv _ v hasg (defaultGo_int gv n hinv)

/-- **default types**: for a node holding an integer constant the interpreter's `defaultType` is Go's
    (int for untyped int, int32 for untyped rune, the type itself when typed) -/
theorem default_type_correct (n : NS) (gv : Spec.GV) (h : Inv n gv) : defaultTypeY n = Spec.defaultGo gv.ty :=
  defaultTypeY_int n gv h

/-! ### const blocks: iota and implicit repetition -/

/-- **iota sequencing and implicit repetition** — for every block length and every pattern of explicit and
    implicit specs: if each resolved spec, evaluated on its own with `iota` = its index, is accepted by the
    interpreter model and yields Go's value (`SpecOk`, the property of single declarations), then the walk of the
    whole block — running `sc.iota` counter, duplication of the previous spec's type and expression — produces
    exactly the list of values the specification assigns to the block. -/
theorem iota_block_correct (F : Facts) (specs : List Spec)
    (h : ∀ j r, (Spec.resolveGo none specs)[j]? = some r → ∃ t e, r = some (t, e) ∧ SpecOk F j t e) :
    ∃ vs, blockY F Expected.C03.declFacts specs = .ok vs ∧ Spec.blockGo specs = vs.map Res.ok := by
  obtain ⟨vs, hgood, hgo⟩ := walk_good F specs 0 true none (by simpa using h)
  exact ⟨vs, combine_good _ vs hgood, hgo⟩

/-- the same with the declaration facts regenerated from the current source -/
theorem iota_block_generated (F : Facts) (specs : List Spec)
    (h : ∀ j r, (Spec.resolveGo none specs)[j]? = some r → ∃ t e, r = some (t, e) ∧ SpecOk F j t e) :
    ∃ vs, blockY F Generated.C03.declFacts specs = .ok vs ∧ Spec.blockGo specs = vs.map Res.ok := by
  rw [declfacts_tie]; exact iota_block_correct F specs h

/-- **`const c = e` at package level, untyped integer expressions** (integer and rune literals, iota, unary and
    binary integer operators including shifts, parentheses; no conversions): the three walks of the declaration
    (gta on the block, gta on the spec, cfg — the later ones with the type of the first pushed down every
    operator) and the use of the constant yield exactly the value and default type of the specification, for every
    `iota`, whether or not `sc.types` is still empty. (Proofs/C03Const.lean, structural induction with the pushed
    type generalised.) -/
theorem const_decl_correct (i : Nat) (e : CExpr) (hs : ufrag e = true) (hq : noRuneQuo i e = true)
    (v : CV × BT) (hgo : Spec.declGo i none e = .ok v) : SpecOk Expected.C03.facts i none e := by
  intro first
  obtain ⟨n, m, h1, h2, h3⟩ := const_decl_stages i e hs hq v hgo first
  exact ⟨n, m, v, h1, h2, h3, hgo⟩

/-- **Blocks of untyped integer constants, end to end**: for every block length and every pattern of implicit
    repetition, if each resolved spec is an untyped-integer expression without declared type that Go accepts with
    `iota` = its index, the interpreter model gives the block exactly the values and default types of the
    specification. -/
theorem block_untyped_correct (specs : List Spec)
    (h : ∀ j r, (Spec.resolveGo none specs)[j]? = some r →
      ∃ e v, r = some (none, e) ∧ ufrag e = true ∧ noRuneQuo j e = true ∧ Spec.declGo j none e = .ok v) :
    ∃ vs, blockY Expected.C03.facts Expected.C03.declFacts specs = .ok vs ∧ Spec.blockGo specs = vs.map Res.ok := by
  apply iota_block_correct
  intro j r hr
  obtain ⟨e, v, hre, hs, hq, hgo⟩ := h j r hr
  exact ⟨none, e, hre, const_decl_correct j e hs hq v hgo⟩

/-- non-vacuity of the hypothesis of `block_untyped_correct`: `const ( a = 1 << iota; b; c )` -/
example : ∃ vs, blockY Expected.C03.facts Expected.C03.declFacts
      [.explicit none (.bin .shl (.int 1) .iota), .implicit, .implicit] = .ok vs ∧
    Spec.blockGo [.explicit none (.bin .shl (.int 1) .iota), .implicit, .implicit] = vs.map Res.ok := by
  apply block_untyped_correct
  intro j r hr
  match j, hr with
  | 0, hr =>
    simp [Spec.resolveGo] at hr; subst hr
    exact ⟨_, (.int 1, .i .int), rfl, by decide, by decide, by decide⟩
  | 1, hr =>
    simp [Spec.resolveGo] at hr; subst hr
    exact ⟨_, (.int 2, .i .int), rfl, by decide, by decide, by decide⟩
  | 2, hr =>
    simp [Spec.resolveGo] at hr; subst hr
    exact ⟨_, (.int 4, .i .int), rfl, by decide, by decide, by decide⟩
  | n + 3, hr => simp [Spec.resolveGo] at hr

/-- non-vacuity: `const ( a = iota; b; c uint8 = 1 << iota; d; e = iota * 10 )` -/
def exBlock : List Spec :=
  [.explicit none .iota, .implicit, .explicit (some (.i .uint8)) (.bin .shl (.int 1) .iota), .implicit,
   .explicit none (.bin .mul .iota (.int 10))]
example : blockY Expected.C03.facts Expected.C03.declFacts exBlock =
      .ok [(.int 0, .i .int), (.int 1, .i .int), (.int 4, .i .uint8), (.int 8, .i .uint8), (.int 40, .i .int)] ∧
    Spec.blockGo exBlock =
      [.ok (.int 0, .i .int), .ok (.int 1, .i .int), .ok (.int 4, .i .uint8), .ok (.int 8, .i .uint8), .ok (.int 40, .i .int)] := by
  decide +kernel

/-! ### exactness where `representableConst` is the only check (since the repair of F03) -/

/-- **`T(e)` for an untyped integer constant expression, both directions**: for every expression `e` of the integer
    fragment that Go accepts with an untyped type, every integer type `T` and every `iota`, one walk of the
    interpreter over `T(e)` has exactly the outcome of the specification — the converted constant of type `T` when
    the value is representable in `T`, a compile error when it is not (`int8(200)`, `int8(-200)`, `uint8(-1)`,
    `int64(1 << 63)` are rejected). `compare … = .same` is the relation of `evalY_full_statement`. Before the repair
    this failed for the values of `inSignedGap`. (Proofs/C03Exact.lean) -/
theorem conv_untyped_exact (i : Nat) (e : CExpr) (hshape : intShape e = true) (hq : noRuneQuo i e = true)
    (gv : Spec.GV) (hgo : Spec.evalGo i e = .ok gv) (hun : gv.ty.untyped = true) (k : IKind) :
    Class.compare (evalY Expected.C03.facts { iota := i } none (.conv (.i k) e)) (Spec.evalGo i (.conv (.i k) e)) = .same :=
  Proofs.C03.conv_untyped_exact i e hshape hq gv hgo hun k

/-- non-vacuity: `int8(1 << 200 >> 193)` (128) and `int8(-(1 << 7) - 1)` are in the domain and rejected by both
    sides, `int8(-(1 << 7))` is accepted by both with value −128 -/
example :
    intShape (.bin .shr (.bin .shl (.int 1) (.int 200)) (.int 193)) = true ∧
    Spec.evalGo 0 (.bin .shr (.bin .shl (.int 1) (.int 200)) (.int 193)) = .ok ⟨.int 128, .u .int⟩ ∧
    evalY Expected.C03.facts { iota := 0 } none (.conv (.i .int8) (.bin .shr (.bin .shl (.int 1) (.int 200)) (.int 193))) = .reject ∧
    Spec.evalGo 0 (.conv (.i .int8) (.bin .shr (.bin .shl (.int 1) (.int 200)) (.int 193))) = .reject ∧
    evalY Expected.C03.facts { iota := 0 } none (.conv (.i .int8) (.bin .sub (.un .neg (.bin .shl (.int 1) (.int 7))) (.int 1))) = .reject ∧
    (evalY Expected.C03.facts { iota := 0 } none (.conv (.i .int8) (.un .neg (.bin .shl (.int 1) (.int 7))))).bind (fun n => .ok n.rv) =
      .ok (.r (.i .int8) (.int (-128))) := by decide

/-- **`var c T = e` at package level, both directions**, `T` any integer type, `e` an initialiser on which the
    declared type pushed down the tree has no effect (`declShape`: literals, `iota`, unary operators and
    parentheses over them, conversions of any integer-fragment expression) and that Go accepts as an expression:
    the model of the declaration *equals* the specification — Go's value when the constant is representable in `T`
    (or already has type `T`), a compile error otherwise (`var x int8 = 200`, `var x int8 = -129`,
    `var x int16 = int8(1)` are rejected). A binary operator at the top is excluded: it takes the declared type as
    its own and is never checked (F03-2). -/
theorem typed_var_decl_exact (k : IKind) (e : CExpr) (hs : declShape e = true) (hq : noRuneQuo 0 e = true)
    (gv : Spec.GV) (hgo : Spec.evalGo 0 e = .ok gv) :
    varDeclY Expected.C03.facts (some (.i k)) e = Spec.declGo 0 (some (.i k)) e :=
  Proofs.C03.typed_var_decl_exact k e hs hq gv hgo

/-- non-vacuity: the former F03 replay `var c0 int8 = 200` and its neighbours -/
example :
    varDeclY Expected.C03.facts (some (.i .int8)) (.int 200) = .reject ∧ Spec.declGo 0 (some (.i .int8)) (.int 200) = .reject ∧
    varDeclY Expected.C03.facts (some (.i .int8)) (.un .neg (.int 129)) = .reject ∧
    varDeclY Expected.C03.facts (some (.i .int8)) (.un .neg (.par (.int 128))) = .ok (.int (-128), .i .int8) ∧
    varDeclY Expected.C03.facts (some (.i .int16)) (.conv (.i .int16) (.bin .mul (.int 200) (.int 100))) = .ok (.int 20000, .i .int16) ∧
    declShape (.conv (.i .int16) (.bin .mul (.int 200) (.int 100))) = true := by decide

/-- **`const c T = e`, both directions**, `T` any integer type, `e` a literal chain (`litChain`: literals, `iota`,
    unary operators, parentheses), for every `iota` and wherever the spec stands in a block: when Go accepts the
    declaration all three walks and the use yield Go's value (`SpecOk`, so the spec can take part in
    `iota_block_correct`); when Go rejects it (`const y int16 = 40000`) the first walk of the interpreter rejects it. -/
theorem typed_const_decl_exact (i : Nat) (k : IKind) (e : CExpr) (hl : litChain e = true)
    (gv : Spec.GV) (hgo : Spec.evalGo i e = .ok gv) :
    (∀ v, Spec.declGo i (some (.i k)) e = .ok v → SpecOk Expected.C03.facts i (some (.i k)) e) ∧
    (Spec.declGo i (some (.i k)) e = .reject → ∀ first, constGtaY Expected.C03.facts i first (some (.i k)) e = .reject) :=
  Proofs.C03.typed_const_decl_exact i k e hl gv hgo

/-- **Blocks of integer constants with or without declared types, end to end**: every resolved spec is either an
    untyped-integer expression without declared type (as in `block_untyped_correct`) or a literal chain with a declared
    integer type (`const ( a int8 = iota; b; c )`), accepted by Go with `iota` = its index: the interpreter model gives
    the block exactly the values and types of the specification. -/
theorem block_int_correct (specs : List Spec)
    (h : ∀ j r, (Spec.resolveGo none specs)[j]? = some r →
      (∃ e v, r = some (none, e) ∧ ufrag e = true ∧ noRuneQuo j e = true ∧ Spec.declGo j none e = .ok v) ∨
      (∃ k e v, r = some (some (.i k), e) ∧ litChain e = true ∧ Spec.declGo j (some (.i k)) e = .ok v)) :
    ∃ vs, blockY Expected.C03.facts Expected.C03.declFacts specs = .ok vs ∧ Spec.blockGo specs = vs.map Res.ok := by
  apply iota_block_correct
  intro j r hr
  rcases h j r hr with ⟨e, v, hre, hs, hq, hgo⟩ | ⟨k, e, v, hre, hl, hgo⟩
  · exact ⟨none, e, hre, const_decl_correct j e hs hq v hgo⟩
  · refine ⟨some (.i k), e, hre, ?_⟩
    cases hev : Spec.evalGo j e with
    | ok gv => exact (typed_const_decl_exact j k e hl gv hev).1 v hgo
    | reject => simp [Spec.declGo, hev, Res.bind] at hgo
    | crash => simp [Spec.declGo, hev, Res.bind] at hgo
    | unm w => simp [Spec.declGo, hev, Res.bind] at hgo

/-- non-vacuity: `const ( a int8 = -iota; b; c )` is −0, −1, −2 of type int8 on both sides, and the former F03 input
    `const y int16 = 40000` is rejected -/
example :
    blockY Expected.C03.facts Expected.C03.declFacts [.explicit (some (.i .int8)) (.un .neg .iota), .implicit, .implicit] =
      .ok [(.int 0, .i .int8), (.int (-1), .i .int8), (.int (-2), .i .int8)] ∧
    Spec.blockGo [.explicit (some (.i .int8)) (.un .neg .iota), .implicit, .implicit] =
      [.ok (.int 0, .i .int8), .ok (.int (-1), .i .int8), .ok (.int (-2), .i .int8)] ∧
    constDeclY Expected.C03.facts (some (.i .int16)) (.int 40000) = .rejectOrCrash ∧
    Spec.declGo 0 (some (.i .int16)) (.int 40000) = .reject := by decide

/-! ### witnesses: what the side conditions exclude are real differences (each is a listed finding) -/

/-- typed constant arithmetic wraps instead of being rejected: `int8(100) + int8(100)` is −56 -/
theorem typed_arith_wraps_witness :
    (evalY Expected.C03.facts { iota := 0 } none (.bin .add (.conv (.i .int8) (.int 100)) (.conv (.i .int8) (.int 100)))).bind
        (fun n => .ok n.rv) = .ok (.r (.i .int8) (.int (-56))) ∧
    Spec.evalGo 0 (.bin .add (.conv (.i .int8) (.int 100)) (.conv (.i .int8) (.int 100))) = .reject := by decide

/-- the former signed gap inside an expression (F03, fixed): `int8(200)` and `int8(-200)` are rejected, as by Go,
    and the boundary `int8(-128)` is accepted with Go's value -/
example :
    evalY Expected.C03.facts { iota := 0 } none (.conv (.i .int8) (.int 200)) = .reject ∧
    Spec.evalGo 0 (.conv (.i .int8) (.int 200)) = .reject ∧
    evalY Expected.C03.facts { iota := 0 } none (.conv (.i .int8) (.un .neg (.int 200))) = .reject ∧
    Spec.evalGo 0 (.conv (.i .int8) (.un .neg (.int 200))) = .reject ∧
    (evalY Expected.C03.facts { iota := 0 } none (.conv (.i .int8) (.un .neg (.int 128)))).bind (fun n => .ok n.rv) =
      .ok (.r (.i .int8) (.int (-128))) ∧
    Spec.evalGo 0 (.conv (.i .int8) (.un .neg (.int 128))) = .ok ⟨.int (-128), .t (.i .int8)⟩ := by decide

/-- a typed constant division by zero is a Go run-time panic inside the compiler: `int(1) / int(0)` -/
theorem typed_div_zero_witness :
    evalY Expected.C03.facts { iota := 0 } none (.bin .quo (.conv (.i .int) (.int 1)) (.conv (.i .int) (.int 0))) = .crash ∧
    Spec.evalGo 0 (.bin .quo (.conv (.i .int) (.int 1)) (.conv (.i .int) (.int 0))) = .reject := by decide

/-- `'a' / 2` has type untyped int for the interpreter, untyped rune for Go -/
theorem rune_quo_type_witness :
    (evalY Expected.C03.facts { iota := 0 } none (.bin .quo (.rune 97) (.int 2))).bind (fun n => .ok (n.rv, n.ty)) =
      .ok (.c (.int 48), .u .int) ∧
    Spec.evalGo 0 (.bin .quo (.rune 97) (.int 2)) = .ok ⟨.int 48, .u .rune⟩ := by decide

/-- a quotient skips the operand checks: `int8(7) / int16(2)` is accepted -/
theorem quo_unchecked_witness :
    (evalY Expected.C03.facts { iota := 0 } none (.bin .quo (.conv (.i .int8) (.int 7)) (.conv (.i .int16) (.int 2)))).bind
        (fun n => .ok n.rv) = .ok (.r (.i .int8) (.int 3)) ∧
    Spec.evalGo 0 (.bin .quo (.conv (.i .int8) (.int 7)) (.conv (.i .int16) (.int 2))) = .reject := by decide

set_option exponentiation.threshold 1024 in
set_option maxRecDepth 8000 in
/-- no limit on untyped integer constants: `1 << 600 >> 599` is accepted (the toolchain: constant overflow) -/
theorem untyped_limit_witness :
    (evalY Expected.C03.facts { iota := 0 } none (.bin .shr (.bin .shl (.int 1) (.int 600)) (.int 599))).bind
        (fun n => .ok n.rv) = .ok (.c (.int 2)) ∧
    Spec.evalGo 0 (.bin .shr (.bin .shl (.int 1) (.int 600)) (.int 599)) = .reject := by decide +kernel

theorem evalY_full_statement_false : ¬ evalY_full_statement := by
  intro h
  have := h 0 (.bin .add (.conv (.i .int8) (.int 100)) (.conv (.i .int8) (.int 100))) rfl
  revert this; decide

/-- a typed declaration whose initialiser is an operator expression is not checked: `var c uint8 = 100 - 101` is 255 -/
theorem typed_decl_unchecked_witness :
    varDeclY Expected.C03.facts (some (.i .uint8)) (.bin .sub (.int 100) (.int 101)) = .ok (.int 255, .i .uint8) ∧
    Spec.declGo 0 (some (.i .uint8)) (.bin .sub (.int 100) (.int 101)) = .reject := by decide

/-- `const c = float64(0.5 + 0.25)` is 0: in the second walk the operand of the conversion is a go/constant value
    with a typed `typ`, and the conversion case takes `Int64Val(ToInt(…))` -/
theorem const_conv_float_zero_witness :
    constDeclY Expected.C03.facts none (.conv .f64 (.bin .add (.flt ⟨1, 2⟩) (.flt ⟨1, 4⟩))) = .ok [(.flt ⟨0, 1⟩, .f64)] ∧
    Spec.declGo 0 none (.conv .f64 (.bin .add (.flt ⟨1, 2⟩) (.flt ⟨1, 4⟩))) = .ok (.flt ⟨3, 4⟩, .f64) := by decide

/-- `const c int = 3 * (1)` (a Go panic in `fixUntyped` before 08f21a9) is 3 on both sides -/
example :
    constDeclY Expected.C03.facts (some (.i .int)) (.bin .mul (.int 3) (.par (.int 1))) = .ok [(.int 3, .i .int)] ∧
    Spec.declGo 0 (some (.i .int)) (.bin .mul (.int 3) (.par (.int 1))) = .ok (.int 3, .i .int) := by decide

/-- `var c = 'a'` at package level has type int (Go: int32): gta's `nodeType` turns the literal into an Int constant -/
theorem global_var_rune_witness :
    varDeclY Expected.C03.facts none (.rune 97) = .ok (.int 97, .i .int) ∧
    Spec.declGo 0 none (.rune 97) = .ok (.int 97, .i .int32) := by decide

end YaegiVerif.Props.C03
